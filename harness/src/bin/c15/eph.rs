//! C15 ephemeral keys: every connection of a PeerManager must use a FRESH BOLT-8 ephemeral key, and a recorded
//! initiator transcript replayed on a fresh inbound connection must be dropped without anything being processed.
//!
//! ops (model c15peer):  eph <ephemeral_random_data hex> <k>  ->  the secret key of the k-th `get_ephemeral_key` call
//!   (impl side: hook `PeerManager::verif_get_ephemeral_key` on a TWIN PeerManager built from the same seed; the
//!   ephemeral PUBLIC key the main PeerManager put on the wire for its k-th draw — act one of an outbound connection,
//!   act two of an inbound one — must be the public key of that secret)
//! impl oracles (no model):
//!   * "ephemeral key reused": the ephemeral public keys of all connections of one PeerManager are pairwise distinct
//!   * "a replayed initiator transcript … was accepted": the harness is an honest initiator (through `Enc`), records
//!     every byte it wrote (act one, act three, Init, application messages), ends the session, opens a new inbound
//!     connection (after 0..3 other connections) and plays the recording back: read_event must fail at the end of
//!     act three at the latest, the peer must not be listed, no message may reach a handler.
use super::*;

fn kind_name(k: u64) -> &'static str { match k { 0 => "verif_get_ephemeral_key", 1 => "new_outbound_connection", _ => "inbound connection (act one read)" } }

/// one key draw of `node`; returns the ephemeral public key it used (from the wire for connections)
fn draw(node: &Node, rng: &mut Rng, secp: &Secp, kind: u64, id: u64) -> Result<[u8; 33], String> {
	let mut out = [0u8; 33];
	match kind {
		0 => out = pk(secp, &node.pm.verif_get_ephemeral_key()).serialize(),
		1 => {
			let d = Desc::new(id);
			let act1 = node.pm.new_outbound_connection(pk(secp, &rand_sk(rng)), d.clone(), None).map_err(|_| "new_outbound_connection failed")?;
			if act1.len() != 50 { return Err(format!("act one of {} bytes", act1.len())); }
			out.copy_from_slice(&act1[1..34]);
			node.pm.socket_disconnected(&d);
		},
		_ => {
			let mut d = Desc::new(id); d.s.lock().unwrap().budget = usize::MAX / 2;
			let mut enc = Enc::new_outbound(node.id, rand_sk(rng));
			let act1 = enc.get_act_one(secp);
			node.pm.new_inbound_connection(d.clone(), None).map_err(|_| "new_inbound_connection failed")?;
			node.pm.read_event(&mut d, &act1).map_err(|_| "genuine act one rejected")?;
			node.pm.process_events();
			let act2: Vec<u8> = { let mut s = d.s.lock().unwrap(); if s.out.len() < 50 { return Err("no act two written".into()); } s.out.drain(..50).collect() };
			out.copy_from_slice(&act2[1..34]);
			node.pm.socket_disconnected(&d);
		},
	}
	Ok(out)
}

pub(super) fn eph_scenarios(rec: &mut Rec, rng: &mut Rng, secp: &Secp, rounds: usize) {
	for round in 0..rounds {
		let seed = rng.bytes32();
		let secret = rand_sk(rng);
		let node = make_node(secp, secret, seed);
		let twin = make_node(secp, secret, seed);
		let ctx = format!("PeerManager::new(.., ephemeral_random_data = {}, ..), node secret {}", hex(&seed), hex(&secret.secret_bytes()));
		let mut used: Vec<(u64, [u8; 33])> = vec![];
		let mut next_id = 1u64;
		let reuse_reported = std::cell::Cell::new(false); // one report per PeerManager (the first pair)
		// one draw of the main node = one hook call of the twin: the differential case and the two oracles
		let step = |rec: &mut Rec, rng: &mut Rng, used: &mut Vec<(u64, [u8; 33])>, kind: u64, wire_pub: Option<[u8; 33]>| -> bool {
			let k = used.len();
			let tsec = twin.pm.verif_get_ephemeral_key();
			rec.case(&format!("eph {} {}", hex(&seed), k), &hex(&tsec.secret_bytes()), if k == 0 { "eph:first-key" } else { "eph:key" }, true);
			let next_id_now = 1000 * (round as u64 + 1) + k as u64;
			let p = match wire_pub { Some(p) => p, None => match draw(&node, rng, secp, kind, next_id_now) { Ok(p) => p, Err(e) => { rec.oracle_fail(format!("ephemeral-key scenario could not run: {} ; {}", e, ctx)); return false; } } };
			if p != pk(secp, &tsec).serialize() {
				rec.oracle_fail(format!("key draw #{} ({}) put ephemeral public key {} on the wire, but get_ephemeral_key call #{} of an identical PeerManager returns the secret of {} ; {}", k, kind_name(kind), hex(&p), k, hex(&pk(secp, &tsec).serialize()), ctx));
			}
			if let Some((j, (kj, _))) = used.iter().enumerate().find(|(_, (_, q))| *q == p).filter(|_| !reuse_reported.replace(true)) {
				rec.oracle_fail(format!("ephemeral key reused: key draws #{} ({}) and #{} ({}) of one PeerManager both used ephemeral public key {} (BOLT 8: a fresh ephemeral key per handshake) ; {}", j, kind_name(*kj), k, kind_name(kind), hex(&p), ctx));
			}
			used.push((kind, p));
			true
		};
		let before = rng.below(4);
		for _ in 0..before { let kind = rng.below(3); if !step(rec, rng, &mut used, kind, None) { return; } }

		// ---- session 1: the harness is an honest initiator; everything it writes is recorded
		let my = rand_sk(rng); let my_id = pk(secp, &my);
		let signer = TestNodeSigner::new(my);
		let mut transcript: Vec<Vec<u8>> = vec![];
		next_id += 1;
		let mut d1 = Desc::new(500_000 + round as u64 * 10 + next_id); d1.s.lock().unwrap().budget = usize::MAX / 2;
		let take = |d: &Desc, n: usize| -> Option<Vec<u8>> { let mut s = d.s.lock().unwrap(); if s.out.len() < n { None } else { Some(s.out.drain(..n).collect()) } };
		let mut enc = Enc::new_outbound(node.id, rand_sk(rng));
		let act1 = enc.get_act_one(secp);
		let n_msgs = 1 + rng.below(3) as usize;
		let session = guarded(AssertUnwindSafe(|| -> Result<[u8; 33], String> {
			node.pm.new_inbound_connection(d1.clone(), None).map_err(|_| "new_inbound_connection failed")?;
			node.pm.read_event(&mut d1, &act1).map_err(|_| "genuine act one rejected")?;
			transcript.push(act1.to_vec());
			node.pm.process_events();
			let act2 = take(&d1, 50).ok_or("no act two written")?;
			let mut re = [0u8; 33]; re.copy_from_slice(&act2[1..34]);
			let (act3, _) = enc.process_act_two(&act2, &&signer).map_err(|_| "genuine act two rejected")?;
			node.pm.read_event(&mut d1, &act3).map_err(|_| "genuine act three rejected")?;
			transcript.push(act3.to_vec());
			node.pm.process_events();
			let hdr = take(&d1, 18).ok_or("no Init written")?;
			let len = enc.decrypt_length_header(&hdr).map_err(|_| "init header")? as usize;
			let mut body = take(&d1, len + 16).ok_or("short Init")?;
			enc.decrypt_message(&mut body).map_err(|_| "init body")?; body.truncate(len);
			let f = enc.encrypt_buffer(&body).map_err(|_| "encrypt")?;
			node.pm.read_event(&mut d1, &f).map_err(|_| "genuine Init rejected")?;
			transcript.push(f);
			for i in 0..n_msgs {
				let f = enc.encrypt_buffer(&custom(known_ty(rng), 5 + i, i as u64)).map_err(|_| "encrypt")?;
				node.pm.read_event(&mut d1, &f).map_err(|_| "genuine message rejected")?;
				transcript.push(f);
			}
			node.pm.process_events();
			Ok(re)
		}));
		let re = match session { Ok(Ok(re)) => re, Ok(Err(e)) => { rec.oracle_fail(format!("genuine session with a real PeerManager failed: {} ; {}", e, ctx)); return; }, Err(p) => { rec.oracle_fail(format!("genuine session panicked: {} ; {}", p, ctx)); return; } };
		if !step(rec, rng, &mut used, 2, Some(re)) { return; }
		let mut n_msgs = n_msgs;
		// ---- while that session is up: a second connection that authenticates as the SAME node id must be refused at
		// act three (`insert_node_id!`, Occupied arm) and must leave the first connection connected and working
		if rng.chance(1, 2) {
			let mut d3 = Desc::new(700_000 + round as u64); d3.s.lock().unwrap().budget = usize::MAX / 2;
			let mut enc3 = Enc::new_outbound(node.id, rand_sk(rng));
			let a1 = enc3.get_act_one(secp);
			let second = guarded(AssertUnwindSafe(|| -> Result<(bool, [u8; 33]), String> {
				node.pm.new_inbound_connection(d3.clone(), None).map_err(|_| "new_inbound_connection failed")?;
				node.pm.read_event(&mut d3, &a1).map_err(|_| "genuine act one rejected")?;
				node.pm.process_events();
				let act2 = take(&d3, 50).ok_or("no act two written")?;
				let mut re3 = [0u8; 33]; re3.copy_from_slice(&act2[1..34]);
				let (a3, _) = enc3.process_act_two(&act2, &&signer).map_err(|_| "genuine act two rejected")?;
				Ok((node.pm.read_event(&mut d3, &a3).is_err(), re3))
			}));
			let (refused, re3) = match second { Ok(Ok(x)) => x, Ok(Err(e)) => { rec.oracle_fail(format!("second connection of a connected node id could not run: {} ; {}", e, ctx)); return; }, Err(p) => { rec.oracle_fail(format!("a second connection of an already connected node id panicked the PeerManager: {} ; honest peer node id {} ; {}", p, hex(&my_id.serialize()), ctx)); return; } };
			if !step(rec, rng, &mut used, 2, Some(re3)) { return; }
			let first_listed = node.pm.peer_by_node_id(&my_id).is_some();
			// the first connection still delivers
			let f = enc.encrypt_buffer(&custom(known_ty(rng), 9, 77)).unwrap();
			let first_works = guarded(AssertUnwindSafe(|| node.pm.read_event(&mut d1, &f).is_ok())).unwrap_or(false);
			transcript.push(f); n_msgs += 1;
			let delivered = node.h.received.lock().unwrap().len() == n_msgs;
			if !refused || !first_listed || !first_works || !delivered {
				rec.oracle_fail(format!("a second inbound connection that completed the handshake as an already connected node id was not refused cleanly: second-connection-refused-at-act-three={} first-connection-still-listed={} first-connection-read-ok={} message-on-first-connection-delivered={} ; honest peer node id {} ; {}", refused, first_listed, first_works, delivered, hex(&my_id.serialize()), ctx));
				return;
			}
			oracle_case(rec, &format!("note dup-node-id round {}", round), "eph:second-connection-same-node-id-refused");
		}
		let got1 = node.h.received.lock().unwrap().len();
		if got1 != n_msgs || node.pm.peer_by_node_id(&my_id).is_none() { rec.oracle_fail(format!("genuine session: {} of {} messages delivered, peer listed: {} ; {}", got1, n_msgs, node.pm.peer_by_node_id(&my_id).is_some(), ctx)); return; }
		node.pm.socket_disconnected(&d1);
		if node.pm.peer_by_node_id(&my_id).is_some() { rec.oracle_fail(format!("peer still listed after socket_disconnected ; {}", ctx)); return; }

		let between = rng.below(4);
		for _ in 0..between { let kind = rng.below(3); if !step(rec, rng, &mut used, kind, None) { return; } }

		// ---- the replay: someone who only saw the bytes on the wire plays the initiator's side back
		let mut d2 = Desc::new(900_000 + round as u64); d2.s.lock().unwrap().budget = usize::MAX / 2;
		let split = rng.chance(1, 2); // whole recorded writes, or random fragments of the same byte stream
		let mut dropped_at: Option<usize> = None; let mut re2: Option<[u8; 33]> = None;
		let r = guarded(AssertUnwindSafe(|| {
			if node.pm.new_inbound_connection(d2.clone(), None).is_err() { return; }
			let mut fed = 0usize;
			'outer: for (ci, chunk) in transcript.iter().enumerate() {
				let mut pos = 0;
				while pos < chunk.len() {
					let n = if split { rand_chunk(rng, chunk.len() - pos) } else { chunk.len() };
					let res = node.pm.read_event(&mut d2, &chunk[pos..pos + n]);
					pos += n; fed += n;
					if res.is_err() { dropped_at = Some(ci); break 'outer; }
					node.pm.process_events();
					if re2.is_none() && fed >= 50 { if let Some(a2) = take(&d2, 50) { let mut p = [0u8; 33]; p.copy_from_slice(&a2[1..34]); re2 = Some(p); } }
					if d2.s.lock().unwrap().disconnected { dropped_at = Some(ci); break 'outer; }
				}
			}
		}));
		if let Err(p) = r { rec.oracle_fail(format!("replaying a recorded transcript panicked the PeerManager: {} ; {}", p, ctx)); return; }
		if let Some(p) = re2 { if !step(rec, rng, &mut used, 2, Some(p)) { return; } }
		let listed = node.pm.peer_by_node_id(&my_id).is_some();
		let handled = node.h.received.lock().unwrap().len() - got1;
		let ok = matches!(dropped_at, Some(ci) if ci <= 1) && !listed && handled == 0;
		if !ok {
			rec.oracle_fail(format!("a replayed initiator transcript (act one, act three, Init and {} message(s) recorded from an earlier, finished session of an honest peer) was accepted on a fresh inbound connection: dropped={} peer-shown-connected={} replayed-messages-handled={} ; key draws before the recorded session {}, between it and the replay {} ; recorded initiator bytes [{}] ; honest peer node id {} ; {}",
				n_msgs, match dropped_at { Some(ci) => format!("at recorded write #{}", ci), None => "never".into() }, listed, handled, before, between,
				transcript.iter().map(|c| hex(c)).collect::<Vec<_>>().join(","), hex(&my_id.serialize()), ctx));
		}
		oracle_case(rec, &format!("note replay round {} draws-before {} between {} msgs {} fragments {}", round, before, between, n_msgs, split), if between == 0 { "eph:replay-next-connection" } else { "eph:replay-later-connection" });
		node.pm.socket_disconnected(&d2);
	}
}
