//! C15 ephemeral keys: every connection of a PeerManager must use a FRESH BOLT-8 ephemeral key, and a recorded
//! initiator transcript replayed on a fresh inbound connection must be dropped without anything being processed.
//!
//! ops (model c15peer):  eph <ephemeral_random_data hex> <k>  ->  the secret key of the k-th `get_ephemeral_key` call
//!   (impl side: hook `PeerManager::verif_get_ephemeral_key` on a TWIN PeerManager built from the same seed; the
//!   ephemeral PUBLIC key the main PeerManager put on the wire for its k-th draw — act one of an outbound connection,
//!   act two of an inbound one — must be the public key of that secret)
//! impl oracles (no model):
//!   * "ephemeral key reused": the ephemeral public keys of all connections of one PeerManager are pairwise distinct
//!   * "a replayed initiator transcript … was accepted": the harness is an honest initiator (through `Enc`), records
//!     every byte it wrote (act one, act three, Init, application messages), ends the session, opens a new inbound
//!     connection (after 0..3 other connections) and plays the recording back: read_event must fail at the end of
//!     act three at the latest, the peer must not be listed, no message may reach a handler.
use super::*;

fn kind_name(k: u64) -> &'static str { match k { 0 => "verif_get_ephemeral_key", 1 => "new_outbound_connection", _ => "inbound connection (act one read)" } }

/// one key draw of `node`; returns the ephemeral public key it used (from the wire for connections)
fn draw(node: &Node, rng: &mut Rng, secp: &Secp, kind: u64, id: u64) -> Result<[u8; 33], String> {
	let mut out = [0u8; 33];
	match kind {
		0 => out = pk(secp, &node.pm.verif_get_ephemeral_key()).serialize(),
		1 => {
			let d = Desc::new(id);
			let act1 = node.pm.new_outbound_connection(pk(secp, &rand_sk(rng)), d.clone(), None).map_err(|_| "new_outbound_connection failed")?;
			if act1.len() != 50 { return Err(format!("act one of {} bytes", act1.len())); }
			out.copy_from_slice(&act1[1..34]);
			node.pm.socket_disconnected(&d);
		},
		_ => {
			let mut d = Desc::new(id); d.s.lock().unwrap().budget = usize::MAX / 2;
			let mut enc = Enc::new_outbound(node.id, rand_sk(rng));
			let act1 = enc.get_act_one(secp);
			node.pm.new_inbound_connection(d.clone(), None).map_err(|_| "new_inbound_connection failed")?;
			node.pm.read_event(&mut d, &act1).map_err(|_| "genuine act one rejected")?;
			node.pm.process_events();
			let act2: Vec<u8> = { let mut s = d.s.lock().unwrap(); if s.out.len() < 50 { return Err("no act two written".into()); } s.out.drain(..50).collect() };
			out.copy_from_slice(&act2[1..34]);
			node.pm.socket_disconnected(&d);
		},
	}
	Ok(out)
}

pub(super) fn eph_scenarios(rec: &mut Rec, rng: &mut Rng, secp: &Secp, rounds: usize) {
	for round in 0..rounds {
		let seed = rng.bytes32();
		let secret = rand_sk(rng);
		let node = make_node(secp, secret, seed);
		let twin = make_node(secp, secret, seed);
		let ctx = format!("PeerManager::new(.., ephemeral_random_data = {}, ..), node secret {}", hex(&seed), hex(&secret.secret_bytes()));
		let mut used: Vec<(u64, [u8; 33])> = vec![];
		let mut next_id = 1u64;
		let reuse_reported = std::cell::Cell::new(false); // one report per PeerManager (the first pair)
		// one draw of the main node = one hook call of the twin: the differential case and the two oracles
		let step = |rec: &mut Rec, rng: &mut Rng, used: &mut Vec<(u64, [u8; 33])>, kind: u64, wire_pub: Option<[u8; 33]>| -> bool {
			let k = used.len();
			let tsec = twin.pm.verif_get_ephemeral_key();
			rec.case(&format!("eph {} {}", hex(&seed), k), &hex(&tsec.secret_bytes()), if k == 0 { "eph:first-key" } else { "eph:key" }, true);
			let next_id_now = 1000 * (round as u64 + 1) + k as u64;
			let p = match wire_pub { Some(p) => p, None => match draw(&node, rng, secp, kind, next_id_now) { Ok(p) => p, Err(e) => { rec.oracle_fail(format!("ephemeral-key scenario could not run: {} ; {}", e, ctx)); return false; } } };
			if p != pk(secp, &tsec).serialize() {
				rec.oracle_fail(format!("key draw #{} ({}) put ephemeral public key {} on the wire, but get_ephemeral_key call #{} of an identical PeerManager returns the secret of {} ; {}", k, kind_name(kind), hex(&p), k, hex(&pk(secp, &tsec).serialize()), ctx));
			}
			if let Some((j, (kj, _))) = used.iter().enumerate().find(|(_, (_, q))| *q == p).filter(|_| !reuse_reported.replace(true)) {
				rec.oracle_fail(format!("ephemeral key reused: key draws #{} ({}) and #{} ({}) of one PeerManager both used ephemeral public key {} (BOLT 8: a fresh ephemeral key per handshake) ; {}", j, kind_name(*kj), k, kind_name(kind), hex(&p), ctx));
			}
			used.push((kind, p));
			true
		};
		let before = rng.below(4);
		for _ in 0..before { let kind = rng.below(3); if !step(rec, rng, &mut used, kind, None) { return; } }

		// ---- session 1: the harness is an honest initiator; everything it writes is recorded
		let my = rand_sk(rng); let my_id = pk(secp, &my);
		let signer = TestNodeSigner::new(my);
		let mut transcript: Vec<Vec<u8>> = vec![];
		next_id += 1;
		let mut d1 = Desc::new(500_000 + round as u64 * 10 + next_id); d1.s.lock().unwrap().budget = usize::MAX / 2;
		let take = |d: &Desc, n: usize| -> Option<Vec<u8>> { let mut s = d.s.lock().unwrap(); if s.out.len() < n { None } else { Some(s.out.drain(..n).collect()) } };
		let mut enc = Enc::new_outbound(node.id, rand_sk(rng));
		let act1 = enc.get_act_one(secp);
		let n_msgs = 1 + rng.below(3) as usize;
		let session = guarded(AssertUnwindSafe(|| -> Result<[u8; 33], String> {
			node.pm.new_inbound_connection(d1.clone(), None).map_err(|_| "new_inbound_connection failed")?;
			node.pm.read_event(&mut d1, &act1).map_err(|_| "genuine act one rejected")?;
			transcript.push(act1.to_vec());
			node.pm.process_events();
			let act2 = take(&d1, 50).ok_or("no act two written")?;
			let mut re = [0u8; 33]; re.copy_from_slice(&act2[1..34]);
			let (act3, _) = enc.process_act_two(&act2, &&signer).map_err(|_| "genuine act two rejected")?;
			node.pm.read_event(&mut d1, &act3).map_err(|_| "genuine act three rejected")?;
			transcript.push(act3.to_vec());
			node.pm.process_events();
			let hdr = take(&d1, 18).ok_or("no Init written")?;
			let len = enc.decrypt_length_header(&hdr).map_err(|_| "init header")? as usize;
			let mut body = take(&d1, len + 16).ok_or("short Init")?;
			enc.decrypt_message(&mut body).map_err(|_| "init body")?; body.truncate(len);
			let f = enc.encrypt_buffer(&body).map_err(|_| "encrypt")?;
			node.pm.read_event(&mut d1, &f).map_err(|_| "genuine Init rejected")?;
			transcript.push(f);
			for i in 0..n_msgs {
				let f = enc.encrypt_buffer(&custom(known_ty(rng), 5 + i, i as u64)).map_err(|_| "encrypt")?;
				node.pm.read_event(&mut d1, &f).map_err(|_| "genuine message rejected")?;
				transcript.push(f);
			}
			node.pm.process_events();
			Ok(re)
		}));
		let re = match session { Ok(Ok(re)) => re, Ok(Err(e)) => { rec.oracle_fail(format!("genuine session with a real PeerManager failed: {} ; {}", e, ctx)); return; }, Err(p) => { rec.oracle_fail(format!("genuine session panicked: {} ; {}", p, ctx)); return; } };
		if !step(rec, rng, &mut used, 2, Some(re)) { return; }
		let mut n_msgs = n_msgs;
		// ---- while that session is up: a second connection that authenticates as the SAME node id must be refused at
		// act three (`insert_node_id!`, Occupied arm) and must leave the first connection connected and working
		if rng.chance(1, 2) {
			let mut d3 = Desc::new(700_000 + round as u64); d3.s.lock().unwrap().budget = usize::MAX / 2;
			let mut enc3 = Enc::new_outbound(node.id, rand_sk(rng));
			let a1 = enc3.get_act_one(secp);
			let second = guarded(AssertUnwindSafe(|| -> Result<(bool, [u8; 33]), String> {
				node.pm.new_inbound_connection(d3.clone(), None).map_err(|_| "new_inbound_connection failed")?;
				node.pm.read_event(&mut d3, &a1).map_err(|_| "genuine act one rejected")?;
				node.pm.process_events();
				let act2 = take(&d3, 50).ok_or("no act two written")?;
				let mut re3 = [0u8; 33]; re3.copy_from_slice(&act2[1..34]);
				let (a3, _) = enc3.process_act_two(&act2, &&signer).map_err(|_| "genuine act two rejected")?;
				Ok((node.pm.read_event(&mut d3, &a3).is_err(), re3))
			}));
			let (refused, re3) = match second { Ok(Ok(x)) => x, Ok(Err(e)) => { rec.oracle_fail(format!("second connection of a connected node id could not run: {} ; {}", e, ctx)); return; }, Err(p) => { rec.oracle_fail(format!("a second connection of an already connected node id panicked the PeerManager: {} ; honest peer node id {} ; {}", p, hex(&my_id.serialize()), ctx)); return; } };
			if !step(rec, rng, &mut used, 2, Some(re3)) { return; }
			let first_listed = node.pm.peer_by_node_id(&my_id).is_some();
			// the first connection still delivers
			let f = enc.encrypt_buffer(&custom(known_ty(rng), 9, 77)).unwrap();
			let first_works = guarded(AssertUnwindSafe(|| node.pm.read_event(&mut d1, &f).is_ok())).unwrap_or(false);
			transcript.push(f); n_msgs += 1;
			let delivered = node.h.received.lock().unwrap().len() == n_msgs;
			if !refused || !first_listed || !first_works || !delivered {
				rec.oracle_fail(format!("a second inbound connection that completed the handshake as an already connected node id was not refused cleanly: second-connection-refused-at-act-three={} first-connection-still-listed={} first-connection-read-ok={} message-on-first-connection-delivered={} ; honest peer node id {} ; {}", refused, first_listed, first_works, delivered, hex(&my_id.serialize()), ctx));
				return;
			}
			oracle_case(rec, &format!("note dup-node-id round {}", round), "eph:second-connection-same-node-id-refused");
		}
		let got1 = node.h.received.lock().unwrap().len();
		if got1 != n_msgs || node.pm.peer_by_node_id(&my_id).is_none() { rec.oracle_fail(format!("genuine session: {} of {} messages delivered, peer listed: {} ; {}", got1, n_msgs, node.pm.peer_by_node_id(&my_id).is_some(), ctx)); return; }
		node.pm.socket_disconnected(&d1);
		if node.pm.peer_by_node_id(&my_id).is_some() { rec.oracle_fail(format!("peer still listed after socket_disconnected ; {}", ctx)); return; }

		let between = rng.below(4);
		for _ in 0..between { let kind = rng.below(3); if !step(rec, rng, &mut used, kind, None) { return; } }

		// ---- the replay: someone who only saw the bytes on the wire plays the initiator's side back
		let mut d2 = Desc::new(900_000 + round as u64); d2.s.lock().unwrap().budget = usize::MAX / 2;
		let split = rng.chance(1, 2); // whole recorded writes, or random fragments of the same byte stream
		let mut dropped_at: Option<usize> = None; let mut re2: Option<[u8; 33]> = None;
		let r = guarded(AssertUnwindSafe(|| {
			if node.pm.new_inbound_connection(d2.clone(), None).is_err() { return; }
			let mut fed = 0usize;
			'outer: for (ci, chunk) in transcript.iter().enumerate() {
				let mut pos = 0;
				while pos < chunk.len() {
					let n = if split { rand_chunk(rng, chunk.len() - pos) } else { chunk.len() };
					let res = node.pm.read_event(&mut d2, &chunk[pos..pos + n]);
					pos += n; fed += n;
					if res.is_err() { dropped_at = Some(ci); break 'outer; }
					node.pm.process_events();
					if re2.is_none() && fed >= 50 { if let Some(a2) = take(&d2, 50) { let mut p = [0u8; 33]; p.copy_from_slice(&a2[1..34]); re2 = Some(p); } }
					if d2.s.lock().unwrap().disconnected { dropped_at = Some(ci); break 'outer; }
				}
			}
		}));
		if let Err(p) = r { rec.oracle_fail(format!("replaying a recorded transcript panicked the PeerManager: {} ; {}", p, ctx)); return; }
		if let Some(p) = re2 { if !step(rec, rng, &mut used, 2, Some(p)) { return; } }
		let listed = node.pm.peer_by_node_id(&my_id).is_some();
		let handled = node.h.received.lock().unwrap().len() - got1;
		let ok = matches!(dropped_at, Some(ci) if ci <= 1) && !listed && handled == 0;
		if !ok {
			rec.oracle_fail(format!("a replayed initiator transcript (act one, act three, Init and {} message(s) recorded from an earlier, finished session of an honest peer) was accepted on a fresh inbound connection: dropped={} peer-shown-connected={} replayed-messages-handled={} ; key draws before the recorded session {}, between it and the replay {} ; recorded initiator bytes [{}] ; honest peer node id {} ; {}",
				n_msgs, match dropped_at { Some(ci) => format!("at recorded write #{}", ci), None => "never".into() }, listed, handled, before, between,
				transcript.iter().map(|c| hex(c)).collect::<Vec<_>>().join(","), hex(&my_id.serialize()), ctx));
		}
		oracle_case(rec, &format!("note replay round {} draws-before {} between {} msgs {} fragments {}", round, before, between, n_msgs, split), if between == 0 { "eph:replay-next-connection" } else { "eph:replay-later-connection" });
		node.pm.socket_disconnected(&d2);
	}
}

// ------------------------------------------------------------------------------------------------
// disconnect bookkeeping, timer branches, replayed RESPONDER transcript (oracles, no model ops)
// ------------------------------------------------------------------------------------------------

fn take_n(d: &Desc, n: usize) -> Option<Vec<u8>> { let mut s = d.s.lock().unwrap(); if s.out.len() < n { None } else { Some(s.out.drain(..n).collect()) } }

/// the harness (static key `my`) connects INBOUND to `node`, completes the handshake and the Init exchange
fn hs_inbound(node: &Node, rng: &mut Rng, secp: &Secp, my: &SecretKey, id: u64) -> Result<(Enc, Desc), String> {
	let signer = TestNodeSigner::new(*my);
	let mut d = Desc::new(id); d.s.lock().unwrap().budget = usize::MAX / 2;
	let mut enc = Enc::new_outbound(node.id, rand_sk(rng));
	let act1 = enc.get_act_one(secp);
	node.pm.new_inbound_connection(d.clone(), None).map_err(|_| "new_inbound_connection failed")?;
	node.pm.read_event(&mut d, &act1).map_err(|_| "genuine act one rejected")?;
	node.pm.process_events();
	let act2 = take_n(&d, 50).ok_or("no act two written")?;
	let (act3, _) = enc.process_act_two(&act2, &&signer).map_err(|_| "genuine act two rejected")?;
	node.pm.read_event(&mut d, &act3).map_err(|_| "genuine act three rejected (is the node id still registered?)")?;
	node.pm.process_events();
	let hdr = take_n(&d, 18).ok_or("no Init written")?;
	let len = enc.decrypt_length_header(&hdr).map_err(|_| "init header")? as usize;
	let mut body = take_n(&d, len + 16).ok_or("short Init")?;
	enc.decrypt_message(&mut body).map_err(|_| "init body")?; body.truncate(len);
	let f = enc.encrypt_buffer(&body).map_err(|_| "encrypt")?;
	node.pm.read_event(&mut d, &f).map_err(|_| "genuine Init rejected")?;
	node.pm.process_events();
	d.s.lock().unwrap().out.clear();
	Ok((enc, d))
}

pub(super) fn book_scenarios(rec: &mut Rec, rng: &mut Rng, secp: &Secp, rounds: usize) {
	for round in 0..rounds {
		let node = make_node(secp, rand_sk(rng), rng.bytes32());
		let my = rand_sk(rng); let my_id = pk(secp, &my);
		let path = round % 5;
		let pname = ["socket_disconnected", "disconnect_by_node_id", "corrupted frame (read_event Err)", "ping timeout (silent peer)", "peer answers every ping"][path];
		let ctx = format!("disconnect path: {} ; honest peer node id {} ; node secret {}", pname, hex(&my_id.serialize()), hex(&node.secret.secret_bytes()));
		let r = guarded(AssertUnwindSafe(|| -> Result<(), String> {
			let (mut enc, mut d) = hs_inbound(&node, rng, secp, &my, 10 + round as u64)?;
			let f = enc.encrypt_buffer(&custom(known_ty(rng), 4, 1)).unwrap();
			node.pm.read_event(&mut d, &f).map_err(|_| "genuine message rejected")?;
			if node.h.received.lock().unwrap().len() != 1 || node.pm.peer_by_node_id(&my_id).is_none() { return Err("genuine session did not deliver".into()); }
			let mut may_touch_old = true;
			match path {
				0 => { node.pm.socket_disconnected(&d); may_touch_old = false; },
				1 => { node.pm.disconnect_by_node_id(my_id); if !d.s.lock().unwrap().disconnected { return Err("VIOLATION disconnect_by_node_id did not call disconnect_socket".into()); } },
				2 => { let mut bad = enc.encrypt_buffer(&custom(known_ty(rng), 4, 2)).unwrap(); let o = rng.below(bad.len() as u64) as usize; bad[o] ^= 1 << rng.below(8); if node.pm.read_event(&mut d, &bad).is_ok() { return Err("VIOLATION a corrupted frame was accepted".into()); } may_touch_old = false; },
				3 => {
					// handshake complete, Init read since the last tick: tick 1 sends the ping, tick 2 (nothing received) must drop the peer
					node.pm.timer_tick_occurred();
					if node.pm.peer_by_node_id(&my_id).is_none() || d.s.lock().unwrap().disconnected { return Err("VIOLATION ping timeout: the peer was dropped by the FIRST timer tick after an active period (expected: ping sent, dropped by the second silent tick)".into()); }
					node.pm.timer_tick_occurred();
					if !d.s.lock().unwrap().disconnected { return Err("VIOLATION ping timeout: a peer that stayed silent for two timer ticks (ping unanswered, nothing received) was not disconnected".into()); }
				},
				_ => {
					// the peer answers each ping with a pong before the next tick: never dropped
					for t in 0..(6 + rng.below(6)) {
						node.pm.timer_tick_occurred(); node.pm.process_events();
						if d.s.lock().unwrap().disconnected || node.pm.peer_by_node_id(&my_id).is_none() { return Err(format!("VIOLATION a peer that answered every ping was disconnected by timer tick #{}", t + 1)); }
						d.s.lock().unwrap().out.clear();
						let pong = enc.encrypt_buffer(&em_pong(0).plain).unwrap();
						node.pm.read_event(&mut d, &pong).map_err(|_| "VIOLATION a genuine pong was rejected")?;
					}
					node.pm.disconnect_by_node_id(my_id);
				},
			}
			// after ANY disconnect: not listed; nothing of the old session is handled any more; the same node id can connect again
			if node.pm.peer_by_node_id(&my_id).is_some() { return Err("VIOLATION the node id is still listed after the disconnect".into()); }
			if may_touch_old {
				let late = enc.encrypt_buffer(&custom(known_ty(rng), 4, 3)).unwrap();
				let _ = guarded(AssertUnwindSafe(|| node.pm.read_event(&mut d, &late).is_ok()));
				if node.h.received.lock().unwrap().len() != 1 { return Err("VIOLATION a message of the old session was handled after the disconnect".into()); }
			}
			let (mut enc2, mut d2) = hs_inbound(&node, rng, secp, &my, 5000 + round as u64).map_err(|e| format!("VIOLATION a fresh connection by the same node id failed after the disconnect: {}", e))?;
			let f = enc2.encrypt_buffer(&custom(known_ty(rng), 6, 4)).unwrap();
			if node.pm.read_event(&mut d2, &f).is_err() || node.h.received.lock().unwrap().len() != 2 || node.pm.peer_by_node_id(&my_id).is_none() { return Err("VIOLATION the fresh connection by the same node id does not deliver / is not listed".into()); }
			Ok(())
		}));
		match r {
			Ok(Ok(())) => {},
			Ok(Err(e)) => rec.oracle_fail(format!("disconnect bookkeeping: {} ; {}", e.trim_start_matches("VIOLATION "), ctx)),
			Err(p) => rec.oracle_fail(format!("disconnect bookkeeping: PeerManager panicked: {} ; {}", p, ctx)),
		}
		oracle_case(rec, &format!("note book round {} path {}", round, path), &format!("book:{}", ["socket_disconnected", "disconnect_by_node_id", "read-error", "ping-timeout-silent", "ping-answered"][path]));

		// ---- handshake timeout: a connection that never completes the handshake survives one tick, not two
		let node = make_node(secp, rand_sk(rng), rng.bytes32());
		let stage = round % 3; // nothing sent / act one sent (inbound) / outbound waiting for act two
		let mut d = Desc::new(1); d.s.lock().unwrap().budget = usize::MAX / 2;
		let r = guarded(AssertUnwindSafe(|| -> Result<(), String> {
			match stage {
				0 => { node.pm.new_inbound_connection(d.clone(), None).map_err(|_| "inbound")?; },
				1 => { node.pm.new_inbound_connection(d.clone(), None).map_err(|_| "inbound")?; let mut e = Enc::new_outbound(node.id, rand_sk(rng)); let a1 = e.get_act_one(secp); node.pm.read_event(&mut d, &a1).map_err(|_| "act one")?; },
				_ => { let _ = node.pm.new_outbound_connection(my_id, d.clone(), None).map_err(|_| "outbound")?; },
			}
			node.pm.timer_tick_occurred();
			if d.s.lock().unwrap().disconnected { return Err("a connection with an incomplete handshake was dropped by the FIRST timer tick".into()); }
			node.pm.timer_tick_occurred();
			if !d.s.lock().unwrap().disconnected { return Err("a connection whose handshake was still incomplete at the second timer tick was not disconnected".into()); }
			Ok(())
		}));
		match r { Ok(Ok(())) => {}, Ok(Err(e)) => rec.oracle_fail(format!("handshake timeout: {} ; stage {} (0 = nothing sent, 1 = act one sent, 2 = outbound awaiting act two)", e, stage)), Err(p) => rec.oracle_fail(format!("handshake timeout: PeerManager panicked: {}", p)) }
		oracle_case(rec, &format!("note hs-timeout round {} stage {}", round, stage), "book:handshake-timeout");

		// ---- a recorded RESPONDER transcript replayed against a new OUTBOUND connection to the same node id
		let node = make_node(secp, rand_sk(rng), rng.bytes32());
		let signer = TestNodeSigner::new(my);
		let mut transcript: Vec<Vec<u8>> = vec![];
		let r = guarded(AssertUnwindSafe(|| -> Result<(bool, bool, usize), String> {
			let mut d = Desc::new(1); d.s.lock().unwrap().budget = usize::MAX / 2;
			let act1 = node.pm.new_outbound_connection(my_id, d.clone(), None).map_err(|_| "outbound")?;
			let mut enc = Enc::new_inbound(&&signer);
			let act2 = enc.process_act_one_with_keys(&act1, &&signer, rand_sk(rng), secp).map_err(|_| "act one rejected")?;
			node.pm.read_event(&mut d, &act2).map_err(|_| "genuine act two rejected")?; transcript.push(act2.to_vec());
			node.pm.process_events();
			let act3 = take_n(&d, 66).ok_or("no act three")?;
			enc.process_act_three(&act3).map_err(|_| "act three rejected")?;
			let hdr = take_n(&d, 18).ok_or("no Init")?; let len = enc.decrypt_length_header(&hdr).map_err(|_| "hdr")? as usize;
			let mut body = take_n(&d, len + 16).ok_or("short Init")?; enc.decrypt_message(&mut body).map_err(|_| "body")?; body.truncate(len);
			for m in [body, custom(known_ty(rng), 7, 5)] { let f = enc.encrypt_buffer(&m).unwrap(); node.pm.read_event(&mut d, &f).map_err(|_| "genuine frame rejected")?; transcript.push(f); }
			if node.h.received.lock().unwrap().len() != 1 { return Err("genuine outbound session did not deliver".into()); }
			node.pm.socket_disconnected(&d);
			// replay
			let mut d2 = Desc::new(2); d2.s.lock().unwrap().budget = usize::MAX / 2;
			let _ = node.pm.new_outbound_connection(my_id, d2.clone(), None).map_err(|_| "outbound 2")?;
			let mut dropped = false;
			for (i, c) in transcript.iter().enumerate() { if node.pm.read_event(&mut d2, c).is_err() { dropped = i == 0; break; } node.pm.process_events(); }
			Ok((dropped, node.pm.peer_by_node_id(&my_id).is_some(), node.h.received.lock().unwrap().len() - 1))
		}));
		match r {
			Ok(Ok((true, false, 0))) => {},
			Ok(Ok((dropped, listed, handled))) => rec.oracle_fail(format!("a replayed responder transcript (act two, Init, one message recorded from an earlier outbound session) was accepted on a new outbound connection to the same node id: dropped-at-act-two={} peer-shown-connected={} replayed-messages-handled={} ; recorded responder bytes [{}] ; responder node id {} ; node secret {}", dropped, listed, handled, transcript.iter().map(|c| hex(c)).collect::<Vec<_>>().join(","), hex(&my_id.serialize()), hex(&node.secret.secret_bytes()))),
			Ok(Err(e)) => rec.oracle_fail(format!("responder-replay scenario could not run: {}", e)),
			Err(p) => rec.oracle_fail(format!("responder-replay scenario panicked: {}", p)),
		}
		oracle_case(rec, &format!("note responder-replay round {}", round), "eph:responder-replay-dropped");
	}
}
