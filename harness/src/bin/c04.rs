//! C04 — inbound payments: authentic (stateless payment secrets) and complete (MPP accumulator).
//!
//! model `c04secret` (public `inbound_payment::{create, create_from_hash}`, hooks for the crate-private
//! `verify` / `create_for_spontaneous_payment`), byte-exact against the Lean driver with real
//! SHA-256 / HMAC / ChaCha20:
//!   keys <info> <ldk> <user> <spont> <meta>                         (directive: the expanded keys)
//!   create <min|none> <delta> <rand32> <now> <cltv|none> <md|none>   -> ok <hash> <secret> <md'|none> | err
//!   createhash <min|none> <hash> <delta> <rand32> <now> <cltv|none> <md|none> -> ok <secret> <md'|none> | err
//!   createspont <min|none> <delta> <now> <cltv|none>                 -> ok <secret> | err
//!   verify <hash> <secret> <total> <md|none> <now>                   -> ok <preimage|none> <cltv|none> <md|none> | err <Kind>
//! (`<Kind>` is recovered from the trace line `verify` logs before each `return Err(())`, so the ORDER
//! of the checks is compared, not only accept/reject.)
//!
//! model `c04mpp`: real nodes (scenario engine), what the receiver saw as op lines:
//!   new | part <id> <value> <intended> <skim|none> <total> <cltv> <tag> <ev> | tick | block <h> | claim <known> |
//!   claimdone | failback      -> inconsistent? claimable:<amt>:<skimmed>:<deadline>? fail:<id>* fulfil:<id>* claimed:<amt>:<skimmed>:<total>? | none
//!   admit <allow_underpay> <onion_amt> <amt> <skim|none>   -> ok | low     (the amount test in front of the accumulator)
//!   recv <id> <value> <intended> <skim> <total> <cltv> <tag> <ev> <onion_cltv> <height> <allow_underpay> <none|ok|bad> <payment_data 0|1> <verify ok 0|1> <min_final_cltv|none>
//!                                                            -> the answer of the part / the refusal (whole receive path, stateless)
//!   restart                                                 -> none   (receiver written + reloaded; the accumulator survives, timer ticks read back as 0)
//!   routing <none|ok|bad> <0|1>                             -> keysend | invoice | err <reason>  (create_recv_pending_htlc_info's routing selection)
//!   mincltv <height> <min_final_cltv_delta> <cltv_expiry>  -> ok | soon    (the test after inbound_payment::verify in process_receive_htlcs)
//! `value` is the amount of the update_add_htlc the receiver got, `intended` the onion's amt_to_forward, `skim` the
//! message's skimmed_fee_msat TLV: they differ when the part came through the intercepting last hop (node 2), which
//! forwards less (skimmed fee; the receiver runs with accept_underpaying_htlcs) or more than the onion says.
use ldk_verif_harness::common::*;
use std::panic::AssertUnwindSafe;
use std::sync::Mutex;

use bitcoin::hashes::{sha256, Hash};
use lightning::ln::inbound_payment::{self, ExpandedKey};
use lightning::ln::verif_hooks::inbound as vh;
use lightning::sign::EntropySource;
use lightning::types::payment::{PaymentHash, PaymentSecret};
use lightning::util::logger::{Logger, Record};


struct FixedEntropy(Mutex<[u8; 32]>);
impl EntropySource for FixedEntropy { fn get_secure_random_bytes(&self) -> [u8; 32] { *self.0.lock().unwrap() } }

/// keeps the trace lines of one `verify` call
struct RecLogger(Mutex<Vec<String>>);
impl Logger for RecLogger { fn log(&self, r: Record) { self.0.lock().unwrap().push(format!("{}", r.args)); } }

fn classify(lines: &[String]) -> &'static str {
	for l in lines {
		if l.contains("unknown payment type") { return "UnknownMethod"; }
		if l.contains("unexpected payment_secret") || l.contains("mismatching preimage") { return "BadMac"; }
		if l.contains("Shouldn't have a payment_metadata for a spontaneous") { return "SpontaneousMetadata"; }
		if l.contains("payment_metadata was shorter") { return "ShortMetadata"; }
		if l.contains("being less than the minimum amount") { return "AmountTooLow"; }
		if l.contains("expired payment") { return "Expired"; }
	}
	"Unlogged"
}

fn opt_u(x: Option<u64>) -> String { x.map(|v| v.to_string()).unwrap_or("none".into()) }
fn opt_b(x: &Option<Vec<u8>>) -> String { x.as_ref().map(|v| hex(v)).unwrap_or("none".into()) }

struct Ver { ok: bool, kind: &'static str, line: String }

fn do_verify(keys: &ExpandedKey, hash: &[u8; 32], secret: &[u8; 32], total: u64, md: &Option<Vec<u8>>, now: u64) -> Ver {
	let lg = RecLogger(Mutex::new(vec![]));
	let mut m = md.clone();
	let r = guarded(AssertUnwindSafe(|| vh::verify(PaymentHash(*hash), PaymentSecret(*secret), total, m.as_mut(), now, keys, &lg)));
	match r {
		Ok(Ok((pre, cltv))) => Ver { ok: true, kind: "ok", line: format!("ok {} {} {}", pre.map(|p| hex(&p.0)).unwrap_or("none".into()), opt_u(cltv.map(|c| c as u64)), opt_b(&m)) },
		Ok(Err(())) => { let k = classify(&lg.0.lock().unwrap()); Ver { ok: false, kind: k, line: format!("err {}", k) } },
		Err(p) => Ver { ok: false, kind: "panic", line: format!("panic {}", p.chars().take(60).collect::<String>()) },
	}
}

fn verify_case(rec: &mut Rec, keys: &ExpandedKey, hash: &[u8; 32], secret: &[u8; 32], total: u64, md: &Option<Vec<u8>>, now: u64, class: &str) -> Ver {
	let v = do_verify(keys, hash, secret, total, md, now);
	rec.case(&format!("verify {} {} {} {} {}", hex(hash), hex(secret), total, opt_b(md), now), &v.line, &format!("{}:{}", class, v.kind), true);
	v
}

const MAX_VALUE_MSAT: u64 = 21_000_000_0000_0000_000;

#[derive(Clone)]
struct Params { min: Option<u64>, delta: u32, now: u64, cltv: Option<u16>, md: Option<Vec<u8>>, rand: [u8; 32] }

fn gen_params(rng: &mut Rng) -> Params {
	let min = match rng.below(12) {
		0 | 1 => None,
		2 => Some(0),
		3 => Some(rng.near(MAX_VALUE_MSAT)),
		4 => Some(*rng.pick(&[(1u64 << 61) - 1, 1u64 << 61, u64::MAX, MAX_VALUE_MSAT, MAX_VALUE_MSAT + 1, 1])),
		5 => Some(rng.next() >> rng.below(64)),
		_ => Some(1 + rng.below(5_000_000_000)),
	};
	let delta = match rng.below(6) { 0 => 0, 1 => u32::MAX, 2 => rng.next() as u32, _ => 60 + rng.below(7 * 86400) as u32 };
	let now = match rng.below(10) {
		0 => 0,
		1 | 2 => (rng.near(1u64 << 48)).saturating_sub(7200 + delta as u64), // expiry at the 2^48 bound (±2)
		3 => rng.next() >> (1 + rng.below(40)),                              // anything up to 2^63
		4 => rng.below(1 << 20),
		_ => 1_600_000_000 + rng.below(400_000_000),
	};
	let cltv = match rng.below(5) { 0 | 1 => None, 2 => Some(*rng.pick(&[0u16, 1, 65535, 18, 42])), _ => Some(rng.next() as u16) };
	let md = match rng.below(6) { 0 => Some(vec![]), 1 => { let n = rng.below(20) as usize; Some(rng.bytes(n)) }, 2 => { let n = 1 + rng.below(150) as usize; Some(rng.bytes(n)) }, _ => None };
	Params { min, delta, now, cltv, md, rand: rng.bytes32() }
}

/// the absolute expiry `verify` will read back (independent restatement, used by the oracle)
fn read_back_expiry(p: &Params, custom_cltv_method: bool) -> u64 {
	let e = p.now + p.delta as u64 + 7200;
	if custom_cltv_method { e & ((1u64 << 48) - 1) } else if let Some(c) = p.cltv { e | ((c as u64) << 48) } else { e }
}

fn flip(b: &[u8; 32], bit: usize) -> [u8; 32] { let mut x = *b; x[bit / 8] ^= 1 << (bit % 8); x }

fn secret_model(args: &Args) {
	let mut rec = Rec::new(&args.out, "c04secret");
	let mut rng = Rng::new(args.seed);
	let n_sets: u64 = if args.thorough { 10_000 } else { 1_500 } * args.scale;
	let flip_every: u64 = if args.thorough { 40 } else { 50 };
	let ent = FixedEntropy(Mutex::new([0; 32]));
	let mut keys = ExpandedKey::new([0u8; 32]);
	let mut prev: Option<([u8; 32], [u8; 32], u64)> = None; // (hash, secret, min) of the previous LDK-hash payment
	let mut accepted = 0u64; let mut flips = 0u64;
	for i in 0..n_sets {
		if i % 97 == 0 {
			keys = ExpandedKey::new(rng.bytes32());
			let k = vh::expanded_key_parts(&keys);
			rec.directive(&format!("keys {} {} {} {} {}", hex(&k[0]), hex(&k[1]), hex(&k[2]), hex(&k[3]), hex(&k[4])));
			prev = None;
		}
		let p = gen_params(&mut rng);
		*ent.0.lock().unwrap() = p.rand;
		let kind = rng.below(10); // 0..4 create, 5..8 create_from_hash, 9 spontaneous
		// ---- create the secret with the real code ------------------------------------------------
		let (hash, secret, md_enc, what): ([u8; 32], [u8; 32], Option<Vec<u8>>, &str) = if kind < 5 {
			let r = guarded(AssertUnwindSafe(|| inbound_payment::create(&keys, p.min, p.delta, &ent, p.now, p.cltv, p.md.clone())));
			let op = format!("create {} {} {} {} {} {}", opt_u(p.min), p.delta, hex(&p.rand), p.now, opt_u(p.cltv.map(|c| c as u64)), opt_b(&p.md));
			match r {
				Ok(Ok((h, s, m))) => { rec.case(&op, &format!("ok {} {} {}", hex(&h.0), hex(&s.0), opt_b(&m)), "create:ok", true); (h.0, s.0, m, "ldk") },
				Ok(Err(())) => { rec.case(&op, "err", "create:err", true); create_err_oracle(&mut rec, &p, &op); continue; },
				Err(e) => { rec.case(&op, &format!("panic {}", e), "create:panic", true); continue; },
			}
		} else if kind < 9 {
			let h = rng.bytes32();
			let r = guarded(AssertUnwindSafe(|| inbound_payment::create_from_hash(&keys, p.min, PaymentHash(h), p.delta, &ent, p.now, p.cltv, p.md.clone())));
			let op = format!("createhash {} {} {} {} {} {} {}", opt_u(p.min), hex(&h), p.delta, hex(&p.rand), p.now, opt_u(p.cltv.map(|c| c as u64)), opt_b(&p.md));
			match r {
				Ok(Ok((s, m))) => { rec.case(&op, &format!("ok {} {}", hex(&s.0), opt_b(&m)), "createhash:ok", true); (h, s.0, m, "user") },
				Ok(Err(())) => { rec.case(&op, "err", "createhash:err", true); create_err_oracle(&mut rec, &p, &op); continue; },
				Err(e) => { rec.case(&op, &format!("panic {}", e), "createhash:panic", true); continue; },
			}
		} else {
			let h = rng.bytes32();
			let r = guarded(AssertUnwindSafe(|| vh::create_for_spontaneous_payment(&keys, p.min, p.delta, p.now, p.cltv)));
			let op = format!("createspont {} {} {} {}", opt_u(p.min), p.delta, p.now, opt_u(p.cltv.map(|c| c as u64)));
			match r {
				Ok(Ok(s)) => { rec.case(&op, &format!("ok {}", hex(&s.0)), "createspont:ok", true); (h, s.0, None, "spont") },
				Ok(Err(())) => { rec.case(&op, "err", "createspont:err", true); create_err_oracle(&mut rec, &p, &op); continue; },
				Err(e) => { rec.case(&op, &format!("panic {}", e), "createspont:panic", true); continue; },
			}
		};
		// impl oracle: create must have failed if a bound was exceeded
		if p.min.map(|m| m > MAX_VALUE_MSAT).unwrap_or(false) || (p.cltv.is_some() && p.now + p.delta as u64 + 7200 > (1u64 << 48) - 1) {
			rec.oracle_fail(format!("create* accepted out-of-range parameters min={:?} now={} delta={} cltv={:?}", p.min, p.now, p.delta, p.cltv));
		}
		let min = p.min.unwrap_or(0);
		let custom = p.cltv.is_some() && what != "spont";
		let expiry = read_back_expiry(&p, custom);
		// ---- verify around the amount and expiry boundaries ---------------------------------------
		let totals = [min, min.saturating_sub(1), min.saturating_add(1), rng.next() >> rng.below(64)];
		let nows = [expiry, expiry.saturating_add(1), expiry.saturating_sub(1), rng.next() >> rng.below(64), p.now];
		for (ti, &total) in totals.iter().enumerate() {
			for (ni, &now2) in nows.iter().enumerate() {
				if !(ti == 0 || ni == 0 || (ti + ni) % 3 == 0) { continue; }
				let v = verify_case(&mut rec, &keys, &hash, &secret, total, &md_enc, now2, &format!("verify-{}", what));
				// impl oracle (does not use the model): accepted iff total >= min and expiry >= now, with the registered cltv
				let want = total >= min && expiry >= now2;
				if v.ok != want { rec.oracle_fail(format!("verify of a created {} secret: accepted={} but total>=min && expiry>=now is {} (min={} total={} expiry={} now={})", what, v.ok, want, min, total, expiry, now2)); }
				if v.ok {
					accepted += 1;
					let toks: Vec<&str> = v.line.split(' ').collect();
					let want_cltv = if custom { opt_u(p.cltv.map(|c| c as u64)) } else { "none".to_string() };
					if toks[2] != want_cltv { rec.oracle_fail(format!("verify returned min_final_cltv {} for a secret registered with {}", toks[2], want_cltv)); }
					if what == "ldk" && sha256::Hash::hash(&unhex(toks[1])).to_byte_array() != hash { rec.oracle_fail("verify returned a preimage that does not hash to the payment hash".into()); }
					if what != "spont" && toks[3] != opt_b(&p.md) { rec.oracle_fail(format!("verify did not return the registered payment_metadata ({} vs {})", toks[3], opt_b(&p.md))); }
				} else if !want {
					let expect = if total < min { "AmountTooLow" } else { "Expired" };
					if v.kind != expect { rec.oracle_fail(format!("verify of an authentic secret failed with {} where {} was due", v.kind, expect)); }
				}
			}
		}
		// ---- tampering: everything below must be refused, and refused by the authentication stage ----
		let good_total = min.saturating_add(5); let good_now = p.now;
		let tamper = |rec: &mut Rec, h: &[u8; 32], s: &[u8; 32], total: u64, md: &Option<Vec<u8>>, now2: u64, class: &str, must_be_auth: bool| {
			let v = verify_case(rec, &keys, h, s, total, md, now2, class);
			if v.ok { rec.oracle_fail(format!("{}: tampered input accepted: hash={} secret={} total={} md={} now={}", class, hex(h), hex(s), total, opt_b(md), now2)); }
			else if must_be_auth && (v.kind == "AmountTooLow" || v.kind == "Expired") { rec.oracle_fail(format!("{}: amount/expiry-dependent answer {} for an unauthentic secret (hash={} secret={})", class, v.kind, hex(h), hex(s))); }
		};
		if i % flip_every == 0 {
			for bit in 0..256 {
				// a flipped secret/hash must be refused whatever the amount and time (also when they are bad)
				let (t, n) = if bit % 4 == 3 { (min.saturating_sub(1), expiry.saturating_add(1)) } else { (good_total, good_now) };
				tamper(&mut rec, &hash, &flip(&secret, bit), t, &md_enc, n, "flip-secret", true);
				if what != "spont" { tamper(&mut rec, &flip(&hash, bit), &secret, t, &md_enc, n, "flip-hash", true); }
				flips += 2;
			}
		} else {
			let b1 = rng.below(256) as usize; let b2 = rng.below(256) as usize;
			tamper(&mut rec, &hash, &flip(&secret, b1), good_total, &md_enc, good_now, "flip-secret", true);
			if what != "spont" { tamper(&mut rec, &flip(&hash, b2), &secret, good_total, &md_enc, good_now, "flip-hash", true); }
		}
		// metadata tampering (the MAC covers length and content); spontaneous secrets refuse any metadata
		if what != "spont" {
			let alt: Option<Vec<u8>> = match &md_enc {
				Some(m) if !m.is_empty() => { let mut x = m.clone(); let k = rng.below(x.len() as u64 * 8) as usize; x[k / 8] ^= 1 << (k % 8); Some(x) },
				Some(_) => None,
				None => { let n = rng.below(40) as usize; Some(rng.bytes(n)) },
			};
			tamper(&mut rec, &hash, &secret, good_total, &alt, good_now, "tamper-metadata", true);
			if let Some(m) = &md_enc { if !m.is_empty() { let mut x = m.clone(); x.pop(); tamper(&mut rec, &hash, &secret, good_total, &Some(x), good_now, "tamper-metadata", true); } }
		} else {
			let n = rng.below(30) as usize;
			tamper(&mut rec, &hash, &secret, good_total, &Some(rng.bytes(n)), good_now, "spont-metadata", true);
		}
		// cross-hash / cross-amount reuse with the previous payment of the same keys
		if what == "ldk" {
			if let Some((ph, ps, pmin)) = prev {
				tamper(&mut rec, &ph, &secret, good_total.max(pmin), &md_enc, good_now, "cross-hash", true);
				tamper(&mut rec, &hash, &ps, good_total.max(pmin), &md_enc, good_now, "cross-hash", true);
			}
			prev = Some((hash, secret, min));
		} else if what == "user" {
			// the same secret presented for another hash
			tamper(&mut rec, &rng.bytes32(), &secret, good_total, &md_enc, good_now, "cross-hash", true);
			if let Some((ph, _, _)) = prev { tamper(&mut rec, &ph, &secret, good_total, &md_enc, good_now, "cross-hash", true); }
		}
		// amount splice: the encrypted amount half of another secret under this IV
		if let Some((_, ps, _)) = prev { if what != "ldk" { let mut x = secret; x[16..24].copy_from_slice(&ps[16..24]); if x != secret { tamper(&mut rec, &hash, &x, u64::MAX, &md_enc, 0, "splice-amount", true); } } }
		// garbage secrets
		if i % 3 == 0 { let g = rng.bytes32(); tamper(&mut rec, &hash, &g, u64::MAX, &None, 0, "garbage", true); }
	}
	rec.notes.insert("rule".into(), format!("{} PRNG parameter sets over create / create_from_hash / create_for_spontaneous_payment (amount, expiry and 2^48 / MAX_VALUE_MSAT / 2^61 bounds ±2, metadata lengths 0..150, fresh keys every 97 sets); per accepted set: verify on total∈{{min,min±1,random}} × now∈{{expiry,expiry±1,random,creation}}; every single-bit flip of secret and hash for every {}-th set ({} flips) and one random flip otherwise; metadata bit flip / truncation / injection; cross-hash and cross-amount reuse; spliced amount bytes; garbage secrets. {} accepted verifies. distinct = distinct op lines", n_sets, flip_every, flips, accepted));
	rec.finish();
}

/// impl oracle: `create*` may only fail at the documented bounds
fn create_err_oracle(rec: &mut Rec, p: &Params, op: &str) {
	let out_of_range = p.min.map(|m| m > MAX_VALUE_MSAT).unwrap_or(false) || (p.cltv.is_some() && p.now + p.delta as u64 + 7200 > (1u64 << 48) - 1);
	if !out_of_range { rec.oracle_fail(format!("create* refused in-range parameters: {}", op)); }
}

fn main() {
	let args = parse_args("c04secret");
	match args.model.as_str() {
		"c04secret" => secret_model(&args),
		"c04mpp" => mpp::mpp_model(&args),
		m => { eprintln!("unknown model {}", m); std::process::exit(2); }
	}
}

/// c04mpp — end-to-end MPP receive scenarios on real nodes (second model of this binary).
mod mpp {
	//! c04mpp — end-to-end MPP receive scenarios on real nodes (see ../c04.rs for the op protocol).
	//!
	//! A sender (node 0; sometimes a second sender, node 2) pays a receiver (node 1) over 2–4 parallel
	//! channels.  Every MPP part is sent as its own single-path payment with the same payment hash and
	//! payment secret and a chosen onion `total_msat`, so that the harness decides what the receiver's
	//! per-hash accumulator sees and in which order.  After every step everything is delivered
	//! (`Net::settle`) and what the RECEIVER did is read off its outbound messages and events:
	//!   update_fail_htlc -> `fail:<id>`, update_fulfill_htlc -> `fulfil:<id>`,
	//!   Event::PaymentClaimable -> `claimable:<amt>:<deadline>`, Event::PaymentClaimed -> `claimed:<amt>`,
	//!   Event::HTLCHandlingFailed { failure_reason } -> `why:<LocalHTLCFailureReason>` after the fail tokens.
	//! `id = rank(channel_id among the receiver's channels) * 1_000_000 + htlc_id`.
	//!
	//! Impl-side oracles (no Lean model involved) are in `Scn::{op_part, op_claim, absorb}` and `bad_part`.
	use ldk_verif_harness::common::*;
	use ldk_verif_harness::sim::*;
	use std::collections::{BTreeMap, BTreeSet};
	use std::panic::AssertUnwindSafe;

	use bitcoin::hashes::{sha256, Hash};
	use lightning::chain::channelmonitor::HTLC_FAIL_BACK_BUFFER;
	use lightning::events::Event;
	use lightning::ln::channelmanager::PaymentId;
	use lightning::ln::functional_test_utils::{connect_block, connect_blocks, create_dummy_block, test_default_channel_config, ConnectStyle};
	use lightning::util::config::HTLCInterceptionFlags;
	use lightning::ln::outbound_payment::{RecipientCustomTlvs, RecipientOnionFields};
	use lightning::ln::verif_hooks as vh;
	use lightning::routing::router::{Path, PaymentParameters, Route, RouteHop, RouteParameters};
	use lightning::types::features::{ChannelFeatures, NodeFeatures};
	use lightning::types::payment::{PaymentHash, PaymentPreimage, PaymentSecret};

	const RECV: usize = 1;
	const EVEN_TLV: u64 = 65536;
	const ODD_TLV: u64 = 65537;

	fn short(s: &str) -> String { s.replace('\n', " ").chars().take(100).collect() }

	// ------------------------------------------------------------------------------------------------
	// the network
	// ------------------------------------------------------------------------------------------------

	struct World {
		net: Net,
		/// (sender node, channel index) of every channel into the receiver
		routes: Vec<(usize, usize)>,
		/// channel 0 -> 2 when node 2 is an intercepting last hop (LSP): a part can then be sent 0 -> 2 -> receiver over
		/// node 2's intercept scid and released by the harness with another amount on any channel 2 -> receiver
		lsp_in: Option<usize>,
		/// intercepts already decided
		decided: BTreeSet<[u8; 32]>,
		/// channels (index) on which the receiver currently refuses underpaying HTLCs
		strict: BTreeSet<usize>,
		/// channel index -> rank of its channel_id among the receiver's channels
		rank: Vec<u64>,
		/// every HTLC id the receiver has ever failed / fulfilled on this network (oracle 3)
		failed: BTreeSet<u64>,
		fulfilled: BTreeSet<u64>,
		/// block timestamps: the receiver's `highest_seen_timestamp` is at most this
		clock: u32,
		pay_ctr: u64,
		used: u32,
		/// a panic / protocol error / stuck HTLC happened: do not reuse
		bad: bool,
	}

	fn equalize(net: &Net) {
		let top = net.nodes.iter().map(|n| n.best_block_info().1).max().unwrap();
		for n in net.nodes.iter() { let h = n.best_block_info().1; if h < top { connect_blocks(n, top - h); } }
	}

	fn build_world(rng: &mut Rng, minimal: bool) -> Result<World, String> {
		let three = !minimal && rng.chance(3, 5);
		let k = if minimal { 2 } else if three { 1 + rng.below(2) as usize } else { 2 + rng.below(2) as usize };
		let k2 = 1 + rng.below(2) as usize;
		guarded(AssertUnwindSafe(|| {
			let n = if three { 3 } else { 2 };
			// the receiver accepts underpaying HTLCs (skimmed fees) on all its channels; node 2 intercepts forwards to its intercept scid
			let mut rcfg = test_default_channel_config();
			rcfg.channel_config.accept_underpaying_htlcs = true;
			let mut icfg = test_default_channel_config();
			icfg.htlc_interception_flags = HTLCInterceptionFlags::ToInterceptSCIDs as u8;
			let mut cfgs = vec![None, Some(rcfg)];
			if three { cfgs.push(Some(icfg)); }
			let mut net = Net::new(n, cfgs);
			// deterministic block delivery (create_network picks a random style per node)
			for nd in net.nodes.iter() { *nd.connect_style.borrow_mut() = ConnectStyle::FullBlockViaListen; }
			let mut routes = vec![];
			for _ in 0..k { equalize(&net); let c = net.open(0, RECV, 10_000_000, 1_000_000_000); routes.push((0, c)); }
			let mut lsp_in = None;
			if three {
				// different sizes: node 2 forwards over the channel with the smallest sufficient outbound limit (ties would be broken by hash-map order)
				for j in 0..k2 { equalize(&net); let c = net.open(2, RECV, 10_000_000 - 3_000_000 * j as u64, 1_000_000_000); routes.push((2, c)); }
				equalize(&net); lsp_in = Some(net.open(0, 2, 10_000_000, 1_000_000_000));
			}
			equalize(&net);
			net.pump_all();
			net.settle(10);
			let mut order: Vec<usize> = (0..net.chans.len()).collect();
			order.sort_by_key(|c| net.chans[*c].2);
			let mut rank = vec![0u64; net.chans.len()];
			for (r, c) in order.iter().enumerate() { rank[*c] = r as u64; }
			let clock = bitcoin::constants::genesis_block(bitcoin::Network::Testnet).header.time;
			World { net, routes, lsp_in, decided: BTreeSet::new(), strict: BTreeSet::new(), rank, failed: BTreeSet::new(), fulfilled: BTreeSet::new(), clock, pay_ctr: 0, used: 0, bad: false }
		}))
	}

	impl World {
		fn height(&self) -> u32 { self.net.nodes[RECV].best_block_info().1 }
		/// the receiver's settled balance over all its channels
		fn recv_balance(&self) -> u64 {
			let mut t = 0;
			for (a, _b, cid, _) in self.net.chans.iter() { t += vh::channel_value_to_self_msat(self.net.nodes[RECV].node, &self.net.ids[*a], cid).unwrap_or(0); }
			t
		}
		fn recv_has_pending_htlcs(&self) -> bool {
			self.net.nodes[RECV].node.list_channels().iter().any(|c| !c.pending_inbound_htlcs.is_empty() || !c.pending_outbound_htlcs.is_empty())
		}
		fn reset_logs(&mut self) {
			// `Net::deliver` scans the whole trace: keep it short
			self.net.trace.clear();
			for e in self.net.events.iter_mut() { e.clear(); }
			for c in self.net.claimable.iter_mut() { c.clear(); }
			self.net.pays.clear();
		}
	}

	/// `chan`: the channel the update_add_htlc was queued on
	struct Added { htlc_id: u64, amount: u64, cltv: u32, skim: Option<u64>, chan: usize }

	/// One single-path payment `from -> RECV` over channel `chan`, `amt` msat, with the given onion fields.
	/// Returns the update_add_htlc the sender queued (nothing is delivered yet).
	fn send_raw(w: &mut World, from: usize, chan: usize, hash: PaymentHash, onion: RecipientOnionFields, amt: u64, delta: u32) -> Result<Added, String> {
		send_raw_ks(w, from, chan, hash, onion, amt, delta, None)
	}
	/// `keysend`: Some(preimage) puts that keysend preimage into the final onion payload (it need not hash to `hash`: hook keysend::send_with_hash_and_keysend)
	fn send_raw_ks(w: &mut World, from: usize, chan: usize, hash: PaymentHash, onion: RecipientOnionFields, amt: u64, delta: u32, keysend: Option<PaymentPreimage>) -> Result<Added, String> {
		w.pay_ctr += 1;
		let mut pid = [0u8; 32];
		pid[..8].copy_from_slice(&w.pay_ctr.to_be_bytes());
		pid[8..16].copy_from_slice(&amt.to_be_bytes());
		pid[31] = 0x4d;
		let net = &mut w.net;
		let c = net.chans[chan];
		let hops = vec![RouteHop { pubkey: net.ids[RECV], node_features: NodeFeatures::empty(), short_channel_id: c.3,
			channel_features: ChannelFeatures::empty(), fee_msat: amt, cltv_expiry_delta: delta, maybe_announced_channel: true }];
		let params = PaymentParameters::from_node_id(net.ids[RECV], delta);
		let route = Route { paths: vec![Path { hops, blinded_tail: None }], route_params: RouteParameters::from_payment_params_and_value(params, amt) };
		let r = match keysend {
			None => net.nodes[from].node.send_payment_with_route(route, hash, onion, PaymentId(pid)).map_err(|e| format!("{:?}", e)),
			Some(_) => vh::keysend::send_with_hash_and_keysend(net.nodes[from].node, &route, hash, onion, keysend, PaymentId(pid)),
		};
		net.pump(from);
		if let Err(e) = r { return Err(e); }
		let mut found = None;
		if let Some(q) = net.q.get(&(from, RECV)) {
			for wire in q.iter() { if let Wire::Add(m) = wire { if m.payment_hash == hash && m.channel_id == c.2 { found = Some(Added { htlc_id: m.htlc_id, amount: m.amount_msat, cltv: m.cltv_expiry, skim: m.skimmed_fee_msat, chan }); } } }
		}
		found.ok_or_else(|| "no update_add_htlc queued".to_string())
	}

	/// One payment 0 -> 2 -> RECV whose last hop is node 2's intercept scid: node 2 raises HTLCIntercepted and the harness
	/// releases it over channel `chan` (2 -> RECV) with `amt - skim` msat (`skim` < 0: more than the onion says).
	/// Returns the update_add_htlc node 2 queued for the receiver (not delivered yet).
	/// `declare` != 0: the skimmed_fee_msat TLV of the queued message is rewritten to (true skim + declare) - a last hop that
	/// declares another fee than it took (the TLV is not covered by the commitment signatures).
	fn send_via_lsp(w: &mut World, chan: usize, hash: PaymentHash, onion: RecipientOnionFields, amt: u64, delta: u32, skim: i64, declare: i64) -> Result<Added, String> {
		const LSP: usize = 2;
		let cin = w.lsp_in.ok_or_else(|| "no intercepting node".to_string())?;
		w.pay_ctr += 1;
		let mut pid = [0u8; 32];
		pid[..8].copy_from_slice(&w.pay_ctr.to_be_bytes());
		pid[8..16].copy_from_slice(&amt.to_be_bytes());
		pid[31] = 0x4c;
		let net = &mut w.net;
		let c = net.chans[chan];
		if c.0 != LSP { return Err("not a channel of the intercepting node".into()); }
		let hops = vec![
			RouteHop { pubkey: net.ids[LSP], node_features: NodeFeatures::empty(), short_channel_id: net.chans[cin].3,
				// the sender pays for what node 2 adds on top (it would otherwise forward more than it received)
				channel_features: ChannelFeatures::empty(), fee_msat: 1000 + if skim < 0 { (-skim) as u64 } else { 0 }, cltv_expiry_delta: 48, maybe_announced_channel: true },
			RouteHop { pubkey: net.ids[RECV], node_features: NodeFeatures::empty(), short_channel_id: net.nodes[LSP].node.get_intercept_scid(),
				channel_features: ChannelFeatures::empty(), fee_msat: amt, cltv_expiry_delta: delta, maybe_announced_channel: false }];
		let params = PaymentParameters::from_node_id(net.ids[RECV], delta);
		let mut route_params = RouteParameters::from_payment_params_and_value(params, amt);
		route_params.max_total_routing_fee_msat = None;
		let route = Route { paths: vec![Path { hops, blinded_tail: None }], route_params };
		let r = net.nodes[0].node.send_payment_with_route(route, hash, onion, PaymentId(pid));
		net.pump(0);
		if let Err(e) = r { return Err(format!("{:?}", e)); }
		net.settle(30);
		let mut found = None;
		for e in net.events[LSP].iter() {
			if let Event::HTLCIntercepted { intercept_id, payment_hash, expected_outbound_amount_msat, .. } = e {
				if *payment_hash == hash && !w.decided.contains(&intercept_id.0) { found = Some((*intercept_id, *expected_outbound_amount_msat)); }
			}
		}
		let (iid, expected) = found.ok_or_else(|| "no HTLCIntercepted".to_string())?;
		w.decided.insert(iid.0);
		if expected != amt { return Err(format!("HTLCIntercepted expects {} for an onion amount of {}", expected, amt)); }
		let fwd = (amt as i64 - skim).max(1) as u64;
		if let Err(e) = net.nodes[LSP].node.forward_intercepted_htlc(iid, &c.2, net.ids[RECV], fwd) { let _ = net.nodes[LSP].node.fail_intercepted_htlc(iid); net.pump(LSP); return Err(format!("{:?}", e)); }
		net.forward(LSP);
		let mut add = None;
		let ids: Vec<lightning::ln::types::ChannelId> = net.chans.iter().map(|c| c.2).collect();
		if let Some(q) = net.q.get_mut(&(LSP, RECV)) {
			// the node forwards over the channel to this peer it finds best (smallest sufficient outbound limit), not necessarily `chan`
			for wire in q.iter_mut() { if let Wire::Add(m) = wire { if m.payment_hash == hash {
				if declare != 0 { m.skimmed_fee_msat = Some((m.skimmed_fee_msat.unwrap_or(0) as i64 + declare).max(0) as u64); } let ci = ids.iter().position(|c| *c == m.channel_id).unwrap_or(usize::MAX); if ci != usize::MAX { add = Some(Added { htlc_id: m.htlc_id, amount: m.amount_msat, cltv: m.cltv_expiry, skim: m.skimmed_fee_msat, chan: ci }); } } } }
		}
		add.ok_or_else(|| "the intercepting node queued no update_add_htlc".to_string())
	}

	/// `Net::settle`, with the receiver's persister in InProgress mode: monitor updates of the receiver's
	/// channels are completed at once except on the channels in `hold`
	fn settle_holding(net: &mut Net, hold: &BTreeSet<usize>) {
		for _ in 0..80 {
			let mut moved = false;
			while let Some((i, j)) = net.any_queued() { net.deliver(i, j); moved = true; }
			for c in 0..net.chans.len() {
				if hold.contains(&c) { continue; }
				for id in net.pending_updates(RECV, c) { if net.complete(RECV, c, id) { moved = true; } }
			}
			for i in 0..net.nodes.len() {
				if net.nodes[i].node.needs_pending_htlc_processing() { net.forward(i); moved = true; }
				let before = net.trace.len();
				net.process_events(i);
				if net.trace.len() != before { moved = true; }
			}
			if !moved { break; }
		}
	}

	// ------------------------------------------------------------------------------------------------
	// observations
	// ------------------------------------------------------------------------------------------------

	#[derive(Default)]
	struct Seen {
		fails: Vec<u64>,
		fulfils: Vec<u64>,
		/// PaymentClaimable: (amount_msat, counterparty_skimmed_fee_msat, claim_deadline)
		claimable: Vec<(u64, u64, u32)>,
		/// per PaymentClaimable: purpose is SpontaneousPayment
		claimable_spont: Vec<bool>,
		/// PaymentClaimed: (amount_msat, sum of htlcs[].counterparty_skimmed_fee_msat, sender_intended_total_msat, sum of htlcs[].value_msat)
		claimed: Vec<(u64, u64, u64, u64)>,
		handling_failed: Vec<String>,
		/// (prev_channel_ids, LocalHTLCFailureReason name) of every HTLCHandlingFailed { failure_type: Receive } event
		why: Vec<(Vec<lightning::ln::types::ChannelId>, String)>,
		trouble: Option<String>,
	}

	impl Seen {
		fn answer(&self) -> String {
			let mut t: Vec<String> = vec![];
			for (a, k, d) in &self.claimable { t.push(format!("claimable:{}:{}:{}", a, k, d)); }
			for i in &self.fails { t.push(format!("fail:{}", i)); }
			if !self.fails.is_empty() {
				// the reason the HTLCs of this step were failed back with (one fail-back site per op)
				let mut r: Vec<&str> = self.why.iter().map(|w| w.1.as_str()).collect(); r.sort(); r.dedup();
				t.push(format!("why:{}", if r.is_empty() { "?".to_string() } else { r.join("+") }));
			}
			for i in &self.fulfils { t.push(format!("fulfil:{}", i)); }
			for (a, k, t2, _) in &self.claimed { t.push(format!("claimed:{}:{}:{}", a, k, t2)); }
			if t.is_empty() { "none".into() } else { t.join(" ") }
		}
		fn nothing(&self) -> bool { self.fails.is_empty() && self.fulfils.is_empty() && self.claimable.is_empty() && self.claimed.is_empty() }
	}

	/// what the receiver did since trace position `tpos` / event position `epos`
	fn observe(w: &World, hash: &PaymentHash, tpos: usize, epos: usize) -> Seen {
		let mut s = Seen::default();
		for o in &w.net.trace[tpos.min(w.net.trace.len())..] {
			match o {
				Obs::Msg { from, kind, chan, htlc_id, .. } if *from == RECV && *chan != usize::MAX => {
					let id = w.rank[*chan] * 1_000_000 + *htlc_id;
					match *kind { "fail" | "malformed" => s.fails.push(id), "fulfill" => s.fulfils.push(id), _ => {} }
				},
				Obs::ProtoError { node, text } => { s.trouble = Some(format!("protocol error at node {}: {}", node, short(text))); },
				_ => {},
			}
		}
		let evs = &w.net.events[RECV];
		for e in &evs[epos.min(evs.len())..] {
			match e {
				Event::PaymentClaimable { payment_hash, amount_msat, counterparty_skimmed_fee_msat, claim_deadline, purpose, .. } => {
					if payment_hash == hash { s.claimable_spont.push(matches!(purpose, lightning::events::PaymentPurpose::SpontaneousPayment(_))); s.claimable.push((*amount_msat, *counterparty_skimmed_fee_msat, claim_deadline.unwrap_or(0))); } else { s.trouble = Some("PaymentClaimable for a foreign hash".into()); }
				},
				Event::PaymentClaimed { payment_hash, amount_msat, htlcs, sender_intended_total_msat, .. } => {
					if payment_hash == hash { s.claimed.push((*amount_msat, htlcs.iter().map(|h| h.counterparty_skimmed_fee_msat).sum(), sender_intended_total_msat.unwrap_or(0), htlcs.iter().map(|h| h.value_msat).sum())); } else { s.trouble = Some("PaymentClaimed for a foreign hash".into()); }
				},
				Event::HTLCHandlingFailed { failure_type, failure_reason, prev_channel_ids, .. } => {
					let ft = format!("{:?}", failure_type); let fr = format!("{:?}", failure_reason);
					if ft.starts_with("Receive") {
						let name: String = match fr.find("reason: ") { Some(k) => fr[k + 8..].chars().take_while(|c| c.is_alphanumeric()).collect(), None => fr.clone() };
						s.why.push((prev_channel_ids.clone(), name));
					}
					s.handling_failed.push(format!("{} {}", ft, fr));
				},
				_ => {},
			}
		}
		if !w.net.closed.is_empty() { s.trouble = Some(format!("channel closed: {}", short(&w.net.closed[0].1))); }
		s.fails.sort(); s.fulfils.sort();
		s
	}

	// ------------------------------------------------------------------------------------------------
	// one scenario = one payment hash
	// ------------------------------------------------------------------------------------------------

	#[derive(Clone, Copy, PartialEq, Debug)]
	enum Tlv { No, Even(u8), Odd(u8), Both(u8, u8) }
	impl Tlv {
		fn even(&self) -> Option<u8> { match self { Tlv::Even(v) | Tlv::Both(v, _) => Some(*v), _ => None } }
		fn list(&self) -> Vec<(u64, Vec<u8>)> {
			match self { Tlv::No => vec![], Tlv::Even(v) => vec![(EVEN_TLV, vec![*v])], Tlv::Odd(o) => vec![(ODD_TLV, vec![*o])], Tlv::Both(v, o) => vec![(EVEN_TLV, vec![*v]), (ODD_TLV, vec![*o])] }
		}
	}

	#[derive(Clone, Debug)]
	/// `via`: Some(x) = through the intercepting node, which forwards `amt - x` (x > 0 skimmed fee, x < 0 over-payment);
	/// only honoured when `route` is one of its channels. `strict`: the receiver refuses underpaying HTLCs on that channel
	/// while this part arrives (`accept_underpaying_htlcs = false` via update_channel_config)
	/// `declare`: added to the skimmed fee the intercepting node declares in its message (0 = the truth)
	struct PartSpec { route: usize, amt: u64, total: u64, delta: u32, sec: usize, tlv: Tlv, via: Option<i64>, strict: bool, declare: i64,
		/// keysend: 0 = none, 1 = the onion carries the preimage of the payment hash, 2 = another preimage; nosec: no payment secret in the onion
		ks: u8, nosec: bool }

	#[derive(Clone, Debug)]
	struct Held { id: u64, value: u64, intended: u64, skim: u64, total: u64, cltv: u32, ks: bool,
		/// the value of the even (required) custom TLV the SENDER put into this part's onion, None = the part carries none
		even: Option<u8> }

	#[derive(PartialEq, Clone, Copy, Debug)]
	enum PartOut { Held, Claimable, Rejected, Refused, Abort }

	struct Scn {
		hash: PaymentHash,
		preimage: PaymentPreimage,
		secrets: Vec<PaymentSecret>,
		min: u64,
		/// what the harness has seen arrive at the receiver and neither fail nor fulfil (derived from observations only)
		held: Vec<Held>,
		/// ids / deadline / even-TLV flag of the last PaymentClaimable, while no fail-back or removal happened since
		claimable_set: Option<(Vec<u64>, u32, bool)>,
		/// (amount, skimmed, total_msat, sum intended) announced with it
		announced: (u64, u64, u64, u64),
		/// every op line of this scenario so far (for the oracle messages)
		ops: Vec<String>,
		/// claim deadline of the last PaymentClaimable (kept for the deadline schedules)
		deadline: Option<u32>,
		dead: bool,
		stuck: bool,
		bal0: u64,
		claimed_total: u64,
		kind: &'static str,
		/// the min_final_cltv_expiry_delta the payment secret was registered with (None: not encoded in the secret)
		min_cltv: Option<u16>,
	}

	impl Scn {
		fn new(w: &mut World, rec: &mut Rec, rng: &mut Rng, kind: &'static str, min: Option<u64>, two_secrets: bool, expiry_delta: u32) -> Scn {
			Scn::new_cltv(w, rec, rng, kind, min, two_secrets, expiry_delta, None)
		}
		fn new_cltv(w: &mut World, rec: &mut Rec, rng: &mut Rng, kind: &'static str, min: Option<u64>, two_secrets: bool, expiry_delta: u32, min_cltv: Option<u16>) -> Scn {
			w.reset_logs();
			w.used += 1;
			let preimage = PaymentPreimage(rng.bytes32());
			let hash = PaymentHash(sha256::Hash::hash(&preimage.0).to_byte_array());
			let node = w.net.nodes[RECV].node;
			let mut secrets = vec![node.create_inbound_payment_for_hash(hash, min, expiry_delta, min_cltv, None).unwrap().0];
			if two_secrets {
				// a second invoice for the same hash (another minimum) has another, equally valid, secret
				let m2 = Some(min.unwrap_or(4) / 2 + 1);
				let s2 = node.create_inbound_payment_for_hash(hash, m2, expiry_delta, min_cltv, None).unwrap().0;
				if s2 != secrets[0] { secrets.push(s2); }
			}
			rec.directive("new");
			Scn { hash, preimage, secrets, min: min.unwrap_or(0), held: vec![], claimable_set: None, announced: (0, 0, 0, 0), ops: vec!["new".into()], deadline: None, dead: false, stuck: false, bal0: w.recv_balance(), claimed_total: 0, kind, min_cltv }
		}

		fn onion(&self, p: &PartSpec, secret: PaymentSecret) -> RecipientOnionFields {
			let f = RecipientOnionFields::secret_only(secret, p.total);
			let l = p.tlv.list();
			if l.is_empty() { f } else { f.with_custom_tlvs(RecipientCustomTlvs::new(l).unwrap()) }
		}

		/// book-keeping common to all ops: oracle 3 (an HTLC is never both failed and fulfilled), held-set update
		fn absorb(&mut self, w: &mut World, rec: &mut Rec, seen: &Seen, op: &str) {
			for i in &seen.fails {
				if w.fulfilled.contains(i) || seen.fulfils.contains(i) { rec.oracle_fail(format!("[{}] HTLC {} both fulfilled and failed (at `{}`)", self.kind, i, op)); }
				w.failed.insert(*i);
			}
			for i in &seen.fulfils {
				if w.failed.contains(i) { rec.oracle_fail(format!("[{}] HTLC {} both failed and fulfilled (at `{}`)", self.kind, i, op)); }
				w.fulfilled.insert(*i);
			}
			let before = self.held.len();
			self.held.retain(|h| !seen.fails.contains(&h.id) && !seen.fulfils.contains(&h.id));
			if self.held.len() != before { self.claimable_set = None; }
			if seen.trouble.is_some() { if std::env::var("C04MPP_WHY").is_ok() { eprintln!("TROUBLE {:?} at `{}` [{}] {}", seen.trouble, op, self.kind, self.history()); } w.bad = true; self.dead = true; }
		}

		/// drive the nodes under catch_unwind, then deliver everything
		fn drive<F: FnOnce(&mut World)>(&mut self, w: &mut World, f: F) -> Result<(), String> {
			let r = guarded(AssertUnwindSafe(|| { f(w); w.net.pump_all(); w.net.settle(60); }));
			if let Err(e) = &r { if std::env::var("C04MPP_WHY").is_ok() { eprintln!("DRIVEPANIC {} [{}] {}", e, self.kind, self.history()); } w.bad = true; self.dead = true; }
			r
		}

		fn history(&self) -> String { self.ops.join(" | ") }

		/// the receiver's `accept_underpaying_htlcs` on channel `chan` (its side; `update_channel_config`)
		fn set_strict(w: &mut World, chan: usize, strict: bool) {
			if w.strict.contains(&chan) == strict { return; }
			let (a, _b, cid, _) = w.net.chans[chan];
			let node = w.net.nodes[RECV].node;
			if let Some(d) = node.list_channels().into_iter().find(|c| c.channel_id == cid) {
				if let Some(mut cfg) = d.config { cfg.accept_underpaying_htlcs = !strict; let _ = node.update_channel_config(&w.net.ids[a], &[cid], &cfg); }
			}
			w.net.pump(RECV);
			if strict { w.strict.insert(chan); } else { w.strict.remove(&chan); }
		}

		/// queue the part's update_add_htlc for the receiver (directly, or through the intercepting node)
		fn send_spec(&self, w: &mut World, p: &PartSpec) -> (usize, Option<i64>, bool, Result<Result<Added, String>, String>) {
			let (from, chan) = w.routes[p.route % w.routes.len()];
			let via = if from == 2 && w.lsp_in.is_some() && p.ks == 0 { p.via } else { None };
			let strict = via.is_some() && p.strict;
			let onion = if p.nosec { RecipientOnionFields::spontaneous_empty(p.total) } else { self.onion(p, self.secrets[p.sec % self.secrets.len()]) };
			let keysend = match p.ks { 0 => None, 1 => Some(self.preimage), _ => { let mut x = self.preimage; x.0[7] ^= 0x10; Some(x) } };
			let hash = self.hash;
			let sent = guarded(AssertUnwindSafe(|| {
				// (the intercepting node may pick any of its channels to the receiver: switch all of them)
				let its: Vec<usize> = w.routes.iter().filter(|r| r.0 == from).map(|r| r.1).collect();
				for c in its { Scn::set_strict(w, c, strict); }
				match via { Some(x) => send_via_lsp(w, chan, hash, onion, p.amt, p.delta, x, p.declare), None => send_raw_ks(w, from, chan, hash, onion, p.amt, p.delta, keysend) }
			}));
			(chan, via, strict, sent)
		}

		fn op_part(&mut self, w: &mut World, rec: &mut Rec, p: &PartSpec) -> PartOut {
			if self.dead { return PartOut::Abort; }
			let (tpos, epos) = (w.net.trace.len(), w.net.events[RECV].len());
			let h0 = w.height();
			let (_, via, strict, sent) = self.send_spec(w, p);
			let add = match sent {
				Ok(Ok(a)) => a,
				Ok(Err(e)) => { if std::env::var("C04MPP_WHY").is_ok() { eprintln!("SENDERR {} via {:?} [{}] {}", e, via, self.kind, self.history()); } self.dead = true; rec.discarded += 1; return PartOut::Abort; },
				Err(e) => { if std::env::var("C04MPP_WHY").is_ok() { eprintln!("SENDPANIC {} via {:?} [{}] {}", e, via, self.kind, self.history()); } self.dead = true; w.bad = true; rec.discarded += 1; return PartOut::Abort; },
			};
			let chan = add.chan;
			let id = w.rank[chan] * 1_000_000 + add.htlc_id;
			let ev = p.tlv.even();
			let tag = (p.sec % self.secrets.len()) as u64 * 1000 + match ev { None => 1, Some(v) => 2 + v as u64 } + if p.ks != 0 { 500_000 } else { 0 } + if p.nosec { 250_000 } else { 0 };
			let skim_tok = add.skim.map(|v| v.to_string()).unwrap_or("none".into());
			let op = format!("part {} {} {} {} {} {} {} {}", id, add.amount, p.amt, skim_tok, p.total, add.cltv, tag, ev.is_some() as u8);
			if let Err(m) = self.drive(w, |_| {}) { rec.case(&op, &format!("panic {}", short(&m)), "part:panic", true); return PartOut::Abort; }
			let seen = observe(w, &self.hash, tpos, epos);
			if std::env::var("C04MPP_DEBUG").is_ok() { for o in &w.net.trace[tpos..] { eprintln!("  {}", fmt_obs(o)); } }
			// ---- the amount test in front of the accumulator (create_recv_pending_htlc_info) -------------------------------
			let failed = seen.fails.contains(&id);
			let low = failed && seen.handling_failed.iter().any(|t| t.contains("FinalIncorrectHTLCAmount"));
			let reached = !failed || seen.handling_failed.iter().any(|t| t.contains("Receive") && t.contains("IncorrectPaymentDetails"));
			// ---- the whole receive path in one op (Model.receive: the translated tests in the order of the Rust text, then the
			// accumulator): same answer as the real node gave for this HTLC, whatever stage refused it
			{
				let bad_pre = seen.handling_failed.iter().any(|t| t.contains("InvalidKeysendPreimage"));
				if low || reached || bad_pre {
					let ans = if low { format!("fail:{} why:FinalIncorrectHTLCAmount", id) } else if bad_pre { format!("fail:{} why:InvalidKeysendPreimage", id) } else { seen.answer() };
					let rop = format!("recv {} {} {} {} {} {} {} {} {} {} {} {} {} 1 {}", id, add.amount, p.amt, skim_tok, p.total, add.cltv, tag, ev.is_some() as u8, add.cltv, h0, (!strict) as u8,
						match p.ks { 0 => "none", 1 => "ok", _ => "bad" }, (!p.nosec) as u8, self.min_cltv.map(|m| m.to_string()).unwrap_or("none".into()));
					rec.case(&rop, &ans, &format!("recv:{}", if low { "amount" } else if bad_pre { "keysend-preimage" } else if failed { "refused-later" } else { "accumulated" }), true);
				}
			}
			if low || reached {
				let allow = !strict;
				let want_low = if allow { add.amount.saturating_add(add.skim.unwrap_or(0)) < p.amt } else { add.amount < p.amt };
				let admit = format!("admit {} {} {} {}", allow as u8, p.amt, add.amount, skim_tok);
				if low != want_low { rec.oracle_fail(format!("[{}] `{}` -> {}: an HTLC carrying {} msat (+ skimmed fee {:?}) for an onion amount of {} was {} with accept_underpaying_htlcs = {}; ops: {}", self.kind, admit, if low { "low" } else { "ok" }, add.amount, add.skim, p.amt, if low { "refused (FinalIncorrectHTLCAmount)" } else { "let through to the payment logic" }, allow, self.history())); }
				rec.case(&admit, if low { "low" } else { "ok" }, &format!("admit:{}:{}:{}", if via.is_none() { "direct" } else if add.amount > p.amt { "overpaid" } else if p.declare < 0 { "skimmed-underdeclared" } else if p.declare > 0 { "skimmed-overdeclared" } else if add.skim.is_some() { "skimmed" } else { "exact" }, if allow { "underpay-ok" } else { "strict" }, if low { "low" } else { "ok" }), true);
			}
			// ---- keysend: the routing selection of create_recv_pending_htlc_info (translated: MppGen.recvRouting) ---------------
			// a spontaneous payment goes on to the payment logic only if SHA-256(keysend preimage) = payment hash
			if p.ks != 0 && !low {
				let bad_pre = seen.handling_failed.iter().any(|t| t.contains("InvalidKeysendPreimage"));
				let ans = if bad_pre { "err InvalidKeysendPreimage" } else if !failed || reached { "keysend" } else { "other" };
				let rop = format!("routing {} {}", if p.ks == 1 { "ok" } else { "bad" }, (!p.nosec) as u8);
				if (p.ks == 2) != bad_pre || (p.ks == 2 && (!failed || !seen.claimable.is_empty())) {
					rec.oracle_fail(format!("[{}] `{}` -> {}: a keysend HTLC whose preimage {} to the payment hash was {}; then `{}` -> {}; ops: {}", self.kind, rop, ans, if p.ks == 1 { "hashes" } else { "does NOT hash" }, if bad_pre { "refused (InvalidKeysendPreimage)" } else { "handed on to the payment logic" }, op, seen.answer(), self.history()));
				}
				rec.case(&rop, ans, &format!("routing:{}:{}", ans.replace(' ', "-"), if p.nosec { "no-secret" } else { "with-secret" }), true);
				if bad_pre || ans == "other" {
					if !seen.claimable.is_empty() || !seen.fulfils.is_empty() || !seen.claimed.is_empty() { rec.oracle_fail(format!("[{}] a keysend HTLC refused for its preimage produced {}; ops: {}", self.kind, seen.answer(), self.history())); }
					self.absorb(w, rec, &seen, &op);
					return PartOut::Refused;
				}
			}
			if low {
				if !seen.claimable.is_empty() || !seen.fulfils.is_empty() || !seen.claimed.is_empty() { rec.oracle_fail(format!("[{}] an HTLC refused for its amount produced {}; ops: {}", self.kind, seen.answer(), self.history())); }
				self.absorb(w, rec, &seen, &op);
				return PartOut::Refused;
			}
			// ---- the min_final_cltv_expiry_delta test after inbound_payment::verify (process_receive_htlcs) ----------------------
			// The secret of this scenario commits to a delta: an HTLC expiring before (receiver height + delta) must be failed
			// back without reaching the payment logic, any other one must go on.  A refusal of the FIRST part of a hash (valid
			// secret, total_msat >= the minimum, nothing held, no claim pending) can only come from this test.
			if let Some(m) = self.min_cltv {
				let want_soon = (add.cltv as u64) < h0 as u64 + m as u64;
				let soon = failed && reached && (want_soon || (self.held.is_empty() && self.claimable_set.is_none()));
				let mc = format!("mincltv {} {} {}", h0, m, add.cltv);
				if soon != want_soon { rec.oracle_fail(format!("[{}] `{}` -> {}: an HTLC expiring at {} for a payment registered with min_final_cltv_expiry_delta {} was {} at height {} (earliest acceptable expiry {}); then `{}` -> {}; ops: {}", self.kind, mc, if soon { "soon" } else { "ok" }, add.cltv, m, if soon { "failed back" } else { "let through to the payment logic" }, h0, h0 as u64 + m as u64, op, seen.answer(), self.history())); }
				let off = add.cltv as i64 - (h0 as i64 + m as i64);
				rec.case(&mc, if soon { "soon" } else { "ok" }, &format!("mincltv:{}:{}", if soon { "soon" } else { "ok" }, if off < -1 { "below" } else if off == -1 { "boundary-1" } else if off == 0 { "boundary" } else if off == 1 { "boundary+1" } else { "above" }), true);
				if soon {
					if !seen.claimable.is_empty() || !seen.fulfils.is_empty() || !seen.claimed.is_empty() { rec.oracle_fail(format!("[{}] an HTLC refused for its expiry produced {}; ops: {}", self.kind, seen.answer(), self.history())); }
					self.absorb(w, rec, &seen, &op);
					return PartOut::Refused;
				}
			}
			let out;
			if failed {
				// only a failure by the payment logic (after verify) is a `part` the accumulator saw
				if !reached {
					self.dead = true; rec.discarded += 1; self.absorb(w, rec, &seen, &op); return PartOut::Abort;
				}
				if !seen.claimable.is_empty() { rec.oracle_fail(format!("[{}] `{}`: the part was failed back AND a PaymentClaimable was generated ({})", self.kind, op, seen.answer())); }
				rec.case(&op, &seen.answer(), "part:rejected", true);
				self.ops.push(op.clone());
				out = PartOut::Rejected;
			} else {
				self.ops.push(op.clone());
				self.held.push(Held { id, value: add.amount, intended: p.amt, skim: add.skim.unwrap_or(0), total: p.total, cltv: add.cltv, ks: p.ks != 0, even: ev });
				let shape = if self.held.iter().any(|h| h.value < h.intended) { "-skimmed" } else if self.held.iter().any(|h| h.value > h.intended) { "-overpaid" } else { "" };
				if let Some((amt, skimmed, dl)) = seen.claimable.first().copied() {
					// oracle 1: claimable only if complete, with the right amount, skimmed fee and deadline
					let held: Vec<&Held> = self.held.iter().filter(|h| !seen.fails.contains(&h.id)).collect();
					let sum_int: u64 = held.iter().map(|h| h.intended).sum();
					let sum_val: u64 = held.iter().map(|h| h.value).sum();
					let sum_skim: u64 = held.iter().map(|h| h.skim).sum();
					let min_cltv = held.iter().map(|h| h.cltv).min().unwrap_or(0);
					let desc = format!("[{}] `{}` -> {} with held parts {:?}; ops: {}", self.kind, op, seen.answer(), self.held, self.history());
					if held.iter().any(|h| h.total != p.total) { rec.oracle_fail(format!("PaymentClaimable over parts with different total_msat: {}", desc)); }
					// RecipientOnionFields::check_merge: every part of an announced set carries the same even (required) custom TLVs, whatever the arrival order
					if let Some(h) = held.iter().find(|h| h.even != held[0].even) { rec.oracle_fail(format!("PaymentClaimable produced although the parts disagree on even custom TLV {}: HTLC {} carries {:?}, HTLC {} carries {:?}: {}", EVEN_TLV, held[0].id, held[0].even, h.id, h.even, desc)); }
					if sum_int < p.total { rec.oracle_fail(format!("PaymentClaimable for an incomplete set (sum intended {} < total_msat {}): {}", sum_int, p.total, desc)); }
					if amt != sum_val { rec.oracle_fail(format!("PaymentClaimable amount {} != sum of held HTLC values {}: {}", amt, sum_val, desc)); }
					if skimmed != sum_skim { rec.oracle_fail(format!("PaymentClaimable counterparty_skimmed_fee_msat {} != sum of the parts' skimmed fees {}: {}", skimmed, sum_skim, desc)); }
					if amt.saturating_add(skimmed) < p.total { rec.oracle_fail(format!("PaymentClaimable amount {} + skimmed {} is below total_msat {}: {}", amt, skimmed, p.total, desc)); }
					if dl != min_cltv.saturating_sub(HTLC_FAIL_BACK_BUFFER) { rec.oracle_fail(format!("PaymentClaimable claim_deadline {} != min cltv {} - {}: {}", dl, min_cltv, HTLC_FAIL_BACK_BUFFER, desc)); }
					if p.ks == 0 && p.total < self.min { rec.oracle_fail(format!("PaymentClaimable below the invoice minimum {}: {}", self.min, desc)); }
					// a spontaneous payment never merges with an invoice payment of the same hash, and is announced as what it is
					let spont = seen.claimable_spont.first().copied().unwrap_or(false);
					if held.iter().any(|h| h.ks != spont) { rec.oracle_fail(format!("PaymentClaimable (purpose spontaneous = {}) over a set that mixes keysend and invoice HTLCs or with the wrong purpose: {}", spont, desc)); }
					if seen.claimable.len() > 1 { rec.oracle_fail(format!("two PaymentClaimable events for one part: {}", desc)); }
					rec.case(&op, &seen.answer(), &format!("part:claimable{}", shape), true);
					self.deadline = Some(dl);
					self.announced = (amt, skimmed, p.total, sum_int);
					out = PartOut::Claimable;
				} else {
					// oracle 1b: a set whose sender-intended amounts reach total_msat for the first time must be announced
					let sum_int: u64 = self.held.iter().map(|h| h.intended).sum();
					let before: u64 = sum_int - p.amt;
					if self.held.iter().all(|h| h.total == p.total) && before < p.total && sum_int >= p.total && sum_int < super::MAX_VALUE_MSAT && self.claimable_set.is_none() {
						rec.oracle_fail(format!("[{}] `{}` completed the set (sum intended {} >= total_msat {}) but no PaymentClaimable was generated: {} with held parts {:?}; ops: {}", self.kind, op, sum_int, p.total, seen.answer(), self.held, self.history()));
					}
					rec.case(&op, &seen.answer(), &format!("part:held{}", shape), true);
					out = PartOut::Held;
				}
			}
			if !seen.fulfils.is_empty() || !seen.claimed.is_empty() { rec.oracle_fail(format!("[{}] `{}`: an incoming part released the preimage without a claim: {}", self.kind, op, seen.answer())); }
			self.absorb(w, rec, &seen, &op);
			if out == PartOut::Claimable { self.claimable_set = Some((self.held.iter().map(|h| h.id).collect(), self.deadline.unwrap_or(0), ev.is_some())); }
			out
		}

		/// oracle 4 (impl side, no model): a complete payment that was shown to the user is not taken away before its deadline
		fn premature_fail_oracle(&self, rec: &mut Rec, seen: &Seen, op: &str, height: u32, what: &str) {
			if let Some((ids, deadline, _)) = &self.claimable_set {
				let hit: Vec<u64> = seen.fails.iter().filter(|i| ids.contains(i)).cloned().collect();
				if !hit.is_empty() && height < *deadline {
					let (amt, skimmed, total, sum_int) = self.announced;
					rec.oracle_fail(format!("[{}] a complete payment (sum intended {} >= total_msat {}) that was reported PaymentClaimable (amount {}, skimmed {}) was failed back by {} `{}` at height {}, before its claim deadline {}: HTLCs {:?} failed ({}); held parts {:?}; ops: {}",
						self.kind, sum_int, total, amt, skimmed, what, op, height, deadline, hit, seen.handling_failed.join("; ").chars().take(200).collect::<String>(), self.held, self.history()));
				}
			}
		}

		fn op_tick(&mut self, w: &mut World, rec: &mut Rec) {
			if self.dead { return; }
			let (tpos, epos) = (w.net.trace.len(), w.net.events[RECV].len());
			if let Err(m) = self.drive(w, |w| w.net.nodes[RECV].node.timer_tick_occurred()) { rec.case("tick", &format!("panic {}", short(&m)), "tick:panic", true); return; }
			let seen = observe(w, &self.hash, tpos, epos);
			let did = !seen.nothing();
			self.ops.push("tick".into());
			if !seen.fulfils.is_empty() || !seen.claimable.is_empty() || !seen.claimed.is_empty() { rec.oracle_fail(format!("[{}] a timer tick produced {}", self.kind, seen.answer())); }
			self.premature_fail_oracle(rec, &seen, "tick", w.height(), "the timer tick");
			// an incomplete set must be gone after MPP_TIMEOUT_TICKS ticks (1 in this build): every held part failed
			let sum_int: u64 = self.held.iter().map(|h| h.intended).sum();
			let total = self.held.first().map(|h| h.total).unwrap_or(0);
			if !self.held.is_empty() && self.claimable_set.is_none() && sum_int < total && self.held.iter().any(|h| !seen.fails.contains(&h.id)) {
				rec.oracle_fail(format!("[{}] an incomplete set (sum intended {} < total_msat {}) survived a timer tick: {} with held parts {:?}; ops: {}", self.kind, sum_int, total, seen.answer(), self.held, self.history()));
			}
			let skimmed = self.held.iter().any(|h| h.value != h.intended);
			rec.case("tick", &seen.answer(), if did { if skimmed { "tick:failall-skimmed" } else { "tick:failall" } } else if self.held.is_empty() { "tick:noop-empty" } else if skimmed { "tick:noop-complete-skimmed" } else { "tick:noop-complete" }, did);
			self.absorb(w, rec, &seen, "tick");
		}

		/// one block on every node (`time`: header timestamp for the receiver's block, to move its clock)
		fn op_block(&mut self, w: &mut World, rec: &mut Rec, time: Option<u32>) {
			if self.dead { return; }
			let (tpos, epos) = (w.net.trace.len(), w.net.events[RECV].len());
			let r = self.drive(w, |w| {
				for i in 0..w.net.nodes.len() {
					let n = &w.net.nodes[i];
					match time { Some(t) if i == RECV => { let b = create_dummy_block(n.best_block_hash(), t, vec![]); connect_block(n, &b); }, _ => { connect_blocks(n, 1); } }
				}
			});
			let op = format!("block {}", w.height());
			if let Err(m) = r { rec.case(&op, &format!("panic {}", short(&m)), "block:panic", true); return; }
			let seen = observe(w, &self.hash, tpos, epos);
			let did = !seen.nothing();
			self.ops.push(op.clone());
			if !seen.fulfils.is_empty() || !seen.claimable.is_empty() || !seen.claimed.is_empty() { rec.oracle_fail(format!("[{}] `{}` produced {}", self.kind, op, seen.answer())); }
			self.premature_fail_oracle(rec, &seen, &op, w.height(), "the block");
			let some_left = self.held.iter().any(|h| !seen.fails.contains(&h.id));
			rec.case(&op, &seen.answer(), if !did { "block:noop" } else if some_left { "block:fail-some" } else { "block:fail-all" }, did);
			self.absorb(w, rec, &seen, &op);
		}

		fn op_claim(&mut self, w: &mut World, rec: &mut Rec, known: bool) {
			if self.dead { return; }
			let (tpos, epos) = (w.net.trace.len(), w.net.events[RECV].len());
			let height = w.height();
			let pre = self.preimage;
			let op = format!("claim {}", known as u8);
			let r = self.drive(w, |w| { let n = w.net.nodes[RECV].node; if known { n.claim_funds_with_known_custom_tlvs(pre) } else { n.claim_funds(pre) } });
			if let Err(m) = r { rec.case(&op, &format!("panic {}", short(&m)), "claim:panic", true); return; }
			let seen = observe(w, &self.hash, tpos, epos);
			self.ops.push(op.clone());
			self.claim_oracles(w, rec, &seen, &op, height, known);
			let class = if !seen.fulfils.is_empty() { "claim:fulfil" } else if !seen.fails.is_empty() { "claim:failall" } else if self.held.is_empty() { "claim:none" } else { "claim:none-dropped" };
			rec.case(&op, &seen.answer(), class, true);
			if seen.nothing() && !self.held.is_empty() {
				// begin_claiming_payment removed the entry and claim_payment_internal dropped the HTLCs without
				// failing them: they stay in the channels until they time out on chain
				self.stuck = true; self.dead = true; self.held.clear();
			}
			let claimed = !seen.claimed.is_empty();
			self.absorb(w, rec, &seen, &op);
			self.claimable_set = None;
			if claimed { rec.case("claimdone", "none", "claimdone", false); }
		}

		/// oracles 2, 3, 4 on the outcome of a claim
		fn claim_oracles(&mut self, w: &World, rec: &mut Rec, seen: &Seen, op: &str, height: u32, known: bool) {
			let desc = format!("[{}] `{}` at height {} -> {} with held parts {:?}; ops: {}", self.kind, op, height, seen.answer(), self.held, self.history());
			if !seen.fulfils.is_empty() && !seen.fails.is_empty() { rec.oracle_fail(format!("a claim both fulfilled and failed HTLCs: {}", desc)); }
			if !seen.claimable.is_empty() { rec.oracle_fail(format!("a claim produced PaymentClaimable: {}", desc)); }
			if !seen.fulfils.is_empty() {
				let ids: Vec<u64> = { let mut v: Vec<u64> = self.held.iter().map(|h| h.id).collect(); v.sort(); v };
				let sum: u64 = self.held.iter().map(|h| h.value).sum();
				let sum_int: u64 = self.held.iter().map(|h| h.intended).sum();
				let total = self.held.first().map(|h| h.total).unwrap_or(0);
				if seen.fulfils != ids { rec.oracle_fail(format!("a claim did not fulfil exactly the held parts {:?}: {}", ids, desc)); }
				if sum_int < total { rec.oracle_fail(format!("an incomplete set was claimed (sum intended {} < total_msat {}): {}", sum_int, total, desc)); }
				if seen.claimed.len() != 1 || seen.claimed[0].0 != sum { rec.oracle_fail(format!("PaymentClaimed {:?} != sum of the fulfilled HTLC values {}: {}", seen.claimed, sum, desc)); }
				if let Some((a, k, t, hv)) = seen.claimed.first().copied() {
					let sum_skim: u64 = self.held.iter().map(|h| h.skim).sum();
					if k != sum_skim || hv != a || t != total { rec.oracle_fail(format!("PaymentClaimed (amount {}, htlcs worth {} with skimmed fees {}, sender_intended_total {}) does not describe the held parts (values {}, skimmed {}, total_msat {}): {}", a, hv, k, t, sum, sum_skim, total, desc)); }
				}
				self.claimed_total += sum;
				let bal = w.recv_balance();
				if bal != self.bal0 + self.claimed_total { rec.oracle_fail(format!("receiver balance moved by {} msat, claimed {} msat: {}", bal as i128 - self.bal0 as i128, self.claimed_total, desc)); }
			} else if !seen.claimed.is_empty() {
				rec.oracle_fail(format!("PaymentClaimed without any update_fulfill_htlc: {}", desc));
			}
			if let Some((ids, deadline, ev)) = &self.claimable_set {
				if height < *deadline && (known || !*ev) && !ids.iter().all(|i| seen.fulfils.contains(i)) {
					rec.oracle_fail(format!("claim before the claim_deadline {} did not fulfil every part of the PaymentClaimable set {:?}: {}", deadline, ids, desc));
				}
				if height < *deadline && (known || !*ev) && (seen.claimed.len() != 1 || seen.claimed[0].0 != self.announced.0 || seen.claimed[0].1 != self.announced.1) {
					rec.oracle_fail(format!("claim_funds on a claimable payment (announced amount {}, skimmed {}) before the deadline {} did not produce PaymentClaimed for it: {}", self.announced.0, self.announced.1, deadline, desc));
				}
			}
		}

		/// `claim` whose monitor updates stay InProgress on the channel(s) of the set while a new part for
		/// the same hash arrives over another channel (pending_claiming_payments still has the hash), then
		/// the updates complete.  Emitted as `claim` (fulfils + claimed), `part` (the late part), `claimdone`.
		/// Effects are attributed by HTLC id: whatever happens to the late part belongs to the `part` line.
		fn op_claim_with_late_part(&mut self, w: &mut World, rec: &mut Rec, known: bool, late: &PartSpec) {
			if self.dead { return; }
			let hold: BTreeSet<usize> = w.routes.iter().map(|r| r.1).filter(|c| self.held.iter().any(|h| h.id / 1_000_000 == w.rank[*c])).collect();
			let (from, chan) = w.routes[late.route % w.routes.len()];
			if hold.contains(&chan) || self.held.is_empty() { self.op_claim(w, rec, known); return; }
			let (tpos, epos) = (w.net.trace.len(), w.net.events[RECV].len());
			let height = w.height();
			let pre = self.preimage;
			let claim_op = format!("claim {}", known as u8);
			let r = guarded(AssertUnwindSafe(|| {
				w.net.set_mode(RECV, true);
				let n = w.net.nodes[RECV].node;
				if known { n.claim_funds_with_known_custom_tlvs(pre) } else { n.claim_funds(pre) }
				w.net.pump_all();
				settle_holding(&mut w.net, &hold);
			}));
			if let Err(m) = r { w.bad = true; self.dead = true; rec.case(&claim_op, &format!("panic {}", short(&m)), "claim:panic", true); return; }
			let early = observe(w, &self.hash, tpos, epos);
			self.ops.push(claim_op.clone());
			// the late part
			let onion = self.onion(late, self.secrets[late.sec % self.secrets.len()]);
			let hash = self.hash;
			let sent = guarded(AssertUnwindSafe(|| send_raw(w, from, chan, hash, onion, late.amt, late.delta)));
			let add = match sent { Ok(Ok(a)) => Some(a), Ok(Err(_)) => None, Err(_) => { w.bad = true; None } };
			let late_id = add.as_ref().map(|a| w.rank[chan] * 1_000_000 + a.htlc_id);
			let r = guarded(AssertUnwindSafe(|| {
				settle_holding(&mut w.net, &hold);
				w.net.set_mode(RECV, false);
				for _ in 0..10 {
					let mut any = false;
					for c in hold.iter() { for id in w.net.pending_updates(RECV, *c) { any |= w.net.complete(RECV, *c, id); } }
					w.net.settle(60);
					if !any { break; }
				}
			}));
			if let Err(m) = r { w.bad = true; self.dead = true; rec.case(&claim_op, &format!("panic {}", short(&m)), "claim:panic", true); return; }
			let all = observe(w, &self.hash, tpos, epos);
			let mut of_claim = Seen::default(); let mut of_part = Seen::default();
			for i in &all.fails { if Some(*i) == late_id { of_part.fails.push(*i) } else { of_claim.fails.push(*i) } }
			for i in &all.fulfils { if Some(*i) == late_id { of_part.fulfils.push(*i) } else { of_claim.fulfils.push(*i) } }
			of_claim.claimed = all.claimed.clone();
			of_part.claimable = all.claimable.clone();
			let late_cid = w.net.chans[chan].2;
			for (cids, name) in &all.why { if cids.contains(&late_cid) { of_part.why.push((cids.clone(), name.clone())) } else { of_claim.why.push((cids.clone(), name.clone())) } }
			if !early.nothing() { rec.oracle_fail(format!("[{}] `{}` with its monitor updates still in progress already produced {}", self.kind, claim_op, early.answer())); }
			self.claim_oracles(w, rec, &of_claim, &claim_op, height, known);
			rec.case(&claim_op, &of_claim.answer(), if !of_claim.fulfils.is_empty() { "claim:fulfil-async" } else if !of_claim.fails.is_empty() { "claim:failall" } else { "claim:none" }, true);
			if let (Some(a), Some(id)) = (add, late_id) {
				let ev = late.tlv.even();
				let tag = (late.sec % self.secrets.len()) as u64 * 1000 + match ev { None => 1, Some(v) => 2 + v as u64 };
				let op = format!("part {} {} {} {} {} {} {} {}", id, a.amount, late.amt, a.skim.map(|v| v.to_string()).unwrap_or("none".into()), late.total, a.cltv, tag, ev.is_some() as u8);
				self.ops.push(op.clone());
				if !of_part.fulfils.is_empty() || !of_part.claimable.is_empty() { rec.oracle_fail(format!("[{}] `{}` arriving while the payment is being claimed produced {}", self.kind, op, of_part.answer())); }
				if of_part.fails.is_empty() { self.held.push(Held { id, value: a.amount, intended: late.amt, skim: a.skim.unwrap_or(0), total: late.total, cltv: a.cltv, ks: false, even: ev }); }
				rec.case(&op, &of_part.answer(), if of_part.fails.is_empty() { "part:held-during-claim" } else { "part:rejected-during-claim" }, true);
			} else { self.dead = true; rec.discarded += 1; }
			let claimed = !all.claimed.is_empty();
			self.absorb(w, rec, &all, &claim_op);
			self.claimable_set = None;
			if claimed { rec.case("claimdone", "none", "claimdone", false); }
		}

		fn op_failback(&mut self, w: &mut World, rec: &mut Rec) {
			if self.dead { return; }
			let (tpos, epos) = (w.net.trace.len(), w.net.events[RECV].len());
			let hash = self.hash;
			if let Err(m) = self.drive(w, |w| w.net.nodes[RECV].node.fail_htlc_backwards(&hash)) { rec.case("failback", &format!("panic {}", short(&m)), "failback:panic", true); return; }
			let seen = observe(w, &self.hash, tpos, epos);
			self.ops.push("failback".into());
			if !seen.fulfils.is_empty() || !seen.claimable.is_empty() || !seen.claimed.is_empty() { rec.oracle_fail(format!("[{}] failback produced {}", self.kind, seen.answer())); }
			let ids: Vec<u64> = { let mut v: Vec<u64> = self.held.iter().map(|h| h.id).collect(); v.sort(); v };
			if seen.fails != ids { rec.oracle_fail(format!("[{}] fail_htlc_backwards failed {:?}, held were {:?}", self.kind, seen.fails, ids)); }
			rec.case("failback", &seen.answer(), if seen.fails.is_empty() { "failback:none" } else { "failback:failall" }, true);
			self.absorb(w, rec, &seen, "failback");
			self.claimable_set = None;
		}

		/// connect single blocks until the receiver is at `target`
		/// the receiver is written to disk and reloaded (ChannelManager + monitors), its peers reconnect: the held HTLCs of this hash
		/// must all still be there (nothing failed, fulfilled or announced by the reload); the model's `restart` keeps the accumulator
		/// (timer_ticks are read back as 0)
		fn op_restart(&mut self, w: &mut World, rec: &mut Rec) {
			if self.dead { return; }
			let (tpos, epos) = (w.net.trace.len(), w.net.events[RECV].len());
			let peers: Vec<usize> = { let mut v: Vec<usize> = w.net.chans.iter().filter(|c| c.0 == RECV || c.1 == RECV).map(|c| if c.0 == RECV { c.1 } else { c.0 }).collect(); v.sort(); v.dedup(); v };
			let r = guarded(AssertUnwindSafe(|| -> Result<(), String> {
				w.net.restart(RECV)?;
				for j in peers.iter() { w.net.reconnect(*j, RECV); }
				w.net.pump_all(); w.net.settle(60);
				Ok(())
			}));
			match r {
				Ok(Ok(())) => {},
				Ok(Err(e)) => { rec.oracle_fail(format!("[{}] the receiver could not be reloaded while holding {:?}: {}; ops: {}", self.kind, self.held, short(&e), self.history())); self.dead = true; w.bad = true; return; },
				Err(e) => { rec.oracle_fail(format!("[{}] panic while reloading the receiver holding {:?}: {}; ops: {}", self.kind, self.held, short(&e), self.history())); self.dead = true; w.bad = true; return; },
			}
			// (the per-channel accept_underpaying_htlcs setting is part of the persisted channel state: `w.strict` stays as it is)
			let mut seen = observe(w, &self.hash, tpos, epos);
			// a reloaded ChannelManager re-generates PaymentClaimed for payments claimed earlier (other hashes: documented replay, not this payment)
			let replayed = seen.trouble.as_deref() == Some("PaymentClaimed for a foreign hash");
			if replayed { seen.trouble = None; *rec.classes.entry("restart:replayed-PaymentClaimed-of-earlier-payments".into()).or_insert(0) += 1; }
			if !seen.nothing() { rec.oracle_fail(format!("[{}] reloading the receiver changed the pending payment: {} (held {:?}); ops: {}", self.kind, seen.answer(), self.held, self.history())); }
			rec.case("restart", &seen.answer(), if self.claimable_set.is_some() { "restart:claimable-set" } else if self.held.is_empty() { "restart:empty" } else { "restart:between-parts" }, true);
			self.ops.push("restart".into());
			self.absorb(w, rec, &seen, "restart");
		}

		fn blocks_to(&mut self, w: &mut World, rec: &mut Rec, target: u32) {
			let mut guard = 0;
			while !self.dead && w.height() < target && guard < 200 { self.op_block(w, rec, None); guard += 1; }
		}

		/// un-modelled stream: a part that must be refused before it reaches the accumulator
		fn bad_part(&mut self, w: &mut World, rec: &mut Rec, what: &str, route: usize, amt: u64, total: u64, secret: PaymentSecret, bad: &mut BTreeMap<String, u64>) {
			if self.dead { return; }
			let (from, chan) = w.routes[route % w.routes.len()];
			let (tpos, epos) = (w.net.trace.len(), w.net.events[RECV].len());
			let hash = self.hash;
			// "no-secret": an onion with neither payment_data nor a keysend preimage (create_recv_pending_htlc_info's final else)
			let onion = if what == "no-secret" { RecipientOnionFields::spontaneous_empty(total) } else { RecipientOnionFields::secret_only(secret, total) };
			let sent = guarded(AssertUnwindSafe(|| send_raw(w, from, chan, hash, onion, amt, 80)));
			let add = match sent { Ok(Ok(a)) => a, Ok(Err(_)) => { self.dead = true; rec.discarded += 1; return; }, Err(_) => { self.dead = true; w.bad = true; rec.discarded += 1; return; } };
			let id = w.rank[chan] * 1_000_000 + add.htlc_id;
			let desc = format!("{} part id={} amt={} total_msat={} min={} secret={} hash={} (held valid parts {:?})", what, id, amt, total, self.min, hex(&secret.0), hex(&hash.0), self.held);
			if let Err(m) = self.drive(w, |_| {}) { rec.oracle_fail(format!("panic while receiving a {}: {}", desc, short(&m))); return; }
			let seen = observe(w, &self.hash, tpos, epos);
			if !seen.claimable.is_empty() || !seen.fulfils.is_empty() || !seen.claimed.is_empty() { rec.oracle_fail(format!("a {} produced {}", desc, seen.answer())); }
			if seen.fails != vec![id] { rec.oracle_fail(format!("a {} was not (only) failed back: {}", desc, seen.answer())); }
			// the routing selection of create_recv_pending_htlc_info (translated: MppGen.recvRouting): without payment_data and
			// without keysend preimage the HTLC is refused with PaymentSecretRequired; with payment_data it goes to the payment logic
			let secret_required = seen.handling_failed.iter().any(|t| t.contains("PaymentSecretRequired"));
			let reached_logic = seen.handling_failed.iter().any(|t| t.contains("Receive") && t.contains("IncorrectPaymentDetails"));
			let ans = if secret_required { "err PaymentSecretRequired" } else if reached_logic { "invoice" } else { "other" };
			if (what == "no-secret") != secret_required { rec.oracle_fail(format!("a {} was {} (PaymentSecretRequired is due exactly when the onion has neither payment_data nor a keysend preimage): {:?}", desc, ans, seen.handling_failed)); }
			rec.case(&format!("routing none {}", (what != "no-secret") as u8), ans, &format!("routing:{}", ans.replace(' ', "-")), true);
			*bad.entry(format!("unmodelled:{}:{}", what, if seen.fails == vec![id] { "failed" } else { "NOT-failed" })).or_insert(0) += 1;
			self.absorb(w, rec, &seen, what);
		}

		/// leave the receiver clean for the next scenario (not recorded: the next op is `new`)
		fn finish(mut self, w: &mut World) {
			if self.stuck { w.bad = true; }
			if w.bad { return; }
			let hash = self.hash;
			let _ = self.drive(w, |w| w.net.nodes[RECV].node.fail_htlc_backwards(&hash));
			if w.bad { return; }
			let seen = observe(w, &self.hash, 0, 0);
			for i in &seen.fails { w.failed.insert(*i); }
			for i in &seen.fulfils { w.fulfilled.insert(*i); }
			if w.recv_has_pending_htlcs() || !w.net.closed.is_empty() { if std::env::var("C04MPP_WHY").is_ok() { eprintln!("FINISHBAD pending={} closed={:?} [{}] {}", w.recv_has_pending_htlcs(), w.net.closed.iter().map(|c| short(&c.1)).collect::<Vec<_>>(), self.kind, self.history()); } w.bad = true; }
		}
	}

	// ------------------------------------------------------------------------------------------------
	// schedule generators
	// ------------------------------------------------------------------------------------------------

	fn split(rng: &mut Rng, total: u64, k: usize) -> Vec<u64> {
		// k amounts >= 1000 msat (the channels' htlc_minimum_msat) summing to total
		let mut v = vec![1000u64; k];
		let mut rest = total - 1000 * k as u64;
		for i in 0..k - 1 { let x = rng.below(rest + 1); v[i] += x; rest -= x; }
		v[k - 1] += rest;
		v
	}

	fn pick_total(rng: &mut Rng, k: usize) -> u64 {
		let lo = 1000 * k as u64;
		match rng.below(10) { 0 => lo, 1 | 2 => lo + rng.below(5_000), 3 => 1_000_000 + rng.below(20_000_000), _ => lo + 10_000 + rng.below(3_000_000) }
	}

	fn pick_min(rng: &mut Rng, total: u64) -> Option<u64> {
		match rng.below(4) { 0 => None, 1 => Some(total), 2 => Some(1 + rng.below(total)), _ => Some(total / 2 + 1) }
	}

	/// `lsp`: indices into `routes` of the intercepting node's channels (empty: no such node in this network)
	struct Gen<'a> { rng: &'a mut Rng, routes: usize, lsp: Vec<usize> }
	fn lsp_routes(w: &World) -> Vec<usize> { if w.lsp_in.is_none() { vec![] } else { (0..w.routes.len()).filter(|r| w.routes[*r].0 == 2).collect() } }
	impl<'a> Gen<'a> {
		fn delta(&mut self) -> u32 { 60 + self.rng.below(50) as u32 }
		/// what the intercepting node keeps (> 0) or adds (< 0) when it releases a part of `amt` msat; the forwarded amount
		/// stays at or above the channels' 1000 msat htlc minimum
		fn skim(&mut self, amt: u64) -> i64 {
			let room = amt.saturating_sub(1000);
			match self.rng.below(8) {
				0 => 0,
				1 => -(1 + self.rng.below(5_000) as i64),
				2 => -(1 + self.rng.below(amt.max(2)) as i64),
				3 => room.min(1) as i64,
				4 => room as i64,
				_ => if room == 0 { 0 } else { 1 + self.rng.below(room.min(20_000)) as i64 },
			}
		}
		/// in a network with an intercepting last hop about half of the parts go through it (skimmed / over-paid / exact)
		fn parts(&mut self, amts: &[u64], total: u64, tlv: Tlv, same_delta: bool) -> Vec<PartSpec> {
			let d0 = self.delta();
			let mut out = vec![];
			for a in amts {
				let mut route = self.rng.below(self.routes as u64) as usize;
				let mut via = None; let mut strict = false;
				if !self.lsp.is_empty() && self.rng.chance(1, 2) { route = *self.rng.pick(&self.lsp); via = Some(self.skim(*a)); strict = self.rng.chance(1, 14); }
				// 1 in 7 skimming forwards declares one msat less / one more / nothing / much more than was taken
				let declare = match via { Some(x) if x > 0 && self.rng.chance(1, 7) => match self.rng.below(4) { 0 => -1, 1 => 1, 2 => -x, _ => 1 + self.rng.below(100_000) as i64 }, _ => 0 };
				out.push(PartSpec { route, amt: *a, total, delta: if same_delta { d0 } else { self.delta() }, sec: 0, tlv, via, strict, declare, ks: 0, nosec: false });
			}
			out
		}
		/// every part through the intercepting node when there is one
		fn parts_via(&mut self, amts: &[u64], total: u64, over: bool) -> Vec<PartSpec> {
			let mut ps = self.parts(amts, total, Tlv::No, false);
			for p in ps.iter_mut() {
				p.delta = 60 + (p.delta - 60) % 7;
				p.strict = false;
				if !self.lsp.is_empty() {
					p.route = *self.rng.pick(&self.lsp);
					let sk = self.skim(p.amt);
					let keep = (sk.unsigned_abs()).min(p.amt.saturating_sub(1000)) as i64;
					p.via = Some(if over { -(sk.abs().max(1)) } else if self.rng.chance(1, 6) { sk } else { keep });
					p.declare = match p.via { Some(x) if x > 0 && self.rng.chance(1, 7) => match self.rng.below(4) { 0 => -1, 1 => 1, 2 => -x, _ => 1 + self.rng.below(100_000) as i64 }, _ => 0 };
				}
			}
			ps
		}
	}

	/// what to do with a complete (claimable) set; `ev`: the set carries an even TLV
	fn tail_complete(w: &mut World, rec: &mut Rec, rng: &mut Rng, s: &mut Scn, ev: bool, total: u64) {
		let known = if ev { rng.chance(1, 2) } else { rng.chance(1, 5) };
		match rng.below(12) {
			0 | 1 | 2 => s.op_claim(w, rec, known),
			3 => { s.op_claim(w, rec, known); s.op_claim(w, rec, rng.chance(1, 2)); },
			4 => { s.op_claim(w, rec, known); s.op_failback(w, rec); },
			5 => s.op_failback(w, rec),
			6 => { s.op_failback(w, rec); if rng.chance(1, 2) { s.op_claim(w, rec, known) } else { s.op_failback(w, rec) } },
			7 => { if rng.chance(1, 2) { tick_walk(w, rec, rng, s, ev); } else { for _ in 0..1 + rng.below(3) { s.op_tick(w, rec); } s.op_claim(w, rec, known); } },
			8 => { for _ in 0..1 + rng.below(3) { s.op_block(w, rec, None); } if rng.chance(1, 3) { s.op_tick(w, rec); } s.op_claim(w, rec, known); },
			_ => {
				// claim, then a brand-new part under the same hash starts a new set
				s.op_claim(w, rec, known);
				if s.dead { return; }
				let mut g = Gen { rng: &mut *rng, routes: w.routes.len(), lsp: lsp_routes(w) };
				let tlv = if ev && g.rng.chance(1, 2) { Tlv::Even(7) } else { Tlv::No };
				let amt = if total < 2001 || g.rng.chance(1, 2) { total } else { 1000 + g.rng.below(total - 2000) };
				let p = g.parts(&[amt], total, tlv, true).remove(0);
				let out = s.op_part(w, rec, &p);
				match (out, rng.below(3)) {
					(PartOut::Claimable, 0) => s.op_claim(w, rec, tlv.even().is_some() || rng.chance(1, 4)),
					(PartOut::Claimable, 1) => s.op_failback(w, rec),
					(PartOut::Claimable, _) => { s.op_tick(w, rec); s.op_claim(w, rec, true); },
					(PartOut::Held, 0) => s.op_failback(w, rec),
					(PartOut::Held, _) => { s.op_tick(w, rec); s.op_claim(w, rec, true); },
					_ => {},
				}
			},
		}
	}

	/// A complete set between its PaymentClaimable and the claim: timer ticks right away, then single blocks with 0-2 ticks
	/// after each up to a chosen height below the claim deadline (every tick and block must leave the set alone), then
	/// claim (must fulfil every part) / fail back / run into the deadline.
	fn tick_walk(w: &mut World, rec: &mut Rec, rng: &mut Rng, s: &mut Scn, ev: bool) {
		let d = match s.deadline { Some(d) => d, None => return };
		let h0 = w.height();
		for _ in 0..1 + rng.below(3) { s.op_tick(w, rec); }
		let last = d.saturating_sub(1).max(h0);
		let stop = match rng.below(5) { 0 => h0, 1 | 2 => last, _ => h0 + rng.below((last - h0) as u64 + 1) as u32 };
		let mut guard = 0;
		while !s.dead && w.height() < stop && guard < 120 {
			s.op_block(w, rec, None); guard += 1;
			for _ in 0..rng.below(3) { s.op_tick(w, rec); }
		}
		if s.dead { return; }
		let known = ev || rng.chance(1, 5);
		match rng.below(8) {
			0 => s.op_failback(w, rec),
			1 => { s.blocks_to(w, rec, d); s.op_tick(w, rec); s.op_claim(w, rec, known); },
			2 => { s.op_claim(w, rec, known); s.op_tick(w, rec); },
			_ => s.op_claim(w, rec, known),
		}
	}

	fn send_all(w: &mut World, rec: &mut Rec, rng: &mut Rng, s: &mut Scn, parts: &[PartSpec], blocks_between: bool) -> PartOut {
		let mut last = PartOut::Abort;
		for (i, p) in parts.iter().enumerate() {
			last = s.op_part(w, rec, p);
			if last == PartOut::Abort { break; }
			if blocks_between && i + 1 < parts.len() && rng.chance(1, 2) { for _ in 0..1 + rng.below(2) { s.op_block(w, rec, None); } }
		}
		last
	}

	const KINDS: &[(&str, u64)] = &[
		("exact", 22), ("overlast", 6), ("tick-between", 10), ("under", 9), ("over", 9), ("bad-total", 8), ("tlv-mix", 10), ("even-all", 8),
		("secret-mix", 6), ("deadline", 12), ("unmodelled", 9), ("during-claim", 7), ("skim", 24), ("skim-under", 7), ("overfwd", 7),
		("deadline-order", 9), ("min-cltv", 10), ("keysend", 12), ("restart", 9),
	];
	/// schedules that leave HTLCs stuck in the receiver's channels: run as the last scenario of a network
	const LAST_KINDS: &[&str] = &["claim-incomplete", "deadline-drop", "under-claim"];

	fn run_scenario(w: &mut World, rec: &mut Rec, rng: &mut Rng, kind: &'static str, bad: &mut BTreeMap<String, u64>) {
		let nroutes = w.routes.len();
		let lsp = lsp_routes(w);
		match kind {
			"exact" | "overlast" => {
				let k = 1 + rng.below(4) as usize;
				let total = pick_total(rng, k);
				let mut amts = split(rng, total, k);
				if kind == "overlast" { let i = rng.below(k as u64) as usize; amts[i] += 1 + rng.below(50_000); let l = amts.remove(i); amts.push(l); }
				let tlv = match rng.below(8) { 0 => Tlv::Odd(rng.below(4) as u8), _ => Tlv::No };
				let min = pick_min(rng, total);
				let mut s = Scn::new(w, rec, rng, kind, min, false, 7200);
				let mut g = Gen { rng: &mut *rng, routes: nroutes, lsp: lsp.clone() };
				let same = g.rng.chance(1, 2);
				let mut parts = g.parts(&amts, total, tlv, same);
				if tlv != Tlv::No { for p in parts.iter_mut() { if rng.chance(1, 2) { p.tlv = if rng.chance(1, 2) { Tlv::No } else { Tlv::Odd(rng.below(4) as u8) }; } } }
				let blocks = rng.chance(1, 3);
				if send_all(w, rec, rng, &mut s, &parts, blocks) == PartOut::Claimable { tail_complete(w, rec, rng, &mut s, false, total); }
				s.finish(w);
			},
			"skim" => {
				// every part through the intercepting node (skimmed fee, sometimes exact / over-paid): complete on the
				// sender-intended amounts although less arrived; ticks and blocks at every point up to the claim
				let k = 1 + rng.below(3) as usize;
				let total = pick_total(rng, k) + 1500 * k as u64;
				let mut amts = split(rng, total, k);
				if rng.chance(1, 5) { let i = rng.below(k as u64) as usize; amts[i] += 1 + rng.below(20_000); let l = amts.remove(i); amts.push(l); }
				let min = pick_min(rng, total);
				let mut s = Scn::new(w, rec, rng, kind, min, false, 7200);
				let mut g = Gen { rng: &mut *rng, routes: nroutes, lsp: lsp.clone() };
				let parts = g.parts_via(&amts, total, false);
				let blocks = rng.chance(1, 4);
				if send_all(w, rec, rng, &mut s, &parts, blocks) == PartOut::Claimable {
					if rng.chance(1, 6) {
						// a late part (skimmed as well) is refused on its own and does not disturb the set
						let mut g = Gen { rng: &mut *rng, routes: nroutes, lsp: lsp.clone() };
						let extra = 2000 + g.rng.below(total);
						let p = g.parts_via(&[extra], total, false).remove(0);
						s.op_part(w, rec, &p);
					}
					tick_walk(w, rec, rng, &mut s, false);
				}
				s.finish(w);
			},
			"skim-under" | "overfwd" => {
				// the sender-intended amounts stay below total_msat: skim-under = less arrives than intended; overfwd = the
				// intercepting node forwards MORE than the onion says (what arrived may even exceed total_msat): not complete
				// either way, the timer tick fails everything
				let k = 1 + rng.below(3) as usize;
				let total = pick_total(rng, k + 1) + 1500 * (k as u64 + 1);
				let mut amts = split(rng, total, k + 1);
				amts.pop();
				let min = pick_min(rng, total);
				let mut s = Scn::new(w, rec, rng, kind, min, false, 7200);
				let mut g = Gen { rng: &mut *rng, routes: nroutes, lsp: lsp.clone() };
				let mut parts = g.parts_via(&amts, total, kind == "overfwd");
				if kind == "overfwd" && !lsp.is_empty() {
					// the first part alone brings more than the whole total
					let missing: u64 = total - amts[0];
					parts[0].via = Some(-((missing + rng.below(5_000)) as i64));
				}
				send_all(w, rec, rng, &mut s, &parts, false);
				match rng.below(4) {
					0 => s.op_failback(w, rec),
					1 => { s.op_block(w, rec, None); s.op_tick(w, rec); },
					_ => { s.op_tick(w, rec); if rng.chance(1, 3) { s.op_tick(w, rec); } },
				}
				s.finish(w);
			},
			"tick-between" => {
				let k = 2 + rng.below(3) as usize;
				let total = pick_total(rng, k);
				let amts = split(rng, total, k);
				let j = 1 + rng.below(k as u64 - 1) as usize;
				let min = pick_min(rng, total);
				let mut s = Scn::new(w, rec, rng, kind, min, false, 7200);
				let mut g = Gen { rng: &mut *rng, routes: nroutes, lsp: lsp.clone() };
				let parts = g.parts(&amts, total, Tlv::No, false);
				let blocks = rng.chance(1, 4);
				send_all(w, rec, rng, &mut s, &parts[..j], blocks);
				s.op_tick(w, rec);
				if rng.chance(1, 4) { s.op_tick(w, rec); }
				if rng.chance(1, 2) {
					// the remaining parts start a new, incomplete, set
					send_all(w, rec, rng, &mut s, &parts[j..], false);
					match rng.below(3) { 0 => s.op_failback(w, rec), 1 => { s.op_tick(w, rec); s.op_claim(w, rec, false); }, _ => { s.op_block(w, rec, None); s.op_tick(w, rec); } }
				} else {
					let amts2 = split(rng, total, k);
					let mut g = Gen { rng: &mut *rng, routes: nroutes, lsp: lsp.clone() };
					let parts2 = g.parts(&amts2, total, Tlv::No, false);
					if send_all(w, rec, rng, &mut s, &parts2, false) == PartOut::Claimable { tail_complete(w, rec, rng, &mut s, false, total); }
				}
				s.finish(w);
			},
			"under" | "under-claim" | "claim-incomplete" => {
				let k = 1 + rng.below(3) as usize;
				let total = pick_total(rng, k + 1);
				let mut amts = split(rng, total, k + 1);
				amts.pop();
				let min = pick_min(rng, total);
				let mut s = Scn::new(w, rec, rng, kind, min, false, 7200);
				let mut g = Gen { rng: &mut *rng, routes: nroutes, lsp: lsp.clone() };
				let mut parts = g.parts(&amts, total, Tlv::No, false);
				// claim_funds on an incomplete set whose parts are not in (channel_id, htlc_id) order trips a
				// debug_assert (see probe_unsorted_incomplete_claim): keep arrival order sorted for the claiming kinds
				// (the intercepting node picks its outbound channel itself: only direct parts have a predictable order)
				if kind != "under" { for p in parts.iter_mut() { p.via = None; p.strict = false; p.declare = 0; } parts.sort_by_key(|p| w.rank[w.routes[p.route % nroutes].1]); }
				let blocks = rng.chance(1, 4);
				send_all(w, rec, rng, &mut s, &parts, blocks);
				if kind == "under" {
					match rng.below(5) {
						0 | 1 => s.op_tick(w, rec),
						2 => { s.op_tick(w, rec); s.op_tick(w, rec); s.op_claim(w, rec, false); },
						3 => s.op_failback(w, rec),
						_ => { s.op_failback(w, rec); s.op_tick(w, rec); s.op_failback(w, rec); },
					}
				} else {
					// claim_funds on an incomplete set: the entry is removed and the HTLCs are dropped, not failed
					if kind == "under-claim" { s.op_block(w, rec, None); }
					s.op_claim(w, rec, rng.chance(1, 2));
					if !s.dead { s.op_tick(w, rec); }
				}
				s.finish(w);
			},
			"over" => {
				let k = 1 + rng.below(3) as usize;
				let total = pick_total(rng, k);
				let amts = split(rng, total, k);
				let min = pick_min(rng, total);
				let mut s = Scn::new(w, rec, rng, kind, min, false, 7200);
				let mut g = Gen { rng: &mut *rng, routes: nroutes, lsp: lsp.clone() };
				let parts = g.parts(&amts, total, Tlv::No, false);
				if send_all(w, rec, rng, &mut s, &parts, false) == PartOut::Claimable {
					for _ in 0..1 + rng.below(2) {
						let mut g = Gen { rng: &mut *rng, routes: nroutes, lsp: lsp.clone() };
						let extra = 1000 + g.rng.below(total);
						let p = g.parts(&[extra], total, Tlv::No, true).remove(0);
						s.op_part(w, rec, &p);
						if rng.chance(1, 4) { s.op_tick(w, rec); }
					}
					tail_complete(w, rec, rng, &mut s, false, total);
				}
				s.finish(w);
			},
			"bad-total" => {
				let k = 2 + rng.below(2) as usize;
				let total = pick_total(rng, k) + 2000;
				let amts = split(rng, total, k);
				let min = pick_min(rng, total).map(|m| m.min(total - 1000));
				let mut s = Scn::new(w, rec, rng, kind, min, false, 7200);
				let mut g = Gen { rng: &mut *rng, routes: nroutes, lsp: lsp.clone() };
				let mut parts = g.parts(&amts, total, Tlv::No, false);
				// one part announces another total_msat (still >= the invoice minimum): refused by check_merge
				let other = if rng.chance(1, 2) { total + 1 + rng.below(5000) } else { (total - 1 - rng.below(1000)).max(s.min) };
				let at = 1 + rng.below(k as u64) as usize; // after the first part; `k` = after completion
				let mut intruder = parts[at - 1].clone();
				intruder.total = other; intruder.route = rng.below(nroutes as u64) as usize;
				if other == total { intruder.total = total + 1; }
				parts.insert(at, intruder);
				if send_all(w, rec, rng, &mut s, &parts, false) != PartOut::Abort && s.claimable_set.is_some() { tail_complete(w, rec, rng, &mut s, false, total); }
				else if !s.dead { s.op_tick(w, rec); }
				s.finish(w);
			},
			"tlv-mix" | "even-all" => {
				let k = if kind == "even-all" { 1 + rng.below(3) as usize } else { 2 + rng.below(2) as usize };
				let total = pick_total(rng, k);
				let amts = split(rng, total, k);
				let v = rng.below(5) as u8;
				let base = if kind == "even-all" { if rng.chance(1, 4) { Tlv::Both(v, 1) } else { Tlv::Even(v) } } else { match rng.below(3) { 0 => Tlv::No, 1 => Tlv::Even(v), _ => Tlv::Both(v, 9) } };
				let min = pick_min(rng, total);
				let mut s = Scn::new(w, rec, rng, kind, min, false, 7200);
				let mut g = Gen { rng: &mut *rng, routes: nroutes, lsp: lsp.clone() };
				let mut parts = g.parts(&amts, total, base, false);
				if kind == "tlv-mix" {
					// parts after the first may differ in their ODD TLVs only; one intruder differs in the EVEN ones
					for p in parts.iter_mut().skip(1) { if rng.chance(1, 3) { p.tlv = match base.even() { None => Tlv::Odd(rng.below(4) as u8), Some(e) => if rng.chance(1, 2) { Tlv::Even(e) } else { Tlv::Both(e, rng.below(4) as u8) } }; } }
					let at = 1 + rng.below(k as u64) as usize;
					let mut intruder = parts[at - 1].clone();
					intruder.tlv = match base.even() { None => if rng.chance(1, 2) { Tlv::Even(v) } else { Tlv::Both(v, 3) }, Some(e) => match rng.below(3) { 0 => Tlv::No, 1 => Tlv::Odd(2), _ => Tlv::Even(e + 1) } };
					parts.insert(at, intruder);
				}
				send_all(w, rec, rng, &mut s, &parts, false);
				if s.claimable_set.is_some() { tail_complete(w, rec, rng, &mut s, base.even().is_some(), total); } else if !s.dead { s.op_failback(w, rec); }
				s.finish(w);
			},
			"secret-mix" => {
				let k = 2 + rng.below(2) as usize;
				let total = pick_total(rng, k);
				let amts = split(rng, total, k);
				let min = pick_min(rng, total);
				let mut s = Scn::new(w, rec, rng, kind, min, true, 7200);
				let mut g = Gen { rng: &mut *rng, routes: nroutes, lsp: lsp.clone() };
				let mut parts = g.parts(&amts, total, Tlv::No, false);
				let main = rng.below(2) as usize;
				for p in parts.iter_mut() { p.sec = main; }
				let at = 1 + rng.below(k as u64) as usize;
				let mut intruder = parts[at - 1].clone();
				intruder.sec = 1 - main;
				parts.insert(at, intruder);
				send_all(w, rec, rng, &mut s, &parts, false);
				if s.claimable_set.is_some() { tail_complete(w, rec, rng, &mut s, false, total); } else if !s.dead { s.op_tick(w, rec); }
				s.finish(w);
			},
			"deadline" | "deadline-drop" => {
				let k = if kind == "deadline-drop" { 2 + rng.below(2) as usize } else { 1 + rng.below(3) as usize };
				let total = pick_total(rng, k);
				let amts = split(rng, total, k);
				let min = pick_min(rng, total);
				let mut s = Scn::new(w, rec, rng, kind, min, false, 7200);
				let mut g = Gen { rng: &mut *rng, routes: nroutes, lsp: lsp.clone() };
				let same = kind == "deadline" && g.rng.chance(1, 2);
				let mut parts = g.parts(&amts, total, Tlv::No, same);
				for p in parts.iter_mut() { p.delta = 60 + (p.delta - 60) % 7; }
				if kind == "deadline-drop" { parts[0].delta = 60; parts[1].delta = 63 + rng.below(4) as u32; }
				let blocks = rng.chance(1, 4);
				if send_all(w, rec, rng, &mut s, &parts, blocks) == PartOut::Claimable {
					let d = s.deadline.unwrap_or(0);
					if kind == "deadline" && rng.chance(1, 2) {
						// last height at which the claim is still honoured
						s.blocks_to(w, rec, d - 1 - if rng.chance(1, 4) { rng.below(3) as u32 } else { 0 });
						s.op_claim(w, rec, rng.chance(1, 5));
					} else {
						// the block that reaches the deadline fails the parts whose own cltv - 39 <= height
						s.blocks_to(w, rec, d);
						if s.held.is_empty() { s.op_claim(w, rec, false); if rng.chance(1, 2) { s.op_failback(w, rec); } }
						else if kind == "deadline-drop" { s.op_claim(w, rec, rng.chance(1, 2)); }
						else {
							match rng.below(3) {
								0 => s.op_failback(w, rec),
								1 => { s.op_tick(w, rec); s.op_claim(w, rec, false); },
								_ => { let last = s.held.iter().map(|h| h.cltv).max().unwrap_or(0).saturating_sub(HTLC_FAIL_BACK_BUFFER); s.blocks_to(w, rec, last); s.op_claim(w, rec, false); },
							}
						}
					}
				}
				s.finish(w);
			},
			"deadline-order" => {
				// 2-3 direct parts over DISTINCT channels with DIFFERENT final CLTV expiries; the earliest-expiring part sits on
				// the numerically lowest channel id (`lo_first`) or not (then it is not the first element of the sorted set), in
				// either arrival order; then single blocks up to the ADVERTISED claim_deadline - 1 and claim_funds: every part
				// must still be there and be fulfilled (oracles: claim_deadline = min cltv - 39, no fail-back below it, claim total)
				let k = (2 + rng.below(2) as usize).min(nroutes);
				let total = pick_total(rng, k);
				let amts = split(rng, total, k);
				let min = pick_min(rng, total);
				let mut s = Scn::new(w, rec, rng, kind, min, false, 7200);
				let mut by_rank: Vec<usize> = (0..nroutes).collect();
				by_rank.sort_by_key(|r| w.rank[w.routes[*r].1]);
				// k distinct routes, in channel-id order
				while by_rank.len() > k { let i = rng.below(by_rank.len() as u64) as usize; by_rank.remove(i); }
				let lo_first = rng.chance(1, 3);
				let base = 60 + rng.below(5) as u32;
				let mut deltas: Vec<u32> = vec![base];
				for i in 1..k { let d = deltas[i - 1] + 1 + rng.below(6) as u32; deltas.push(d); }
				// deltas ascending = the earliest expiry on the lowest channel id; otherwise move the earliest one off the front
				if !lo_first { if k == 3 && rng.chance(1, 2) { deltas.swap(0, 1); } else { deltas.reverse(); } }
				let mut parts: Vec<PartSpec> = (0..k).map(|i| PartSpec { route: by_rank[i], amt: amts[i], total, delta: deltas[i], sec: 0, tlv: Tlv::No, via: None, strict: false, declare: 0, ks: 0, nosec: false }).collect();
				// arrival order: any
				for i in (1..parts.len()).rev() { let j = rng.below(i as u64 + 1) as usize; parts.swap(i, j); }
				if send_all(w, rec, rng, &mut s, &parts, false) == PartOut::Claimable {
					let d = s.deadline.unwrap_or(0);
					if rng.chance(1, 4) { s.op_tick(w, rec); }
					s.blocks_to(w, rec, d.saturating_sub(1));
					if rng.chance(1, 4) { s.op_tick(w, rec); }
					s.op_claim(w, rec, rng.chance(1, 5));
				}
				s.finish(w);
			},
			"during-claim" => {
				// the whole set arrives over ONE channel; a late part comes over another one while the claim is in flight
				let k = 1 + rng.below(2) as usize;
				let total = pick_total(rng, k);
				let amts = split(rng, total, k);
				let min = pick_min(rng, total);
				let ev = rng.chance(1, 4);
				let tlv = if ev { Tlv::Even(3) } else { Tlv::No };
				let mut s = Scn::new(w, rec, rng, kind, min, false, 7200);
				let mut g = Gen { rng: &mut *rng, routes: nroutes, lsp: lsp.clone() };
				let mut parts = g.parts(&amts, total, tlv, false);
				let r0 = parts[0].route;
				for p in parts.iter_mut() { p.route = r0; }
				if send_all(w, rec, rng, &mut s, &parts, false) == PartOut::Claimable {
					let mut g = Gen { rng: &mut *rng, routes: nroutes, lsp: lsp.clone() };
					let amt = if g.rng.chance(1, 2) { total } else { 1000 + g.rng.below(total) };
					let mut late = g.parts(&[amt], total, tlv, true).remove(0);
					late.route = (r0 + 1 + rng.below(nroutes as u64 - 1) as usize) % nroutes;
					late.via = None; late.strict = false;
					s.op_claim_with_late_part(w, rec, ev || rng.chance(1, 5), &late);
					// afterwards the hash is free again
					if !s.dead && rng.chance(1, 2) {
						let mut g = Gen { rng: &mut *rng, routes: nroutes, lsp: lsp.clone() };
						let p = g.parts(&[total], total, Tlv::No, true).remove(0);
						if s.op_part(w, rec, &p) == PartOut::Claimable { if rng.chance(1, 2) { s.op_claim(w, rec, false) } else { s.op_failback(w, rec) } }
					}
				}
				s.finish(w);
			},
			"restart" => {
				// the recipient is written and reloaded between part k and k+1 of an MPP (and sometimes again between PaymentClaimable
				// and the claim): all-or-nothing and the claim_deadline (= min cltv - buffer over ALL parts, also those received before
				// the reload) must be what they are without the reload (the usual oracles of op_part / op_claim)
				let k = 2 + rng.below(2) as usize;
				let total = pick_total(rng, k);
				let amts = split(rng, total, k);
				let min = pick_min(rng, total);
				let mut s = Scn::new(w, rec, rng, kind, min, false, 7200);
				let mut g = Gen { rng: &mut *rng, routes: nroutes, lsp: lsp.clone() };
				let mut parts = g.parts(&amts, total, Tlv::No, false);
				for p in parts.iter_mut() { p.strict = false; p.declare = 0; if rng.chance(1, 4) { p.via = None; } }
				let at = rng.below(k as u64 - 1) as usize;
				let mut last = PartOut::Abort;
				for (i, p) in parts.iter().enumerate() {
					last = s.op_part(w, rec, p);
					if last == PartOut::Abort { break; }
					if i == at || (i + 1 < parts.len() && rng.chance(1, 4)) { s.op_restart(w, rec); if rng.chance(1, 3) { s.op_block(w, rec, None); } }
				}
				if s.dead { last = PartOut::Abort; }
				if last == PartOut::Claimable {
					if rng.chance(1, 2) { s.op_restart(w, rec); }
					if !s.dead { tail_complete(w, rec, rng, &mut s, false, total); }
				} else if !s.dead { if rng.chance(1, 2) { s.op_tick(w, rec) } else { s.op_failback(w, rec) } }
				s.finish(w);
			},
			"keysend" => {
				// spontaneous payments (the onion carries a keysend preimage; inbound_payment::verify is skipped): alone without a payment
				// secret, as MPP with one, with a preimage that does not hash to the payment hash (refused before the payment logic),
				// and against a pending invoice payment of the SAME hash and secret in both orders (purpose mismatch: the later part is refused)
				let variant = rng.below(7);
				let k = if variant == 0 || variant == 2 { 1 } else { 2 };
				let total = pick_total(rng, k);
				let amts = split(rng, total, k);
				let mut s = Scn::new(w, rec, rng, kind, None, false, 7200);
				let mut g = Gen { rng: &mut *rng, routes: nroutes, lsp: lsp.clone() };
				let mut parts = g.parts(&amts, total, Tlv::No, false);
				for p in parts.iter_mut() { p.via = None; p.strict = false; p.declare = 0; p.ks = 1; }
				let mut last = PartOut::Abort;
				match variant {
					0 => { parts[0].nosec = true; parts[0].total = parts[0].amt; last = s.op_part(w, rec, &parts[0]); },
					1 => { last = send_all(w, rec, rng, &mut s, &parts, true); },
					2 => {
						// wrong preimage alone (with or without secret), then the right one
						let mut bad = parts[0].clone(); bad.ks = 2; bad.nosec = rng.chance(1, 2); if bad.nosec { bad.total = bad.amt; }
						if s.op_part(w, rec, &bad) != PartOut::Abort { let mut good = bad.clone(); good.ks = 1; last = s.op_part(w, rec, &good); }
					},
					3 => {
						// keysend part held, wrong-preimage part refused, keysend part completes
						let mut bad = parts[1].clone(); bad.ks = 2;
						if s.op_part(w, rec, &parts[0]) != PartOut::Abort && s.op_part(w, rec, &bad) != PartOut::Abort { last = s.op_part(w, rec, &parts[1]); }
					},
					4 | 5 => {
						// keysend part held, then an invoice part of the same hash, secret and total_msat: refused (never merged); then the keysend part
						let mut inv = parts[1].clone(); inv.ks = 0;
						if s.op_part(w, rec, &parts[0]) != PartOut::Abort && s.op_part(w, rec, &inv) != PartOut::Abort { last = s.op_part(w, rec, &parts[1]); }
					},
					_ => {
						// the other way round: invoice part held, keysend part refused, invoice part completes
						let mut i0 = parts[0].clone(); i0.ks = 0; let mut i1 = parts[1].clone(); i1.ks = 0;
						if s.op_part(w, rec, &i0) != PartOut::Abort && s.op_part(w, rec, &parts[1]) != PartOut::Abort { last = s.op_part(w, rec, &i1); }
					},
				}
				if last == PartOut::Claimable { tail_complete(w, rec, rng, &mut s, false, total); }
				else if !s.dead { if rng.chance(1, 2) { s.op_tick(w, rec) } else { s.op_failback(w, rec) } }
				s.finish(w);
			},
			"min-cltv" => {
				// the secret commits to a min_final_cltv_expiry_delta M; 1-3 parts whose final CLTV deltas sit around the
				// acceptance boundary (HTLC expiry = sender height + 1 + delta, accepted iff expiry >= receiver height + M),
				// blocks in between (the boundary moves with the height); refused parts never reach the accumulator, the
				// others complete / are held as usual, then the usual tails
				let k = 1 + rng.below(3) as usize;
				let total = pick_total(rng, k);
				let amts = split(rng, total, k);
				let min = pick_min(rng, total);
				let m: u16 = 46 + rng.below(90) as u16;
				let mut s = Scn::new_cltv(w, rec, rng, kind, min, false, 7200, Some(m));
				let mut g = Gen { rng: &mut *rng, routes: nroutes, lsp: lsp.clone() };
				let mut parts = g.parts(&amts, total, Tlv::No, false);
				for p in parts.iter_mut() {
					// delta = M - 1 is the smallest accepted one
					let off: i64 = match rng.below(8) { 0 => -3, 1 | 2 => -2, 3 | 4 => -1, 5 => 0, 6 => 1, _ => 2 + rng.below(30) as i64 };
					p.delta = (m as i64 + off) as u32;
					p.strict = false; p.declare = 0;
					if let Some(x) = p.via { if x > 0 { p.via = Some(0); } }
				}
				let mut last = PartOut::Abort;
				let mut resend: Vec<PartSpec> = vec![];
				for (i, p) in parts.iter().enumerate() {
					last = s.op_part(w, rec, p);
					if last == PartOut::Abort { break; }
					if last == PartOut::Refused { let mut q = p.clone(); q.delta = m as u32 + 1 + rng.below(20) as u32; resend.push(q); }
					if i + 1 < parts.len() && rng.chance(1, 3) { s.op_block(w, rec, None); }
				}
				// the refused amounts again, now with an acceptable expiry: the set completes
				if last != PartOut::Abort && rng.chance(2, 3) {
					for q in resend.iter() { last = s.op_part(w, rec, q); if last == PartOut::Abort { break; } }
				}
				if last == PartOut::Claimable { tail_complete(w, rec, rng, &mut s, false, total); }
				else if !s.dead { if rng.chance(1, 2) { s.op_tick(w, rec) } else { s.op_failback(w, rec) } }
				s.finish(w);
			},
			"unmodelled" => {
				let total = pick_total(rng, 2) + 2;
				let amts = split(rng, total, 2);
				let min = Some(match rng.below(3) { 0 => total, 1 => total / 2 + 1, _ => 2 + rng.below(total - 1) });
				let what = *rng.pick(&["wrong-secret", "below-minimum", "expired-invoice", "no-secret", "no-secret"]);
				let mut s = Scn::new(w, rec, rng, kind, min, false, if what == "expired-invoice" { 1 } else { 7200 });
				let with_valid_first = rng.chance(1, 2);
				if with_valid_first {
					let mut g = Gen { rng: &mut *rng, routes: nroutes, lsp: lsp.clone() };
					let p = g.parts(&amts[..1], total, Tlv::No, true).remove(0);
					s.op_part(w, rec, &p);
				}
				let rest = if with_valid_first { amts[1] } else { total };
				let route = rng.below(nroutes as u64) as usize;
				let good = s.secrets[0];
				match what {
					"wrong-secret" => { let mut x = good; let b = rng.below(256) as usize; x.0[b / 8] ^= 1 << (b % 8); s.bad_part(w, rec, what, route, rest, total, x, bad); },
					"no-secret" => { s.bad_part(w, rec, what, route, rest, total, good, bad); },
					"below-minimum" => { let low = s.min - 1 - rng.below(s.min.min(1000)); let low = low.max(1); s.bad_part(w, rec, what, route, rest.min(low).max(1000), low, good, bad); },
					_ => {
						// move the receiver's clock past the invoice expiry (creation time + 1 s + 7200 s of grace)
						w.clock += 7200 + 10;
						let t = w.clock;
						s.op_block(w, rec, Some(t));
						s.bad_part(w, rec, what, route, rest, total, good, bad);
					},
				}
				if !s.dead { if rng.chance(1, 2) { s.op_tick(w, rec) } else { s.op_failback(w, rec) } }
				s.finish(w);
			},
			_ => unreachable!(),
		}
	}

	// ------------------------------------------------------------------------------------------------
	// probes (never part of the compared stream)
	// ------------------------------------------------------------------------------------------------

	/// complete set -> a block removes some but not all parts -> a new part arrives -> claim:
	/// parts with different `total_value_received` reach `claim_payment_internal` (its `debug_assert!(false)` branch)
	fn probe_inconsistent_claim(rng: &mut Rng) -> String {
		let mut w = match build_world(rng, true) { Ok(w) => w, Err(e) => return format!("could not build the network: {}", short(&e)) };
		let mut scratch = Rec::new(&probe_dir(), "probe1");
		let mut s = Scn::new(&mut w, &mut scratch, rng, "probe", None, false, 7200);
		let total = 300_000;
		// the surviving part and the late part share a channel, so that the set stays in (channel_id, htlc_id) order
		let a = PartSpec { route: 0, amt: 100_000, total, delta: 60, sec: 0, tlv: Tlv::No, via: None, strict: false, declare: 0, ks: 0, nosec: false };
		let b = PartSpec { route: 1, amt: 200_000, total, delta: 66, sec: 0, tlv: Tlv::No, via: None, strict: false, declare: 0, ks: 0, nosec: false };
		s.op_part(&mut w, &mut scratch, &a);
		if s.op_part(&mut w, &mut scratch, &b) != PartOut::Claimable { std::mem::forget(w); return "set-up failed: the two parts did not become claimable".into(); }
		let d = s.deadline.unwrap_or(0);
		s.blocks_to(&mut w, &mut scratch, d);
		if s.held.len() != 1 { std::mem::forget(w); return format!("set-up failed: {} parts left after the deadline block", s.held.len()); }
		let c = PartSpec { route: 1, amt: 50_000, total, delta: 70, sec: 0, tlv: Tlv::No, via: None, strict: false, declare: 0, ks: 0, nosec: false };
		let o = s.op_part(&mut w, &mut scratch, &c);
		if o != PartOut::Held { std::mem::forget(w); return format!("set-up failed: the late part was {:?}", o); }
		let (tpos, epos) = (w.net.trace.len(), w.net.events[RECV].len());
		let pre = s.preimage;
		let r = s.drive(&mut w, |w| w.net.nodes[RECV].node.claim_funds(pre));
		let out = match r {
			Err(m) => format!("panicked in claim_funds: {}", short(&m)),
			Ok(()) => format!("no panic; claim_funds -> {}", observe(&w, &s.hash, tpos, epos).answer()),
		};
		std::mem::forget(w);
		out
	}

	/// claim_funds on an INCOMPLETE set whose parts arrived out of (channel_id, htlc_id) order:
	/// `begin_claiming_payment` -> `inbound_payment_id` -> `PaymentId::for_inbound_from_htlcs` (`debug_assert!(prev < ..)`)
	fn probe_unsorted_incomplete_claim(rng: &mut Rng) -> String {
		let mut w = match build_world(rng, true) { Ok(w) => w, Err(e) => return format!("could not build the network: {}", short(&e)) };
		let mut scratch = Rec::new(&probe_dir(), "probe3");
		let mut s = Scn::new(&mut w, &mut scratch, rng, "probe", None, false, 7200);
		let total = 300_000;
		// first the channel with the larger channel_id, then the smaller one
		let hi = if w.rank[w.routes[0].1] > w.rank[w.routes[1].1] { 0 } else { 1 };
		let a = PartSpec { route: hi, amt: 100_000, total, delta: 80, sec: 0, tlv: Tlv::No, via: None, strict: false, declare: 0, ks: 0, nosec: false };
		let b = PartSpec { route: 1 - hi, amt: 100_000, total, delta: 80, sec: 0, tlv: Tlv::No, via: None, strict: false, declare: 0, ks: 0, nosec: false };
		if s.op_part(&mut w, &mut scratch, &a) != PartOut::Held || s.op_part(&mut w, &mut scratch, &b) != PartOut::Held { std::mem::forget(w); return "set-up failed: the two parts were not held".into(); }
		let (tpos, epos) = (w.net.trace.len(), w.net.events[RECV].len());
		let pre = s.preimage;
		let r = s.drive(&mut w, |w| w.net.nodes[RECV].node.claim_funds(pre));
		let out = match r {
			Err(m) => format!("panicked in claim_funds: {}", short(&m)),
			Ok(()) => format!("no panic; claim_funds -> {} (both HTLCs stay pending in their channels)", observe(&w, &s.hash, tpos, epos).answer()),
		};
		std::mem::forget(w);
		out
	}

	fn probe_dir() -> std::path::PathBuf { std::env::temp_dir().join(format!("c04mpp-probe-{}", std::process::id())) }

	/// a complete, unclaimed payment receives 256 timer ticks (`MppPart::timer_ticks: u8`, `+= 1` per tick)
	fn probe_timer_ticks(rng: &mut Rng) -> String {
		let mut w = match build_world(rng, true) { Ok(w) => w, Err(e) => return format!("could not build the network: {}", short(&e)) };
		let mut scratch = Rec::new(&probe_dir(), "probe2");
		let mut s = Scn::new(&mut w, &mut scratch, rng, "probe", None, false, 7200);
		let a = PartSpec { route: 0, amt: 100_000, total: 100_000, delta: 100, sec: 0, tlv: Tlv::No, via: None, strict: false, declare: 0, ks: 0, nosec: false };
		if s.op_part(&mut w, &mut scratch, &a) != PartOut::Claimable { std::mem::forget(w); return "set-up failed: the part did not become claimable".into(); }
		let mut out = "survived 256 ticks; the payment stayed claimable".to_string();
		for i in 1..=256u32 {
			let r = guarded(AssertUnwindSafe(|| w.net.nodes[RECV].node.timer_tick_occurred()));
			if let Err(m) = r { out = format!("panicked at tick {}: {}", i, short(&m)); break; }
		}
		if out.starts_with("survived") {
			let (tpos, epos) = (w.net.trace.len(), w.net.events[RECV].len());
			let pre = s.preimage;
			let r = s.drive(&mut w, |w| w.net.nodes[RECV].node.claim_funds(pre));
			out = match r { Ok(()) => format!("survived 256 ticks; claim_funds afterwards -> {}", observe(&w, &s.hash, tpos, epos).answer()), Err(m) => format!("survived 256 ticks; claim_funds afterwards panicked: {}", short(&m)) };
		}
		std::mem::forget(w);
		out
	}

	// ------------------------------------------------------------------------------------------------

	pub fn mpp_model(args: &Args) {
		silence_stdout();
		let mut rec = Rec::new(&args.out, "c04mpp");
		let mut rng = Rng::new(args.seed);
		let n_scen: u64 = if args.thorough { 3400 } else { 600 } * args.scale;
		let per_world: u32 = if args.thorough { 40 } else { 30 };
		let weight_total: u64 = KINDS.iter().map(|k| k.1).sum();
		let mut kinds: BTreeMap<String, u64> = BTreeMap::new();
		let mut bad_classes: BTreeMap<String, u64> = BTreeMap::new();
		let (mut worlds, mut abandoned, mut build_failures) = (0u64, 0u64, 0u64);
		let mut world: Option<World> = None;
		let mut done = 0u64;
		while done < n_scen {
			if world.is_none() {
				match build_world(&mut rng, false) { Ok(w) => { world = Some(w); worlds += 1; }, Err(_) => { build_failures += 1; if build_failures > 20 { break; } continue; } }
			}
			let w = world.as_mut().unwrap();
			let last = w.used >= per_world;
			let kind: &'static str = if last { *rng.pick(LAST_KINDS) } else {
				let mut x = rng.below(weight_total);
				let mut k = KINDS[0].0;
				for (name, wt) in KINDS { if x < *wt { k = name; break; } x -= wt; }
				k
			};
			run_scenario(w, &mut rec, &mut rng, kind, &mut bad_classes);
			*kinds.entry(kind.to_string()).or_insert(0) += 1;
			done += 1;
			if w.bad || last {
				if w.bad && !last { abandoned += 1; }
				std::mem::forget(world.take());
			}
		}
		if let Some(w) = world.take() { std::mem::forget(w); }
		for (k, v) in bad_classes.iter() { *rec.classes.entry(k.clone()).or_insert(0) += *v; }
		// probes
		let p1 = probe_inconsistent_claim(&mut rng);
		let p2 = probe_timer_ticks(&mut rng);
		let p3 = probe_unsorted_incomplete_claim(&mut rng);
		let _ = std::fs::remove_dir_all(probe_dir());
		rec.notes.insert("probe_unsorted_incomplete_claim".into(), p3);
		rec.notes.insert("probe_inconsistent_claim".into(), p1);
		rec.notes.insert("probe_timer_ticks_u8".into(), p2);
		let ks: Vec<String> = kinds.iter().map(|(k, v)| format!("{}={}", k, v)).collect();
		rec.notes.insert("rule".into(), format!(
			"{} scenarios (one fresh invoice / payment hash each) on {} real networks (sender, receiver with accept_underpaying_htlcs, 2-3 parallel channels; in 3 of 5 networks a third node that is a second sender AND an intercepting last hop: a part sent 0 -> 2 -> receiver over its intercept scid is released by the harness with forward_intercepted_htlc at onion amount - x, x > 0 a skimmed fee (skimmed_fee_msat TLV, value < sender_intended), x < 0 an over-payment, x = 0 exact; about half of the parts of EVERY schedule take that way, 1 in 14 of them while the receiver refuses underpaying HTLCs on that channel (update_channel_config) - the `admit` op; {} abandoned after a panic/protocol error, every network retired after {} scenarios with a schedule that leaves HTLCs dropped). \
	Every part is its own single-path payment with the same hash+secret and a chosen total_msat; after each op everything is delivered and the receiver's update_fail/update_fulfill/PaymentClaimable/PaymentClaimed are recorded. \
	Schedules: {}. exact = 1-4 part split in random order over random channels with random final CLTV deltas, blocks between parts; overlast = last part overshoots; tick-between = timer tick fails the held parts, later parts start a new set; under = under-payment then tick/failback; \
	over = extra part(s) after completion; bad-total = a part with another total_msat; tlv-mix = even/odd custom TLV mismatches; even-all = same even TLV on all parts then claim 0 / claim 1; secret-mix = second valid secret for the same hash; \
	during-claim = the set arrives over one channel, claim_funds runs with the receiver's monitor updates held InProgress on that channel, a new part arrives over another channel (failed: the hash is in pending_claiming_payments), then the updates complete (fulfils + PaymentClaimed are attributed to the claim line, the late part's failure to its part line); deadline-order = 2-3 direct parts over distinct channels with different final CLTV expiries, the earliest-expiring one on the lowest channel id or (2 of 3) not, any arrival order, single blocks up to the ADVERTISED claim_deadline-1, then claim (must fulfil all); deadline = single blocks up to claim_deadline-1 then claim, or up to claim_deadline (parts fail by their own cltv) then claim/failback/tick/more blocks; claim-incomplete, under-claim, deadline-drop = claims that drop HTLCs silently (network abandoned afterwards); \
	complete sets end with claim / double claim / claim+failback / failback / failback+claim / ticks+claim / blocks+claim / claim+new part under the same hash. \
	skim = every part through the intercepting node, complete on the sender-intended amounts although less arrived, then 1-3 timer ticks, single blocks with 0-2 ticks after each up to a chosen height <= claim_deadline-1, then claim / claim+tick / failback / run into the deadline (half of the ticks+claim tails of the other schedules do the same walk); skim-under = skimmed parts that stay below total_msat, then tick / block+tick / failback; overfwd = over-paying forwards whose VALUES reach total_msat while the sender-intended amounts do not (held, failed by the tick); unmodelled (impl oracle, op `routing` only, no part op): wrong payment secret (1 bit flipped), total_msat below the invoice minimum, expired invoice, an onion without payment secret and without keysend preimage (refused with PaymentSecretRequired), each alone or as the completing part of a held set. Impl oracles: PaymentClaimable only for complete sets (sum intended >= total_msat) with amount = sum of values, counterparty_skimmed_fee_msat = sum of skims, deadline = min cltv - 39, and conversely a set that completes IS announced; a PaymentClaimable set loses no HTLC to a timer tick or a block below its claim_deadline (message carries the op history); an incomplete set is failed by the tick; claim below the deadline fulfils every part and yields PaymentClaimed with the announced amount / skim / total_msat and balance delta = amount; the receive-side amount test matches value (+ skim when allowed) >= onion amount; keysend = spontaneous payments sent through the keysend hook (preimage in the onion, hash chosen by the harness): alone without payment secret, as 2-part MPP with one, with a preimage that does not hash to the payment hash (op `routing bad ..`, oracle: refused with InvalidKeysendPreimage, never claimable), and against a held invoice part of the same hash / secret / total_msat in both orders (the later part is refused; oracle: a PaymentClaimable never covers keysend and invoice HTLCs together and carries the purpose of its parts); restart = the receiver is serialized and reloaded (manager + monitors, peers reconnect) between part k and k+1 of a 2-3 part MPP and sometimes between PaymentClaimable and the claim (op `restart`, oracle: the reload fails / fulfils / announces nothing; completion, claim_deadline and all-or-nothing oracles as usual afterwards); min-cltv = the secret commits to a min_final_cltv_expiry_delta M, 1-3 parts with final CLTV deltas M-4..M+30 around the boundary (op `mincltv height M cltv_expiry`, oracle: failed back iff cltv_expiry < receiver height + M, never shown to the user), blocks between, refused amounts re-sent with an acceptable expiry. Three probes on throw-away networks are in the notes (never in the compared stream): probe_inconsistent_claim, probe_timer_ticks_u8, probe_unsorted_incomplete_claim. distinct = distinct non-trivial op lines",
			done, worlds, abandoned, per_world, ks.join(" ")));
		rec.finish();
	}
}
