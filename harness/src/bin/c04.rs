//! C04 — inbound payments: authentic (stateless payment secrets) and complete (MPP accumulator).
//!
//! model `c04secret` (public `inbound_payment::{create, create_from_hash}`, hooks for the crate-private
//! `verify` / `create_for_spontaneous_payment`), byte-exact against the Lean driver with real
//! SHA-256 / HMAC / ChaCha20:
//!   keys <info> <ldk> <user> <spont> <meta>                         (directive: the expanded keys)
//!   create <min|none> <delta> <rand32> <now> <cltv|none> <md|none>   -> ok <hash> <secret> <md'|none> | err
//!   createhash <min|none> <hash> <delta> <rand32> <now> <cltv|none> <md|none> -> ok <secret> <md'|none> | err
//!   createspont <min|none> <delta> <now> <cltv|none>                 -> ok <secret> | err
//!   verify <hash> <secret> <total> <md|none> <now>                   -> ok <preimage|none> <cltv|none> <md|none> | err <Kind>
//! (`<Kind>` is recovered from the trace line `verify` logs before each `return Err(())`, so the ORDER
//! of the checks is compared, not only accept/reject.)
//!
//! model `c04mpp`: real nodes (scenario engine), what the receiver saw as op lines:
//!   new | part <id> <value> <intended> <total> <cltv> <tag> <ev> | tick | block <h> | claim <known> |
//!   claimdone | failback      -> inconsistent? claimable:<amt>:<deadline>? fail:<id>* fulfil:<id>* claimed:<amt>? | none
use ldk_verif_harness::common::*;
use std::panic::AssertUnwindSafe;
use std::sync::Mutex;

use bitcoin::hashes::{sha256, Hash};
use lightning::ln::inbound_payment::{self, ExpandedKey};
use lightning::ln::verif_hooks::inbound as vh;
use lightning::sign::EntropySource;
use lightning::types::payment::{PaymentHash, PaymentSecret};
use lightning::util::logger::{Logger, Record};

#[path = "c04/mpp.rs"]
mod mpp;

struct FixedEntropy(Mutex<[u8; 32]>);
impl EntropySource for FixedEntropy { fn get_secure_random_bytes(&self) -> [u8; 32] { *self.0.lock().unwrap() } }

/// keeps the trace lines of one `verify` call
struct RecLogger(Mutex<Vec<String>>);
impl Logger for RecLogger { fn log(&self, r: Record) { self.0.lock().unwrap().push(format!("{}", r.args)); } }

fn classify(lines: &[String]) -> &'static str {
	for l in lines {
		if l.contains("unknown payment type") { return "UnknownMethod"; }
		if l.contains("unexpected payment_secret") || l.contains("mismatching preimage") { return "BadMac"; }
		if l.contains("Shouldn't have a payment_metadata for a spontaneous") { return "SpontaneousMetadata"; }
		if l.contains("payment_metadata was shorter") { return "ShortMetadata"; }
		if l.contains("being less than the minimum amount") { return "AmountTooLow"; }
		if l.contains("expired payment") { return "Expired"; }
	}
	"Unlogged"
}

fn opt_u(x: Option<u64>) -> String { x.map(|v| v.to_string()).unwrap_or("none".into()) }
fn opt_b(x: &Option<Vec<u8>>) -> String { x.as_ref().map(|v| hex(v)).unwrap_or("none".into()) }

struct Ver { ok: bool, kind: &'static str, line: String }

fn do_verify(keys: &ExpandedKey, hash: &[u8; 32], secret: &[u8; 32], total: u64, md: &Option<Vec<u8>>, now: u64) -> Ver {
	let lg = RecLogger(Mutex::new(vec![]));
	let mut m = md.clone();
	let r = guarded(AssertUnwindSafe(|| vh::verify(PaymentHash(*hash), PaymentSecret(*secret), total, m.as_mut(), now, keys, &lg)));
	match r {
		Ok(Ok((pre, cltv))) => Ver { ok: true, kind: "ok", line: format!("ok {} {} {}", pre.map(|p| hex(&p.0)).unwrap_or("none".into()), opt_u(cltv.map(|c| c as u64)), opt_b(&m)) },
		Ok(Err(())) => { let k = classify(&lg.0.lock().unwrap()); Ver { ok: false, kind: k, line: format!("err {}", k) } },
		Err(p) => Ver { ok: false, kind: "panic", line: format!("panic {}", p.chars().take(60).collect::<String>()) },
	}
}

fn verify_case(rec: &mut Rec, keys: &ExpandedKey, hash: &[u8; 32], secret: &[u8; 32], total: u64, md: &Option<Vec<u8>>, now: u64, class: &str) -> Ver {
	let v = do_verify(keys, hash, secret, total, md, now);
	rec.case(&format!("verify {} {} {} {} {}", hex(hash), hex(secret), total, opt_b(md), now), &v.line, &format!("{}:{}", class, v.kind), true);
	v
}

const MAX_VALUE_MSAT: u64 = 21_000_000_0000_0000_000;

#[derive(Clone)]
struct Params { min: Option<u64>, delta: u32, now: u64, cltv: Option<u16>, md: Option<Vec<u8>>, rand: [u8; 32] }

fn gen_params(rng: &mut Rng) -> Params {
	let min = match rng.below(12) {
		0 | 1 => None,
		2 => Some(0),
		3 => Some(rng.near(MAX_VALUE_MSAT)),
		4 => Some(*rng.pick(&[(1u64 << 61) - 1, 1u64 << 61, u64::MAX, MAX_VALUE_MSAT, MAX_VALUE_MSAT + 1, 1])),
		5 => Some(rng.next() >> rng.below(64)),
		_ => Some(1 + rng.below(5_000_000_000)),
	};
	let delta = match rng.below(6) { 0 => 0, 1 => u32::MAX, 2 => rng.next() as u32, _ => 60 + rng.below(7 * 86400) as u32 };
	let now = match rng.below(10) {
		0 => 0,
		1 | 2 => (rng.near(1u64 << 48)).saturating_sub(7200 + delta as u64), // expiry at the 2^48 bound (±2)
		3 => rng.next() >> (1 + rng.below(40)),                              // anything up to 2^63
		4 => rng.below(1 << 20),
		_ => 1_600_000_000 + rng.below(400_000_000),
	};
	let cltv = match rng.below(5) { 0 | 1 => None, 2 => Some(*rng.pick(&[0u16, 1, 65535, 18, 42])), _ => Some(rng.next() as u16) };
	let md = match rng.below(6) { 0 => Some(vec![]), 1 => { let n = rng.below(20) as usize; Some(rng.bytes(n)) }, 2 => { let n = 1 + rng.below(150) as usize; Some(rng.bytes(n)) }, _ => None };
	Params { min, delta, now, cltv, md, rand: rng.bytes32() }
}

/// the absolute expiry `verify` will read back (independent restatement, used by the oracle)
fn read_back_expiry(p: &Params, custom_cltv_method: bool) -> u64 {
	let e = p.now + p.delta as u64 + 7200;
	if custom_cltv_method { e & ((1u64 << 48) - 1) } else if let Some(c) = p.cltv { e | ((c as u64) << 48) } else { e }
}

fn flip(b: &[u8; 32], bit: usize) -> [u8; 32] { let mut x = *b; x[bit / 8] ^= 1 << (bit % 8); x }

fn secret_model(args: &Args) {
	let mut rec = Rec::new(&args.out, "c04secret");
	let mut rng = Rng::new(args.seed);
	let n_sets: u64 = if args.thorough { 10_000 } else { 1_500 } * args.scale;
	let flip_every: u64 = if args.thorough { 40 } else { 50 };
	let ent = FixedEntropy(Mutex::new([0; 32]));
	let mut keys = ExpandedKey::new([0u8; 32]);
	let mut prev: Option<([u8; 32], [u8; 32], u64)> = None; // (hash, secret, min) of the previous LDK-hash payment
	let mut accepted = 0u64; let mut flips = 0u64;
	for i in 0..n_sets {
		if i % 97 == 0 {
			keys = ExpandedKey::new(rng.bytes32());
			let k = vh::expanded_key_parts(&keys);
			rec.directive(&format!("keys {} {} {} {} {}", hex(&k[0]), hex(&k[1]), hex(&k[2]), hex(&k[3]), hex(&k[4])));
			prev = None;
		}
		let p = gen_params(&mut rng);
		*ent.0.lock().unwrap() = p.rand;
		let kind = rng.below(10); // 0..4 create, 5..8 create_from_hash, 9 spontaneous
		// ---- create the secret with the real code ------------------------------------------------
		let (hash, secret, md_enc, what): ([u8; 32], [u8; 32], Option<Vec<u8>>, &str) = if kind < 5 {
			let r = guarded(AssertUnwindSafe(|| inbound_payment::create(&keys, p.min, p.delta, &ent, p.now, p.cltv, p.md.clone())));
			let op = format!("create {} {} {} {} {} {}", opt_u(p.min), p.delta, hex(&p.rand), p.now, opt_u(p.cltv.map(|c| c as u64)), opt_b(&p.md));
			match r {
				Ok(Ok((h, s, m))) => { rec.case(&op, &format!("ok {} {} {}", hex(&h.0), hex(&s.0), opt_b(&m)), "create:ok", true); (h.0, s.0, m, "ldk") },
				Ok(Err(())) => { rec.case(&op, "err", "create:err", true); create_err_oracle(&mut rec, &p, &op); continue; },
				Err(e) => { rec.case(&op, &format!("panic {}", e), "create:panic", true); continue; },
			}
		} else if kind < 9 {
			let h = rng.bytes32();
			let r = guarded(AssertUnwindSafe(|| inbound_payment::create_from_hash(&keys, p.min, PaymentHash(h), p.delta, &ent, p.now, p.cltv, p.md.clone())));
			let op = format!("createhash {} {} {} {} {} {} {}", opt_u(p.min), hex(&h), p.delta, hex(&p.rand), p.now, opt_u(p.cltv.map(|c| c as u64)), opt_b(&p.md));
			match r {
				Ok(Ok((s, m))) => { rec.case(&op, &format!("ok {} {}", hex(&s.0), opt_b(&m)), "createhash:ok", true); (h, s.0, m, "user") },
				Ok(Err(())) => { rec.case(&op, "err", "createhash:err", true); create_err_oracle(&mut rec, &p, &op); continue; },
				Err(e) => { rec.case(&op, &format!("panic {}", e), "createhash:panic", true); continue; },
			}
		} else {
			let h = rng.bytes32();
			let r = guarded(AssertUnwindSafe(|| vh::create_for_spontaneous_payment(&keys, p.min, p.delta, p.now, p.cltv)));
			let op = format!("createspont {} {} {} {}", opt_u(p.min), p.delta, p.now, opt_u(p.cltv.map(|c| c as u64)));
			match r {
				Ok(Ok(s)) => { rec.case(&op, &format!("ok {}", hex(&s.0)), "createspont:ok", true); (h, s.0, None, "spont") },
				Ok(Err(())) => { rec.case(&op, "err", "createspont:err", true); create_err_oracle(&mut rec, &p, &op); continue; },
				Err(e) => { rec.case(&op, &format!("panic {}", e), "createspont:panic", true); continue; },
			}
		};
		// impl oracle: create must have failed if a bound was exceeded
		if p.min.map(|m| m > MAX_VALUE_MSAT).unwrap_or(false) || (p.cltv.is_some() && p.now + p.delta as u64 + 7200 > (1u64 << 48) - 1) {
			rec.oracle_fail(format!("create* accepted out-of-range parameters min={:?} now={} delta={} cltv={:?}", p.min, p.now, p.delta, p.cltv));
		}
		let min = p.min.unwrap_or(0);
		let custom = p.cltv.is_some() && what != "spont";
		let expiry = read_back_expiry(&p, custom);
		// ---- verify around the amount and expiry boundaries ---------------------------------------
		let totals = [min, min.saturating_sub(1), min.saturating_add(1), rng.next() >> rng.below(64)];
		let nows = [expiry, expiry.saturating_add(1), expiry.saturating_sub(1), rng.next() >> rng.below(64), p.now];
		for (ti, &total) in totals.iter().enumerate() {
			for (ni, &now2) in nows.iter().enumerate() {
				if !(ti == 0 || ni == 0 || (ti + ni) % 3 == 0) { continue; }
				let v = verify_case(&mut rec, &keys, &hash, &secret, total, &md_enc, now2, &format!("verify-{}", what));
				// impl oracle (does not use the model): accepted iff total >= min and expiry >= now, with the registered cltv
				let want = total >= min && expiry >= now2;
				if v.ok != want { rec.oracle_fail(format!("verify of a created {} secret: accepted={} but total>=min && expiry>=now is {} (min={} total={} expiry={} now={})", what, v.ok, want, min, total, expiry, now2)); }
				if v.ok {
					accepted += 1;
					let toks: Vec<&str> = v.line.split(' ').collect();
					let want_cltv = if custom { opt_u(p.cltv.map(|c| c as u64)) } else { "none".to_string() };
					if toks[2] != want_cltv { rec.oracle_fail(format!("verify returned min_final_cltv {} for a secret registered with {}", toks[2], want_cltv)); }
					if what == "ldk" && sha256::Hash::hash(&unhex(toks[1])).to_byte_array() != hash { rec.oracle_fail("verify returned a preimage that does not hash to the payment hash".into()); }
					if what != "spont" && toks[3] != opt_b(&p.md) { rec.oracle_fail(format!("verify did not return the registered payment_metadata ({} vs {})", toks[3], opt_b(&p.md))); }
				} else if !want {
					let expect = if total < min { "AmountTooLow" } else { "Expired" };
					if v.kind != expect { rec.oracle_fail(format!("verify of an authentic secret failed with {} where {} was due", v.kind, expect)); }
				}
			}
		}
		// ---- tampering: everything below must be refused, and refused by the authentication stage ----
		let good_total = min.saturating_add(5); let good_now = p.now;
		let tamper = |rec: &mut Rec, h: &[u8; 32], s: &[u8; 32], total: u64, md: &Option<Vec<u8>>, now2: u64, class: &str, must_be_auth: bool| {
			let v = verify_case(rec, &keys, h, s, total, md, now2, class);
			if v.ok { rec.oracle_fail(format!("{}: tampered input accepted: hash={} secret={} total={} md={} now={}", class, hex(h), hex(s), total, opt_b(md), now2)); }
			else if must_be_auth && (v.kind == "AmountTooLow" || v.kind == "Expired") { rec.oracle_fail(format!("{}: amount/expiry-dependent answer {} for an unauthentic secret (hash={} secret={})", class, v.kind, hex(h), hex(s))); }
		};
		if i % flip_every == 0 {
			for bit in 0..256 {
				// a flipped secret/hash must be refused whatever the amount and time (also when they are bad)
				let (t, n) = if bit % 4 == 3 { (min.saturating_sub(1), expiry.saturating_add(1)) } else { (good_total, good_now) };
				tamper(&mut rec, &hash, &flip(&secret, bit), t, &md_enc, n, "flip-secret", true);
				if what != "spont" { tamper(&mut rec, &flip(&hash, bit), &secret, t, &md_enc, n, "flip-hash", true); }
				flips += 2;
			}
		} else {
			let b1 = rng.below(256) as usize; let b2 = rng.below(256) as usize;
			tamper(&mut rec, &hash, &flip(&secret, b1), good_total, &md_enc, good_now, "flip-secret", true);
			if what != "spont" { tamper(&mut rec, &flip(&hash, b2), &secret, good_total, &md_enc, good_now, "flip-hash", true); }
		}
		// metadata tampering (the MAC covers length and content); spontaneous secrets refuse any metadata
		if what != "spont" {
			let alt: Option<Vec<u8>> = match &md_enc {
				Some(m) if !m.is_empty() => { let mut x = m.clone(); let k = rng.below(x.len() as u64 * 8) as usize; x[k / 8] ^= 1 << (k % 8); Some(x) },
				Some(_) => None,
				None => { let n = rng.below(40) as usize; Some(rng.bytes(n)) },
			};
			tamper(&mut rec, &hash, &secret, good_total, &alt, good_now, "tamper-metadata", true);
			if let Some(m) = &md_enc { if !m.is_empty() { let mut x = m.clone(); x.pop(); tamper(&mut rec, &hash, &secret, good_total, &Some(x), good_now, "tamper-metadata", true); } }
		} else {
			let n = rng.below(30) as usize;
			tamper(&mut rec, &hash, &secret, good_total, &Some(rng.bytes(n)), good_now, "spont-metadata", true);
		}
		// cross-hash / cross-amount reuse with the previous payment of the same keys
		if what == "ldk" {
			if let Some((ph, ps, pmin)) = prev {
				tamper(&mut rec, &ph, &secret, good_total.max(pmin), &md_enc, good_now, "cross-hash", true);
				tamper(&mut rec, &hash, &ps, good_total.max(pmin), &md_enc, good_now, "cross-hash", true);
			}
			prev = Some((hash, secret, min));
		} else if what == "user" {
			// the same secret presented for another hash
			tamper(&mut rec, &rng.bytes32(), &secret, good_total, &md_enc, good_now, "cross-hash", true);
			if let Some((ph, _, _)) = prev { tamper(&mut rec, &ph, &secret, good_total, &md_enc, good_now, "cross-hash", true); }
		}
		// amount splice: the encrypted amount half of another secret under this IV
		if let Some((_, ps, _)) = prev { if what != "ldk" { let mut x = secret; x[16..24].copy_from_slice(&ps[16..24]); if x != secret { tamper(&mut rec, &hash, &x, u64::MAX, &md_enc, 0, "splice-amount", true); } } }
		// garbage secrets
		if i % 3 == 0 { let g = rng.bytes32(); tamper(&mut rec, &hash, &g, u64::MAX, &None, 0, "garbage", true); }
	}
	rec.notes.insert("rule".into(), format!("{} PRNG parameter sets over create / create_from_hash / create_for_spontaneous_payment (amount, expiry and 2^48 / MAX_VALUE_MSAT / 2^61 bounds ±2, metadata lengths 0..150, fresh keys every 97 sets); per accepted set: verify on total∈{{min,min±1,random}} × now∈{{expiry,expiry±1,random,creation}}; every single-bit flip of secret and hash for every {}-th set ({} flips) and one random flip otherwise; metadata bit flip / truncation / injection; cross-hash and cross-amount reuse; spliced amount bytes; garbage secrets. {} accepted verifies. distinct = distinct op lines", n_sets, flip_every, flips, accepted));
	rec.finish();
}

/// impl oracle: `create*` may only fail at the documented bounds
fn create_err_oracle(rec: &mut Rec, p: &Params, op: &str) {
	let out_of_range = p.min.map(|m| m > MAX_VALUE_MSAT).unwrap_or(false) || (p.cltv.is_some() && p.now + p.delta as u64 + 7200 > (1u64 << 48) - 1);
	if !out_of_range { rec.oracle_fail(format!("create* refused in-range parameters: {}", op)); }
}

fn main() {
	let args = parse_args("c04secret");
	match args.model.as_str() {
		"c04secret" => secret_model(&args),
		"c04mpp" => mpp::mpp_model(&args),
		m => { eprintln!("unknown model {}", m); std::process::exit(2); }
	}
}
