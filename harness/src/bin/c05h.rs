//! C05, holder side, on REAL nodes: the post-close freeze of `ChannelMonitorImpl::no_further_updates_allowed` when the
//! ChannelMonitor goes on chain BY ITSELF (outbound HTLC timed out: blocks reach the ChainMonitor only, the ChannelManager lags
//! behind) or through `ChannelMonitor::broadcast_latest_holder_commitment_txn`, and the peer's next `commitment_signed` is handled
//! BEFORE the manager has processed the monitor's HolderForceClosed event.
//! Channel kinds: ordinary funding / `funding_transaction_generated_manual_broadcast` (0-conf) with the funding seen on chain /
//! the same with the funding NOT yet seen; anchors / legacy; persister Completed / InProgress; 0..2 earlier payments; the
//! commitment_signed follows an update_fulfill_htlc or an update_fail_htlc.
//! Implementation-side oracle ("a broadcast state is never revoked"): once the monitor has set one of its close flags, the node
//! never emits a revoke_and_ack and its signer's `last_holder_revoked_commitment` does not move. Control (no trigger): the
//! revoke_and_ack is released and revokes exactly the old holder commitment number.
//! Op lines for model `c05h` (Driver/C05H.lean): `trig` (the generated go-on-chain decisions) and `hg` (HolderGate.step with the
//! generated refusal rule on the REAL flags read through hook `monitor_close_flags`).
use ldk_verif_harness::common::*;
use ldk_verif_harness::sim::{leak, silence_stdout};
use lightning::chain::{ChannelMonitorUpdateStatus, Confirm};
use lightning::ln::functional_test_utils::*;
use lightning::ln::msgs::{BaseMessageHandler, ChannelMessageHandler, MessageSendEvent};
use lightning::ln::verif_hooks as vh;
use std::cell::Cell;

#[derive(Clone, Copy, Debug)]
struct P { funding: u8, anchors: bool, trigger: u8, persist_completed: bool, prior: usize, fail: bool }

struct Out { cases: Vec<(String, String, String)>, viol: Vec<String> }

fn b(x: bool) -> u8 { x as u8 }

fn describe(p: &P) -> String {
	format!("{} funding, {} channel, {} earlier payments, monitor trigger: {}, persister {}, commitment_signed after update_{}_htlc",
		["ordinary", "manual-broadcast (0-conf, funding seen on chain)", "manual-broadcast (0-conf, funding NOT yet seen on chain)"][p.funding as usize],
		if p.anchors { "anchors" } else { "legacy" }, p.prior,
		["none (control)", "outbound HTLC timed out (blocks connected to the ChainMonitor only)", "ChannelMonitor::broadcast_latest_holder_commitment_txn", "the PEER's commitment transaction confirmed (block given to the ChainMonitor only): funding_spend_seen"][p.trigger as usize],
		if p.persist_completed { "Completed" } else { "InProgress" }, if p.fail { "fail" } else { "fulfill" })
}

fn probe(p: P, stage: &Cell<u8>) -> Option<Out> {
	let mut out = Out { cases: vec![], viol: vec![] };
	let chanmon_cfgs = leak(create_chanmon_cfgs(2));
	let node_cfgs = leak(create_node_cfgs(2, chanmon_cfgs));
	let cfg = if p.anchors { test_default_channel_config() } else { test_legacy_channel_config() };
	let chanmgrs = leak(create_node_chanmgrs(2, node_cfgs, &[Some(cfg.clone()), Some(cfg)]));
	let nodes = create_network(2, node_cfgs, chanmgrs);
	let (a_id, b_id) = (nodes[0].node.get_our_node_id(), nodes[1].node.get_our_node_id());
	let cid = match p.funding {
		0 => create_announced_chan_between_nodes_with_value(&nodes, 0, 1, 100_000, 10_000_000).2,
		_ => {
			let (cid, funding_tx, _) = create_channel_manual_funding(&nodes, 0, 1, 100_000, 10_000_000, true);
			if p.funding == 1 {
				mine_transaction(&nodes[0], &funding_tx); mine_transaction(&nodes[1], &funding_tx);
				connect_blocks(&nodes[0], 6); connect_blocks(&nodes[1], 6);
			}
			cid
		},
	};
	for n in nodes.iter() { n.node.get_and_clear_pending_msg_events(); n.node.get_and_clear_pending_events(); n.chain_monitor.added_monitors.lock().unwrap().clear(); }
	for _ in 0..p.prior { send_payment(&nodes[0], &[&nodes[1]], 500_000); }
	let (preimage, hash, ..) = route_payment(&nodes[0], &[&nodes[1]], 1_000_000);
	nodes[0].tx_broadcaster.txn_broadcast();
	// never hold the LockedChannelMonitor across a call into the ChainMonitor (best_block_updated takes the write lock)
	nodes[0].chain_monitor.chain_monitor.get_monitor(cid).ok()?;
	let flags = || -> [bool; 6] { let m = nodes[0].chain_monitor.chain_monitor.get_monitor(cid).unwrap(); vh::monitor_close_flags(&*m) };
	let holder_no = || -> u64 { let m = nodes[0].chain_monitor.chain_monitor.get_monitor(cid).unwrap(); vh::monitor_restart_numbers(&*m)[0] };
	let revoked_of = || -> u64 { let m = nodes[0].chain_monitor.chain_monitor.get_monitor(cid).unwrap(); let mut r = 0; m.do_mut_signer_call(|s| { r = s.get_enforcement_state().last_holder_revoked_commitment; }); r };
	let f0 = flags();
	if f0[0] || f0[1] || f0[2] || f0[5] { return None; }
	if f0[3] != (p.funding != 0) || f0[4] != (p.funding != 2) { out.viol.push(format!("monitor flags of a fresh channel ({}): is_manual_broadcast={} funding_seen_onchain={}", describe(&p), f0[3], f0[4])); }
	stage.set(1);
	// ---- the monitor goes on chain by itself
	match p.trigger {
		1 => {
			for _ in 0..250 {
				let (block_hash, height) = nodes[0].best_block_info();
				let block = create_dummy_block(block_hash, height + 1, Vec::new());
				nodes[0].chain_monitor.chain_monitor.best_block_updated(&block.header, height + 1);
				nodes[0].blocks.lock().unwrap().push((block, height + 1));
				if flags()[2] { break; }
			}
		},
		2 => { let m = nodes[0].chain_monitor.chain_monitor.get_monitor(cid).unwrap(); m.broadcast_latest_holder_commitment_txn(&nodes[0].tx_broadcaster, &nodes[0].fee_estimator, &nodes[0].logger); },
		3 => {
			let tx = { let m = nodes[1].chain_monitor.chain_monitor.get_monitor(cid).unwrap(); m.unsafe_get_latest_holder_commitment_txn(&nodes[1].logger).remove(0) };
			let (block_hash, height) = nodes[0].best_block_info();
			let block = create_dummy_block(block_hash, height + 1, vec![tx.clone()]);
			nodes[0].chain_monitor.chain_monitor.transactions_confirmed(&block.header, &[(0, &tx)], height + 1);
			nodes[0].chain_monitor.chain_monitor.best_block_updated(&block.header, height + 1);
			nodes[0].blocks.lock().unwrap().push((block, height + 1));
		},
		_ => {},
	}
	let f1 = flags();
	let bcast = nodes[0].tx_broadcaster.txn_broadcast();
	if p.trigger != 0 {
		// never triggered (holder_tx_signed not set within 250 blocks): the scenario goes on as a control, and the flag-independent
		// oracle below still watches for a monitor-initiated close that preceded the commitment_signed
		if !(f1[0] || f1[1] || f1[2]) { out.cases.push((String::new(), String::new(), "not-triggered".into())); }
		if !p.anchors && f1[2] && p.trigger != 3 {
			let kind = if p.trigger == 1 { "timeout" } else { "queue0" };
			out.cases.push((format!("trig {} {} {}", kind, b(f0[3]), b(f0[4])), format!("signed={} queued={} nfua={}", b(f1[2]), b(!bcast.is_empty()), b(f1[5])),
				format!("trig:{}:manual={}:seen={}:queued={}", kind, f0[3], f0[4], !bcast.is_empty())));
		}
	}
	let closed_flags = f1[0] || f1[1] || f1[2];
	let holder_before = holder_no();
	let revoked_before = revoked_of();
	stage.set(2);
	// ---- the peer's next commitment_signed, handled before node A looks at its monitor events
	if p.fail { nodes[1].node.fail_htlc_backwards(&hash); nodes[1].node.process_pending_htlc_forwards(); } else { nodes[1].node.claim_funds(preimage); }
	nodes[1].node.get_and_clear_pending_events();
	let mut upd = None;
	for ev in nodes[1].node.get_and_clear_pending_msg_events() { if let MessageSendEvent::UpdateHTLCs { node_id, updates, .. } = ev { if node_id == a_id { upd = Some(updates); } } }
	let mut upd = upd?;
	if !p.persist_completed { chanmon_cfgs[0].persister.set_update_ret(ChannelMonitorUpdateStatus::InProgress); }
	stage.set(3);
	if p.fail { nodes[0].node.handle_update_fail_htlc(b_id, &upd.update_fail_htlcs.remove(0)); } else { nodes[0].node.handle_update_fulfill_htlc(b_id, upd.update_fulfill_htlcs.remove(0)); }
	nodes[0].node.handle_commitment_signed_batch_test(b_id, &upd.commitment_signed);
	let mon_holder = holder_no();
	let mut raa = [false, false];
	let mut closed_by_monitor = false;
	let first_secret: Cell<Option<[u8; 32]>> = Cell::new(None);
	let drain = |slot: usize, raa: &mut [bool; 2]| {
		for ev in nodes[0].node.get_and_clear_pending_msg_events() { if let MessageSendEvent::SendRevokeAndACK { msg, .. } = ev { raa[slot] = true; if first_secret.get().is_none() { first_secret.set(Some(msg.per_commitment_secret)); } } }
	};
	drain(0, &mut raa);
	chanmon_cfgs[0].persister.set_update_ret(ChannelMonitorUpdateStatus::Completed);
	for _ in 0..3 {
		let pending = nodes[0].chain_monitor.chain_monitor.list_pending_monitor_updates().get(&cid).cloned().unwrap_or_default();
		for id in pending { let _ = nodes[0].chain_monitor.chain_monitor.channel_monitor_updated(cid, id); }
		for ev in nodes[0].node.get_and_clear_pending_events() {
			if let lightning::events::Event::ChannelClosed { reason, .. } = ev {
				if matches!(reason, lightning::events::ClosureReason::HTLCsTimedOut { .. } | lightning::events::ClosureReason::HolderForceClosed { .. }) { closed_by_monitor = true; }
			}
		}
		drain(1, &mut raa);
	}
	let raa_ever = raa[0] || raa[1];
	let revoked_after = revoked_of();
	// flag-independent: no block was connected and nothing was force-closed by the user after the trigger, so a monitor-initiated
	// ChannelClosed means the monitor had queued its force-close event (= decided to go on chain) BEFORE the commitment_signed
	if closed_by_monitor && raa_ever && !closed_flags {
		out.viol.push(format!("the ChannelMonitor had decided to go on chain (its HolderForceClosed / HTLCsTimedOut event was queued) WITHOUT freezing the channel (funding_spend_seen={} lockdown_from_offchain={} holder_tx_signed={}): the commitment_signed handled next was answered with revoke_and_ack for holder commitment {} (signer's last revoked holder commitment {} -> {}). Scenario: {}", f1[0], f1[1], f1[2], holder_before, revoked_before, revoked_after, describe(&p)));
	}
	if closed_flags {
		if raa_ever || revoked_after != revoked_before {
			out.viol.push(format!("the ChannelMonitor had gone on chain with holder commitment {} (flags funding_spend_seen={} lockdown_from_offchain={} holder_tx_signed={}; {} transaction(s) handed to the broadcaster) and the node then REVOKED it: a commitment_signed handled before the manager processed the monitor's HolderForceClosed event was answered with revoke_and_ack (at once: {}, later: {}), signer's last revoked holder commitment {} -> {}, no_further_updates_allowed() said {}. Scenario: {}",
				holder_before, f1[0], f1[1], f1[2], bcast.len(), raa[0], raa[1], revoked_before, revoked_after, f1[5], describe(&p)));
		}
		if !f1[5] { out.viol.push(format!("no_further_updates_allowed() is false although a close flag is set (funding_spend_seen={} lockdown_from_offchain={} holder_tx_signed={}, is_manual_broadcast={} funding_seen_onchain={}). Scenario: {}", f1[0], f1[1], f1[2], f1[3], f1[4], describe(&p))); }
	} else {
		if !raa_ever || revoked_after != holder_before { out.viol.push(format!("control: revoke_and_ack after a completed holder commitment update: seen {}, revoked number {} (expected {}). Scenario: {}", raa_ever, revoked_after, holder_before, describe(&p))); }
		if !p.persist_completed && raa[0] { out.viol.push(format!("control: revoke_and_ack released while the holder commitment update was still InProgress. Scenario: {}", describe(&p))); }
		if f1[5] { out.viol.push(format!("no_further_updates_allowed() is true on a live channel with no close flag set. Scenario: {}", describe(&p))); }
	}
	if mon_holder != holder_before - 1 { out.viol.push(format!("the monitor did not take the new holder commitment: number {} (expected {}). Scenario: {}", mon_holder, holder_before - 1, describe(&p))); }
	let held = if raa[0] { "-".to_string() } else { format!("{}:{}", holder_before, b(!raa[1])) };
	out.cases.push((format!("hg {} {} {} {} {} {} {}", b(f1[0]), b(f1[1]), b(f1[2]), b(f1[3]), b(f1[4]), b(p.persist_completed), holder_before),
		format!("nfua={} mon={} released={} held={}", b(f1[5]), mon_holder, b(raa[0]), held),
		format!("hg:closed-flag={}:manual={}:seen={}:persist={}:anchors={}", closed_flags, f1[3], f1[4], p.persist_completed, p.anchors)));
	if !closed_flags && raa_ever && !closed_by_monitor {
		// which secret was released: GENERATED releaseIdx on the channel's next_transaction_number (= current - 1)
		if let Some(nums) = vh::channel_restart_numbers(nodes[0].node, &b_id, &cid) {
			let next = nums[2] - 1;
			out.cases.push((format!("rel {}", next), format!("idx={}", revoked_after), "rel:after-commitment_signed".into()));
			// the peer never got that revoke_and_ack: reconnect, its channel_reestablish must make us retransmit THE SAME secret
			nodes[0].node.peer_disconnected(b_id); nodes[1].node.peer_disconnected(a_id);
			let init_b = lightning::ln::msgs::Init { features: nodes[1].node.init_features(), networks: None, remote_network_address: None };
			let init_a = lightning::ln::msgs::Init { features: nodes[0].node.init_features(), networks: None, remote_network_address: None };
			nodes[0].node.peer_connected(b_id, &init_b, true).ok()?; nodes[1].node.peer_connected(a_id, &init_a, false).ok()?;
			nodes[0].node.get_and_clear_pending_msg_events();
			let mut reest = None;
			for ev in nodes[1].node.get_and_clear_pending_msg_events() { if let MessageSendEvent::SendChannelReestablish { msg, .. } = ev { reest = Some(msg); } }
			if let Some(reest) = reest {
				nodes[0].node.handle_channel_reestablish(b_id, &reest);
				let mut again = None;
				for ev in nodes[0].node.get_and_clear_pending_msg_events() { if let MessageSendEvent::SendRevokeAndACK { msg, .. } = ev { again = Some(msg.per_commitment_secret); } }
				let revoked_now = revoked_of();
				let ans = match again {
					Some(sec) => {
						if Some(sec) != first_secret.get() { out.viol.push(format!("the revoke_and_ack retransmitted after channel_reestablish (next_remote_commitment_number {}) carries a DIFFERENT secret than the original one (signer's last revoked holder commitment {} -> {}). Scenario: {}", reest.next_remote_commitment_number, revoked_after, revoked_now, describe(&p))); }
						format!("retransmit idx={}", if Some(sec) == first_secret.get() { revoked_after } else { revoked_now })
					},
					None => "none".to_string(),
				};
				if revoked_now != revoked_after { out.viol.push(format!("a channel_reestablish moved the signer's last revoked holder commitment {} -> {}. Scenario: {}", revoked_after, revoked_now, describe(&p))); }
				out.cases.push((format!("reest {} {}", next, reest.next_remote_commitment_number), ans, "reest:peer-lacks-last-raa".into()));
			}
		}
	}
	stage.set(4);
	for n in nodes.iter() { n.tx_broadcaster.clear(); }
	std::mem::forget(nodes);
	Some(out)
}

/// C05 "restart from any legally persisted state": the ChannelMonitor signs + broadcasts its holder commitment (HTLC timeout seen by the
/// ChainMonitor) and the node crashes BEFORE that monitor state reaches the disk: it restarts from the manager + monitor persisted just
/// before (the monitor has forgotten that it signed). After reconnecting, the peer's next commitment_signed arrives before the chain
/// re-sync reaches the timeout height. Oracle: no revoke_and_ack for a commitment whose signed transaction was handed to the
/// broadcaster by ANY incarnation of the monitor. Returns (class, Some(world text) if the real code revoked it).
fn probe_reload(funding: u8, fail: bool, stage: &Cell<u8>) -> Option<(String, Option<String>)> {
	use lightning::util::ser::Writeable;
	use lightning::util::test_utils;
	let chanmon_cfgs = leak(create_chanmon_cfgs(2));
	let node_cfgs = leak(create_node_cfgs(2, chanmon_cfgs));
	let cfg = test_legacy_channel_config();
	let chanmgrs = leak(create_node_chanmgrs(2, node_cfgs, &[Some(cfg.clone()), Some(cfg)]));
	let mut nodes = create_network(2, node_cfgs, chanmgrs);
	let (a_id, b_id) = (nodes[0].node.get_our_node_id(), nodes[1].node.get_our_node_id());
	let cid = match funding {
		0 => create_announced_chan_between_nodes_with_value(&nodes, 0, 1, 100_000, 10_000_000).2,
		_ => {
			let (cid, funding_tx, _) = create_channel_manual_funding(&nodes, 0, 1, 100_000, 10_000_000, true);
			mine_transaction(&nodes[0], &funding_tx); mine_transaction(&nodes[1], &funding_tx);
			connect_blocks(&nodes[0], 6); connect_blocks(&nodes[1], 6);
			cid
		},
	};
	for n in nodes.iter() { n.node.get_and_clear_pending_msg_events(); n.node.get_and_clear_pending_events(); n.chain_monitor.added_monitors.lock().unwrap().clear(); }
	let (preimage, hash, ..) = route_payment(&nodes[0], &[&nodes[1]], 1_000_000);
	nodes[0].tx_broadcaster.txn_broadcast();
	fn flags_of(n: &ldk_verif_harness::sim::N, cid: lightning::ln::types::ChannelId) -> [bool; 6] { let m = n.chain_monitor.chain_monitor.get_monitor(cid).unwrap(); vh::monitor_close_flags(&*m) }
	fn revoked_of(n: &ldk_verif_harness::sim::N, cid: lightning::ln::types::ChannelId) -> u64 { let m = n.chain_monitor.chain_monitor.get_monitor(cid).unwrap(); let mut r = 0; m.do_mut_signer_call(|s| { r = s.get_enforcement_state().last_holder_revoked_commitment; }); r }
	// ---- what is on disk: manager + monitor as of now
	let mgr_bytes = nodes[0].node.encode();
	let mon_bytes = nodes[0].chain_monitor.chain_monitor.get_monitor(cid).ok()?.encode();
	let holder_n = { let m = nodes[0].chain_monitor.chain_monitor.get_monitor(cid).ok()?; vh::monitor_restart_numbers(&*m)[0] };
	let revoked_before = revoked_of(&nodes[0], cid);
	let height_on_disk = nodes[0].best_block_info().1;
	stage.set(1);
	// ---- incarnation 1 of the monitor goes on chain (not persisted)
	let mut blocks_connected = 0;
	for _ in 0..250 {
		let (block_hash, height) = nodes[0].best_block_info();
		let block = create_dummy_block(block_hash, height + 1, Vec::new());
		nodes[0].chain_monitor.chain_monitor.best_block_updated(&block.header, height + 1);
		nodes[0].blocks.lock().unwrap().push((block, height + 1));
		blocks_connected += 1;
		if flags_of(&nodes[0], cid)[2] { break; }
	}
	let bcast = nodes[0].tx_broadcaster.txn_broadcast();
	if !flags_of(&nodes[0], cid)[2] || bcast.is_empty() { return Some(("reload:not-triggered".into(), None)); }
	let bcast_txids: Vec<String> = bcast.iter().map(|t| t.compute_txid().to_string()).collect();
	stage.set(2);
	// ---- crash; restart from what is on disk
	nodes[1].node.peer_disconnected(a_id);
	let config = nodes[0].node.get_current_config();
	let persister: &'static test_utils::TestPersister = leak(test_utils::TestPersister::new());
	{
		let node = &mut nodes[0];
		let new_chain_monitor: &'static test_utils::TestChainMonitor<'static> = leak(test_utils::TestChainMonitor::new(
			Some(node.chain_source), node.tx_broadcaster, node.logger, node.fee_estimator, persister, node.keys_manager));
		node.chain_monitor = new_chain_monitor;
		let new_mgr = _reload_node(node, config, &mgr_bytes, &[&mon_bytes[..]], None);
		let new_mgr: &'static TestChannelManager<'static, 'static> = leak(new_mgr);
		node.node = new_mgr;
		node.onion_messenger.set_offers_handler(new_mgr);
		node.onion_messenger.set_async_payments_handler(new_mgr);
		node.chain_monitor.added_monitors.lock().unwrap().clear();
	}
	let f2 = flags_of(&nodes[0], cid);
	stage.set(3);
	// ---- reconnect (channel_reestablish both ways), no block is connected to the new incarnation yet
	let init_b = lightning::ln::msgs::Init { features: nodes[1].node.init_features(), networks: None, remote_network_address: None };
	let init_a = lightning::ln::msgs::Init { features: nodes[0].node.init_features(), networks: None, remote_network_address: None };
	nodes[0].node.peer_connected(b_id, &init_b, true).ok()?; nodes[1].node.peer_connected(a_id, &init_a, false).ok()?;
	let (mut ra, mut rb) = (None, None);
	for ev in nodes[0].node.get_and_clear_pending_msg_events() { if let MessageSendEvent::SendChannelReestablish { msg, .. } = ev { ra = Some(msg); } }
	for ev in nodes[1].node.get_and_clear_pending_msg_events() { if let MessageSendEvent::SendChannelReestablish { msg, .. } = ev { rb = Some(msg); } }
	nodes[1].node.handle_channel_reestablish(a_id, &ra?);
	nodes[0].node.handle_channel_reestablish(b_id, &rb?);
	nodes[0].node.get_and_clear_pending_msg_events(); nodes[1].node.get_and_clear_pending_msg_events();
	let live = nodes[0].node.list_channels().iter().any(|d| d.channel_id == cid && d.is_usable);
	if !live { return Some(("reload:channel-not-live-after-restart".into(), None)); }
	// ---- the peer's next commitment_signed
	if fail { nodes[1].node.fail_htlc_backwards(&hash); nodes[1].node.process_pending_htlc_forwards(); } else { nodes[1].node.claim_funds(preimage); }
	nodes[1].node.get_and_clear_pending_events();
	let mut upd = None;
	for ev in nodes[1].node.get_and_clear_pending_msg_events() { if let MessageSendEvent::UpdateHTLCs { node_id, updates, .. } = ev { if node_id == a_id { upd = Some(updates); } } }
	let mut upd = upd?;
	stage.set(4);
	if fail { nodes[0].node.handle_update_fail_htlc(b_id, &upd.update_fail_htlcs.remove(0)); } else { nodes[0].node.handle_update_fulfill_htlc(b_id, upd.update_fulfill_htlcs.remove(0)); }
	nodes[0].node.handle_commitment_signed_batch_test(b_id, &upd.commitment_signed);
	let mut raa = false;
	for _ in 0..2 {
		for ev in nodes[0].node.get_and_clear_pending_msg_events() { if let MessageSendEvent::SendRevokeAndACK { .. } = ev { raa = true; } }
		nodes[0].node.get_and_clear_pending_events();
	}
	let revoked_after = revoked_of(&nodes[0], cid);
	let world = if raa || revoked_after != revoked_before {
		Some(format!("node A ({} funding, legacy channel, one outbound HTLC of 1_000_000 msat to B pending): manager + monitor persisted at height {} (monitor flags all clear, holder commitment number {}); then {} blocks reach A's ChainMonitor only, the monitor sees the HTLC time out, sets holder_tx_signed and hands {} transaction(s) to the broadcaster (txids {}) signing holder commitment {}; A crashes before this monitor state is persisted and restarts from the persisted manager + monitor (flags after reload: funding_spend_seen={} lockdown_from_offchain={} holder_tx_signed={}); A and B reconnect (channel_reestablish both ways), no block has been replayed to the new incarnation yet; B sends update_{}_htlc + commitment_signed; A answers revoke_and_ack: {} (signer's last revoked holder commitment {} -> {}), i.e. A revoked commitment {} whose signed transaction its previous incarnation had already broadcast",
			if funding == 0 { "ordinary" } else { "manual-broadcast (0-conf, funding confirmed)" }, height_on_disk, holder_n, blocks_connected, bcast.len(), bcast_txids.join(","), holder_n, f2[0], f2[1], f2[2], if fail { "fail" } else { "fulfill" }, raa, revoked_before, revoked_after, holder_n))
	} else { None };
	let class = format!("reload:funding={}:{}", funding, if world.is_some() { "REVOKED-A-BROADCAST-COMMITMENT" } else { "no-revoke_and_ack" });
	for n in nodes.iter() { n.tx_broadcaster.clear(); }
	std::mem::forget(nodes);
	Some((class, world))
}

fn main() {
	let args = &parse_args("c05h");
	silence_stdout();
	let mut rec = Rec::new(&args.out, "c05h");
	let mut rng = Rng::new(args.seed);
	let mut plan: Vec<P> = vec![];
	for funding in 0..3u8 { for trigger in 0..4u8 { for anchors in [false, true] {
		// every (funding, trigger, anchors) once; the remaining parameters from the seed (all combinations in the thorough tier)
		if args.thorough {
			for pc in [true, false] { for prior in 0..3usize { for fail in [false, true] { plan.push(P { funding, anchors, trigger, persist_completed: pc, prior, fail }); } } }
		} else {
			plan.push(P { funding, anchors, trigger, persist_completed: rng.chance(1, 2), prior: rng.below(3) as usize, fail: rng.chance(1, 3) });
			if !anchors && trigger != 0 { plan.push(P { funding, anchors, trigger, persist_completed: rng.chance(1, 2), prior: rng.below(3) as usize, fail: rng.chance(1, 2) }); }
		}
	} } }
	let (mut not_triggered, mut setup_failed) = (0u64, 0u64);
	for p in plan {
		let stage = Cell::new(0u8);
		match guarded(std::panic::AssertUnwindSafe(|| probe(p, &stage))) {
			Ok(Some(o)) => {
				for v in o.viol { rec.oracle_fail(v); }
				for (op, ans, class) in o.cases {
					if op.is_empty() { not_triggered += 1; *rec.classes.entry(format!("not-triggered:funding={}:trigger={}:anchors={}", p.funding, p.trigger, p.anchors)).or_insert(0) += 1; continue; }
					rec.case(&op, &ans, &class, true);
				}
			},
			Ok(None) => { setup_failed += 1; *rec.classes.entry(format!("setup-failed:funding={}:anchors={}", p.funding, p.anchors)).or_insert(0) += 1; },
			Err(e) => {
				if stage.get() >= 3 { rec.oracle_fail(format!("panic while / after handling the commitment_signed that followed the monitor's own broadcast: {} Scenario: {}", e.chars().take(240).collect::<String>(), describe(&p))); }
				else { setup_failed += 1; *rec.classes.entry(format!("setup-panicked:stage={}:funding={}:anchors={}:trigger={}", stage.get(), p.funding, p.anchors, p.trigger)).or_insert(0) += 1; rec.notes.insert(format!("setup_panic_{}_{}_{}", p.funding, p.anchors, p.trigger), e.chars().take(160).collect()); }
			},
		}
	}
	// restart from a monitor persisted BEFORE its own broadcast (crash between broadcast and persist): a candidate finding is
	// recorded as a class + note; it fails the check only with VERIF_C05_RELOAD_ORACLE=1 (integrator's decision pending)
	for funding in 0..2u8 { for fail in [false, true] {
		let stage = Cell::new(0u8);
		match guarded(std::panic::AssertUnwindSafe(|| probe_reload(funding, fail, &stage))) {
			Ok(Some((class, world))) => {
				*rec.classes.entry(class).or_insert(0) += 1;
				if let Some(w) = world {
					if std::env::var("VERIF_C05_RELOAD_ORACLE").is_ok() { rec.oracle_fail(format!("revoke_and_ack for a commitment already broadcast by an earlier incarnation of the monitor: {}", w)); }
					rec.notes.insert(format!("candidate_finding_reload_{}_{}", funding, fail), w);
				}
			},
			Ok(None) => { *rec.classes.entry(format!("reload:setup-failed:stage={}", stage.get())).or_insert(0) += 1; },
			Err(e) => { *rec.classes.entry(format!("reload:panicked:stage={}", stage.get())).or_insert(0) += 1; rec.notes.insert(format!("reload_panic_{}_{}", funding, fail), e.chars().take(200).collect()); },
		}
	} }
	rec.notes.insert("not_triggered".into(), not_triggered.to_string());
	rec.notes.insert("setup_failed".into(), setup_failed.to_string());
	rec.notes.insert("rule".into(), "once a close flag of the ChannelMonitor is set (holder_tx_signed by its own HTLC-timeout / broadcast_latest_holder_commitment_txn), a commitment_signed handled before the manager sees the HolderForceClosed event never releases a revoke_and_ack; every channel kind".into());
	rec.finish();
}
