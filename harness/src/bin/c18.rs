//! C18 — payment requests round-trip and cannot be forged or altered.
//! model c18b11 (BOLT-11, lightning-invoice):
//!   b11 <hex of the string>        parse as SignedRawBolt11Invoice -> canonical dump | err <Bolt11ParseError variant>
//!   hrp <hex of the hrp>           RawHrp::from_str -> currency/amount/si/pico/msat dump | err ..
//!   amt <currency> <msat|none>     InvoiceBuilder::amount_milli_satoshis -> hrp string
//!   chk <hrp hex> <symbols hex>    bech32 checksum symbols (from the real encoder's output)
//!   to5 <bytes hex> / to8 <symbols hex>   Base32Iterable / FromBase32 for Vec<u8>
//!   ts <unix seconds>              PositiveTimestamp::from_unix_timestamp -> ok | err TimestampOutOfBounds
//!   dlen / mlen / hops <n>         Description::new / payment_metadata / PrivateRoute::new on a length -> ok | err ..
//!   intenc <u64>                   an `x` field as ser.rs writes it: announced length, digits
//! implementation-side oracles (no model involved): the parser never panics on a checksum-valid string;
//! the builder accepts every timestamp the 35-bit wire field can carry and nothing else;
//! parse(serialize(x)) == x for every built / parsed object; serialising a parsed object never panics.
//! model c18b12 (BOLT-12, lightning::offers): see `run_b12`.
//! Trusted dependencies: secp256k1 (ECDSA recovery / Schnorr) and the `bech32` crate.
use bitcoin::hashes::{sha256, Hash};
use bitcoin::secp256k1::ecdsa::{RecoverableSignature, RecoveryId};
use bitcoin::secp256k1::{Message, PublicKey, Secp256k1, SecretKey};
use bitcoin::{PubkeyHash, ScriptHash, WitnessVersion};
use ldk_verif_harness::common::*;
use lightning_invoice::*;
use std::panic::AssertUnwindSafe;
use std::time::Duration;

const CHARSET: &[u8; 32] = b"qpzry9x8gf2tvdw0s3jn54khce6mua7l";

// ---- the harness' own bech32 checksum (used only to RE-checksum mutants; validated by the oracle
// that a re-checksummed string never fails with a checksum error) --------------------------------
fn polymod(values: &[u8]) -> u32 {
	const GEN: [u32; 5] = [0x3b6a57b2, 0x26508e6d, 0x1ea119fa, 0x3d4233dd, 0x2a1462b3];
	let mut chk: u32 = 1;
	for v in values {
		let b = chk >> 25;
		chk = ((chk & 0x1ffffff) << 5) ^ (*v as u32);
		for i in 0..5 { if (b >> i) & 1 == 1 { chk ^= GEN[i]; } }
	}
	chk
}
fn hrp_expand(hrp: &[u8]) -> Vec<u8> {
	let mut v: Vec<u8> = hrp.iter().map(|c| c.to_ascii_lowercase() >> 5).collect();
	v.push(0);
	v.extend(hrp.iter().map(|c| c.to_ascii_lowercase() & 31));
	v
}
fn checksum(hrp: &[u8], data: &[u8]) -> Vec<u8> {
	let mut v = hrp_expand(hrp);
	v.extend_from_slice(data);
	v.extend_from_slice(&[0; 6]);
	let pm = polymod(&v) ^ 1;
	(0..6).map(|i| ((pm >> (5 * (5 - i))) & 31) as u8).collect()
}
fn encode(hrp: &str, data: &[u8]) -> String {
	let mut s = String::from(hrp);
	s.push('1');
	for d in data.iter().chain(checksum(hrp.as_bytes(), data).iter()) { s.push(CHARSET[*d as usize] as char); }
	s
}
/// split a valid lower-case bech32 string into hrp and ALL data symbols (incl. checksum)
fn split(s: &str) -> (String, Vec<u8>) {
	let pos = s.rfind('1').unwrap();
	let syms = s[pos + 1..].bytes().map(|c| CHARSET.iter().position(|x| *x == c).unwrap() as u8).collect();
	(s[..pos].to_string(), syms)
}
fn syms_to_str(v: &[u8]) -> String { v.iter().map(|d| CHARSET[*d as usize] as char).collect() }
fn bytes_to_syms(b: &[u8]) -> Vec<u8> {
	let (mut acc, mut bits, mut out) = (0u32, 0u32, vec![]);
	for x in b { acc = (acc << 8) | *x as u32; bits += 8; while bits >= 5 { bits -= 5; out.push(((acc >> bits) & 31) as u8); } }
	if bits > 0 { out.push(((acc << (5 - bits)) & 31) as u8); }
	out
}

fn err_name<T: std::fmt::Debug>(e: &T) -> String { let s = format!("{:?}", e); s.split(|c: char| !c.is_alphanumeric()).next().unwrap().to_string() }

/// canonical dump of a parsed SignedRawBolt11Invoice (same format as the Lean driver)
fn dump(input: &str, signed: &SignedRawBolt11Invoice) -> String {
	let raw = signed.raw_invoice();
	let same = if signed.to_string() == input.to_lowercase() { 1 } else { 0 };
	let pico = raw.amount_pico_btc();
	let amt_ok = pico.map_or(true, |p| p % 10 == 0);
	let mut fields: Vec<String> = vec![];
	// the re-serialised data part (public `to_raw`), re-split along the parsed fields
	let syms: Vec<u8> = raw.to_raw().1.iter().map(|x| x.to_u8()).collect();
	let mut i = 7;
	for f in raw.data.tagged_fields.iter() {
		let known = match f { RawTaggedField::KnownSemantics(_) => true, RawTaggedField::UnknownSemantics(_) => false };
		let len = syms[i + 1] as usize * 32 + syms[i + 2] as usize;
		fields.push(format!("{}{}={}", syms[i], if known { "k" } else { "u" }, syms_to_str(&syms[i + 3..i + 3 + len])));
		i += 3 + len;
	}
	assert_eq!(i, syms.len());
	let (recid, sig) = signed.signature().0.serialize_compact();
	let mut sigb = sig.to_vec();
	sigb.push(recid.to_i32() as u8);
	format!("ok same={} {} {} {} {} {} {} {}", same, raw.hrp.to_string(), pico.map_or("none".to_string(), |p| p.to_string()),
		if amt_ok { 1 } else { 0 }, raw.data.timestamp.as_unix_timestamp(),
		if fields.is_empty() { "-".to_string() } else { fields.join(",") }, hex(&sigb), hex(signed.signable_hash()))
}

/// the real parser on one string: (answer line, class, parsed)
fn real_b11(s: &str) -> (String, String, Option<SignedRawBolt11Invoice>) {
	match guarded(AssertUnwindSafe(|| s.parse::<SignedRawBolt11Invoice>())) {
		Err(_) => ("panic".to_string(), "b11:panic".into(), None),
		Ok(Err(e)) => { let n = err_name(&e); (format!("err {}", n), format!("b11:err:{}", n), None) },
		Ok(Ok(signed)) => (dump(s, &signed), "b11:ok".into(), Some(signed)),
	}
}

struct B11 { secp: Secp256k1<bitcoin::secp256k1::All>, sk: SecretKey, pk: PublicKey, n_ok: u64, n_mut1: u64, n_mut2: u64, outcomes: [u64; 3] }

/// report an implementation-side violation, at most twice per kind (text before the first `(` / `:`),
/// so that one defect hit by many generated inputs does not crowd out the others
fn ofail(rec: &mut Rec, text: String) {
	static SEEN: std::sync::Mutex<Option<std::collections::BTreeMap<String, u32>>> = std::sync::Mutex::new(None);
	let kind = text.split(|c| c == '(' || c == ':').next().unwrap_or("").to_string();
	let mut g = SEEN.lock().unwrap();
	let n = g.get_or_insert_with(Default::default).entry(kind).or_insert(0);
	*n += 1;
	if *n <= 2 { rec.oracle_fail(text); }
}

/// does the string carry a valid bech32 checksum (judged by the harness' own polymod)?
fn checksum_valid(s: &str) -> bool {
	let l = s.to_ascii_lowercase();
	let pos = match l.rfind('1') { Some(p) if p > 0 => p, _ => return false };
	let mut syms = vec![];
	for c in l[pos + 1..].bytes() { match CHARSET.iter().position(|x| *x == c) { Some(i) => syms.push(i as u8), None => return false } }
	if syms.len() < 6 || (s.bytes().any(|c| c.is_ascii_uppercase()) && s.bytes().any(|c| c.is_ascii_lowercase())) { return false; }
	let mut v = hrp_expand(l[..pos].as_bytes());
	v.extend_from_slice(&syms);
	polymod(&v) == 1
}

fn emit_b11(rec: &mut Rec, s: &str, class_prefix: &str) -> Option<SignedRawBolt11Invoice> {
	let (ans, class, parsed) = real_b11(s);
	if ans == "panic" {
		let msg = guarded(AssertUnwindSafe(|| s.parse::<SignedRawBolt11Invoice>())).err().unwrap_or_default();
		ofail(rec, format!("parser panicked on a {} string ({}): {}", if checksum_valid(s) { "checksum-valid" } else { "malformed" }, msg, s));
	}
	if let Some(signed) = &parsed { reserialize_oracle(rec, s, signed); }
	rec.case(&format!("b11 {}", hex(s.as_bytes())), &ans, &format!("{}{}", class_prefix, class), true);
	parsed
}

/// the semantic layer: `Bolt11Invoice::from_signed` vs the model's `fromSigned`, the ECDSA verdict
/// (`check_signature`, trusted dependency) being handed to the model as an input
fn emit_sem(rec: &mut Rec, s: &str, signed: &SignedRawBolt11Invoice, class_prefix: &str) {
	let sig_valid = match guarded(AssertUnwindSafe(|| signed.check_signature())) { Ok(v) => v, Err(p) => { rec.oracle_fail(format!("check_signature panicked ({}): {}", p, s)); return; } };
	let ans = match guarded(AssertUnwindSafe(|| Bolt11Invoice::from_signed(signed.clone()))) {
		Err(p) => { rec.oracle_fail(format!("from_signed panicked ({}): {}", p, s)); format!("panic {}", p) },
		Ok(Ok(_)) => "ok".to_string(),
		Ok(Err(e)) => format!("err {}", err_name(&e)),
	};
	let class = format!("{}sem:{}", class_prefix, ans.replace(' ', ":"));
	rec.case(&format!("sem {} {}", hex(s.as_bytes()), if sig_valid { 1 } else { 0 }), &ans, &class, true);
}

/// impl oracle on every successfully parsed string: serialising the parsed object does not panic and
/// parses back to an equal object (parse ∘ serialize = id on the parser's range)
fn reserialize_oracle(rec: &mut Rec, s: &str, signed: &SignedRawBolt11Invoice) {
	match guarded(AssertUnwindSafe(|| signed.to_string())) {
		Err(p) => ofail(rec, format!("serialiser panicked on a parsed invoice ({}): {}", p, s)),
		Ok(out) => match guarded(AssertUnwindSafe(|| out.parse::<SignedRawBolt11Invoice>())) {
			Err(p) => ofail(rec, format!("parser panicked on a re-serialised invoice ({}): {}", p, out)),
			Ok(Err(e)) => ofail(rec, format!("parse(serialize(x)) fails ({:?}): x parsed from {} serialises to {}", e, s, out)),
			Ok(Ok(back)) => if &back != signed { ofail(rec, format!("parse(serialize(x)) != x: x parsed from {} serialises to {}", s, out)); },
		},
	}
}

fn rand_pubkey(rng: &mut Rng, secp: &Secp256k1<bitcoin::secp256k1::All>) -> PublicKey {
	loop { if let Ok(sk) = SecretKey::from_slice(&rng.bytes32()) { return PublicKey::from_secret_key(secp, &sk); } }
}
fn rand_string(rng: &mut Rng, max: usize) -> String {
	let n = rng.below(max as u64 + 1) as usize;
	let pool = ["a", "Z", " ", "1", "é", "ß", "→", "🍺", "\u{7f}", "\0", "coffee", "\"", "\\", "ナ"];
	let mut s = String::new();
	while s.len() < n { s.push_str(*rng.pick(&pool)); }
	while s.len() > max { s.pop(); }
	s
}
fn rand_amount(rng: &mut Rng) -> u64 {
	match rng.below(8) {
		0 => 0, 1 => 1, 2 => rng.below(1000), 3 => u64::MAX / 10, 4 => u64::MAX / 10 - rng.below(3),
		5 => 10u64.pow(rng.below(19) as u32) * (1 + rng.below(9)), 6 => rng.next() % (u64::MAX / 10), _ => 100_000 * rng.below(100_000),
	}
}
fn rand_route(rng: &mut Rng, secp: &Secp256k1<bitcoin::secp256k1::All>) -> RouteHint {
	let n = 1 + rng.below(3) as usize;
	RouteHint((0..n).map(|_| RouteHintHop {
		src_node_id: rand_pubkey(rng, secp), short_channel_id: rng.next(),
		fees: RoutingFees { base_msat: rng.next() as u32, proportional_millionths: rng.next() as u32 },
		cltv_expiry_delta: rng.next() as u16, htlc_minimum_msat: None, htlc_maximum_msat: None,
	}).collect())
}
fn rand_fallback(rng: &mut Rng) -> Fallback {
	match rng.below(3) {
		0 => Fallback::PubKeyHash(PubkeyHash::from_slice(&rng.bytes(20)).unwrap()),
		1 => Fallback::ScriptHash(ScriptHash::from_slice(&rng.bytes(20)).unwrap()),
		_ => { let v = rng.below(17) as u8; let n = rng.range(2, 40) as usize; Fallback::SegWitProgram { version: WitnessVersion::try_from(v).unwrap(), program: rng.bytes(n) } },
	}
}

struct Want { amount: Option<u64>, ts: u64, expiry: Option<u64>, desc: Bolt11InvoiceDescription, hash: [u8; 32], secret: [u8; 32], cltv: u64, payee_n: bool, n_fallbacks: usize, routes: Vec<RouteHint>, meta: Option<(Vec<u8>, bool)>, mpp: bool }

/// the largest timestamp the BOLT-11 wire format carries: seven 5-bit symbols (a constant of the
/// SPECIFICATION, deliberately not taken from lightning-invoice's MAX_TIMESTAMP)
const WIRE_TS_MAX: u64 = (1u64 << 35) - 1;
/// the largest payload a tagged field carries: a 10-bit length of 5-bit symbols = 639 whole bytes
const WIRE_FIELD_BYTES_MAX: usize = 1023 * 5 / 8;

fn build_invoice(rng: &mut Rng, ctx: &B11) -> Result<(Bolt11Invoice, Want), (CreationError, Want)> {
	let currency = match rng.below(5) { 0 => Currency::Bitcoin, 1 => Currency::BitcoinTestnet, 2 => Currency::Regtest, 3 => Currency::Simnet, _ => Currency::Signet };
	let desc = if rng.chance(1, 3) { Bolt11InvoiceDescription::Hash(Sha256(sha256::Hash::from_byte_array(rng.bytes32()))) }
		else { Bolt11InvoiceDescription::Direct({ let mx = if rng.chance(1, 8) { 639 } else { 40 }; Description::new(rand_string(rng, mx)).unwrap() }) };
	let ts = match rng.below(16) { 0..=2 => 0, 3..=5 => WIRE_TS_MAX, 6 => WIRE_TS_MAX - 1, 7 => 1, 8 => WIRE_TS_MAX + 1 + (rng.next() >> rng.below(64)).min(u64::MAX - WIRE_TS_MAX - 1),
		9 | 10 => rng.below(WIRE_TS_MAX + 1), 11 | 12 => (1u64 << rng.below(36)) - rng.below(2), _ => 1_700_000_000 + rng.below(100_000_000) };
	let w = Want {
		amount: if rng.chance(1, 5) { None } else if rng.chance(1, 20) { Some(u64::MAX / 10 + 1 + (rng.next() >> rng.below(64)).min(u64::MAX - u64::MAX / 10 - 1)) } else { Some(rand_amount(rng)) }, ts,
		expiry: if rng.chance(1, 2) { None } else { Some(match rng.below(4) { 0 => 0, 1 => u64::MAX, 2 => rng.next(), _ => rng.below(100_000) }) },
		desc, hash: rng.bytes32(), secret: rng.bytes32(),
		cltv: match rng.below(4) { 0 => 0, 1 => u64::MAX, 2 => rng.next(), _ => rng.below(2000) },
		payee_n: rng.chance(1, 2), n_fallbacks: rng.below(3) as usize,
		routes: (0..rng.below(3)).map(|_| rand_route(rng, &ctx.secp)).collect(),
		meta: if rng.chance(1, 3) { let n = match rng.below(12) { 0 => 639, 1 => 640 + rng.below(3) as usize, 2 => rng.below(640) as usize, _ => rng.below(50) as usize }; Some((rng.bytes(n), rng.chance(1, 2))) } else { None },
		mpp: rng.chance(1, 2),
	};
	let order = rng.below(3);
	let mut fallbacks = vec![];
	for _ in 0..w.n_fallbacks { fallbacks.push(rand_fallback(rng)); }
	macro_rules! common { ($b:expr) => {{
		let mut b = $b;
		if let Some(a) = w.amount { b = b.amount_milli_satoshis(a); }
		if w.payee_n { b = b.payee_pub_key(ctx.pk); }
		if let Some(e) = w.expiry { b = b.expiry_time(Duration::from_secs(e)); }
		for f in fallbacks.iter() { b = b.fallback(f.clone()); }
		for r in w.routes.iter() { b = b.private_route(r.clone()); }
		b
	}}}
	macro_rules! finish { ($b:expr) => {{
		let b = $b;
		let b = if w.mpp { b.basic_mpp() } else { b };
		match &w.meta {
			None => b.build_signed(|m| ctx.secp.sign_ecdsa_recoverable(m, &ctx.sk)),
			Some((md, true)) => b.payment_metadata(md.clone()).build_signed(|m| ctx.secp.sign_ecdsa_recoverable(m, &ctx.sk)),
			Some((md, false)) => b.optional_payment_metadata(md.clone()).build_signed(|m| ctx.secp.sign_ecdsa_recoverable(m, &ctx.sk)),
		}
	}}}
	let d = Duration::from_secs(w.ts);
	let r = match order {
		0 => finish!(common!(InvoiceBuilder::new(currency)).invoice_description(w.desc.clone()).payment_hash(PaymentHash(w.hash)).duration_since_epoch(d).min_final_cltv_expiry_delta(w.cltv).payment_secret(PaymentSecret(w.secret))),
		1 => finish!(common!(InvoiceBuilder::new(currency).payment_secret(PaymentSecret(w.secret)).duration_since_epoch(d).payment_hash(PaymentHash(w.hash))).min_final_cltv_expiry_delta(w.cltv).invoice_description(w.desc.clone())),
		_ => finish!(common!(InvoiceBuilder::new(currency).min_final_cltv_expiry_delta(w.cltv).invoice_description(w.desc.clone()).payment_hash(PaymentHash(w.hash)).payment_secret(PaymentSecret(w.secret)).duration_since_epoch(d))),
	};
	match r { Ok(i) => Ok((i, w)), Err(e) => Err((e, w)) }
}

/// impl oracle on a builder verdict: the builder fails exactly when an input is outside what the wire
/// format can carry (timestamp beyond 35 bits, pico amount beyond u64, metadata beyond 639 bytes)
fn builder_verdict_oracle(rec: &mut Rec, w: &Want, res: Result<(), &CreationError>) {
	let ts_bad = w.ts > WIRE_TS_MAX;
	let amt_bad = w.amount.map_or(false, |a| a.checked_mul(10).is_none());
	let meta_bad = w.meta.as_ref().map_or(false, |m| m.0.len() > WIRE_FIELD_BYTES_MAX);
	let desc = format!("ts={} amount_msat={:?} metadata_len={:?}", w.ts, w.amount, w.meta.as_ref().map(|m| m.0.len()));
	match res {
		Ok(()) => if ts_bad || amt_bad || meta_bad { ofail(rec, format!("builder accepted an input the wire format cannot carry: {}", desc)); },
		Err(e) => {
			if !(ts_bad || amt_bad || meta_bad) {
				if matches!(e, CreationError::TimestampOutOfBounds) { ofail(rec, format!("builder rejected a timestamp the wire format can carry ({:?}): {}", e, desc)); }
				else { ofail(rec, format!("builder rejected a valid input ({:?}): {}", e, desc)); }
			}
		},
	}
}

/// impl oracle: the built invoice parses back to an equal object exposing what was put in
fn roundtrip_oracle(rec: &mut Rec, inv: &Bolt11Invoice, w: &Want, ctx: &B11) {
	let s = inv.to_string();
	match guarded(AssertUnwindSafe(|| s.parse::<Bolt11Invoice>())) {
		Ok(Ok(p)) => {
			let mut bad = vec![];
			if &p != inv { bad.push("object"); }
			if p.to_string() != s { bad.push("string"); }
			if p.amount_milli_satoshis() != w.amount { bad.push("amount"); }
			if p.duration_since_epoch().as_secs() != w.ts { bad.push("timestamp"); }
			if p.expiry_time().as_secs() != w.expiry.unwrap_or(DEFAULT_EXPIRY_TIME) { bad.push("expiry"); }
			if p.payment_hash().0 != w.hash { bad.push("payment_hash"); }
			if p.payment_secret().0 != w.secret { bad.push("payment_secret"); }
			if p.min_final_cltv_expiry_delta() != w.cltv { bad.push("cltv"); }
			match (&w.desc, p.description()) {
				(Bolt11InvoiceDescription::Direct(a), Bolt11InvoiceDescriptionRef::Direct(b)) if a == b => {},
				(Bolt11InvoiceDescription::Hash(a), Bolt11InvoiceDescriptionRef::Hash(b)) if a == b => {},
				_ => bad.push("description"),
			}
			if p.payee_pub_key().is_some() != w.payee_n { bad.push("payee_n"); }
			if p.get_payee_pub_key() != ctx.pk { bad.push("payee"); }
			if p.recover_payee_pub_key() != Some(ctx.pk) { bad.push("recovered"); }
			if p.fallbacks().len() != w.n_fallbacks { bad.push("fallbacks"); }
			if p.route_hints() != w.routes { bad.push("routes"); }
			if p.payment_metadata() != w.meta.as_ref().map(|m| &m.0) { bad.push("metadata"); }
			if p.features() != inv.features() || p.features().map_or(false, |f| f.supports_basic_mpp()) != w.mpp { bad.push("features"); }
			if !bad.is_empty() { rec.oracle_fail(format!("round trip differs in {:?}: {}", bad, s)); }
		},
		Ok(Err(e)) => rec.oracle_fail(format!("built invoice does not parse back ({:?}): {}", e, s)),
		Err(p) => rec.oracle_fail(format!("parser panicked on a built invoice ({}): {}", p, s)),
	}
}

/// a mutant with a RECOMPUTED checksum: classify the real outcome into the three allowed ones
fn classify_mutant(rec: &mut Rec, ctx: &mut B11, orig: &Bolt11Invoice, s: &str, what: &str) {
	let parsed = emit_b11(rec, s, "mut2:");
	ctx.n_mut2 += 1;
	let signed = match parsed { None => {
		// a checksum failure here would be a bug of the harness' own checksum code
		if let Err(Bolt11ParseError::Bech32Error(e)) = s.parse::<SignedRawBolt11Invoice>() { if format!("{:?}", e).contains("Checksum") { rec.oracle_fail(format!("harness checksum rejected: {}", s)); } }
		ctx.outcomes[0] += 1; return; }, Some(x) => x };
	emit_sem(rec, s, &signed, "mut2:");
	match guarded(AssertUnwindSafe(|| Bolt11Invoice::from_signed(signed))) {
		Err(p) => rec.oracle_fail(format!("from_signed panicked ({}): {}", p, s)),
		Ok(Err(_)) => ctx.outcomes[0] += 1,
		Ok(Ok(inv)) => {
			if inv.signable_hash() == orig.signable_hash() { ctx.outcomes[2] += 1; }
			else if inv.payee_pub_key().is_none() && inv.recover_payee_pub_key() != Some(ctx.pk) { ctx.outcomes[1] += 1; }
			else { rec.oracle_fail(format!("ALTERED invoice accepted under the original payee key ({}): orig={} mutant={}", what, orig, s)); }
		},
	}
}


fn creation_verdict<T>(r: &Result<T, CreationError>) -> String { match r { Ok(_) => "ok".to_string(), Err(e) => format!("err {}", err_name(e)) } }

/// `ts <n>`: the constructor's verdict on one timestamp (compared with the model's translated bound),
/// plus the implementation-side oracle "accepted iff the 35-bit wire field can carry it"
fn ts_case(rec: &mut Rec, ts: u64) {
	let r = match guarded(AssertUnwindSafe(|| PositiveTimestamp::from_unix_timestamp(ts))) { Ok(r) => r, Err(p) => { ofail(rec, format!("from_unix_timestamp({}) panicked: {}", ts, p)); return; } };
	let r2 = PositiveTimestamp::from_duration_since_epoch(Duration::new(ts, 999_999_999));
	let r3 = PositiveTimestamp::from_system_time(std::time::UNIX_EPOCH + Duration::from_secs(ts.min(1 << 40)));
	if r.is_ok() != r2.is_ok() || (ts <= 1 << 40 && r.is_ok() != r3.is_ok()) { ofail(rec, format!("PositiveTimestamp constructors disagree on {}: unix {:?} duration {:?} system_time {:?}", ts, r, r2, r3)); }
	if let Ok(t) = &r2 { if t.as_unix_timestamp() != ts || t.as_duration_since_epoch() != Duration::from_secs(ts) { ofail(rec, format!("PositiveTimestamp {} reads back as {}", ts, t.as_unix_timestamp())); } }
	match &r {
		Ok(_) if ts > WIRE_TS_MAX => ofail(rec, format!("builder accepted a timestamp the 35-bit field cannot carry: {}", ts)),
		Err(e) if ts <= WIRE_TS_MAX => ofail(rec, format!("builder rejected a timestamp the wire format can carry ({:?}): {}", e, ts)),
		_ => {},
	}
	rec.case(&format!("ts {}", ts), &creation_verdict(&r), if r.is_ok() { "ts:ok" } else { "ts:err" }, true);
}

/// `dlen` / `mlen` / `hops <n>`: length verdicts of Description::new / payment_metadata / PrivateRoute::new
fn len_case(rec: &mut Rec, kind: &str, n: usize) {
	let secp = Secp256k1::new();
	let pk = PublicKey::from_secret_key(&secp, &SecretKey::from_slice(&[0x42; 32]).unwrap());
	let (ans, limit_ok) = match kind {
		"dlen" => (creation_verdict(&Description::new("a".repeat(n))), n <= WIRE_FIELD_BYTES_MAX),
		"mlen" => (creation_verdict(&InvoiceBuilder::new(Currency::Bitcoin).description("d".into()).payment_hash(PaymentHash([1; 32])).duration_since_epoch(Duration::from_secs(1))
			.min_final_cltv_expiry_delta(18).payment_secret(PaymentSecret([2; 32])).payment_metadata(vec![7; n]).build_raw()), n <= WIRE_FIELD_BYTES_MAX),
		_ => (creation_verdict(&PrivateRoute::new(RouteHint((0..n).map(|i| RouteHintHop { src_node_id: pk, short_channel_id: i as u64, fees: RoutingFees { base_msat: 1, proportional_millionths: 2 },
			cltv_expiry_delta: 3, htlc_minimum_msat: None, htlc_maximum_msat: None }).collect()))), n * 51 <= WIRE_FIELD_BYTES_MAX),
	};
	if (ans == "ok") != limit_ok { ofail(rec, format!("{} {}: constructor says {} but the 10-bit length field {} carry it", kind, n, ans, if limit_ok { "can" } else { "cannot" })); }
	rec.case(&format!("{} {}", kind, n), &ans, &format!("{}:{}", kind, if ans == "ok" { "ok" } else { "err" }), true);
}

/// sign `hrp` + `data` (5-bit symbols, no signature yet) with the fixed key: 65 bytes
fn sign_data(ctx: &B11, hrp: &str, data: &[u8]) -> Vec<u8> {
	let mut pre = hrp.as_bytes().to_vec();
	let mut padded = data.to_vec();
	let overhang = (padded.len() * 5) % 8;
	if overhang > 0 { padded.push(0); if overhang < 3 { padded.push(0); } }
	let (mut acc, mut bits) = (0u32, 0u32);
	for d in padded.iter() { acc = (acc << 5) | *d as u32; bits += 5; if bits >= 8 { bits -= 8; pre.push((acc >> bits) as u8); } }
	let h = sha256::Hash::hash(&pre);
	let (rid, sig) = ctx.secp.sign_ecdsa_recoverable(&Message::from_digest(h.to_byte_array()), &ctx.sk).serialize_compact();
	let mut v = sig.to_vec(); v.push(rid.to_i32() as u8); v
}

/// a raw invoice built from the public structs, really signed: serialise, parse back, compare;
/// `parse(serialize(x)) == x` is the implementation-side oracle, the string also goes to the model
fn raw_roundtrip(rec: &mut Rec, ctx: &B11, raw: RawBolt11Invoice, what: &str) -> Option<String> {
	let signed = match guarded(AssertUnwindSafe(|| raw.clone().sign::<_, ()>(|h| Ok(ctx.secp.sign_ecdsa_recoverable(h, &ctx.sk))))) {
		Ok(Ok(s)) => s, Ok(Err(_)) => return None, Err(p) => { ofail(rec, format!("signing / hashing panicked ({}) for {}", p, what)); return None; } };
	let s = match guarded(AssertUnwindSafe(|| signed.to_string())) { Ok(s) => s, Err(p) => { ofail(rec, format!("serialiser panicked ({}) for {}", p, what)); return None; } };
	match guarded(AssertUnwindSafe(|| s.parse::<SignedRawBolt11Invoice>())) {
		Err(p) => ofail(rec, format!("parser panicked on a checksum-valid string ({}) for {}: {}", p, what, s)),
		Ok(Err(e)) => ofail(rec, format!("parse(serialize(x)) fails ({:?}) for {}: {}", e, what, s)),
		Ok(Ok(back)) => if back != signed { ofail(rec, format!("parse(serialize(x)) != x for {}: {}", what, s)); },
	}
	emit_b11(rec, &s, "bound:");
	Some(s)
}

fn minimal_fields(extra: Vec<TaggedField>) -> Vec<RawTaggedField> {
	let mut f = vec![TaggedField::PaymentHash(PaymentHash([3; 32])), TaggedField::Description(Description::new("b".into()).unwrap()), TaggedField::PaymentSecret(PaymentSecret([4; 32]))];
	f.extend(extra);
	f.into_iter().map(RawTaggedField::KnownSemantics).collect()
}

/// (8) numeric boundaries and (9) malformed checksummed streams
fn run_bounds(rec: &mut Rec, rng: &mut Rng, ctx: &B11, scale: u64) -> String {
	let hrp0: RawHrp = "lnbc".parse().unwrap();
	// ---- (8a) timestamps: every base-32 digit boundary, the ends of the 35-bit range, beyond it
	let mut tss: Vec<u64> = vec![0, 1, 2, WIRE_TS_MAX - 1, WIRE_TS_MAX, WIRE_TS_MAX + 1, WIRE_TS_MAX + 2, 1 << 36, 1 << 40, 1 << 63, u64::MAX - 1, u64::MAX];
	for k in 1..=8u32 { let b = 32u64.pow(k); tss.extend_from_slice(&[b - 1, b, b + 1]); }
	for _ in 0..(20 * scale) { tss.push(rng.below(WIRE_TS_MAX + 1)); tss.push(WIRE_TS_MAX - rng.below(64)); tss.push(WIRE_TS_MAX + 1 + rng.below(64)); tss.push(rng.next() >> rng.below(30)); }
	let (mut n_ts_ok, mut n_ts_rej) = (0u64, 0u64);
	for ts in tss {
		ts_case(rec, ts);
		// the full builder on the same value
		let b = InvoiceBuilder::new(Currency::Bitcoin).description("t".into()).payment_hash(PaymentHash([5; 32])).payment_secret(PaymentSecret([6; 32]))
			.duration_since_epoch(Duration::from_secs(ts)).min_final_cltv_expiry_delta(144);
		match guarded(AssertUnwindSafe(|| b.build_signed(|m| ctx.secp.sign_ecdsa_recoverable(m, &ctx.sk)))) {
			Err(p) => ofail(rec, format!("InvoiceBuilder panicked for timestamp {}: {}", ts, p)),
			Ok(Err(e)) => { n_ts_rej += 1; if ts <= WIRE_TS_MAX { ofail(rec, format!("builder rejected a timestamp the wire format can carry ({:?}): {}", e, ts)); } },
			Ok(Ok(inv)) => {
				n_ts_ok += 1;
				if ts > WIRE_TS_MAX { ofail(rec, format!("builder accepted a timestamp the 35-bit field cannot carry: {}", ts)); }
				let s = inv.to_string();
				match guarded(AssertUnwindSafe(|| s.parse::<Bolt11Invoice>())) {
					Err(p) => ofail(rec, format!("parser panicked on a checksum-valid string ({}) built with timestamp {}: {}", p, ts, s)),
					Ok(Err(e)) => ofail(rec, format!("parse(serialize(x)) fails ({:?}) for timestamp {}: {}", e, ts, s)),
					Ok(Ok(back)) => if back != inv || back.duration_since_epoch() != Duration::from_secs(ts) || back.timestamp() != std::time::UNIX_EPOCH + Duration::from_secs(ts) {
						ofail(rec, format!("parse(serialize(x)) != x for timestamp {}: {}", ts, s)); },
				}
				if let Some(signed) = emit_b11(rec, &s, "bound:ts:") { emit_sem(rec, &s, &signed, "bound:ts:"); }
			},
		}
	}
	// ---- (8b) expiry / min_final_cltv_expiry_delta: all of u64, digit boundaries
	let mut vals: Vec<u64> = vec![0, 1, 2, 17, 18, 3599, 3600, 3601, u64::MAX / 2, (1 << 63) - 1, 1 << 63, u64::MAX - 1, u64::MAX];
	for k in 1..=12u32 { let b = 32u64.pow(k); vals.extend_from_slice(&[b - 1, b, b + 1]); }
	for _ in 0..(30 * scale) { vals.push(rng.next() >> rng.below(64)); }
	let n_int = vals.len();
	for v in vals {
		// announced length + digits of an `x` field, straight from the serialiser
		let raw = RawBolt11Invoice { hrp: hrp0.clone(), data: RawDataPart { timestamp: PositiveTimestamp::from_unix_timestamp(1).unwrap(),
			tagged_fields: vec![RawTaggedField::KnownSemantics(TaggedField::ExpiryTime(ExpiryTime::from_seconds(v)))] } };
		match guarded(AssertUnwindSafe(|| raw.to_raw().1.iter().map(|x| x.to_u8()).collect::<Vec<u8>>())) {
			Err(p) => ofail(rec, format!("serialiser panicked ({}) for expiry {}", p, v)),
			Ok(syms) => {
				let announced = syms[8] as usize * 32 + syms[9] as usize;
				if syms[7] != 6 || announced != syms.len() - 10 { ofail(rec, format!("expiry {}: announced field length {} but {} symbols written", v, announced, syms.len() - 10)); }
				rec.case(&format!("intenc {}", v), &format!("{} {}", announced, hex(&syms[10..])), "intenc", true);
			},
		}
		let raw = RawBolt11Invoice { hrp: hrp0.clone(), data: RawDataPart { timestamp: PositiveTimestamp::from_unix_timestamp(v % (WIRE_TS_MAX + 1)).unwrap_or(PositiveTimestamp::from_unix_timestamp(0).unwrap()),
			tagged_fields: minimal_fields(vec![TaggedField::ExpiryTime(ExpiryTime::from_seconds(v)), TaggedField::MinFinalCltvExpiryDelta(MinFinalCltvExpiryDelta(v))]) } };
		raw_roundtrip(rec, ctx, raw, &format!("expiry = min_final_cltv = {}", v));
		// through the builder and the accessors (incl. the overflow-prone expiry arithmetic)
		let b = InvoiceBuilder::new(Currency::Regtest).description("e".into()).payment_hash(PaymentHash([7; 32])).payment_secret(PaymentSecret([8; 32]))
			.duration_since_epoch(Duration::from_secs(*rng.pick(&[0u64, 1, 1_700_000_000, WIRE_TS_MAX - 1]))).min_final_cltv_expiry_delta(v).expiry_time(Duration::new(v, 999_999_999));
		match guarded(AssertUnwindSafe(|| b.build_signed(|m| ctx.secp.sign_ecdsa_recoverable(m, &ctx.sk)))) {
			Err(p) => ofail(rec, format!("InvoiceBuilder panicked for expiry/cltv {}: {}", v, p)),
			Ok(Err(e)) => ofail(rec, format!("builder rejected expiry/cltv {} ({:?})", v, e)),
			Ok(Ok(inv)) => {
				let s = inv.to_string();
				match guarded(AssertUnwindSafe(|| s.parse::<Bolt11Invoice>())) {
					Err(p) => ofail(rec, format!("parser panicked on a checksum-valid string ({}) built with expiry/cltv {}: {}", p, v, s)),
					Ok(Err(e)) => ofail(rec, format!("parse(serialize(x)) fails ({:?}) for expiry/cltv {}: {}", e, v, s)),
					Ok(Ok(back)) => {
						if back != inv || back.expiry_time() != Duration::from_secs(v) || back.min_final_cltv_expiry_delta() != v { ofail(rec, format!("parse(serialize(x)) != x for expiry/cltv {}: {}", v, s)); }
						if let Err(p) = guarded(AssertUnwindSafe(|| (back.expires_at(), back.is_expired(), back.duration_until_expiry(), back.would_expire(Duration::from_secs(v)),
							back.expiration_remaining_from_epoch(Duration::from_secs(u64::MAX)), back.would_expire(Duration::new(u64::MAX, 999_999_999))))) {
							ofail(rec, format!("expiry accessors panicked ({}) for expiry {}: {}", p, v, s)); }
					},
				}
				emit_b11(rec, &s, "bound:int:");
			},
		}
	}
	// ---- (8c) lengths: description / metadata bytes, route hops
	for n in [0usize, 1, 2, 637, 638, 639, 640, 641, 1000, 1023, 1024, 5000] { len_case(rec, "dlen", n); len_case(rec, "mlen", n); }
	for n in 0..=16usize { len_case(rec, "hops", n); }
	for n in [0usize, 1, 638, 639] {
		let d: String = (0..n).map(|i| if n == 639 && i % 3 == 0 { 'z' } else { 'y' }).collect();
		let d = match Description::new(d) { Ok(d) => d, Err(e) => { ofail(rec, format!("builder rejected a description the wire format can carry ({:?}): {} bytes", e, n)); continue; } };
		let raw = RawBolt11Invoice { hrp: hrp0.clone(), data: RawDataPart { timestamp: PositiveTimestamp::from_unix_timestamp(WIRE_TS_MAX).unwrap_or(PositiveTimestamp::from_unix_timestamp(0).unwrap()),
			tagged_fields: vec![RawTaggedField::KnownSemantics(TaggedField::PaymentHash(PaymentHash([3; 32]))), RawTaggedField::KnownSemantics(TaggedField::Description(d)),
				RawTaggedField::KnownSemantics(TaggedField::PaymentMetadata(rng.bytes(n)))] } };
		raw_roundtrip(rec, ctx, raw, &format!("description and metadata of {} bytes", n));
	}
	// multi-byte descriptions: the limit is 639 BYTES of UTF-8 (what the 10-bit field length can carry), not 639 characters
	for (ch, w) in [('é', 2usize), ('€', 3), ('😀', 4)] {
		for k in [638 / w, 639 / w, 639 / w + 1, 320, 639] {
			let d: String = std::iter::repeat(ch).take(k).collect();
			let bytes = d.len();
			let d2 = d.clone();
			match guarded(std::panic::AssertUnwindSafe(move || Description::new(d2))) {
				Ok(Ok(desc)) => {
					if bytes > WIRE_FIELD_BYTES_MAX { ofail(rec, format!("builder accepted a description of {} bytes ({} characters of {} bytes each) which a tagged field cannot carry", bytes, k, w)); continue; }
					let raw = RawBolt11Invoice { hrp: hrp0.clone(), data: RawDataPart { timestamp: PositiveTimestamp::from_unix_timestamp(3).unwrap(),
						tagged_fields: vec![RawTaggedField::KnownSemantics(TaggedField::PaymentHash(PaymentHash([3; 32]))), RawTaggedField::KnownSemantics(TaggedField::Description(desc))] } };
					raw_roundtrip(rec, ctx, raw, &format!("description of {} characters of {} bytes", k, w));
				},
				Ok(Err(e)) => if bytes <= WIRE_FIELD_BYTES_MAX { ofail(rec, format!("builder rejected a description the wire format can carry ({:?}): {} bytes in {} characters", e, bytes, k)); },
				Err(p) => ofail(rec, format!("Description::new panicked on {} characters of {} bytes: {}", k, w, p.chars().take(120).collect::<String>())),
			}
		}
	}
	for n in [0usize, 1, 11, 12] {
		let hops: Vec<RouteHintHop> = (0..n).map(|_| RouteHintHop { src_node_id: rand_pubkey(rng, &ctx.secp), short_channel_id: *rng.pick(&[0u64, u64::MAX, 1]), fees: RoutingFees { base_msat: u32::MAX, proportional_millionths: 0 },
			cltv_expiry_delta: u16::MAX, htlc_minimum_msat: None, htlc_maximum_msat: None }).collect();
		let raw = RawBolt11Invoice { hrp: hrp0.clone(), data: RawDataPart { timestamp: PositiveTimestamp::from_unix_timestamp(0).unwrap(),
			tagged_fields: minimal_fields(vec![TaggedField::PrivateRoute(match PrivateRoute::new(RouteHint(hops)) { Ok(r) => r,
				Err(e) => { ofail(rec, format!("builder rejected a route the wire format can carry ({:?}): {} hops", e, n)); continue; } })]) } };
		raw_roundtrip(rec, ctx, raw, &format!("private route of {} hops", n));
	}

	// fallback addresses at the ends of the witness-program range (BIP-141: 2..=40 bytes, versions 0..=16)
	for (ver, n) in [(0u8, 2usize), (0, 20), (0, 32), (0, 40), (1, 2), (1, 32), (1, 40), (16, 2), (16, 40), (15, 39), (2, 3)] {
		let raw = RawBolt11Invoice { hrp: hrp0.clone(), data: RawDataPart { timestamp: PositiveTimestamp::from_unix_timestamp(2).unwrap(),
			tagged_fields: minimal_fields(vec![TaggedField::Fallback(Fallback::SegWitProgram { version: WitnessVersion::try_from(ver).unwrap(), program: rng.bytes(n) }),
				TaggedField::Fallback(Fallback::PubKeyHash(PubkeyHash::from_slice(&rng.bytes(20)).unwrap())), TaggedField::Fallback(Fallback::ScriptHash(ScriptHash::from_slice(&rng.bytes(20)).unwrap()))]) } };
		raw_roundtrip(rec, ctx, raw, &format!("segwit v{} fallback with a {}-byte program", ver, n));
	}

	// ---- (9) malformed streams: correctly checksummed strings with extreme data parts
	let ts_pool: Vec<Vec<u8>> = vec![vec![31; 7], vec![0; 7], vec![31, 31, 31, 31, 31, 31, 30], vec![0, 0, 0, 0, 0, 0, 1], vec![16, 0, 0, 0, 0, 0, 0], vec![15, 31, 31, 31, 31, 31, 31]];
	let mut n_mal = 0u64;
	let mut feed = |rec: &mut Rec, rng: &mut Rng, hrp: &str, data: Vec<u8>, sig_kind: u64, class: &str| {
		let mut all = data.clone();
		match sig_kind { 0 => all.extend(bytes_to_syms(&sign_data(ctx, hrp, &data))), 1 => all.extend(vec![0u8; 104]), 2 => all.extend(vec![31u8; 104]),
			3 => { let mut v = rng.bytes(64); v[0] &= 0x7f; v[32] &= 0x7f; v.push(rng.below(4) as u8); all.extend(bytes_to_syms(&v)); }, _ => {} }
		if hrp.len() + 1 + all.len() + 6 > 7089 + 3 { return; }
		let s = encode(hrp, &all);
		n_mal += 1;
		emit_b11(rec, &s, class);
		if let Err(p) = guarded(AssertUnwindSafe(|| { let _ = s.parse::<Bolt11Invoice>().map(|i| (i.amount_milli_satoshis(), i.expiry_time(), i.expires_at(), i.min_final_cltv_expiry_delta(), i.route_hints(), i.fallback_addresses(), i.get_payee_pub_key(), i.to_string())); })) {
			ofail(rec, format!("Bolt11Invoice::from_str / accessors panicked on a checksum-valid string ({}): {}", p, s)); }
	};
	// the timestamp field alone, every extreme, every signature kind
	for ts in ts_pool.iter() { for sk in 0..5 { feed(rec, rng, "lnbc", ts.clone(), sk, "mal:ts:"); } }
	for cut in 0..7usize { feed(rec, rng, "lnbc", vec![31; cut], 4, "mal:ts:"); feed(rec, rng, "lnbc", vec![31; cut], 1, "mal:ts:"); }
	// every tag x payload length x fill, exact length field
	let lens = [0usize, 1, 2, 7, 12, 13, 14, 32, 33, 51, 52, 53, 54, 82, 83, 103, 104, 105, 1022, 1023];
	for tag in 0..32u8 {
		for (li, len) in lens.iter().enumerate() {
			for fill in 0..3u8 {
				if scale == 1 && *len >= 1022 && fill == 2 && tag % 4 != 1 { continue; }
				let payload: Vec<u8> = match fill { 0 => vec![0; *len], 1 => vec![31; *len], _ => (0..*len).map(|_| rng.below(32) as u8).collect() };
				let mut data = ts_pool[(tag as usize + li + fill as usize) % ts_pool.len()].clone();
				data.push(tag); data.push((*len / 32) as u8); data.push((*len % 32) as u8); data.extend(payload);
				let h = *rng.pick(&["lnbc", "lntb1m", "lnbcrt2500u"]);
				feed(rec, rng, h, data, if *len >= 1022 { 1 } else { (tag as u64 + fill as u64) % 4 }, "mal:field:");
			}
		}
	}
	// u64 digit boundaries of `x` / `c`: u64::MAX exactly, 2^64, 13 and 14 all-ones digits, leading zeros
	for tag in [6u8, 24] {
		let mut pls: Vec<Vec<u8>> = vec![vec![15, 31, 31, 31, 31, 31, 31, 31, 31, 31, 31, 31, 31], vec![16, 0, 0, 0, 0, 0, 0, 0, 0, 0, 0, 0, 0], vec![31; 13], vec![31; 14], vec![1; 14], vec![31; 12]];
		pls.push([vec![0u8; 20], vec![15u8], vec![31u8; 12]].concat()); pls.push([vec![0u8; 1010], vec![31u8; 13]].concat()); pls.push([vec![0u8; 1010], vec![15u8], vec![31u8; 12]].concat());
		for p in pls { let mut data = vec![0u8; 7]; data.push(tag); data.push((p.len() / 32) as u8); data.push((p.len() % 32) as u8); data.extend(p); feed(rec, rng, "lnbc", data, 0, "mal:int:"); }
	}
	// a valid field followed by a field cut at every position / with a length pointing past the end
	for tag in [1u8, 13, 19, 23, 6, 24, 9, 3, 16, 27, 5, 0, 31] {
		let len = *rng.pick(&[1usize, 20, 52, 53, 102]);
		let mut full = vec![0u8; 7];
		full.extend_from_slice(&[13, 0, 2, 12, 16]);
		full.push(tag); full.push((len / 32) as u8); full.push((len % 32) as u8); full.extend((0..len).map(|_| rng.below(32) as u8));
		let cuts: Vec<usize> = if scale > 1 || tag == 1 { (7..full.len()).collect() } else { vec![7, 8, 9, 12, 13, 14, 15, 16, full.len() - 1] };
		for cut in cuts { let sk = *rng.pick(&[1u64, 4]); feed(rec, rng, "lnbc", full[..cut.min(full.len())].to_vec(), sk, "mal:cut:"); }
		for over in [1usize, 2, 31, 1023 - len] { let mut d = full.clone(); let l2 = len + over; d[13] = (l2 / 32) as u8; d[14] = (l2 % 32) as u8; feed(rec, rng, "lnbc", d, 1, "mal:overlen:"); }
	}
	// several maximal fields, up to and beyond MAX_LENGTH
	for n_fields in [1usize, 2, 5, 6, 7] {
		for tag in [13u8, 27, 3, 9, 2] {
			let mut data = vec![31u8; 7];
			for k in 0..n_fields { let len = if k + 1 == n_fields { 1023 - 5 * (n_fields % 3) } else { 1023 }; data.push(tag); data.push((len / 32) as u8); data.push((len % 32) as u8); data.extend(vec![if tag == 13 { 12 } else { 31 }; len]); }
			feed(rec, rng, "lnbc", data, 1, "mal:big:");
		}
	}
	// random mixtures of the above ingredients
	for _ in 0..(150 * scale) {
		let mut data = rng.pick(&ts_pool).clone();
		for _ in 0..rng.below(4) {
			let tag = if rng.chance(1, 2) { *rng.pick(&[1u8, 13, 19, 23, 6, 24, 9, 3, 16, 27, 5]) } else { rng.below(32) as u8 };
			let len = *rng.pick(&[0usize, 1, 13, 14, 52, 53, 82, 1023, 40, 7]);
			let fill = rng.below(3);
			data.push(tag); data.push((len / 32) as u8); data.push((len % 32) as u8);
			data.extend((0..len).map(|_| match fill { 0 => 0, 1 => 31, _ => rng.below(32) as u8 }));
		}
		if rng.chance(1, 5) { let n = rng.below(data.len() as u64 + 1) as usize; data.truncate(n); }
		let sk = rng.below(5);
		let h = *rng.pick(&["lnbc", "lntbs", "lnbc1p", "lnsb20m"]);
		feed(rec, rng, h, data, sk, "mal:mix:");
	}
	format!("timestamps: builder accepted {} / rejected {}; expiry+cltv values {}; malformed checksummed strings {}", n_ts_ok, n_ts_rej, n_int, n_mal)
}

fn run_b11(args: &Args) {
	let mut rec = Rec::new(&args.out, "c18b11");
	let mut rng = Rng::new(args.seed);
	let secp = Secp256k1::new();
	let sk = SecretKey::from_slice(&[0x41; 32]).unwrap();
	let pk = PublicKey::from_secret_key(&secp, &sk);
	let mut ctx = B11 { secp, sk, pk, n_ok: 0, n_mut1: 0, n_mut2: 0, outcomes: [0; 3] };
	let scale = args.scale * if args.thorough { 10 } else { 1 };

	// (1) InvoiceBuilder over its input space
	let n_build = 70 * scale;
	for k in 0..n_build {
		let (inv, want) = match guarded(AssertUnwindSafe(|| build_invoice(&mut rng, &ctx))) {
			Err(p) => { rec.oracle_fail(format!("InvoiceBuilder panicked: {}", p)); continue; },
			Ok(Ok(x)) => { builder_verdict_oracle(&mut rec, &x.1, Ok(())); x },
			Ok(Err((e, w))) => {
				// a rejected build is an outcome to be explained, not a discarded case
				builder_verdict_oracle(&mut rec, &w, Err(&e));
				ts_case(&mut rec, w.ts);
				if let Some(a) = w.amount { let r = InvoiceBuilder::new(Currency::Bitcoin).amount_milli_satoshis(a).duration_since_epoch(Duration::from_secs(1)).build_raw();
					rec.case(&format!("amt bc {}", a), &match r { Ok(raw) => format!("ok {}", raw.hrp.to_string()), Err(_) => "err InvalidAmount".to_string() }, "built:rejected:amt", true); }
				if let Some(m) = &w.meta { len_case(&mut rec, "mlen", m.0.len()); }
				continue;
			},
		};
		roundtrip_oracle(&mut rec, &inv, &want, &ctx);
		let s = inv.to_string();
		ctx.n_ok += 1;
		match emit_b11(&mut rec, &s, "built:") { None => { rec.oracle_fail(format!("built invoice rejected: {}", s)); continue; }, Some(signed) => emit_sem(&mut rec, &s, &signed, "built:") }
		if rng.chance(1, 4) { let up = s.to_uppercase(); emit_b11(&mut rec, &up, "upper:"); }
		let (hrp, syms) = split(&s);
		// checksum tie: the six symbols the real encoder produced
		rec.case(&format!("chk {} {}", hex(hrp.as_bytes()), hex(&syms[..syms.len() - 6])), &hex(&syms[syms.len() - 6..]), "chk", true);
		// (2) single-character changes (checksum NOT recomputed) => both sides must reject
		let bytes = s.as_bytes();
		let all_positions = k < 3 * args.scale || args.thorough && k < 20;
		let n_pos = if all_positions { bytes.len() } else { 40 };
		for j in 0..n_pos {
			let pos = if all_positions { j } else { rng.below(bytes.len() as u64) as usize };
			let reps: Vec<u8> = if all_positions && k == 0 { CHARSET.iter().copied().chain(b"1bioBIO0Q -~".iter().copied()).collect() }
				else { vec![CHARSET[rng.below(32) as usize], *rng.pick(b"1bio0QZ~!"), b'0' + rng.below(10) as u8] };
			for c in reps {
				if c == bytes[pos] || c == b' ' { continue; }
				let mut m = bytes.to_vec(); m[pos] = c;
				let ms = String::from_utf8(m).unwrap();
				ctx.n_mut1 += 1;
				if emit_b11(&mut rec, &ms, "mut1:").is_some() { rec.oracle_fail(format!("single-character change accepted: pos={} orig={} mutant={}", pos, s, ms)); }
			}
		}
		// (3) single-symbol / amount changes with the checksum recomputed
		let body = &syms[..syms.len() - 6];
		let n_sym = if all_positions { body.len() } else { 60 };
		for j in 0..n_sym {
			let pos = if all_positions { j } else { rng.below(body.len() as u64) as usize };
			let mut b = body.to_vec();
			b[pos] = (b[pos] + 1 + rng.below(31) as u8) % 32;
			let ms = encode(&hrp, &b);
			classify_mutant(&mut rec, &mut ctx, &inv, &ms, &format!("symbol {}", pos));
		}
		for _ in 0..6 {
			// amount / currency changes in the human-readable part
			let mut h = hrp.clone().into_bytes();
			match rng.below(4) {
				0 => { let p = rng.below(h.len() as u64) as usize; h[p] = *rng.pick(b"0123456789munpbctrs"); },
				1 => { h.push(*rng.pick(b"0123456789munp")); },
				2 => { if h.len() > 4 { h.pop(); } else { h.push(b'1'); } },
				_ => { h = format!("ln{}{}{}", rng.pick(&["bc", "tb", "bcrt", "sb", "tbs"]), rng.below(5000), rng.pick(&["", "m", "u", "n", "p"])).into_bytes(); },
			}
			let hs = String::from_utf8(h).unwrap();
			if hs == hrp { continue; }
			let ms = encode(&hs, body);
			classify_mutant(&mut rec, &mut ctx, &inv, &ms, "hrp");
		}
	}

	// (4) raw invoices outside the builder's range: unknown tags, wrong-length known tags, non-canonical
	// encodings, hard-error payloads; signed with the fixed key, or with arbitrary signature bytes
	let n_synth = 700 * scale;
	for _ in 0..n_synth {
		let hrp = match rng.below(10) {
			0 => rng.pick(&["lnbc", "lntb", "lnbcrt", "lnsb", "lntbs", "lnbc1", "ln", "l", "lnxx", "lnbc10x", "lnbc10mm", "lnbc1m0", "lnbcm", "lntbs2500u", "xnbc", "lbbc",
				"lnbc18446744073709551615", "lnbc18446744073709551616", "lnbc18446744073709551615p", "lnbc18446744073710n", "lnbc18446744073709n", "lnbc18446744074u", "lnbc18446744073u", "lnbc18446744073m", "lnbc18446744074m", "lnbc000012p", "ln1", "lnbc9p", "lnbc10p", "lnbc0"]).to_string(),
			1 => format!("ln{}{}", rng.pick(&["bc", "tb", "bcrt", "sb", "tbs"]), rng.next()),
			_ => format!("ln{}{}{}", rng.pick(&["bc", "tb", "bcrt", "sb", "tbs"]), if rng.chance(1, 4) { String::new() } else { (rng.next() >> rng.below(64)).to_string() }, rng.pick(&["", "m", "u", "n", "p", "p"])),
		};
		let mut data: Vec<u8> = match rng.below(8) { 0 => vec![31; 7], 1 => vec![0; 7], 2 => vec![31, 31, 31, 31, 31, 31, 30], 3 => { let mut v = vec![0u8; 7]; let i = rng.below(7) as usize; v[i] = 1 + rng.below(31) as u8; v },
			_ => (0..7).map(|_| rng.below(32) as u8).collect() };
		let n_fields = rng.below(7);
		for _ in 0..n_fields {
			let tag = if rng.chance(3, 4) { *rng.pick(&[1u8, 13, 19, 23, 6, 24, 9, 3, 16, 27, 5]) } else { rng.below(32) as u8 };
			let payload: Vec<u8> = match (tag, rng.below(4)) {
				(1, 0..=1) | (16, 0..=1) | (23, 0..=1) => (0..52).map(|_| rng.below(32) as u8).collect(),
				(13, 0..=1) => bytes_to_syms(rand_string(&mut rng, 30).as_bytes()),
				(19, 0..=1) => { let mut v = bytes_to_syms(&rand_pubkey(&mut rng, &ctx.secp).serialize()); if rng.chance(1, 4) { let l = v.len(); v[l - 1] |= 1; } v },
				(19, 2) => (0..53).map(|_| rng.below(32) as u8).collect(),
				(6, 0..=2) | (24, 0..=2) => (0..rng.below(15)).map(|_| if rng.chance(1, 3) { 0 } else { rng.below(32) as u8 }).collect(),
				(9, 0..=2) => { let ver = if rng.chance(2, 3) { *rng.pick(&[0u8, 1, 16, 17, 18]) } else { rng.below(32) as u8 };
					let n = match ver { 17 => 20, 18 => 32, _ => rng.range(0, 42) as usize }; let n = if rng.chance(1, 6) { n + 1 } else { n };
					let mut v = vec![ver]; v.extend(bytes_to_syms(&rng.bytes(n))); v },
				(3, 0..=2) => { let hops = rng.below(3) as usize; let mut b = vec![];
					for _ in 0..hops { b.extend_from_slice(&rand_pubkey(&mut rng, &ctx.secp).serialize()); b.extend(rng.bytes(18)); }
					if rng.chance(1, 6) { b.push(0); } if rng.chance(1, 8) && !b.is_empty() { b[0] = 5; } bytes_to_syms(&b) },
				(5, _) => (0..rng.below(8)).map(|_| if rng.chance(1, 2) { 0 } else { rng.below(32) as u8 }).collect(),
				_ => { let mx = if rng.chance(1, 10) { 200 } else { 60 }; let n = rng.below(mx); (0..n).map(|_| rng.below(32) as u8).collect() },
			};
			let len = if rng.chance(1, 25) { payload.len() + rng.below(4) as usize } else { payload.len() };
			data.push(tag); data.push((len / 32) as u8 % 32); data.push((len % 32) as u8);
			data.extend(payload);
		}
		if rng.chance(1, 25) { data.truncate(rng.below(data.len() as u64 + 1) as usize); }
		// signature: real one over the preimage as the parser will see it is impossible before parsing, so
		// sign the hash of what we built (valid when the data is canonical), or use arbitrary bytes
		let sig65: Vec<u8> = match rng.below(6) {
			0 => { let mut v = rng.bytes(64); v.push(rng.below(4) as u8); v },
			1 => { let mut v = vec![0xff; 32]; v.extend(rng.bytes(32)); v.push(0); v },
			2 => { let mut v = rng.bytes(32); v.extend(vec![0xff; 32]); v.push(1); v },
			3 => { let mut v = rng.bytes(64); v.push(4 + rng.below(252) as u8); v },
			_ => {
				let mut pre = hrp.clone().into_bytes();
				let mut padded = data.clone();
				let overhang = (padded.len() * 5) % 8;
				if overhang > 0 { padded.push(0); if overhang < 3 { padded.push(0); } }
				let (mut acc, mut bits) = (0u32, 0u32);
				for d in padded.iter() { acc = (acc << 5) | *d as u32; bits += 5; if bits >= 8 { bits -= 8; pre.push((acc >> bits) as u8); } }
				let h = sha256::Hash::hash(&pre);
				let (rid, sig) = ctx.secp.sign_ecdsa_recoverable(&Message::from_digest(h.to_byte_array()), &ctx.sk).serialize_compact();
				let mut v = sig.to_vec(); v.push(rid.to_i32() as u8); v },
		};
		let mut all = data.clone();
		if !rng.chance(1, 30) { all.extend(bytes_to_syms(&sig65)); }
		let mut s = encode(&hrp, &all);
		if rng.chance(1, 12) { s = s.to_uppercase(); }
		let parsed = emit_b11(&mut rec, &s, "synth:");
		if let Some(signed) = parsed {
			emit_sem(&mut rec, &s, &signed, "synth:");
			// no panic in the semantic layer either
			if let Err(p) = guarded(AssertUnwindSafe(|| { let _ = Bolt11Invoice::from_signed(signed.clone()).map(|i| (i.amount_milli_satoshis(), i.expiry_time(), i.route_hints(), i.fallback_addresses(), i.get_payee_pub_key())); })) {
				rec.oracle_fail(format!("from_signed/accessors panicked ({}): {}", p, s));
			}
		}
	}
	// (4b) semantic layer: well-formed raw invoices with missing / duplicated mandatory fields, feature
	// bit variants, imprecise pico amounts, wrong signer; built from the public structs and really signed
	let n_sem = 400 * scale;
	for _ in 0..n_sem {
		let mut tf: Vec<TaggedField> = vec![];
		let n_p = *rng.pick(&[1usize, 1, 1, 1, 0, 2]);
		let n_d = *rng.pick(&[1usize, 1, 1, 1, 0, 2]);
		let n_s = *rng.pick(&[1usize, 1, 1, 1, 0, 2]);
		for _ in 0..n_p { tf.push(TaggedField::PaymentHash(PaymentHash(rng.bytes32()))); }
		for _ in 0..n_d { if rng.chance(1, 2) { tf.push(TaggedField::Description(Description::new(rand_string(&mut rng, 20)).unwrap())); } else { tf.push(TaggedField::DescriptionHash(Sha256(sha256::Hash::from_byte_array(rng.bytes32())))); } }
		for _ in 0..n_s { tf.push(TaggedField::PaymentSecret(PaymentSecret(rng.bytes32()))); }
		let n_f = *rng.pick(&[1usize, 1, 1, 1, 1, 0, 2]);
		for _ in 0..n_f {
			let mut flags = vec![0u8; rng.below(14) as usize + 2];
			let nbits = flags.len() * 8;
			let set = |b: usize, fl: &mut Vec<u8>| { if b < nbits { fl[b / 8] |= 1 << (b % 8); } };
			match rng.below(8) { 0 => {}, 1 => set(15, &mut flags), _ => set(14, &mut flags) }
			if rng.chance(1, 2) { set(8, &mut flags); }
			if rng.chance(1, 3) { set(*rng.pick(&[16usize, 17, 48, 49, 56, 57, 9]), &mut flags); }
			if rng.chance(1, 4) { let b = rng.below(nbits as u64) as usize; set(b, &mut flags); }
			if rng.chance(1, 6) { let b = 2 * rng.below(nbits as u64 / 2) as usize; set(b, &mut flags); }
			tf.push(TaggedField::Features(lightning::types::features::Bolt11InvoiceFeatures::from_le_bytes(flags)));
		}
		if rng.chance(1, 3) { tf.push(TaggedField::ExpiryTime(ExpiryTime::from_seconds(rng.below(100000)))); }
		let foreign = rand_pubkey(&mut rng, &ctx.secp);
		if rng.chance(1, 4) { tf.push(TaggedField::PayeePubKey(PayeePubKey(if rng.chance(1, 2) { ctx.pk } else { foreign }))); }
		// shuffle
		for i in (1..tf.len()).rev() { let j = rng.below(i as u64 + 1) as usize; tf.swap(i, j); }
		let hrp = RawHrp { currency: Currency::Bitcoin,
			raw_amount: if rng.chance(1, 4) { None } else { Some(match rng.below(4) { 0 => rng.below(100), 1 => 10 * rng.below(1000), 2 => 2501, _ => rng.next() % 1_000_000 }) },
			si_prefix: None };
		let hrp = RawHrp { si_prefix: if hrp.raw_amount.is_some() && !rng.chance(1, 6) { Some(*rng.pick(&[SiPrefix::Milli, SiPrefix::Micro, SiPrefix::Nano, SiPrefix::Pico, SiPrefix::Pico])) } else { None }, ..hrp };
		let raw = RawBolt11Invoice { hrp, data: RawDataPart { timestamp: PositiveTimestamp::from_unix_timestamp(rng.below(MAX_TIMESTAMP)).unwrap(), tagged_fields: tf.into_iter().map(RawTaggedField::KnownSemantics).collect() } };
		let wrong_sig = rng.chance(1, 8);
		let signed = raw.sign::<_, ()>(|h| Ok(if wrong_sig { ctx.secp.sign_ecdsa_recoverable(&Message::from_digest([7; 32]), &ctx.sk) } else { ctx.secp.sign_ecdsa_recoverable(h, &ctx.sk) })).unwrap();
		let s = signed.to_string();
		match emit_b11(&mut rec, &s, "semgen:") {
			Some(p) => emit_sem(&mut rec, &s, &p, "semgen:"),
			None => rec.oracle_fail(format!("serialised raw invoice does not parse back: {}", s)),
		}
	}
	// (5) arbitrary strings never panic
	let n_arb = 400 * scale;
	for _ in 0..n_arb {
		let n = rng.below(200) as usize;
		let s: String = match rng.below(3) {
			0 => (0..n).map(|_| (33 + rng.below(94)) as u8 as char).collect(),
			1 => format!("lnbc1{}", (0..n).map(|_| CHARSET[rng.below(32) as usize] as char).collect::<String>()),
			_ => { let d: Vec<u8> = (0..n).map(|_| rng.below(32) as u8).collect(); encode(*rng.pick(&["lnbc", "lntb1u", "a", "lnbc2500u"]), &d) },
		};
		emit_b11(&mut rec, &s, "arb:");
		if let Err(p) = guarded(AssertUnwindSafe(|| { let _ = s.parse::<Bolt11Invoice>(); })) { rec.oracle_fail(format!("Bolt11Invoice::from_str panicked ({}): {:?}", p, s)); }
	}
	{
		// non-ASCII / whitespace input goes to the real parser only (op lines are space separated)
		for s in ["", " ", "lnbc1 ", "lnbc1\u{e9}qqqqqq", "ln\u{1f37a}1qqqqqq", "1", "11", "lnbc1", "1qqqqqq", "lnbc11qqqqq"] {
			if let Err(p) = guarded(AssertUnwindSafe(|| { let _ = s.parse::<Bolt11Invoice>(); })) { rec.oracle_fail(format!("Bolt11Invoice::from_str panicked ({}): {:?}", p, s)); }
			if !s.contains(' ') { emit_b11(&mut rec, s, "arb:"); }
		}
	}

	// (6) human-readable part: RawHrp::from_str and the builder's amount encoding over 0..=max
	let mut amounts: Vec<u64> = vec![0, 1, 9, 10, 99, 100, 1000, 999_999, 1_000_000, 100_000_000, 100_000_000_000, u64::MAX / 10, u64::MAX / 10 + 1, u64::MAX];
	for e in 0..20 { for m in [1u64, 2, 5, 9] { amounts.push(10u64.saturating_pow(e).saturating_mul(m)); amounts.push(10u64.saturating_pow(e).saturating_mul(m).saturating_add(1)); } }
	for _ in 0..(300 * scale) { amounts.push(rand_amount(&mut rng)); amounts.push(rng.next() >> rng.below(64)); }
	for a in amounts {
		let cur = *rng.pick(&["bc", "tb", "bcrt", "sb", "tbs"]);
		let currency = match cur { "bc" => Currency::Bitcoin, "tb" => Currency::BitcoinTestnet, "bcrt" => Currency::Regtest, "sb" => Currency::Simnet, _ => Currency::Signet };
		let r = InvoiceBuilder::new(currency).amount_milli_satoshis(a).duration_since_epoch(Duration::from_secs(1)).build_raw();
		match r {
			Ok(raw) => {
				let h = raw.hrp.to_string();
				rec.case(&format!("amt {} {}", cur, a), &format!("ok {}", h), "amt:ok", true);
				// impl oracle: amount_hrp_roundtrip on the real code
				match h.parse::<RawHrp>() {
					Ok(p) => { let back = RawBolt11Invoice { hrp: p, data: raw.data.clone() }.amount_pico_btc().map(|v| v / 10); if back != Some(a) { rec.oracle_fail(format!("amount {} msat reads back as {:?} from hrp {}", a, back, h)); } },
					Err(e) => rec.oracle_fail(format!("hrp {} built for {} msat does not parse: {:?}", h, a, e)),
				}
				hrp_case(&mut rec, &h);
			},
			Err(_) => rec.case(&format!("amt {} {}", cur, a), "err InvalidAmount", "amt:err", true),
		}
	}
	rec.case("amt bc none", "ok lnbc", "amt:ok", true);
	for _ in 0..(500 * scale) {
		let h = match rng.below(4) {
			0 => format!("ln{}{}{}", rng.pick(&["bc", "tb", "bcrt", "sb", "tbs", "", "b", "bcr", "tbss"]), rng.next() >> rng.below(64), rng.pick(&["", "m", "u", "n", "p", "k", "mm", "m1"])),
			1 => { let n = rng.below(12) as usize; (0..n).map(|_| *rng.pick(b"lnbctrs0123456789munpx") as char).collect() },
			2 => format!("lnbc{}{}", u64::MAX as u128 / *rng.pick(&[1u128, 1000, 1_000_000, 1_000_000_000]) + rng.below(3) as u128 - 1, rng.pick(&["", "m", "u", "n", "p"])),
			_ => format!("lnbc{}{}", "0".repeat(rng.below(30) as usize), rng.below(100)),
		};
		hrp_case(&mut rec, &h);
	}

	// (7) 8 <-> 5 bit regrouping, through the `m` (payment metadata, Vec<u8>) field of the public API
	for _ in 0..(200 * scale) {
		let n = rng.below(70) as usize;
		let b = rng.bytes(n);
		let raw = RawBolt11Invoice { hrp: "lnbc".parse::<RawHrp>().unwrap(), data: RawDataPart { timestamp: PositiveTimestamp::from_unix_timestamp(0).unwrap(), tagged_fields: vec![RawTaggedField::KnownSemantics(TaggedField::PaymentMetadata(b.clone()))] } };
		let syms: Vec<u8> = raw.to_raw().1.iter().map(|x| x.to_u8()).collect();
		rec.case(&format!("to5 {}", hex(&b)), &hex(&syms[10..]), "to5", true);
		let m = rng.below(100) as usize;
		let syms2: Vec<u8> = (0..m).map(|_| rng.below(32) as u8).collect();
		let mut data = vec![0u8; 7];
		data.extend_from_slice(&[27, (m / 32) as u8, (m % 32) as u8]);
		data.extend_from_slice(&syms2);
		let mut sig = rng.bytes(64); sig[0] &= 0x7f; sig[32] &= 0x7f; sig.push(0);
		data.extend(bytes_to_syms(&sig));
		match encode("lnbc", &data).parse::<SignedRawBolt11Invoice>() {
			Ok(p) => rec.case(&format!("to8 {}", hex(&syms2)), &hex(p.raw_invoice().payment_metadata().unwrap()), "to8", true),
			Err(e) => rec.oracle_fail(format!("metadata carrier invoice rejected: {:?}", e)),
		}
	}

	// (8) numeric boundaries of every field, (9) malformed checksummed streams
	let bstats = run_bounds(&mut rec, &mut rng, &ctx, scale);

	rec.notes.insert("rule".into(), "InvoiceBuilder over PRNG-drawn amount(0..max)/timestamp/expiry/description|hash/fallbacks/route hints/metadata/mpp/payee-by-n|recovery in 3 call orders, signed with a fixed key; every built string: parse dump + re-serialisation, every single-character change (all positions for the first invoices, sampled after), single-symbol and HRP changes with recomputed checksum classified into {error, other recovered payee, identical signed content}; synthetic raw invoices with unknown/wrong-length/non-canonical/hard-error fields and arbitrary signatures; arbitrary strings; HRP/amount sweep; 5<->8 bit regrouping; numeric boundaries: timestamps 0,1,32^k-1,32^k,2^35-2,2^35-1 accepted + round trip, 2^35.. rejected; expiry / min_final_cltv 0..u64::MAX at every base-32 digit boundary; description / metadata 639|640 bytes, routes 12|13 hops; malformed checksummed streams: all-ones / all-zero timestamps, every tag with 0..1023-symbol all-zero / all-ones / random payloads, truncation at every cut, over-long declared lengths, u64 overflow digits, strings up to MAX_LENGTH; rejected builds are explained, not discarded".into());
	rec.notes.insert("boundaries".into(), bstats);
	rec.notes.insert("built_invoices".into(), ctx.n_ok.to_string());
	rec.notes.insert("single_char_mutants".into(), ctx.n_mut1.to_string());
	rec.notes.insert("rechecksummed_mutants".into(), format!("{} (error {}, other payee {}, identical signed content {})", ctx.n_mut2, ctx.outcomes[0], ctx.outcomes[1], ctx.outcomes[2]));
	rec.finish();
}

fn hrp_case(rec: &mut Rec, h: &str) {
	if h.contains(' ') { return; }
	let ans = match guarded(AssertUnwindSafe(|| h.parse::<RawHrp>())) {
		Err(p) => { rec.oracle_fail(format!("RawHrp::from_str panicked ({}): {:?}", p, h)); format!("panic {}", p) },
		Ok(Err(e)) => format!("err {}", err_name(&e)),
		Ok(Ok(p)) => {
			let cur = p.currency.to_string();
			let si = p.si_prefix.map_or("none".to_string(), |s| s.to_string());
			let raw_amount = p.raw_amount;
			let back = p.to_string();
			let inv = RawBolt11Invoice { hrp: p, data: RawDataPart { timestamp: PositiveTimestamp::from_unix_timestamp(0).unwrap(), tagged_fields: vec![] } };
			let pico = inv.amount_pico_btc();
			let o = |x: Option<u64>| x.map_or("none".to_string(), |v| v.to_string());
			format!("ok {} {} {} {} {} {} {}", cur, o(raw_amount), si, o(pico), o(pico.map(|v| v / 10)), if pico.map_or(true, |v| v % 10 == 0) { 1 } else { 0 }, back)
		},
	};
	let class = if ans.starts_with("ok") { "hrp:ok".to_string() } else { format!("hrp:{}", ans.replace(' ', ":")) };
	rec.case(&format!("hrp {}", hex(h.as_bytes())), &ans, &class, true);
}

/// BOLT-12 half (model c18b12)
#[allow(unused_imports, dead_code)]
mod b12 {
	//! C18 (BOLT-12 half) — offers / invoice requests / invoices / refunds / static invoices of the real code.
	//! ops:  merkle <tlv-hex>                               -> <root-hex>     (hook offers::merkle_root)
	//!       digest <tag-hex> <tlv-hex>                     -> <digest-hex>   (hook offers::tagged_digest)
	//!       mverify <r|p> <base-key> <iv> <metadata> <tlv> -> ok | err       (hook offers::verify_metadata, non key-deriving lengths)
	//!       mhmac <r|p> <base-key> <iv> <metadata> <tlv>   -> <secret-hex>   (hook offers::verify_metadata, key-deriving lengths)
	//!       mkeys <r|p> <base-key> <iv> <metadata> <signing-pubkey> <secret:pubkey|-> <tlv> -> keys <secret> | ok | err
	//!                                                      (the whole verdict incl. the public key comparison)
	//!       offerverify <base-key> <nonce|-> <secret:pubkey|-> <offer> / invverify <base-key> <secret:pubkey|-> <invoice>
	//!       mirror <req|inv|sinv> <earlier message> <payer|-> <own> <expOwn|-> <sig> -> <message bytes>   (write plans of Unsigned*::new + sign)
	//!       resign <req|inv> <unsigned bytes> <signature record>  -> <ok|not-ascending|contents-differ|malformed> <signed bytes>
	//!                                                      (Unsigned*::try_from -> sign: the split range of bytes / experimental_bytes)
	//!       uwrite <req|inv> <unsigned bytes>                  -> <bytes written by Unsigned*::write after try_from>
	//! plus implementation-only oracles (round trips, single-bit mutations of signed streams, metadata
	//! negatives, no-panic fuzzing of the public parsers), counted in the stats notes.
	use ldk_verif_harness::common::*;

	use bitcoin::hashes::hmac::{Hmac, HmacEngine};
	use bitcoin::hashes::{sha256, Hash, HashEngine};
	use bitcoin::secp256k1::{self, Keypair, PublicKey, Secp256k1, SecretKey};
	use bitcoin::Network;
	use core::time::Duration;
	use lightning::blinded_path::message::BlindedMessagePath;
	use lightning::blinded_path::payment::{BlindedPayInfo, BlindedPaymentPath};
	use lightning::blinded_path::BlindedHop;
	use lightning::ln::channelmanager::PaymentId;
	use lightning::ln::inbound_payment::ExpandedKey;
	use lightning::ln::verif_hooks::offers as b12_vho;
	use lightning::offers::invoice::{Bolt12Invoice, UnsignedBolt12Invoice};
	use lightning::offers::invoice_request::{InvoiceRequest, InvoiceRequestVerifiedFromOffer, UnsignedInvoiceRequest};
	use lightning::offers::nonce::Nonce;
	use lightning::offers::offer::{Amount, MetadataStrategy, Offer, OfferBuilder, Quantity};
	use lightning::offers::parse::Bolt12SemanticError;
	use lightning::offers::refund::{Refund, RefundBuilder};
	use lightning::offers::static_invoice::{StaticInvoice, StaticInvoiceBuilder, UnsignedStaticInvoice};
	use lightning::onion_message::dns_resolution::HumanReadableName;
	use lightning::sign::EntropySource;
	use lightning::types::features::BlindedHopFeatures;
	use lightning::types::payment::PaymentHash;
	use lightning::util::ser::Writeable;
	use std::collections::{BTreeMap, BTreeSet};
	use std::panic::AssertUnwindSafe as B12Aus;

	const B12_MAX_MSAT: u64 = 21_000_000 * 100_000_000 * 1000;
	const B12_NETS: [Network; 4] = [Network::Bitcoin, Network::Testnet, Network::Signet, Network::Regtest];
	const B12_TAG_INVREQ: &'static str = lightning::offers::invoice_request::SIGNATURE_TAG;
	const B12_TAG_INVOICE: &'static str = lightning::offers::invoice::SIGNATURE_TAG;
	const B12_TAG_STATIC: &'static str = lightning::offers::static_invoice::SIGNATURE_TAG;
	const B12_IV_OFFER_META: &[u8; 16] = b"LDK Offer ~~~~~~";
	const B12_IV_OFFER_KEYS: &[u8; 16] = b"LDK Offer v2~~~~";
	const B12_IV_INVREQ: &[u8; 16] = b"LDK Invreq ~~~~~";
	const B12_IV_REFUND_META: &[u8; 16] = b"LDK Refund ~~~~~";
	const B12_IV_REFUND_KEYS: &[u8; 16] = b"LDK Refund v2~~~";

	// ---------------------------------------------------------------------------------------------
	// state shared by the phases
	// ---------------------------------------------------------------------------------------------

	struct B12St {
		secp: Secp256k1<secp256k1::All>,
		thorough: bool,
		pks: Vec<PublicKey>,
		dummy_pk: PublicKey,
		bitflips: u64,
		bitflip_full_sweeps: u64,
		verify_neg: u64,
		verify_pos: u64,
		roundtrips: u64,
		no_panic: u64,
		no_panic_parsed_ok: u64,
		builder_rejects: u64,
		builder_errs: BTreeMap<String, u64>,
		built: BTreeMap<&'static str, u64>,
		sweeps_left: BTreeMap<&'static str, u32>,
		probes: BTreeMap<String, String>,
		corpus: Vec<Vec<u8>>,
		corpus_set: std::collections::HashSet<Vec<u8>>,
		sig_range_accepts: u64,
		str_corpus: Vec<String>,
	}

	impl B12St {
		fn b12_built(&mut self, k: &'static str) { *self.built.entry(k).or_insert(0) += 1; }
		fn b12_builder_err(&mut self, what: &str, e: &Bolt12SemanticError) { *self.builder_errs.entry(format!("{}:{:?}", what, e)).or_insert(0) += 1; }
	}

	struct B12Entropy([u8; 32]);
	impl EntropySource for B12Entropy { fn get_secure_random_bytes(&self) -> [u8; 32] { self.0 } }

	// ---------------------------------------------------------------------------------------------
	// tiny TLV toolkit (independent of the library)
	// ---------------------------------------------------------------------------------------------

	fn b12_put_bigsize(out: &mut Vec<u8>, v: u64) {
		if v < 0xfd { out.push(v as u8); }
		else if v <= 0xffff { out.push(0xfd); out.extend_from_slice(&(v as u16).to_be_bytes()); }
		else if v <= 0xffff_ffff { out.push(0xfe); out.extend_from_slice(&(v as u32).to_be_bytes()); }
		else { out.push(0xff); out.extend_from_slice(&v.to_be_bytes()); }
	}

	fn b12_get_bigsize(b: &[u8], p: &mut usize) -> Option<u64> {
		let f = *b.get(*p)?; *p += 1;
		let n = match f { 0xfd => 2, 0xfe => 4, 0xff => 8, _ => return Some(f as u64) };
		if *p + n > b.len() { return None; }
		let mut v = 0u64;
		for i in 0..n { v = (v << 8) | b[*p + i] as u64; }
		*p += n;
		Some(v)
	}

	#[derive(Clone, Debug)]
	struct B12Tlv { typ: u64, start: usize, lstart: usize, vstart: usize, end: usize }

	/// Split a well-formed TLV stream into records (`None` when it is not well formed).
	fn b12_split(b: &[u8]) -> Option<Vec<B12Tlv>> {
		let mut p = 0usize; let mut out = vec![];
		while p < b.len() {
			let start = p;
			let typ = b12_get_bigsize(b, &mut p)?;
			let lstart = p;
			let len = b12_get_bigsize(b, &mut p)?;
			let vstart = p;
			let end = vstart.checked_add(usize::try_from(len).ok()?)?;
			if end > b.len() { return None; }
			p = end;
			out.push(B12Tlv { typ, start, lstart, vstart, end });
		}
		Some(out)
	}

	/// Concatenation of the records whose type satisfies `keep`.
	fn b12_select<F: Fn(u64) -> bool>(b: &[u8], keep: F) -> Vec<u8> {
		let mut out = vec![];
		for r in b12_split(b).expect("builder output is a well-formed TLV stream") { if keep(r.typ) { out.extend_from_slice(&b[r.start..r.end]); } }
		out
	}

	fn b12_record(typ: u64, value: &[u8]) -> Vec<u8> {
		let mut o = vec![]; b12_put_bigsize(&mut o, typ); b12_put_bigsize(&mut o, value.len() as u64); o.extend_from_slice(value); o
	}

	/// Where a bit offset lies: "type=<t>/<type|len|value>".
	fn b12_locate(b: &[u8], bit: usize) -> String {
		let byte = bit / 8;
		match b12_split(b) {
			Some(recs) => { for r in recs { if byte >= r.start && byte < r.end { let part = if byte < r.lstart { "type" } else if byte < r.vstart { "len" } else { "value" }; return format!("type={}/{}", r.typ, part); } } "?".into() },
			None => "?".into(),
		}
	}

	fn b12_is_sig(t: u64) -> bool { t >= 240 && t <= 1000 }

	// reference merkle root, written from the BOLT-12 text (recursive definition, not the in-place loop)
	fn b12_sha(parts: &[&[u8]]) -> [u8; 32] { let mut e = sha256::Hash::engine(); for p in parts { e.input(p); } sha256::Hash::from_engine(e).to_byte_array() }
	fn b12_tagged(tag: &[u8], parts: &[&[u8]]) -> [u8; 32] {
		let t = b12_sha(&[tag]);
		let mut e = sha256::Hash::engine(); e.input(&t); e.input(&t); for p in parts { e.input(p); }
		sha256::Hash::from_engine(e).to_byte_array()
	}
	fn b12_branch(a: &[u8; 32], b: &[u8; 32]) -> [u8; 32] { if a < b { b12_tagged(b"LnBranch", &[a, b]) } else { b12_tagged(b"LnBranch", &[b, a]) } }
	fn b12_tree(l: &[[u8; 32]]) -> [u8; 32] {
		if l.len() == 1 { return l[0]; }
		let mut p = 1usize; while p * 2 < l.len() { p *= 2; }
		b12_branch(&b12_tree(&l[..p]), &b12_tree(&l[p..]))
	}
	fn b12_merkle_ref(b: &[u8]) -> Option<[u8; 32]> {
		let recs = b12_split(b)?;
		let first = recs.first()?;
		let mut nonce_tag = b"LnNonce".to_vec(); nonce_tag.extend_from_slice(&b[first.start..first.end]);
		let mut leaves = vec![];
		for r in recs.iter().filter(|r| !b12_is_sig(r.typ)) {
			let leaf = b12_tagged(b"LnLeaf", &[&b[r.start..r.end]]);
			let nonce = b12_tagged(&nonce_tag, &[&b[r.start..r.lstart]]);
			leaves.push(b12_branch(&leaf, &nonce));
		}
		if leaves.is_empty() { return None; }
		Some(b12_tree(&leaves))
	}

	fn b12_hmac(key: &[u8; 32], parts: &[&[u8]]) -> [u8; 32] {
		let mut e = HmacEngine::<sha256::Hash>::new(key);
		for p in parts { e.input(p); }
		Hmac::<sha256::Hash>::from_engine(e).to_byte_array()
	}
	/// nonce ‖ HMAC(key, iv ‖ nonce ‖ records ‖ [1;16] ‖ [3;16])
	fn b12_meta_recipient(base: &[u8; 32], iv: &[u8; 16], nonce: &[u8; 16], tlv: &[u8]) -> Vec<u8> {
		let mut m = nonce.to_vec(); m.extend_from_slice(&b12_hmac(base, &[iv, nonce, tlv, &[1u8; 16], &[3u8; 16]])); m
	}
	/// enc_payment_id ‖ nonce ‖ HMAC(key, iv ‖ nonce ‖ records ‖ [1;16] ‖ [4;16] ‖ enc_payment_id)
	fn b12_meta_payer(base: &[u8; 32], iv: &[u8; 16], enc: &[u8; 32], nonce: &[u8; 16], tlv: &[u8]) -> Vec<u8> {
		let mut m = enc.to_vec(); m.extend_from_slice(nonce); m.extend_from_slice(&b12_hmac(base, &[iv, nonce, tlv, &[1u8; 16], &[4u8; 16], enc])); m
	}
	fn b12_secret_recipient(base: &[u8; 32], iv: &[u8; 16], nonce: &[u8; 16], tlv: &[u8]) -> [u8; 32] { b12_hmac(base, &[iv, nonce, tlv, &[2u8; 16], &[3u8; 16]]) }
	fn b12_secret_payer(base: &[u8; 32], iv: &[u8; 16], enc: &[u8; 32], nonce: &[u8; 16], tlv: &[u8]) -> [u8; 32] { b12_hmac(base, &[iv, nonce, tlv, &[2u8; 16], &[4u8; 16], enc]) }

	/// The same point with the other parity (the negated point): first byte of the compressed key 0x02 <-> 0x03.
	fn b12_flip_parity(pk: &PublicKey) -> PublicKey { let mut b = pk.serialize(); b[0] ^= 1; PublicKey::from_slice(&b).expect("the negation of a valid point is a valid point") }
	/// `<secret>:<compressed pubkey>`: the one secp256k1 evaluation (`Keypair::from_secret_key`) a key-deriving
	/// verification needs; the Lean model has no curve arithmetic and takes it from here (trusted dependency).
	/// The model only uses the entry when ITS OWN recomputed HMAC equals `secret`.
	fn b12_pub_table(st: &B12St, secret: &[u8; 32]) -> String {
		match SecretKey::from_slice(secret) { Ok(sk) => format!("{}:{}", hex(secret), hex(&PublicKey::from_secret_key(&st.secp, &sk).serialize())), Err(_) => "-".to_string() }
	}

	// ---------------------------------------------------------------------------------------------
	// op emitters
	// ---------------------------------------------------------------------------------------------

	fn b12_emit_merkle(rec: &mut Rec, class: &str, bytes: &[u8]) -> Option<[u8; 32]> {
		let op = format!("merkle {}", hex(bytes));
		match guarded(B12Aus(|| b12_vho::merkle_root(bytes))) {
			Ok(root) => {
				match b12_merkle_ref(bytes) {
					Some(r) if r == root => {},
					other => rec.oracle_fail(format!("merkle_root differs from the BOLT-12 reference computation: hook={} ref={:?} bytes={}", hex(&root), other.map(|r| hex(&r)), hex(bytes))),
				}
				rec.case(&op, &hex(&root), class, true);
				Some(root)
			},
			Err(p) => { rec.oracle_fail(format!("panic in merkle_root on a well-formed stream: {} bytes={}", p, hex(bytes))); rec.case(&op, &format!("panic {}", p.replace('\n', " ")), &format!("{}:panic", class), true); None },
		}
	}

	fn b12_emit_digest(rec: &mut Rec, class: &str, tag: &'static str, bytes: &[u8]) -> Option<[u8; 32]> {
		let op = format!("digest {} {}", hex(tag.as_bytes()), hex(bytes));
		match guarded(B12Aus(|| b12_vho::tagged_digest(tag, bytes))) {
			Ok(d) => {
				if let Some(root) = b12_merkle_ref(bytes) { let r = b12_tagged(tag.as_bytes(), &[&root]); if r != d { rec.oracle_fail(format!("tagged_digest differs from reference: hook={} ref={} tag={} bytes={}", hex(&d), hex(&r), tag, hex(bytes))); } }
				rec.case(&op, &hex(&d), class, true);
				Some(d)
			},
			Err(p) => { rec.oracle_fail(format!("panic in tagged_digest on a well-formed stream: {} bytes={}", p, hex(bytes))); rec.case(&op, &format!("panic {}", p.replace('\n', " ")), &format!("{}:panic", class), true); None },
		}
	}

	/// `mirror <req|inv> <source bytes> <payer|-> <own> <expOwn|-> <sig>` -> the message bytes: the model rebuilds the
	/// signed message from the EARLIER message's bytes (offer -> request, request / refund -> invoice) with the write plan
	/// translated from UnsignedInvoiceRequest::new / UnsignedBolt12Invoice::new, given only the message's own records.
	/// Impl-side oracle (no model): every record of the source inside the mirrored ranges reappears byte for byte.
	fn b12_emit_mirror(rec: &mut Rec, class: &str, kind: &str, src: &[u8], msg: &[u8]) {
		let req = kind == "req";
		let sinv = kind == "sinv"; // static invoice: built on the OFFER bytes, own records in the invoice ranges
		let in_src_range = |t: u64| if req || sinv { (1..80).contains(&t) || (1_000_000_000..2_000_000_000).contains(&t) } else { t < 160 || (1_000_000_000..3_000_000_000).contains(&t) };
		let (own_lo, own_hi, exp_lo, exp_hi) = if req { (80u64, 160u64, 2_000_000_000u64, 3_000_000_000u64) } else { (160, 240, 3_000_000_000, 4_000_000_000) };
		let payer = if req { b12_select(msg, |t| t == 0) } else { vec![] };
		let own = b12_select(msg, |t| (own_lo..own_hi).contains(&t));
		let exp_own = b12_select(msg, |t| (exp_lo..exp_hi).contains(&t));
		let sig = b12_select(msg, b12_is_sig);
		if let (Some(sr), Some(mr)) = (b12_split(src), b12_split(msg)) {
			for r in sr.iter().filter(|r| in_src_range(r.typ)) {
				if !mr.iter().any(|m| m.typ == r.typ && msg[m.start..m.end] == src[r.start..r.end]) {
					rec.oracle_fail(format!("record type {} of the earlier message is not mirrored byte for byte ({} {}): source={} message={}", r.typ, class, kind, hex(src), hex(msg)));
				}
			}
		}
		let h = |b: &[u8]| if b.is_empty() { "-".to_string() } else { hex(b) };
		rec.case(&format!("mirror {} {} {} {} {} {}", kind, hex(src), h(&payer), h(&own), h(&exp_own), h(&sig)), &hex(msg), class, true);
	}

	/// `readers <offer|req|requ|inv|invu> <bytes>` -> accept | refuse (round 6): WHICH record types the real parsers admit —
	/// the chain of tlv_stream! range readers behind `ParsedMessage::<T>::try_from` plus its exhausted-cursor check.  `msg` is
	/// a message the library built; an UNKNOWN record (no field of any tlv_stream! has its type) of a boundary-aimed type is
	/// inserted at its ascending position.  Real verdict: Err(Decode(_)) = refused by the readers; Ok / InvalidSignature (the
	/// inserted record changes the merkle root) = admitted.  The model answers with the reader chains translated from the
	/// tuple types and `impl CursorReadable` read orders (Generated/C18Readers.lean).  Impl-side oracle (no model): an
	/// admitted record lies inside the type ranges BOLT 12 gives this kind of message and is odd; an odd record inside is admitted.
	fn b12_readers_probe(rec: &mut Rec, st: &mut B12St, kind: &'static str, msg: &[u8]) {
		use lightning::offers::parse::Bolt12ParseError;
		const EDGES: &[u64] = &[0, 1, 79, 80, 159, 160, 239, 240, 1000, 1001, 1_000_000_000, 2_000_000_000, 3_000_000_000, 4_000_000_000];
		const KNOWN: &[u64] = &[0, 2, 4, 6, 8, 10, 12, 14, 16, 18, 20, 22, 80, 82, 84, 86, 88, 89, 90, 91, 160, 162, 164, 166, 168, 170, 172, 174, 176, 236, 240];
		let mut prng = Rng::new(msg.iter().fold(0xcbf29ce484222325u64, |h, b| (h ^ *b as u64).wrapping_mul(0x100000001b3)) ^ kind.len() as u64);
		let unsigned = kind == "requ" || kind == "invu";
		let base = if unsigned { b12_select(msg, |t| !b12_is_sig(t)) } else { msg.to_vec() };
		let spec_in = |t: u64| -> bool {
			let sig = !unsigned && kind != "offer" && (240..=1000).contains(&t);
			match kind {
				"offer" => (1..80).contains(&t) || (1_000_000_000..2_000_000_000).contains(&t),
				"req" | "requ" => t < 160 || sig || (1_000_000_000..3_000_000_000).contains(&t),
				_ => t < 240 || sig || (1_000_000_000..4_000_000_000).contains(&t),
			}
		};
		for _ in 0..3 {
			let e = EDGES[prng.below(EDGES.len() as u64) as usize];
			let t = match prng.below(7) { 0 => e, 1 => e + 1, 2 => e.saturating_sub(1), 3 => e + 2, 4 => e.saturating_sub(2), 5 => e + 3, _ => e.saturating_sub(3) };
			if KNOWN.contains(&t) && !(t == 0 && kind == "offer") { continue; }
			let n = prng.below(3) as usize;
			let b = match b12_insert_record(&base, t, &prng.bytes(n)) { Some(b) => b, None => continue };
			let r: Result<Result<(), Bolt12ParseError>, String> = guarded(B12Aus(|| match kind {
				"offer" => Offer::try_from(b.clone()).map(|_| ()),
				"req" => InvoiceRequest::try_from(b.clone()).map(|_| ()),
				"requ" => UnsignedInvoiceRequest::try_from(b.clone()).map(|_| ()),
				"inv" => Bolt12Invoice::try_from(b.clone()).map(|_| ()),
				_ => UnsignedBolt12Invoice::try_from(b.clone()).map(|_| ()),
			}));
			let verdict = match &r {
				Ok(Ok(())) => "accept",
				Ok(Err(Bolt12ParseError::Decode(_))) => "refuse",
				Ok(Err(Bolt12ParseError::InvalidSignature(_))) => "accept",
				Ok(Err(_)) => { st.b12_built("readers:semantic-error-after-the-readers"); "accept" },
				Err(p) => { rec.oracle_fail(format!("panic parsing a {} with an inserted unknown record of type {}: {} bytes={}", kind, t, p, hex(&b))); continue; },
			};
			if verdict == "accept" && !(spec_in(t) && t % 2 == 1) {
				rec.oracle_fail(format!("the {} parser ADMITTED an unknown record of type {} ({}): bytes={}", kind, t, if spec_in(t) { "even = must-understand" } else { "outside the type ranges of this message" }, hex(&b)));
			}
			if verdict == "refuse" && spec_in(t) && t % 2 == 1 {
				rec.oracle_fail(format!("the {} parser REFUSED an unknown ODD record of type {} inside the type ranges of this message: bytes={} err={:?}", kind, t, hex(&b), r));
			}
			let region = if t < 240 { "low" } else if t <= 1000 { "sigrange" } else if t < 1_000_000_000 { "gap" } else if t < 4_000_000_000 { "experimental" } else { "above" };
			rec.case(&format!("readers {} {}", kind, hex(&b)), verdict, &format!("readers:{}:{}:{}", kind, region, verdict), true);
		}
	}

	enum B12Signer<'a> { Fixed(secp256k1::schnorr::Signature), Key(&'a Keypair) }

	/// Insert an (unknown) record into a well-formed ascending stream at its ascending position; `None` if the type is present.
	fn b12_insert_record(b: &[u8], typ: u64, value: &[u8]) -> Option<Vec<u8>> {
		let recs = b12_split(b)?;
		if recs.iter().any(|r| r.typ == typ) { return None; }
		let at = recs.iter().find(|r| r.typ > typ).map(|r| r.start).unwrap_or(b.len());
		let mut out = b[..at].to_vec(); out.extend_from_slice(&b12_record(typ, value)); out.extend_from_slice(&b[at..]);
		Some(out)
	}

	/// verdict on signed bytes produced from `unsigned`: well-formed, strictly ascending, non-signature records == unsigned
	fn b12_resign_verdict(unsigned: &[u8], out: &[u8]) -> &'static str {
		match b12_split(out) {
			None => "malformed",
			Some(recs) => {
				if recs.windows(2).any(|w| w[0].typ >= w[1].typ) { "not-ascending" }
				else if b12_select(out, |t| !b12_is_sig(t)) == unsigned { "ok" } else { "contents-differ" }
			},
		}
	}

	/// Remote-signing flow: `unsigned` (the TLV bytes of an unsigned invoice request / invoice, as `Unsigned*::write` emits
	/// them) -> `Unsigned*::try_from` -> `sign` -> serialise -> parse.  op `resign <req|inv> <unsigned> <signature record>` ->
	/// `<verdict> <signed bytes>`: the model splits the unsigned bytes with the range translated from the TryFrom impl and
	/// puts the signature record between the two halves.  Impl-side oracles (no model): try_from and sign succeed, the
	/// signed bytes are a strictly ascending TLV stream whose non-signature records are the unsigned bytes, the real
	/// parser accepts them and re-serialises them identically, and (plain case) they are byte-identical to the message the
	/// builder signed in-process and parse to the same fingerprint.
	fn b12_emit_resign(rec: &mut Rec, st: &mut B12St, class: &str, kind: &str, unsigned: &[u8], signer: B12Signer, expect: Option<&[u8]>) {
		let secp = &st.secp;
		let res: Result<Result<(Vec<u8>, Vec<u8>), String>, String> = guarded(B12Aus(|| {
			if kind == "req" {
				let u = UnsignedInvoiceRequest::try_from(unsigned.to_vec()).map_err(|e| format!("try_from: {:?}", e))?;
				let mut reser = vec![]; u.write(&mut reser).map_err(|e| format!("write: {:?}", e))?;
				let signed = u.sign(|m: &UnsignedInvoiceRequest| { let t: &lightning::offers::merkle::TaggedHash = m.as_ref(); Ok(match &signer { B12Signer::Fixed(s) => *s, B12Signer::Key(k) => secp.sign_schnorr_no_aux_rand(t.as_digest(), k) }) }).map_err(|e| format!("sign: {:?}", e))?;
				Ok((b12_ser(&signed), reser))
			} else {
				let u = UnsignedBolt12Invoice::try_from(unsigned.to_vec()).map_err(|e| format!("try_from: {:?}", e))?;
				let mut reser = vec![]; u.write(&mut reser).map_err(|e| format!("write: {:?}", e))?;
				let signed = u.sign(|m: &UnsignedBolt12Invoice| { let t: &lightning::offers::merkle::TaggedHash = m.as_ref(); Ok(match &signer { B12Signer::Fixed(s) => *s, B12Signer::Key(k) => secp.sign_schnorr_no_aux_rand(t.as_digest(), k) }) }).map_err(|e| format!("sign: {:?}", e))?;
				Ok((b12_ser(&signed), reser))
			}
		}));
		let (out, reser) = match res {
			Ok(Ok(o)) => o,
			Ok(Err(e)) => { rec.oracle_fail(format!("remote-signing flow failed for an unsigned {} the library itself serialised ({}): {} unsigned={}", kind, class, e, hex(unsigned))); return; },
			Err(p) => { rec.oracle_fail(format!("panic in Unsigned*::try_from / sign ({} {}): {} unsigned={}", class, kind, p, hex(unsigned))); return; },
		};
		st.b12_built(if kind == "req" { "resigned_invreq" } else { "resigned_invoice" });
		// `Unsigned*::write` of the re-parsed object must give back the bytes it was parsed from (hard oracle since the fix
		// f3513c1 of KF-C18-2: write = bytes ‖ experimental_bytes).  op `uwrite <req|inv> <bytes>` -> the written bytes: the
		// model splits with the translated range and writes the parts the translated write plan names.
		if reser != unsigned {
			rec.oracle_fail(format!("Unsigned{}::try_from(b).write() != b, the unsigned message does not serialise to the records that were hashed ({}): b={} written={}", if kind == "req" { "InvoiceRequest" } else { "Bolt12Invoice" }, class, hex(unsigned), hex(&reser)));
		}
		rec.case(&format!("uwrite {} {}", kind, hex(unsigned)), &hex(&reser), &format!("uwrite:{}", class.trim_start_matches("resign:")), true);
		let verdict = b12_resign_verdict(unsigned, &out);
		if verdict != "ok" { rec.oracle_fail(format!("sign(try_from(unsigned {})) is not a strictly ascending TLV stream carrying the unsigned records ({}; {}): unsigned={} signed={}", kind, verdict, class, hex(unsigned), hex(&out))); }
		let parsed = if kind == "req" { b12_parse_invreq(out.clone()) } else { b12_parse_invoice(out.clone()) };
		match &parsed {
			Ok(Some((_, ser))) => { if ser != &out { rec.oracle_fail(format!("signed re-parsed {} parses but re-serialises differently ({}): signed={}", kind, class, hex(&out))); } },
			Ok(None) => rec.oracle_fail(format!("the {} returned by sign(try_from(unsigned bytes)) does NOT PARSE BACK ({}): unsigned={} signed={}", kind, class, hex(unsigned), hex(&out))),
			Err(p) => rec.oracle_fail(format!("panic parsing a signed re-parsed {} ({}): {} signed={}", kind, class, p, hex(&out))),
		}
		if let Some(e) = expect {
			if e != &out[..] { rec.oracle_fail(format!("sign(try_from(unsigned {})) differs from the message signed in-process ({}): direct={} resigned={}", kind, class, hex(e), hex(&out))); }
			let direct = if kind == "req" { b12_parse_invreq(e.to_vec()) } else { b12_parse_invoice(e.to_vec()) };
			if let (Ok(Some((fa, _))), Ok(Some((fb, _)))) = (&direct, &parsed) { if fa != fb { rec.oracle_fail(format!("signed re-parsed {} exposes other contents than the message signed in-process ({}): direct={} resigned={}", kind, class, hex(e), hex(&out))); } }
		}
		let sig = b12_select(&out, b12_is_sig);
		rec.case(&format!("resign {} {} {}", kind, hex(unsigned), hex(&sig)), &format!("{} {}", verdict, hex(&out)), class, true);
	}

	/// The unsigned bytes of a signed message plus unknown ODD records at every place a maintainer's split could get wrong:
	/// the top of the message's own range (just below the next range / the signature), and all experimental ranges.
	fn b12_resign_altered(rec: &mut Rec, rng: &mut Rng, st: &mut B12St, kind: &str, msg: &[u8], key: &Keypair) {
		let mut u = b12_select(msg, |t| !b12_is_sig(t));
		let (own_lo, own_hi, exp_his): (u64, u64, &[u64]) = if kind == "req" { (93, 160, &[2_000_000_000, 3_000_000_000]) } else { (161, 240, &[2_000_000_000, 3_000_000_000, 4_000_000_000]) };
		let mut types: Vec<u64> = vec![];
		if rng.chance(3, 4) { types.push(own_hi - 1); }
		if rng.chance(1, 2) { types.push((own_lo + rng.below(own_hi - own_lo)) | 1); }
		for hi in exp_his { if rng.chance(2, 3) { types.push(if rng.chance(1, 2) { hi - 1 } else { (hi - 1_000_000_000 + rng.below(1_000_000_000)) | 1 }); } }
		if types.is_empty() { types.push(own_hi - 1); }
		for t in types { let n = rng.below(5) as usize; if let Some(v) = b12_insert_record(&u, t, &rng.bytes(n)) { u = v; } }
		b12_emit_resign(rec, st, if kind == "req" { "resign:req:unknown-odd-records" } else { "resign:inv:unknown-odd-records" }, kind, &u, B12Signer::Key(key), None);
	}

	/// `mverify` op (metadata length must not be a key-deriving one). `expect`: what the impl oracle demands.
	fn b12_emit_mverify(rec: &mut Rec, st: &B12St, class: &str, payer: bool, ek: &ExpandedKey, iv: &[u8; 16], meta: &[u8], tlv: &[u8], expect: Option<bool>) {
		if (!payer && meta.len() == 16) || (payer && meta.len() == 48) { return; }
		let base = b12_vho::offers_base_key(ek);
		let op = format!("mverify {} {} {} {} {}", if payer { "p" } else { "r" }, hex(&base), hex(iv), hex(meta), hex(tlv));
		let pk = st.dummy_pk;
		let (ans, ok) = match guarded(B12Aus(|| b12_vho::verify_metadata(payer, meta, ek, iv, pk, tlv))) {
			Ok(Ok(None)) => ("ok".to_string(), Some(true)),
			Ok(Ok(Some(_))) => { rec.oracle_fail(format!("verify_metadata derived keys for a non key-deriving metadata length: {}", op)); ("ok".to_string(), Some(true)) },
			Ok(Err(())) => ("err".to_string(), Some(false)),
			Err(p) => { rec.oracle_fail(format!("panic in verify_metadata: {} op={}", p, op)); (format!("panic {}", p.replace('\n', " ")), None) },
		};
		if let (Some(e), Some(o)) = (expect, ok) { if e != o { rec.oracle_fail(format!("metadata verification answered {} where {} is required ({}): {}", ans, if e { "ok" } else { "err" }, class, op)); } }
		rec.case(&op, &ans, class, true);
	}

	/// `mhmac` op: key-deriving metadata; `secret` is the harness' own derivation, its public key is handed in.
	fn b12_emit_mhmac(rec: &mut Rec, st: &mut B12St, class: &str, payer: bool, ek: &ExpandedKey, iv: &[u8; 16], meta: &[u8], tlv: &[u8], secret: &[u8; 32], expect_pk: Option<PublicKey>) {
		debug_assert!((!payer && meta.len() == 16) || (payer && meta.len() == 48));
		let sk = match SecretKey::from_slice(secret) { Ok(sk) => sk, Err(_) => { rec.discarded += 1; return; } };
		let pk = PublicKey::from_secret_key(&st.secp, &sk);
		if let Some(e) = expect_pk { if e != pk { rec.oracle_fail(format!("derived signing pubkey of a built object is not the public key of the harness-computed HMAC secret ({}): meta={} tlv={}", class, hex(meta), hex(tlv))); return; } }
		let base = b12_vho::offers_base_key(ek);
		let op = format!("mhmac {} {} {} {} {}", if payer { "p" } else { "r" }, hex(&base), hex(iv), hex(meta), hex(tlv));
		let ans = match guarded(B12Aus(|| b12_vho::verify_metadata(payer, meta, ek, iv, pk, tlv))) {
			Ok(Ok(Some(s))) => { if &s != secret { rec.oracle_fail(format!("verify_metadata returned another secret than HMAC(key, iv‖nonce‖records‖[2;16]‖…): {}", op)); } hex(&s) },
			Ok(Ok(None)) => { rec.oracle_fail(format!("verify_metadata returned no keys for a key-deriving metadata length: {}", op)); "nokeys".to_string() },
			Ok(Err(())) => { rec.oracle_fail(format!("verify_metadata rejected correctly derived key material: {}", op)); "err".to_string() },
			Err(p) => { rec.oracle_fail(format!("panic in verify_metadata: {} op={}", p, op)); format!("panic {}", p.replace('\n', " ")) },
		};
		rec.case(&op, &ans, class, true);
		// negative: another public key must be refused
		let wrong = st.dummy_pk;
		if wrong != pk {
			match guarded(B12Aus(|| b12_vho::verify_metadata(payer, meta, ek, iv, wrong, tlv))) {
				Ok(Err(())) => {},
				other => rec.oracle_fail(format!("verify_metadata accepted a signing pubkey that is not the derived one ({:?}): {}", other.map(|r| r.map(|o| o.is_some())), op)),
			}
			st.verify_neg += 1;
		}
		// `mkeys` ops: the whole verdict incl. the public key comparison (the model's translated `keysEq` on the
		// 33-byte compressed keys): the derived key, an unrelated key, and the derived key with its PARITY flipped
		let table = b12_pub_table(st, secret);
		let flipped = b12_flip_parity(&pk);
		for (what, cand, must_ok) in [("derived", pk, true), ("unrelated", wrong, wrong == pk), ("parityflip", flipped, false)] {
			let kop = format!("mkeys {} {} {} {} {} {} {}", if payer { "p" } else { "r" }, hex(&base), hex(iv), hex(meta), hex(&cand.serialize()), table, hex(tlv));
			let (kans, ok) = match guarded(B12Aus(|| b12_vho::verify_metadata(payer, meta, ek, iv, cand, tlv))) {
				Ok(Ok(Some(s))) => (format!("keys {}", hex(&s)), Some(true)),
				Ok(Ok(None)) => ("ok".to_string(), Some(true)),
				Ok(Err(())) => ("err".to_string(), Some(false)),
				Err(p) => { rec.oracle_fail(format!("panic in verify_metadata: {} op={}", p, kop)); (format!("panic {}", p.replace('\n', " ")), None) },
			};
			if let Some(o) = ok { if o != must_ok { rec.oracle_fail(format!("verify_metadata (derived keys) answered {} for the {} signing pubkey where {} is required ({}): {}", kans, what, if must_ok { "keys" } else { "err" }, class, kop)); } }
			if !must_ok { st.verify_neg += 1; }
			rec.case(&kop, &kans, &format!("mkeys:{}:{}", if payer { "p" } else { "r" }, what), true);
		}
	}

	// ---------------------------------------------------------------------------------------------
	// generators
	// ---------------------------------------------------------------------------------------------

	fn b12_vlen(rng: &mut Rng, max: u64) -> u64 {
		let v = match rng.below(8) {
			0 => 0,
			1 => *rng.pick(&[1u64, 2, 32, 33, 64, 252, 253, 254, 255, 256, 300]),
			2 | 3 => rng.below(8),
			4 | 5 => rng.below(70),
			_ => rng.below(max + 1),
		};
		v.min(max)
	}

	/// Well-formed TLV stream: `n` records with strictly ascending types from 0..240 and 1001..5e9, plus
	/// `nsig` records in the signature range 240..=1000 (never in first position).
	fn b12_synth_stream(rng: &mut Rng, n: usize, nsig: usize, max_vlen: u64) -> Vec<u8> {
		let mut types: BTreeSet<u64> = BTreeSet::new();
		let mut n_low = match rng.below(4) { 0 => n, 1 => 0, _ => rng.below(n as u64 + 1) as usize };
		if nsig > 0 { n_low = n_low.max(1); }
		n_low = n_low.min(n).min(200);
		while types.len() < n_low { types.insert(rng.below(240)); }
		while types.len() < n {
			let t = match rng.below(6) {
				0 => rng.range(1001, 0xffff),
				1 => rng.range(0x1_0000, 0xffff_ffff),
				2 => rng.range(0x1_0000_0000, 4_999_999_999),
				3 => *rng.pick(&[1001u64, 0xfffe, 0xffff, 0x1_0000, 0x1_0001, 0xffff_ffff, 0x1_0000_0000, 4_999_999_999, 1_000_000_000, 1_999_999_999, 2_000_000_000, 3_000_000_000]),
				_ => rng.range(1001, 5000),
			};
			types.insert(t);
		}
		let mut sigs: BTreeSet<u64> = BTreeSet::new();
		while sigs.len() < nsig { sigs.insert(match rng.below(4) { 0 => 240, 1 => 1000, 2 => rng.range(240, 252), _ => rng.range(240, 1000) }); }
		let all: BTreeSet<u64> = types.union(&sigs).cloned().collect();
		let mut out = vec![];
		for t in all {
			let l = b12_vlen(rng, max_vlen);
			b12_put_bigsize(&mut out, t); b12_put_bigsize(&mut out, l); out.extend_from_slice(&rng.bytes(l as usize));
		}
		out
	}

	fn b12_string(rng: &mut Rng, max: u64) -> String {
		let n = rng.below(max + 1);
		let mut s = String::new();
		for _ in 0..n {
			match rng.below(12) {
				0 => s.push(*rng.pick(&['é', 'ß', '日', '本', '€', '𝄞', '\u{7f}', '\t', '\n', '\u{0}'])),
				1 => s.push(' '),
				_ => s.push((b'!' + rng.below(94) as u8) as char),
			}
		}
		s
	}

	fn b12_keypair(rng: &mut Rng, secp: &Secp256k1<secp256k1::All>) -> Keypair {
		loop { if let Ok(sk) = SecretKey::from_slice(&rng.bytes32()) { return Keypair::from_secret_key(secp, &sk); } }
	}

	fn b12_nonce(rng: &mut Rng) -> (Nonce, [u8; 16]) {
		let mut b = [0u8; 16]; b.copy_from_slice(&rng.bytes(16));
		let n = if rng.chance(1, 2) { Nonce::try_from(&b[..]).unwrap() } else { let mut e = [0u8; 32]; e[..16].copy_from_slice(&b); for x in e[16..].iter_mut() { *x = rng.next() as u8; } Nonce::from_entropy_source(&B12Entropy(e)) };
		(n, b)
	}

	fn b12_hops(rng: &mut Rng, st: &B12St) -> Vec<BlindedHop> {
		let n = rng.range(1, 3);
		(0..n).map(|_| BlindedHop { blinded_node_id: *rng.pick(&st.pks), encrypted_payload: { let l = rng.below(50) as usize; rng.bytes(l) } }).collect()
	}
	fn b12_msg_path(rng: &mut Rng, st: &B12St) -> BlindedMessagePath {
		BlindedMessagePath::from_blinded_path(*rng.pick(&st.pks), *rng.pick(&st.pks), b12_hops(rng, st))
	}
	fn b12_pay_paths(rng: &mut Rng, st: &B12St) -> Vec<BlindedPaymentPath> {
		let n = rng.range(1, 3);
		(0..n).map(|_| {
			let payinfo = BlindedPayInfo {
				fee_base_msat: *rng.pick(&[0u32, 1, 1000, u32::MAX]), fee_proportional_millionths: rng.next() as u32 % 10_000,
				cltv_expiry_delta: rng.next() as u16, htlc_minimum_msat: *rng.pick(&[0u64, 1, 100, 1_000_000]),
				htlc_maximum_msat: *rng.pick(&[1u64, 1_000_000_000_000, B12_MAX_MSAT, u64::MAX]), features: BlindedHopFeatures::empty(),
			};
			BlindedPaymentPath::from_blinded_path_and_payinfo(*rng.pick(&st.pks), *rng.pick(&st.pks), b12_hops(rng, st), payinfo)
		}).collect()
	}

	fn b12_n_class(n: usize) -> String {
		if n <= 17 || (31..=33).contains(&n) { format!("n={}", n) } else if n < 31 { "n=18..30".into() } else { "n=34..40".into() }
	}

	// ---------------------------------------------------------------------------------------------
	// phase 1: merkle roots of synthetic streams
	// ---------------------------------------------------------------------------------------------

	fn b12_phase_synth_merkle(rec: &mut Rec, rng: &mut Rng, args: &Args) {
		let reps = (if args.thorough { 300 } else { 30 }) * args.scale;
		let sizes: Vec<usize> = (1..=17).chain([18usize, 20, 24, 29, 31, 32, 33, 34, 40].into_iter()).collect();
		for rep in 0..reps {
			for &n in &sizes {
				let nsig = match rng.below(5) { 0 => 1, 1 => if rng.chance(1, 2) { 2 } else { 1 }, _ => 0 };
				let max_vlen = if n <= 8 || rep % 10 == 0 { 300 } else { 40 };
				let bytes = b12_synth_stream(rng, n, nsig, max_vlen);
				let class = if nsig > 0 { format!("merkle:synthetic+sig:{}", b12_n_class(n)) } else { format!("merkle:synthetic:{}", b12_n_class(n)) };
				b12_emit_merkle(rec, &class, &bytes);
				// the signature-range records must not influence the root
				if nsig > 0 {
					let stripped = b12_select(&bytes, |t| !b12_is_sig(t));
					let a = guarded(B12Aus(|| b12_vho::merkle_root(&bytes))); let b = guarded(B12Aus(|| b12_vho::merkle_root(&stripped)));
					if a != b { rec.oracle_fail(format!("merkle root depends on a signature-range record: with={:?} without={:?} bytes={}", a.map(|x| hex(&x)), b.map(|x| hex(&x)), hex(&bytes))); }
				}
			}
		}
	}

	// ---------------------------------------------------------------------------------------------
	// phase 2: metadata verification on synthetic streams (harness-side HMAC construction)
	// ---------------------------------------------------------------------------------------------

	fn b12_flip(v: &[u8], bit: usize) -> Vec<u8> { let mut o = v.to_vec(); o[bit / 8] ^= 1 << (bit % 8); o }

	fn b12_phase_synth_meta(rec: &mut Rec, rng: &mut Rng, st: &mut B12St, args: &Args) {
		let bases = (if args.thorough { 2500 } else { 250 }) * args.scale;
		for i in 0..bases {
			let payer = i % 2 == 1;
			let ek = ExpandedKey::new(rng.bytes32());
			let base = b12_vho::offers_base_key(&ek);
			let mut iv = [0u8; 16];
			match rng.below(3) { 0 => iv.copy_from_slice(&rng.bytes(16)), 1 => iv = **rng.pick(&[B12_IV_OFFER_META, B12_IV_OFFER_KEYS, B12_IV_INVREQ, B12_IV_REFUND_META, B12_IV_REFUND_KEYS]), _ => iv = [rng.next() as u8; 16] }
			let mut nonce = [0u8; 16]; nonce.copy_from_slice(&rng.bytes(16));
			let enc = rng.bytes32();
			let n = match rng.below(6) { 0 => 1, 1 => rng.range(9, 20) as usize, _ => rng.range(1, 8) as usize };
			let nsig = if rng.chance(1, 5) { 1 } else { 0 };
			let mv = if rng.chance(1, 10) { 300 } else { 24 };
			let tlv = b12_synth_stream(rng, n, nsig, mv);
			let who = if payer { "p" } else { "r" };
			let meta = if payer { b12_meta_payer(&base, &iv, &enc, &nonce, &tlv) } else { b12_meta_recipient(&base, &iv, &nonce, &tlv) };
			b12_emit_mverify(rec, st, &format!("mverify:ok:{}", who), payer, &ek, &iv, &meta, &tlv, Some(true));
			// --- mutants, all must be refused
			for _ in 0..2 {
				let bit = rng.below(meta.len() as u64 * 8) as usize;
				let part = if payer { if bit < 256 { "encid" } else if bit < 384 { "nonce" } else { "hmac" } } else if bit < 128 { "nonce" } else { "hmac" };
				b12_emit_mverify(rec, st, &format!("mverify:err:metaflip:{}", part), payer, &ek, &iv, &b12_flip(&meta, bit), &tlv, Some(false));
			}
			if let Some(recs) = b12_split(&tlv) {
				let with_val: Vec<&B12Tlv> = recs.iter().filter(|r| r.end > r.vstart).collect();
				if !with_val.is_empty() {
					let r = *rng.pick(&with_val);
					let bit = r.vstart * 8 + rng.below(((r.end - r.vstart) * 8) as u64) as usize;
					b12_emit_mverify(rec, st, "mverify:err:tlvflip", payer, &ek, &iv, &meta, &b12_flip(&tlv, bit), Some(false));
				}
				// drop / append a record (stream stays well formed)
				if recs.len() > 1 && rng.chance(1, 2) {
					let k = rng.below(recs.len() as u64) as usize;
					let mut t2 = tlv[..recs[k].start].to_vec(); t2.extend_from_slice(&tlv[recs[k].end..]);
					b12_emit_mverify(rec, st, "mverify:err:tlvdrop", payer, &ek, &iv, &meta, &t2, Some(false));
				} else {
					let mut t2 = tlv.clone(); t2.extend_from_slice(&b12_record(5_000_000_001 + rng.below(1000), &rng.bytes(3)));
					b12_emit_mverify(rec, st, "mverify:err:tlvadd", payer, &ek, &iv, &meta, &t2, Some(false));
				}
			}
			let ek2 = ExpandedKey::new(rng.bytes32());
			b12_emit_mverify(rec, st, "mverify:err:key", payer, &ek2, &iv, &meta, &tlv, Some(false));
			let iv2 = if rng.chance(1, 2) { let mut x = iv; let b = rng.below(128) as usize; x[b / 8] ^= 1 << (b % 8); x } else { let mut x = [0u8; 16]; x.copy_from_slice(&rng.bytes(16)); x };
			if iv2 != iv { b12_emit_mverify(rec, st, "mverify:err:iv", payer, &ek, &iv2, &meta, &tlv, Some(false)); }
			let tl = rng.below(meta.len() as u64) as usize;
			b12_emit_mverify(rec, st, "mverify:err:trunc", payer, &ek, &iv, &meta[..tl], &tlv, Some(false));
			let mut ext = meta.clone(); ext.extend_from_slice(&{ let l = rng.range(1, 40) as usize; rng.bytes(l) });
			b12_emit_mverify(rec, st, "mverify:err:extend", payer, &ek, &iv, &ext, &tlv, Some(false));
			b12_emit_mverify(rec, st, "mverify:err:empty", payer, &ek, &iv, &[], &tlv, Some(false));
			if payer { b12_emit_mverify(rec, st, "mverify:err:role", false, &ek, &iv, &meta, &tlv, Some(false)); }
			// metadata built with the key-deriving marker [2;16] instead of [1;16] must not verify as plain metadata
			let wrong_marker = if payer { let mut m = enc.to_vec(); m.extend_from_slice(&nonce); m.extend_from_slice(&b12_secret_payer(&base, &iv, &enc, &nonce, &tlv)); m } else { let mut m = nonce.to_vec(); m.extend_from_slice(&b12_secret_recipient(&base, &iv, &nonce, &tlv)); m };
			b12_emit_mverify(rec, st, "mverify:err:marker", payer, &ek, &iv, &wrong_marker, &tlv, Some(false));
			// --- key-deriving variant
			if payer {
				let mut m = enc.to_vec(); m.extend_from_slice(&nonce);
				let secret = b12_secret_payer(&base, &iv, &enc, &nonce, &tlv);
				b12_emit_mhmac(rec, st, "mhmac:p", true, &ek, &iv, &m, &tlv, &secret, None);
			} else {
				let secret = b12_secret_recipient(&base, &iv, &nonce, &tlv);
				b12_emit_mhmac(rec, st, "mhmac:r", false, &ek, &iv, &nonce, &tlv, &secret, None);
			}
		}
	}

	// ---------------------------------------------------------------------------------------------
	// impl-only oracles on built objects: fingerprints, round trips, single-bit mutations
	// ---------------------------------------------------------------------------------------------

	fn b12_ser<W: Writeable>(w: &W) -> Vec<u8> { w.encode() }

	fn b12_fp_offer(o: &Offer) -> String {
		format!("chains={:?} md={:?} amt={:?} desc={:?} feat={:?} exp={:?} issuer={:?} paths={:?} qty={:?} pk={:?} id={} eq={}",
			o.chains(), o.metadata(), o.amount(), o.description().map(|s| s.0.to_string()), o.offer_features(), o.absolute_expiry(),
			o.issuer().map(|s| s.0.to_string()), o.paths(), o.supported_quantity(), o.issuer_signing_pubkey(), hex(&o.id().0), o.expects_quantity())
	}
	fn b12_fp_invreq(r: &InvoiceRequest) -> String {
		format!("chains={:?} md={:?} amt={:?} desc={:?} feat={:?} exp={:?} issuer={:?} paths={:?} qty={:?} pk={:?} | pmd={} chain={:?} amt={:?}/{} feat={:?} q={:?} payer={:?} note={:?} hrn={:?} sig={:?}",
			r.chains(), r.metadata(), r.amount(), r.description().map(|s| s.0.to_string()), r.offer_features(), r.absolute_expiry(),
			r.issuer().map(|s| s.0.to_string()), r.paths(), r.supported_quantity(), r.issuer_signing_pubkey(),
			hex(r.payer_metadata()), r.chain(), r.amount_msats(), r.has_amount_msats(), r.invoice_request_features(), r.quantity(), r.payer_signing_pubkey(),
			r.payer_note().map(|s| s.0.to_string()), r.offer_from_hrn(), r.signature())
	}
	fn b12_fp_invoice(i: &Bolt12Invoice) -> String {
		format!("refund={} offer={} ochains={:?} chain={:?} md={:?} amt={:?} ofeat={:?} desc={:?} exp={:?} issuer={:?} mpaths={:?} qty={:?} ipk={:?} pmd={} rfeat={:?} q={:?} payer={:?} note={:?} hash={} amt={} | ppaths={:?} created={:?} rel={:?} fb={:?} feat={:?} pk={:?} sig={:?} digest={} oid={:?}",
			i.is_for_refund(), i.is_for_offer(), i.offer_chains(), i.chain(), i.metadata(), i.amount(), i.offer_features(), i.description().map(|s| s.0.to_string()),
			i.absolute_expiry(), i.issuer().map(|s| s.0.to_string()), i.message_paths(), i.supported_quantity(), i.issuer_signing_pubkey(), hex(i.payer_metadata()),
			i.invoice_request_features(), i.quantity(), i.payer_signing_pubkey(), i.payer_note().map(|s| s.0.to_string()), hex(&i.payment_hash().0), i.amount_msats(),
			i.payment_paths(), i.created_at(), i.relative_expiry(), i.fallbacks(), i.invoice_features(), i.signing_pubkey(), i.signature(), hex(&i.signable_hash()), i.offer_id().map(|o| hex(&o.0)))
	}
	fn b12_fp_refund(r: &Refund) -> String {
		format!("desc={:?} exp={:?} issuer={:?} paths={:?} pmd={} chain={:?} amt={} feat={:?} q={:?} payer={:?} note={:?}",
			r.description().0, r.absolute_expiry(), r.issuer().map(|s| s.0.to_string()), r.paths(), hex(r.payer_metadata()), r.chain(), r.amount_msats(), r.features(), r.quantity(),
			r.payer_signing_pubkey(), r.payer_note().map(|s| s.0.to_string()))
	}
	fn b12_fp_static(i: &StaticInvoice) -> String {
		format!("chain={:?} md={:?} amt={:?} ofeat={:?} desc={:?} exp={:?} issuer={:?} opaths={:?} held={:?} qty={:?} ipk={:?} | ppaths={:?} created={:?} rel={:?} fb={:?} feat={:?} pk={:?} sig={:?} oid={}",
			i.chain(), i.metadata(), i.amount(), i.offer_features(), i.description().map(|s| s.0.to_string()), i.absolute_expiry(), i.issuer().map(|s| s.0.to_string()),
			i.offer_message_paths(), i.held_htlc_available_paths(), i.supported_quantity(), i.issuer_signing_pubkey(), i.payment_paths(), i.created_at(), i.relative_expiry(),
			i.fallbacks(), i.invoice_features(), i.signing_pubkey(), i.signature(), hex(&i.offer_id().0))
	}

	/// `parse(bytes)` → Ok(Some(fingerprint, re-encoding)) | Ok(None) (parse error) ; Err = panic.
	type B12Parse<'a> = &'a dyn Fn(Vec<u8>) -> Result<Option<(String, Vec<u8>)>, String>;

	fn b12_parse_offer(b: Vec<u8>) -> Result<Option<(String, Vec<u8>)>, String> { guarded(B12Aus(|| Offer::try_from(b).ok().map(|o| (b12_fp_offer(&o), b12_ser(&o))))) }
	fn b12_parse_invreq(b: Vec<u8>) -> Result<Option<(String, Vec<u8>)>, String> { guarded(B12Aus(|| InvoiceRequest::try_from(b).ok().map(|o| (b12_fp_invreq(&o), b12_ser(&o))))) }
	fn b12_parse_invoice(b: Vec<u8>) -> Result<Option<(String, Vec<u8>)>, String> { guarded(B12Aus(|| Bolt12Invoice::try_from(b).ok().map(|o| (b12_fp_invoice(&o), b12_ser(&o))))) }
	fn b12_parse_refund(b: Vec<u8>) -> Result<Option<(String, Vec<u8>)>, String> { guarded(B12Aus(|| Refund::try_from(b).ok().map(|o| (b12_fp_refund(&o), b12_ser(&o))))) }
	fn b12_parse_static(b: Vec<u8>) -> Result<Option<(String, Vec<u8>)>, String> { guarded(B12Aus(|| StaticInvoice::try_from(b).ok().map(|o| (b12_fp_static(&o), b12_ser(&o))))) }

	fn b12_roundtrip(rec: &mut Rec, st: &mut B12St, kind: &'static str, bytes: &[u8], fp: &str, parse: B12Parse) {
		st.roundtrips += 1;
		match parse(bytes.to_vec()) {
			Ok(Some((fp2, enc2))) => {
				if enc2 != bytes { rec.oracle_fail(format!("round trip re-encoding differs: kind={} bytes={} reencoded={}", kind, hex(bytes), hex(&enc2))); }
				if fp2 != fp { rec.oracle_fail(format!("round trip changes accessors: kind={} built=[{}] parsed=[{}] bytes={}", kind, fp, fp2, hex(bytes))); }
			},
			Ok(None) => rec.oracle_fail(format!("round trip: builder output does not parse: kind={} bytes={}", kind, hex(bytes))),
			Err(p) => rec.oracle_fail(format!("panic parsing builder output: kind={} {} bytes={}", kind, p, hex(bytes))),
		}
	}

	/// `to_string()` → `parse()` (Offer, Refund), also upper-cased and with `+` continuations.
	fn b12_str_roundtrip(rec: &mut Rec, rng: &mut Rng, st: &mut B12St, kind: &'static str, s: &str, bytes: &[u8]) {
		st.roundtrips += 1;
		let parse = |x: &str| -> Result<Option<Vec<u8>>, String> {
			if kind == "offer" { guarded(B12Aus(|| x.parse::<Offer>().ok().map(|o| b12_ser(&o)))) } else { guarded(B12Aus(|| x.parse::<Refund>().ok().map(|o| b12_ser(&o)))) }
		};
		let mut variants = vec![("plain", s.to_string()), ("upper", s.to_uppercase())];
		// '+' continuation with optional whitespace after it, at 1..3 places (not inside the first chunk's start)
		let mut c = s.to_string();
		for _ in 0..rng.range(1, 3) {
			let pos = rng.range(1, c.len() as u64 - 1) as usize;
			if c.as_bytes()[pos - 1] == b'+' || c.as_bytes()[pos - 1].is_ascii_whitespace() || c.as_bytes()[pos] == b'+' || c.as_bytes()[pos].is_ascii_whitespace() { continue; }
			let ws = *rng.pick(&["", " ", "\n", "\r\n  ", "\t "]);
			c.insert_str(pos, &format!("+{}", ws));
		}
		variants.push(("continued", c));
		for (what, v) in variants {
			match parse(&v) {
				Ok(Some(b)) => if b != bytes { rec.oracle_fail(format!("string round trip ({}) yields other bytes: kind={} str={:?}", what, kind, v)); },
				Ok(None) => rec.oracle_fail(format!("string round trip ({}) does not parse: kind={} str={:?}", what, kind, v)),
				Err(p) => rec.oracle_fail(format!("panic parsing string ({}): kind={} {} str={:?}", what, kind, p, v)),
			}
		}
		// the other HRP must refuse it
		let cross = if kind == "offer" { guarded(B12Aus(|| s.parse::<Refund>().is_ok())) } else { guarded(B12Aus(|| s.parse::<Offer>().is_ok())) };
		if cross != Ok(false) { rec.oracle_fail(format!("string with HRP of {} accepted by the other parser: {:?} str={}", kind, cross, s)); }
		if st.str_corpus.len() < 400 { st.str_corpus.push(s.to_string()); }
	}

	/// Every single-bit mutation of a signed stream must fail to parse.
	fn b12_bitflips(rec: &mut Rec, rng: &mut Rng, st: &mut B12St, kind: &'static str, bytes: &[u8], parse: B12Parse) {
		let nbits = bytes.len() * 8;
		let left = st.sweeps_left.entry(kind).or_insert(if st.thorough { 12 } else { 2 });
		let sample = if st.thorough { 200 } else { 80 };
		let bits: Vec<usize> = if *left > 0 { *left -= 1; st.bitflip_full_sweeps += 1; (0..nbits).collect() } else { (0..sample).map(|_| rng.below(nbits as u64) as usize).collect() };
		for bit in bits {
			st.bitflips += 1;
			let m = b12_flip(bytes, bit);
			match parse(m.clone()) {
				Ok(None) => {},
				Ok(Some(_)) => rec.oracle_fail(format!("bitflip accepted: kind={} bit={} ({}) bytes={}", kind, bit, b12_locate(bytes, bit), hex(&m))),
				Err(p) => rec.oracle_fail(format!("panic parsing bit-flipped stream: kind={} bit={} ({}) {} bytes={}", kind, bit, b12_locate(bytes, bit), p, hex(&m))),
			}
		}
		// whole-record surgery on signed streams: drop the signature, drop any other record, append an unknown odd record
		// labelled probe (not an oracle): an unknown odd record inside the signature range 241..=1000 is neither hashed nor parsed
		if !st.probes.contains_key(&format!("insert_odd_signature_range_record:{}", kind)) {
			if let Some(recs) = b12_split(bytes) {
				if let Some(sig) = recs.iter().find(|r| r.typ == 240) {
					let mut m = bytes[..sig.end].to_vec(); m.extend_from_slice(&b12_record(241 + 2 * rng.below(380), &rng.bytes(5))); m.extend_from_slice(&bytes[sig.end..]);
					let out = match parse(m.clone()) { Ok(Some(_)) => "accepted", Ok(None) => "rejected", Err(_) => "panic" };
					st.probes.insert(format!("insert_odd_signature_range_record:{}", kind), format!("{} bytes={}", out, hex(&m)));
				}
			}
		}
		if let Some(recs) = b12_split(bytes) {
			let k = rng.below(recs.len() as u64) as usize;
			let mut dropped = bytes[..recs[k].start].to_vec(); dropped.extend_from_slice(&bytes[recs[k].end..]);
			let mut added = bytes.to_vec(); added.extend_from_slice(&b12_record(3_000_000_001 + 2 * rng.below(1000), &rng.bytes(2)));
			let nosig = b12_select(bytes, |t| !b12_is_sig(t));
			for (what, m) in [("drop-record", dropped), ("append-odd-experimental-record", added), ("strip-signature", nosig)] {
				st.bitflips += 1;
				match parse(m.clone()) {
					Ok(None) => {},
					Ok(Some(_)) => rec.oracle_fail(format!("altered signed stream accepted: kind={} alteration={} bytes={}", kind, what, hex(&m))),
					Err(p) => rec.oracle_fail(format!("panic parsing altered signed stream: kind={} alteration={} {} bytes={}", kind, what, p, hex(&m))),
				}
			}
		}
	}

	fn b12_expect(rec: &mut Rec, cond: bool, what: &str, bytes: &[u8]) { if !cond { rec.oracle_fail(format!("accessor does not reflect builder input: {} bytes={}", what, hex(bytes))); } }

	// ---------------------------------------------------------------------------------------------
	// builder parameter spaces
	// ---------------------------------------------------------------------------------------------

	struct B12Party { ek: ExpandedKey, nonce: Nonce, nonce_bytes: [u8; 16], keys: Keypair }
	fn b12_party(rng: &mut Rng, st: &B12St) -> B12Party {
		let (nonce, nonce_bytes) = b12_nonce(rng);
		B12Party { ek: ExpandedKey::new(rng.bytes32()), nonce, nonce_bytes, keys: b12_keypair(rng, &st.secp) }
	}

	/// mode 0: explicit signing pubkey (optional explicit metadata); 1: derived metadata, no paths (48-byte
	/// metadata, node id as signing pubkey); 2: derived signing pubkey (blinded paths, no metadata).
	struct B12OfferP { mode: u8, metadata: Option<Vec<u8>>, amount: Option<u64>, desc: Option<String>, issuer: Option<String>, expiry: Option<u64>, qty: Quantity, nets: Vec<Network>, paths: Vec<BlindedMessagePath> }

	fn b12_now() -> u64 { std::time::SystemTime::now().duration_since(std::time::UNIX_EPOCH).map(|d| d.as_secs()).unwrap_or(0) }

	fn b12_gen_expiry(rng: &mut Rng) -> Option<u64> {
		match rng.below(8) {
			0 => Some(*rng.pick(&[0u64, 1, 1_000_000_000, 1_600_000_000])), // past
			1 | 2 => Some(*rng.pick(&[4_102_444_800u64, 10_000_000_000, u32::MAX as u64 + 1, u64::MAX])), // future
			3 => Some(b12_now() + 3600 + rng.below(1_000_000)),
			_ => None,
		}
	}

	fn b12_gen_offer_p(rng: &mut Rng, st: &B12St) -> B12OfferP {
		let mode = rng.below(3) as u8;
		let npaths = match mode { 0 => rng.below(4), 1 => 0, _ => rng.range(1, 3) } as usize;
		let amount = match rng.below(6) { 0 => None, 1 => Some(1), 2 => Some(B12_MAX_MSAT), 3 => Some(rng.range(2, 1000)), _ => Some(rng.range(1, B12_MAX_MSAT / 1000)) };
		let qty = match rng.below(5) { 0 | 1 => Quantity::One, 2 => Quantity::Unbounded, 3 => Quantity::Bounded(core::num::NonZeroU64::new(rng.range(1, 10)).unwrap()), _ => Quantity::Bounded(core::num::NonZeroU64::new(*rng.pick(&[1u64, 2, 255, 256, 65536, u64::MAX])).unwrap()) };
		let nets = match rng.below(5) { 0 | 1 => vec![], 2 => vec![Network::Bitcoin], 3 => vec![*rng.pick(&B12_NETS)], _ => { let k = rng.range(2, 4); (0..k).map(|_| *rng.pick(&B12_NETS)).collect() } };
		B12OfferP {
			mode,
			metadata: if mode == 0 && rng.chance(1, 2) { Some({ let l = *rng.pick(&[0u64, 1, 8, 15, 16, 17, 32, 47, 48, 49, 80, 100]) as usize; rng.bytes(l) }) } else { None },
			amount,
			desc: if rng.chance(2, 3) { Some(b12_string(rng, 40)) } else { None },
			issuer: if rng.chance(1, 3) { Some(b12_string(rng, 30)) } else { None },
			expiry: b12_gen_expiry(rng),
			qty, nets,
			paths: (0..npaths).map(|_| b12_msg_path(rng, st)).collect(),
		}
	}

	fn b12_offer_common<'a, M: MetadataStrategy, T: secp256k1::Signing>(mut b: OfferBuilder<'a, M, T>, p: &B12OfferP) -> OfferBuilder<'a, M, T> {
		for n in &p.nets { b = b.chain(*n); }
		if let Some(a) = p.amount { b = b.amount_msats(a); }
		if let Some(d) = &p.desc { b = b.description(d.clone()); }
		if let Some(i) = &p.issuer { b = b.issuer(i.clone()); }
		if let Some(e) = p.expiry { b = b.absolute_expiry(Duration::from_secs(e)); }
		b = b.supported_quantity(p.qty);
		for path in &p.paths { b = b.path(path.clone()); }
		b
	}

	fn b12_build_offer(p: &B12OfferP, r: &B12Party, st: &B12St) -> Result<Offer, Bolt12SemanticError> {
		if p.mode == 0 {
			let mut b = OfferBuilder::new(r.keys.public_key());
			if let Some(m) = &p.metadata { b = b.metadata(m.clone())?; }
			b12_offer_common(b, p).build()
		} else {
			b12_offer_common(OfferBuilder::deriving_signing_pubkey(r.keys.public_key(), &r.ek, r.nonce, &st.secp), p).build()
		}
	}

	fn b12_chain_hash(n: Network) -> bitcoin::constants::ChainHash { bitcoin::constants::ChainHash::using_genesis_block(n) }

	fn b12_expected_chains(nets: &[Network]) -> Vec<bitcoin::constants::ChainHash> {
		let mut out = vec![];
		for n in nets { let c = b12_chain_hash(*n); if !out.contains(&c) { out.push(c); } }
		if out.is_empty() { out.push(b12_chain_hash(Network::Bitcoin)); }
		out
	}

	struct B12ReqP { net: Option<Network>, qty: Option<u64>, amount: Option<u64>, note: Option<String>, hrn: bool }

	fn b12_gen_req_p(rng: &mut Rng, offer: &Offer) -> B12ReqP {
		let supported: Vec<Network> = B12_NETS.iter().cloned().filter(|n| offer.supports_chain(b12_chain_hash(*n))).collect();
		let net = if supported.is_empty() { None } else if !offer.supports_chain(b12_chain_hash(Network::Bitcoin)) || rng.chance(1, 2) { Some(*rng.pick(&supported)) } else { None };
		let offer_amt = match offer.amount() { Some(Amount::Bitcoin { amount_msats }) => Some(amount_msats), _ => None };
		let unit = offer_amt.unwrap_or(0).max(1);
		let qmax = (B12_MAX_MSAT / unit).max(1);
		let qty = match offer.supported_quantity() {
			Quantity::One => None,
			Quantity::Unbounded => Some(match rng.below(3) { 0 => 1, 1 => rng.range(1, 1000).min(qmax), _ => qmax.min(u64::MAX / 2) }),
			Quantity::Bounded(n) => Some(match rng.below(3) { 0 => 1, 1 => n.get().min(qmax), _ => rng.range(1, n.get().min(1000)).min(qmax) }),
		};
		let expected = offer_amt.unwrap_or(0).saturating_mul(qty.unwrap_or(1));
		let room = B12_MAX_MSAT.saturating_sub(expected);
		let amount = if offer_amt.is_none() { Some(*rng.pick(&[0u64, 1, 1000, 123_456_789, B12_MAX_MSAT])) } else { match rng.below(4) { 0 | 1 => None, 2 => Some(expected), _ => Some(expected + rng.below(room + 1)) } };
		B12ReqP { net, qty, amount, note: if rng.chance(1, 2) { Some(b12_string(rng, 60)) } else { None }, hrn: rng.chance(1, 6) }
	}

	fn b12_build_invreq(offer: &Offer, rp: &B12ReqP, payer: &B12Party, pid: PaymentId, st: &B12St) -> Result<InvoiceRequest, Bolt12SemanticError> {
		let mut b = offer.request_invoice(&payer.ek, payer.nonce, &st.secp, pid)?;
		if let Some(n) = rp.net { b = b.chain(n)?; }
		if let Some(q) = rp.qty { b = b.quantity(q)?; }
		if let Some(a) = rp.amount { b = b.amount_msats(a)?; }
		if let Some(n) = &rp.note { b = b.payer_note(n.clone()); }
		if rp.hrn { b = b.sourced_from_human_readable_name(HumanReadableName::new("satoshi", "example.com").unwrap()); }
		b.build_and_sign()
	}

	struct B12InvP { paths: Vec<BlindedPaymentPath>, hash: PaymentHash, created: Duration, rel: Option<u32>, fallbacks: Vec<(u8, Vec<u8>)>, mpp: bool }

	fn b12_gen_inv_p(rng: &mut Rng, st: &B12St) -> B12InvP {
		let nfb = if rng.chance(1, 2) { 0 } else { rng.range(1, 3) };
		B12InvP {
			paths: b12_pay_paths(rng, st), hash: PaymentHash(rng.bytes32()),
			created: Duration::from_secs(match rng.below(4) { 0 => 0, 1 => b12_now(), 2 => rng.below(1 << 34), _ => *rng.pick(&[1u64, u32::MAX as u64, u64::MAX]) }),
			rel: match rng.below(4) { 0 => Some(*rng.pick(&[0u32, 1, 3600, u32::MAX])), 1 => Some(rng.next() as u32), _ => None },
			fallbacks: (0..nfb).map(|_| { let k = rng.below(3) as u8; (k, match k { 0 => rng.bytes(32), 1 => rng.bytes(20), _ => rng.pick(&st.pks).x_only_public_key().0.serialize().to_vec() }) }).collect(),
			mpp: rng.chance(1, 2),
		}
	}

	macro_rules! b12_inv_common { ($b: expr, $ip: expr) => { {
		let mut b = $b;
		if let Some(r) = $ip.rel { b = b.relative_expiry(r); }
		for (k, bytes) in &$ip.fallbacks {
			match k {
				0 => { let mut a = [0u8; 32]; a.copy_from_slice(bytes); b = b.fallback_v0_p2wsh(&bitcoin::WScriptHash::from_byte_array(a)); },
				1 => { let mut a = [0u8; 20]; a.copy_from_slice(bytes); b = b.fallback_v0_p2wpkh(&bitcoin::WPubkeyHash::from_byte_array(a)); },
				_ => { let x = secp256k1::XOnlyPublicKey::from_slice(bytes).unwrap(); b = b.fallback_v1_p2tr_tweaked(&bitcoin::key::TweakedPublicKey::dangerous_assume_tweaked(x)); },
			}
		}
		if $ip.mpp { b = b.allow_mpp(); }
		b
	} } }

	// ---------------------------------------------------------------------------------------------
	// phase 3: real objects — offer → invoice request → invoice (→ static invoice)
	// ---------------------------------------------------------------------------------------------

	/// Checks shared by invoices for offers and for refunds; emits the `merkle`/`digest` ops.
	fn b12_check_invoice(rec: &mut Rec, rng: &mut Rng, st: &mut B12St, kind: &'static str, inv: &Bolt12Invoice, ip: &B12InvP, unsigned_root: Option<[u8; 32]>) {
		{ let ib = b12_ser(inv); let un = b12_select(&ib, |t| !b12_is_sig(t)); b12_emit_resign(rec, st, if kind == "invoice" { "resign:inv:for-offer" } else { "resign:inv:for-refund" }, "inv", &un, B12Signer::Fixed(inv.signature()), Some(&ib)); }
		st.b12_built(kind);
		let bytes = b12_ser(inv);
		let root = b12_emit_merkle(rec, &format!("merkle:{}", kind), &bytes);
		let digest = b12_emit_digest(rec, &format!("digest:{}", kind), B12_TAG_INVOICE, &bytes);
		if let Some(root) = root {
			if inv.tagged_hash().merkle_root().to_byte_array() != root { rec.oracle_fail(format!("hook merkle root differs from Bolt12Invoice::tagged_hash().merkle_root(): bytes={}", hex(&bytes))); }
			if let Some(u) = unsigned_root { if u != root { rec.oracle_fail(format!("hook merkle root differs from UnsignedBolt12Invoice merkle root: bytes={}", hex(&bytes))); } }
			let stripped = b12_select(&bytes, |t| !b12_is_sig(t));
			match guarded(B12Aus(|| UnsignedBolt12Invoice::try_from(stripped.clone()).ok().map(|u| (u.tagged_hash().merkle_root().to_byte_array(), *u.tagged_hash().as_digest().as_ref())))) {
				Ok(Some((r, d))) => { if r != root || Some(d) != digest { rec.oracle_fail(format!("UnsignedBolt12Invoice::try_from(signature stripped) has another merkle root/digest: bytes={}", hex(&bytes))); } },
				other => rec.oracle_fail(format!("UnsignedBolt12Invoice::try_from(signature stripped) failed: {:?} bytes={}", other.map(|o| o.is_some()), hex(&stripped))),
			}
		}
		if let Some(d) = digest {
			if inv.signable_hash() != d { rec.oracle_fail(format!("tagged digest differs from Bolt12Invoice::signable_hash(): bytes={}", hex(&bytes))); }
			if st.secp.verify_schnorr(&inv.signature(), &secp256k1::Message::from_digest(d), &inv.signing_pubkey().x_only_public_key().0).is_err() { rec.oracle_fail(format!("invoice signature does not verify over the hook digest: bytes={}", hex(&bytes))); }
		}
		b12_expect(rec, inv.payment_hash() == ip.hash, "invoice.payment_hash", &bytes);
		b12_expect(rec, inv.created_at() == ip.created, "invoice.created_at", &bytes);
		b12_expect(rec, inv.relative_expiry() == Duration::from_secs(ip.rel.map(|r| r as u64).unwrap_or(7200)), "invoice.relative_expiry", &bytes);
		b12_expect(rec, inv.payment_paths() == &ip.paths[..], "invoice.payment_paths", &bytes);
		b12_expect(rec, inv.fallbacks().len() == ip.fallbacks.len(), "invoice.fallbacks", &bytes);
		b12_expect(rec, inv.invoice_features().supports_basic_mpp() == ip.mpp, "invoice.features(mpp)", &bytes);
		b12_roundtrip(rec, st, kind, &bytes, &b12_fp_invoice(inv), &b12_parse_invoice);
		b12_bitflips(rec, rng, st, kind, &bytes, &b12_parse_invoice);
		// the other parsers must not take it
		for (who, r) in [("offer", b12_parse_offer(bytes.clone())), ("invreq", b12_parse_invreq(bytes.clone())), ("refund", b12_parse_refund(bytes.clone())), ("static", b12_parse_static(bytes.clone()))] {
			if !matches!(r, Ok(None)) { rec.oracle_fail(format!("a Bolt12Invoice encoding is accepted (or panics) as {}: bytes={}", who, hex(&bytes))); }
		}
		st.corpus.push(bytes);
	}

	/// Payer-side verification of an invoice: right key ⇒ the payment id, other key ⇒ error.
	fn b12_check_payer_verify(rec: &mut Rec, rng: &mut Rng, st: &mut B12St, inv: &Bolt12Invoice, payer: &B12Party, pid: Option<PaymentId>, what: &str) {
		let bytes = b12_ser(inv);
		match (inv.verify_using_metadata(&payer.ek, &st.secp), pid) {
			(Ok(got), Some(want)) => { st.verify_pos += 1; if got != want { rec.oracle_fail(format!("Bolt12Invoice::verify_using_metadata returned another PaymentId ({}): got={} want={} bytes={}", what, hex(&got.0), hex(&want.0), hex(&bytes))); } },
			(Err(()), Some(_)) => rec.oracle_fail(format!("Bolt12Invoice::verify_using_metadata failed with the payer's own key ({}): bytes={}", what, hex(&bytes))),
			(Ok(got), None) => rec.oracle_fail(format!("Bolt12Invoice::verify_using_metadata accepted payer metadata that was not derived from the key ({}): id={} bytes={}", what, hex(&got.0), hex(&bytes))),
			(Err(()), None) => { st.verify_neg += 1; },
		}
		let other = ExpandedKey::new(rng.bytes32());
		st.verify_neg += 1;
		if let Ok(id) = inv.verify_using_metadata(&other, &st.secp) { rec.oracle_fail(format!("Bolt12Invoice::verify_using_metadata accepted another ExpandedKey ({}): id={} bytes={}", what, hex(&id.0), hex(&bytes))); }
		if inv.payer_metadata().len() == 48 && pid.is_some() {
			match inv.derive_payer_signing_keys(&payer.ek, &st.secp) {
				Ok(k) => if k.public_key() != inv.payer_signing_pubkey() { rec.oracle_fail(format!("derive_payer_signing_keys returned another key ({}): bytes={}", what, hex(&bytes))); },
				Err(()) => rec.oracle_fail(format!("derive_payer_signing_keys failed with the payer's own key ({}): bytes={}", what, hex(&bytes))),
			}
			st.verify_neg += 1;
			if inv.derive_payer_signing_keys(&other, &st.secp).is_ok() { rec.oracle_fail(format!("derive_payer_signing_keys accepted another ExpandedKey ({}): bytes={}", what, hex(&bytes))); }
		}
	}

	/// op `invverify <offers_base_key> <invoice bytes>` -> ok | err: `Bolt12Invoice::verify_using_metadata`
	/// (WHICH records the payer's stateless check covers) against the model's `invoiceVerify`.  Key-deriving
	/// payer metadata (48 bytes): negative verdicts hinge on the secp256k1 key comparison, impl-side only.
	fn b12_emit_invoice_verify(rec: &mut Rec, st: &mut B12St, class: &str, inv: &Bolt12Invoice, ek: &ExpandedKey, expect_ok: Option<bool>) {
		let bytes = b12_ser(inv);
		let ok = match guarded(B12Aus(|| inv.verify_using_metadata(ek, &st.secp).is_ok())) { Ok(v) => v, Err(pn) => { rec.oracle_fail(format!("panic in Bolt12Invoice::verify_using_metadata ({}): {}", pn, hex(&bytes))); return; } };
		if let Some(e) = expect_ok { if e != ok { rec.oracle_fail(format!("invoice verify expected {} got {} ({}): invoice={}", e, ok, class, hex(&bytes))); } }
		if !ok && expect_ok == Some(false) { st.verify_neg += 1; }
		// key-deriving payer metadata (48 bytes): the verdict hinges on the public key comparison; the model gets the
		// secp256k1 evaluation of the harness-computed secret as a table and decides with its translated `keysEq`
		let base = b12_vho::offers_base_key(ek);
		let md = inv.payer_metadata();
		let table = if md.len() == 48 {
			let types: BTreeSet<u64> = b12_split(&bytes).map(|r| r.iter().map(|x| x.typ).collect()).unwrap_or_default();
			let iv = if types.contains(&22) || types.contains(&16) { B12_IV_INVREQ } else if types.contains(&90) { B12_IV_REFUND_KEYS } else { B12_IV_REFUND_META };
			let mut enc = [0u8; 32]; enc.copy_from_slice(&md[..32]);
			let mut nonce = [0u8; 16]; nonce.copy_from_slice(&md[32..48]);
			b12_pub_table(st, &b12_secret_payer(&base, iv, &enc, &nonce, &b12_payer_records_for_hmac(&bytes, true)))
		} else { "-".to_string() };
		rec.case(&format!("invverify {} {} {}", hex(&base), table, hex(&bytes)), if ok { "ok" } else { "err" }, class, true);
	}

	/// the invoice with one covered-or-not record altered and the signature recomputed with `signer`
	/// `force_parity`: the alteration is the PARITY byte (0x02 <-> 0x03) of the mirrored payer id (type 88) — the one
	/// record excluded from the payer's MAC input when the payer key is derived, authenticated by the key comparison only
	fn b12_alter_and_resign(rng: &mut Rng, st: &B12St, orig: &[u8], signer: &Keypair, force_parity: bool) -> Option<(String, Bolt12Invoice)> {
		let recs = b12_split(orig)?;
		for _ in 0..12 {
			let body: Vec<&B12Tlv> = recs.iter().filter(|r| !b12_is_sig(r.typ)).collect();
			let (what, mut parts): (String, Vec<(u64, Vec<u8>)>) = {
				let mut parts: Vec<(u64, Vec<u8>)> = body.iter().map(|r| (r.typ, orig[r.start..r.end].to_vec())).collect();
				match if force_parity { 4 } else { rng.below(4) } {
					4 => {
						let i = body.iter().position(|r| r.typ == 88 && r.end - r.vstart == 33)?;
						let off = body[i].vstart - body[i].start;
						parts[i].1[off] ^= 1;
						("parityflip:88".to_string(), parts)
					},
					0 | 1 => {
						let cands: Vec<usize> = (0..body.len()).filter(|i| body[*i].end > body[*i].vstart).collect();
						if cands.is_empty() { continue; }
						let i = *rng.pick(&cands);
						let r = body[i];
						let bit = (r.vstart - r.start) * 8 + rng.below(((r.end - r.vstart) * 8) as u64) as usize;
						parts[i].1 = b12_flip(&parts[i].1, bit);
						(format!("valueflip:{}", r.typ), parts)
					},
					2 => {
						let present: BTreeSet<u64> = body.iter().map(|r| r.typ).collect();
						let t = 1 + 2 * rng.below(119);
						if present.contains(&t) { continue; }
						let l = rng.below(12) as usize;
						parts.push((t, b12_record(t, &rng.bytes(l))));
						("insert-odd".to_string(), parts)
					},
					_ => {
						let i = rng.below(body.len() as u64) as usize;
						let t = parts[i].0;
						parts.remove(i);
						(format!("remove:{}", t), parts)
					},
				}
			};
			parts.sort_by_key(|p| p.0);
			let unsigned: Vec<u8> = parts.iter().flat_map(|p| p.1.clone()).collect();
			let digest = match guarded(B12Aus(|| b12_vho::tagged_digest(B12_TAG_INVOICE, &unsigned))) { Ok(d) => d, Err(_) => continue };
			let sig = st.secp.sign_schnorr_no_aux_rand(&secp256k1::Message::from_digest(digest), signer);
			parts.push((240, b12_record(240, &sig.serialize())));
			parts.sort_by_key(|p| p.0);
			let bytes: Vec<u8> = parts.iter().flat_map(|p| p.1.clone()).collect();
			if bytes == orig { continue; }
			if let Ok(Some(i)) = guarded(B12Aus(|| Bolt12Invoice::try_from(bytes.clone()).ok())) { return Some((what, i)); }
		}
		None
	}

	fn b12_invoice_verify_ops(rec: &mut Rec, rng: &mut Rng, st: &mut B12St, inv: &Bolt12Invoice, payer: &B12Party, derived_by_payer: bool, signer: Option<&Keypair>) {
		let other = ExpandedKey::new(rng.bytes32());
		b12_emit_invoice_verify(rec, st, if derived_by_payer { "invverify:ok" } else { "invverify:err:explicit" }, inv, &payer.ek, Some(derived_by_payer));
		b12_emit_invoice_verify(rec, st, "invverify:err:otherkey", inv, &other, Some(false));
		if !derived_by_payer { return; }
		if let Some(kp) = signer {
			let orig = b12_ser(inv);
			for k in 0..5 {
				if let Some((what, altered)) = b12_alter_and_resign(rng, st, &orig, kp, k == 4) {
					// records of the invoice's own ranges (160..240, 3e9..) are the recipient's: not covered by the payer's MAC
					let t: u64 = what.split(':').nth(1).and_then(|x| x.parse().ok()).unwrap_or(0);
					let covered = match what.split(':').next().unwrap() { "insert-odd" => None, _ => Some(t < 160 || t >= 1_000_000_000 && t < 3_000_000_000) }; // type 0 is the metadata itself
					let expect = match covered { Some(true) => Some(false), Some(false) => Some(true), None => None };
					b12_emit_invoice_verify(rec, st, &format!("invverify:resigned:{}", what.split(':').next().unwrap()), &altered, &payer.ek, expect);
				}
			}
		}
	}

	/// Recipient-side verification of a request; returns the verified request when it should (and does) verify.
	fn b12_verify_invreq(rec: &mut Rec, rng: &mut Rng, st: &mut B12St, req: &InvoiceRequest, mode: u8, r: &B12Party, offer: &Offer) -> Option<InvoiceRequestVerifiedFromOffer> {
		let bytes = b12_ser(req);
		let other_ek = ExpandedKey::new(rng.bytes32());
		let (other_nonce, _) = b12_nonce(rng);
		let by_meta = req.clone().verify_using_metadata(&r.ek, &st.secp);
		let by_data = req.clone().verify_using_recipient_data(r.nonce, &r.ek, &st.secp);
		let mut neg = |rec: &mut Rec, what: &str, res: Result<InvoiceRequestVerifiedFromOffer, ()>| { st.verify_neg += 1; if res.is_ok() { rec.oracle_fail(format!("InvoiceRequest verification accepted although it must fail: {} mode={} bytes={}", what, mode, hex(&bytes))); } };
		neg(rec, "verify_using_metadata(other ExpandedKey)", req.clone().verify_using_metadata(&other_ek, &st.secp));
		neg(rec, "verify_using_recipient_data(right nonce, other ExpandedKey)", req.clone().verify_using_recipient_data(r.nonce, &other_ek, &st.secp));
		if other_nonce != r.nonce { neg(rec, "verify_using_recipient_data(other nonce)", req.clone().verify_using_recipient_data(other_nonce, &r.ek, &st.secp)); }
		let verified = match mode {
			0 => { neg(rec, "verify_using_metadata on an offer without derived metadata", by_meta); neg(rec, "verify_using_recipient_data on an offer with explicit keys", by_data); None },
			1 => { neg(rec, "verify_using_recipient_data on an offer with metadata-only derivation", by_data); match by_meta { Ok(v) => Some(v), Err(()) => { rec.oracle_fail(format!("verify_using_metadata failed for a request against the unaltered offer: bytes={}", hex(&bytes))); None } } },
			_ => { neg(rec, "verify_using_metadata on an offer without metadata", by_meta); match by_data { Ok(v) => Some(v), Err(()) => { rec.oracle_fail(format!("verify_using_recipient_data failed for a request against the unaltered offer: bytes={}", hex(&bytes))); None } } },
		};
		if let Some(v) = &verified {
			st.verify_pos += 1;
			if v.offer_id() != offer.id() { rec.oracle_fail(format!("verified request carries another OfferId: bytes={}", hex(&bytes))); }
			match (mode, v) {
				(1, InvoiceRequestVerifiedFromOffer::ExplicitKeys(_)) | (2, InvoiceRequestVerifiedFromOffer::DerivedKeys(_)) => {},
				_ => rec.oracle_fail(format!("verified request has the wrong key strategy for offer mode {}: bytes={}", mode, hex(&bytes))),
			}
		}
		verified
	}

	fn b12_offer_records_for_hmac(bytes: &[u8], skip_issuer_id: bool) -> Vec<u8> {
		b12_select(bytes, |t| ((1..80).contains(&t) && t != 4 && !(skip_issuer_id && t == 22)) || (1_000_000_000..2_000_000_000).contains(&t))
	}
	fn b12_payer_records_for_hmac(bytes: &[u8], skip_payer_id: bool) -> Vec<u8> {
		b12_select(bytes, |t| (1..80).contains(&t) || ((80..160).contains(&t) && !(skip_payer_id && t == 88)) || (1_000_000_000..3_000_000_000).contains(&t))
	}

	fn b12_offer_flow(rec: &mut Rec, rng: &mut Rng, st: &mut B12St, idx: u64) {
		let recipient = b12_party(rng, st);
		let payer = b12_party(rng, st);
		let p = b12_gen_offer_p(rng, st);
		let offer = match b12_build_offer(&p, &recipient, st) { Ok(o) => o, Err(e) => { st.b12_builder_err("offer", &e); rec.discarded += 1; return; } };
		st.b12_built("offer");
		let obytes = b12_ser(&offer);
		// ---- offer: ops, accessors, round trips
		b12_readers_probe(rec, st, "offer", &obytes);
		b12_emit_merkle(rec, "merkle:offer", &obytes);
		b12_expect(rec, offer.as_ref() == &obytes[..], "offer.as_ref()==encode()", &obytes);
		b12_expect(rec, offer.amount() == p.amount.map(|a| Amount::Bitcoin { amount_msats: a }), "offer.amount", &obytes);
		let want_desc = match (&p.desc, p.amount) { (Some(d), _) => Some(d.clone()), (None, Some(_)) => Some(String::new()), (None, None) => None };
		b12_expect(rec, offer.description().map(|s| s.0.to_string()) == want_desc, "offer.description", &obytes);
		b12_expect(rec, offer.issuer().map(|s| s.0.to_string()) == p.issuer, "offer.issuer", &obytes);
		b12_expect(rec, offer.absolute_expiry() == p.expiry.map(Duration::from_secs), "offer.absolute_expiry", &obytes);
		b12_expect(rec, offer.supported_quantity() == p.qty, "offer.supported_quantity", &obytes);
		b12_expect(rec, offer.chains() == b12_expected_chains(&p.nets), "offer.chains", &obytes);
		b12_expect(rec, offer.paths() == &p.paths[..], "offer.paths", &obytes);
		b12_expect(rec, *offer.offer_features() == lightning::types::features::OfferFeatures::empty(), "offer.features", &obytes);
		match p.mode {
			0 => { b12_expect(rec, offer.metadata() == p.metadata.as_ref(), "offer.metadata(explicit)", &obytes); b12_expect(rec, offer.issuer_signing_pubkey() == Some(recipient.keys.public_key()), "offer.issuer_signing_pubkey(explicit)", &obytes); },
			1 => { b12_expect(rec, offer.metadata().map(|m| m.len()) == Some(48) && offer.metadata().map(|m| &m[..16]) == Some(&recipient.nonce_bytes[..]), "offer.metadata(derived = nonce‖hmac)", &obytes); b12_expect(rec, offer.issuer_signing_pubkey() == Some(recipient.keys.public_key()), "offer.issuer_signing_pubkey(node id)", &obytes); },
			_ => { b12_expect(rec, offer.metadata().is_none(), "offer.metadata(absent with derived keys)", &obytes); b12_expect(rec, offer.issuer_signing_pubkey().is_some() && offer.issuer_signing_pubkey() != Some(recipient.keys.public_key()), "offer.issuer_signing_pubkey(derived)", &obytes); },
		}
		b12_roundtrip(rec, st, "offer", &obytes, &b12_fp_offer(&offer), &b12_parse_offer);
		b12_str_roundtrip(rec, rng, st, "offer", &offer.to_string(), &obytes);
		st.corpus.push(obytes.clone());
		// ---- offer metadata through the hook
		let base_r = b12_vho::offers_base_key(&recipient.ek);
		if p.mode == 1 {
			let tlv = b12_offer_records_for_hmac(&obytes, false);
			let meta = offer.metadata().cloned().unwrap_or_default();
			if meta != b12_meta_recipient(&base_r, B12_IV_OFFER_META, &recipient.nonce_bytes, &tlv) { rec.oracle_fail(format!("derived offer metadata is not nonce‖HMAC(iv‖nonce‖records‖[1;16]‖[3;16]): bytes={}", hex(&obytes))); }
			b12_emit_mverify(rec, st, "mverify:ok:offer", false, &recipient.ek, B12_IV_OFFER_META, &meta, &tlv, Some(true));
			// same metadata over the full record set (metadata record included) or with the v2 iv must fail
			b12_emit_mverify(rec, st, "mverify:err:offer:allrecords", false, &recipient.ek, B12_IV_OFFER_META, &meta, &obytes, Some(false));
			b12_emit_mverify(rec, st, "mverify:err:offer:iv", false, &recipient.ek, B12_IV_OFFER_KEYS, &meta, &tlv, Some(false));
		} else if p.mode == 2 {
			let tlv = b12_offer_records_for_hmac(&obytes, true);
			let secret = b12_secret_recipient(&base_r, B12_IV_OFFER_KEYS, &recipient.nonce_bytes, &tlv);
			b12_emit_mhmac(rec, st, "mhmac:r:offer", false, &recipient.ek, B12_IV_OFFER_KEYS, &recipient.nonce_bytes, &tlv, &secret, offer.issuer_signing_pubkey());
		}
		// ---- invoice request
		let pid = PaymentId(rng.bytes32());
		let rp = b12_gen_req_p(rng, &offer);
		let req = match b12_build_invreq(&offer, &rp, &payer, pid, st) {
			Ok(r) => { if offer.is_expired() { rec.oracle_fail(format!("request built for an expired offer: offer={}", hex(&obytes))); } r },
			Err(e) => {
				if offer.is_expired() && e == Bolt12SemanticError::AlreadyExpired { st.builder_rejects += 1; } else { st.b12_builder_err("invreq", &e); rec.discarded += 1; }
				return;
			},
		};
		st.b12_built("invreq");
		let rbytes = b12_ser(&req);
		b12_emit_mirror(rec, "mirror:offer->invreq", "req", &obytes, &rbytes);
		b12_readers_probe(rec, st, "req", &rbytes); b12_readers_probe(rec, st, "requ", &rbytes);
		let rroot = b12_emit_merkle(rec, "merkle:invreq", &rbytes);
		let rdigest = b12_emit_digest(rec, "digest:invreq", B12_TAG_INVREQ, &rbytes);
		let stripped = b12_select(&rbytes, |t| !b12_is_sig(t));
		match guarded(B12Aus(|| UnsignedInvoiceRequest::try_from(stripped.clone()).ok().map(|u| (u.tagged_hash().merkle_root().to_byte_array(), *u.tagged_hash().as_digest().as_ref(), u.tagged_hash().tag().to_string())))) {
			Ok(Some((r, d, tag))) => { if Some(r) != rroot || Some(d) != rdigest || tag != B12_TAG_INVREQ { rec.oracle_fail(format!("UnsignedInvoiceRequest::try_from(signature stripped): merkle root / digest / tag differ from the hooks: bytes={}", hex(&rbytes))); } },
			other => rec.oracle_fail(format!("UnsignedInvoiceRequest::try_from(signature stripped) failed: {:?} bytes={}", other.map(|o| o.is_some()), hex(&stripped))),
		}
		b12_emit_resign(rec, st, match (rp.note.is_some(), rp.hrn) { (true, true) => "resign:req:note+hrn", (true, false) => "resign:req:note", (false, true) => "resign:req:hrn", _ => "resign:req:plain" }, "req", &stripped, B12Signer::Fixed(req.signature()), Some(&rbytes));
		if rp.qty.is_some() { st.b12_built("resigned_invreq:quantity"); } if rp.net.is_some() { st.b12_built("resigned_invreq:chain"); } if rp.amount.is_some() { st.b12_built("resigned_invreq:amount"); }
		if let Some(d) = rdigest { if st.secp.verify_schnorr(&req.signature(), &secp256k1::Message::from_digest(d), &req.payer_signing_pubkey().x_only_public_key().0).is_err() { rec.oracle_fail(format!("request signature does not verify over the hook digest: bytes={}", hex(&rbytes))); } }
		let offer_amt = p.amount.unwrap_or(0);
		b12_expect(rec, req.chain() == b12_chain_hash(rp.net.unwrap_or(Network::Bitcoin)), "invreq.chain", &rbytes);
		b12_expect(rec, req.quantity() == rp.qty, "invreq.quantity", &rbytes);
		b12_expect(rec, req.has_amount_msats() == rp.amount.is_some(), "invreq.has_amount_msats", &rbytes);
		b12_expect(rec, req.amount_msats() == Some(rp.amount.unwrap_or(offer_amt.saturating_mul(rp.qty.unwrap_or(1)))), "invreq.amount_msats", &rbytes);
		b12_expect(rec, req.payer_note().map(|s| s.0.to_string()) == rp.note, "invreq.payer_note", &rbytes);
		b12_expect(rec, req.offer_from_hrn().is_some() == rp.hrn, "invreq.offer_from_hrn", &rbytes);
		b12_expect(rec, req.payer_metadata().len() == 48 && req.payer_metadata()[32..] == payer.nonce_bytes[..], "invreq.payer_metadata = enc_payment_id‖nonce", &rbytes);
		b12_expect(rec, req.paths() == offer.paths() && req.amount() == offer.amount() && req.issuer_signing_pubkey() == offer.issuer_signing_pubkey() && req.metadata() == offer.metadata() && req.chains() == offer.chains() && req.supported_quantity() == offer.supported_quantity() && req.absolute_expiry() == offer.absolute_expiry(), "invreq mirrors the offer fields", &rbytes);
		b12_roundtrip(rec, st, "invreq", &rbytes, &b12_fp_invreq(&req), &b12_parse_invreq);
		b12_bitflips(rec, rng, st, "invreq", &rbytes, &b12_parse_invreq);
		st.corpus.push(rbytes.clone());
		// payer keys through the hook
		let base_p = b12_vho::offers_base_key(&payer.ek);
		if req.payer_metadata().len() == 48 {
			let mut enc = [0u8; 32]; enc.copy_from_slice(&req.payer_metadata()[..32]);
			let tlv = b12_payer_records_for_hmac(&rbytes, true);
			let secret = b12_secret_payer(&base_p, B12_IV_INVREQ, &enc, &payer.nonce_bytes, &tlv);
			let meta = req.payer_metadata().to_vec();
			b12_emit_mhmac(rec, st, "mhmac:p:invreq", true, &payer.ek, B12_IV_INVREQ, &meta, &tlv, &secret, Some(req.payer_signing_pubkey()));
			if let Ok(kp) = Keypair::from_seckey_slice(&st.secp, &secret) { if kp.public_key() == req.payer_signing_pubkey() { b12_resign_altered(rec, rng, st, "req", &rbytes, &kp); } }
		}
		// ---- recipient-side verification, positives and negatives
		let verified = b12_verify_invreq(rec, rng, st, &req, p.mode, &recipient, &offer);
		b12_offer_verify_ops(rec, rng, st, &offer, &p, &recipient);
		if p.mode != 0 { for k in 0..3 { b12_altered_offer_probe(rec, rng, st, &offer, &p, &recipient, &payer, k == 2); } }
		// ---- invoice
		let ip = b12_gen_inv_p(rng, st);
		let built: Result<(Bolt12Invoice, Option<[u8; 32]>), Bolt12SemanticError> = (|| match (&verified, p.mode) {
			(Some(InvoiceRequestVerifiedFromOffer::DerivedKeys(v)), _) => {
				let b = v.respond_using_derived_keys_no_std(ip.paths.clone(), ip.hash, ip.created)?;
				Ok((b12_inv_common!(b, ip).build_and_sign(&st.secp)?, None))
			},
			(Some(InvoiceRequestVerifiedFromOffer::ExplicitKeys(v)), _) => {
				let u = b12_inv_common!(v.respond_with_no_std(ip.paths.clone(), ip.hash, ip.created)?, ip).build()?;
				let root = u.tagged_hash().merkle_root().to_byte_array();
				Ok((u.sign(|m: &UnsignedBolt12Invoice| Ok(st.secp.sign_schnorr_no_aux_rand(m.as_ref().as_digest(), &recipient.keys))).map_err(|_| Bolt12SemanticError::InvalidSigningPubkey)?, Some(root)))
			},
			(None, _) => {
				let u = b12_inv_common!(req.respond_with_no_std(ip.paths.clone(), ip.hash, ip.created)?, ip).build()?;
				let root = u.tagged_hash().merkle_root().to_byte_array();
				Ok((u.sign(|m: &UnsignedBolt12Invoice| Ok(st.secp.sign_schnorr_no_aux_rand(m.as_ref().as_digest(), &recipient.keys))).map_err(|_| Bolt12SemanticError::InvalidSigningPubkey)?, Some(root)))
			},
		})();
		match built {
			Ok((inv, uroot)) => {
				let ibytes = b12_ser(&inv);
				b12_emit_mirror(rec, "mirror:invreq->invoice", "inv", &rbytes, &ibytes);
				b12_readers_probe(rec, st, "inv", &ibytes); b12_readers_probe(rec, st, "invu", &ibytes);
				b12_check_invoice(rec, rng, st, "invoice", &inv, &ip, uroot);
				b12_expect(rec, inv.is_for_offer() && !inv.is_for_refund(), "invoice.is_for_offer", &ibytes);
				b12_expect(rec, Some(inv.amount_msats()) == req.amount_msats(), "invoice.amount_msats", &ibytes);
				b12_expect(rec, Some(inv.signing_pubkey()) == offer.issuer_signing_pubkey(), "invoice.signing_pubkey", &ibytes);
				b12_expect(rec, inv.payer_signing_pubkey() == req.payer_signing_pubkey() && inv.payer_metadata() == req.payer_metadata() && inv.quantity() == req.quantity() && inv.chain() == req.chain(), "invoice mirrors the request fields", &ibytes);
				b12_expect(rec, inv.payer_note().map(|s| s.0.to_string()) == rp.note && inv.description().map(|s| s.0.to_string()) == want_desc && inv.message_paths() == offer.paths() && inv.offer_chains() == Some(offer.chains()), "invoice mirrors offer/request strings, paths and chains", &ibytes);
				b12_expect(rec, inv.offer_id() == Some(offer.id()), "invoice.offer_id", &ibytes);
				b12_check_payer_verify(rec, rng, st, &inv, &payer, Some(pid), "invoice for offer");
				b12_invoice_verify_ops(rec, rng, st, &inv, &payer, true, if p.mode == 2 { None } else { Some(&recipient.keys) });
				if p.mode != 2 && inv.signing_pubkey() == recipient.keys.public_key() { b12_resign_altered(rec, rng, st, "inv", &ibytes, &recipient.keys); }
				// another payer (other key material, nonce, payment id) on the same offer
				if idx % 3 == 0 {
					let payer2 = b12_party(rng, st);
					let pid2 = PaymentId(rng.bytes32());
					if let Ok(req2) = b12_build_invreq(&offer, &rp, &payer2, pid2, st) {
						let r2 = if p.mode == 2 {
							match req2.clone().verify_using_recipient_data(recipient.nonce, &recipient.ek, &st.secp) { Ok(InvoiceRequestVerifiedFromOffer::DerivedKeys(v)) => v.respond_using_derived_keys_no_std(ip.paths.clone(), ip.hash, ip.created).and_then(|b| b.build_and_sign(&st.secp)).ok(), _ => None }
						} else {
							req2.respond_with_no_std(ip.paths.clone(), ip.hash, ip.created).and_then(|b| b.build()).ok().and_then(|u| u.sign(|m: &UnsignedBolt12Invoice| Ok(st.secp.sign_schnorr_no_aux_rand(m.as_ref().as_digest(), &recipient.keys))).ok())
						};
						if let Some(inv2) = r2 {
							st.verify_neg += 1;
							if let Ok(id) = inv2.verify_using_metadata(&payer.ek, &st.secp) { rec.oracle_fail(format!("invoice for another payer's request verified with this payer's key: id={} bytes={}", hex(&id.0), hex(&b12_ser(&inv2)))); }
							match inv2.verify_using_metadata(&payer2.ek, &st.secp) { Ok(id) if id == pid2 => { st.verify_pos += 1; }, other => rec.oracle_fail(format!("second payer cannot verify its own invoice: {:?} bytes={}", other.map(|i| hex(&i.0)), hex(&b12_ser(&inv2)))) }
						}
					}
					// same payer key, other nonce and payment id: verifies, but to the other payment id
					let (n3, nb3) = b12_nonce(rng);
					let payer3 = B12Party { ek: payer.ek, nonce: n3, nonce_bytes: nb3, keys: payer.keys };
					let pid3 = PaymentId(rng.bytes32());
					if let Ok(req3) = b12_build_invreq(&offer, &rp, &payer3, pid3, st) {
						if req3.payer_signing_pubkey() == req.payer_signing_pubkey() { rec.oracle_fail(format!("two requests with different nonces share the payer signing pubkey: {}", hex(&b12_ser(&req3)))); }
						if p.mode != 2 {
							if let Some(inv3) = req3.respond_with_no_std(ip.paths.clone(), ip.hash, ip.created).and_then(|b| b.build()).ok().and_then(|u| u.sign(|m: &UnsignedBolt12Invoice| Ok(st.secp.sign_schnorr_no_aux_rand(m.as_ref().as_digest(), &recipient.keys))).ok()) {
								match inv3.verify_using_metadata(&payer.ek, &st.secp) { Ok(id) if id == pid3 && id != pid => { st.verify_pos += 1; }, other => rec.oracle_fail(format!("invoice for a request with another nonce/payment id: expected that payment id, got {:?} bytes={}", other.map(|i| hex(&i.0)), hex(&b12_ser(&inv3)))) }
							}
						}
					}
				}
			},
			Err(e) => { st.b12_builder_err("invoice", &e); rec.discarded += 1; },
		}
		// ---- static invoice (needs derived keys, blinded paths and at most one chain)
		if p.mode == 2 && offer.chains().len() <= 1 { b12_static_flow(rec, rng, st, &offer, &recipient); }
	}

	/// A request built against an altered (still parseable) copy of a derived-metadata offer must not verify.
	/// op `offerverify <offers_base_key> <nonce|-> <offer bytes>` -> ok | err | keys <secret>: the hook
	/// `Offer::verif_verify` (OfferContents::verify_using_metadata / verify_using_recipient_data), i.e. WHICH
	/// records the stateless check covers, against the model's `offerVerify`.  In the key-deriving mode a
	/// negative verdict hinges on the secp256k1 public key comparison the model does not have, so those
	/// stay implementation-side (expectation checked, no op line).
	fn b12_emit_offer_verify(rec: &mut Rec, st: &mut B12St, class: &str, offer: &Offer, nonce: Option<&B12Party>, ek: &ExpandedKey, expect_ok: Option<bool>) {
		let bytes = b12_ser(offer);
		let base = b12_vho::offers_base_key(ek);
		let r = guarded(B12Aus(|| b12_vho::offer_verify(offer, nonce.map(|n| n.nonce), ek)));
		let ans = match r {
			Err(pn) => { rec.oracle_fail(format!("panic in Offer verify ({}): offer={}", pn, hex(&bytes))); return; },
			Ok(Ok(None)) => "ok".to_string(),
			Ok(Ok(Some(sk))) => format!("keys {}", hex(&sk)),
			Ok(Err(())) => "err".to_string(),
		};
		if let Some(e) = expect_ok { if e != (ans != "err") { rec.oracle_fail(format!("offer verify expected {} got {} ({}): offer={}", if e { "ok" } else { "err" }, ans, class, hex(&bytes))); } }
		let key_mode = nonce.is_some() || offer.metadata().map_or(false, |m| m.len() == 16);
		if ans == "err" && expect_ok == Some(false) { st.verify_neg += 1; }
		// key-deriving mode: the verdict hinges on the public key comparison; the model gets the secp256k1 evaluation
		// of the harness-computed secret as a table and decides with its translated `keysEq` (33-byte compressed keys)
		let table = if key_mode {
			let (iv, n16) = match nonce { Some(n) => (B12_IV_OFFER_KEYS, n.nonce_bytes), None => { let mut x = [0u8; 16]; x.copy_from_slice(&offer.metadata().unwrap()[..16]); (B12_IV_OFFER_META, x) } };
			b12_pub_table(st, &b12_secret_recipient(&base, iv, &n16, &b12_offer_records_for_hmac(&bytes, true)))
		} else { "-".to_string() };
		rec.case(&format!("offerverify {} {} {} {}", hex(&base), nonce.map_or("-".to_string(), |n| hex(&n.nonce_bytes)), table, hex(&bytes)), &ans, class, true);
	}

	/// the offer with the PARITY byte of its issuer id (type 22) flipped: a different, valid key (the negated point)
	fn b12_parity_flip_offer(orig: &[u8]) -> Option<(String, Offer)> {
		let recs = b12_split(orig)?;
		let r = recs.iter().find(|r| r.typ == 22 && r.end - r.vstart == 33)?;
		let mut b = orig.to_vec(); b[r.vstart] ^= 1;
		match guarded(B12Aus(|| Offer::try_from(b.clone()).ok())) { Ok(Some(o)) => Some(("parityflip:22".to_string(), o)), _ => None }
	}

	/// one random alteration of an offer's bytes that still parses as an offer
	fn b12_alter_offer(rng: &mut Rng, orig: &[u8]) -> Option<(String, Offer)> {
		let recs = b12_split(orig)?;
		for _ in 0..12 {
			let (what, bytes): (String, Vec<u8>) = match rng.below(6) {
				0 | 1 => {
					let with_val: Vec<&B12Tlv> = recs.iter().filter(|r| r.end > r.vstart).collect();
					if with_val.is_empty() { continue; }
					let r = *rng.pick(&with_val);
					let bit = r.vstart * 8 + rng.below(((r.end - r.vstart) * 8) as u64) as usize;
					(format!("valueflip:{}", r.typ), b12_flip(orig, bit))
				},
				2 => {
					let present: BTreeSet<u64> = recs.iter().map(|r| r.typ).collect();
					let t = 1 + 2 * rng.below(40);
					if present.contains(&t) { continue; }
					let pos = recs.iter().find(|r| r.typ > t).map(|r| r.start).unwrap_or(orig.len());
					let l = rng.below(20) as usize;
					let mut b = orig[..pos].to_vec(); b.extend_from_slice(&b12_record(t, &rng.bytes(l))); b.extend_from_slice(&orig[pos..]);
					("insert-odd".to_string(), b)
				},
				3 => {
					let t = 1_000_000_001 + 2 * rng.below(400_000_000);
					let mut b = orig.to_vec(); b.extend_from_slice(&b12_record(t, &rng.bytes(4)));
					("append-experimental".to_string(), b)
				},
				4 => {
					let r = rng.pick(&recs);
					let mut b = orig[..r.start].to_vec(); b.extend_from_slice(&orig[r.end..]);
					(format!("remove:{}", r.typ), b)
				},
				_ => {
					if recs.iter().any(|r| r.typ == 4) { continue; }
					let pos = recs.iter().find(|r| r.typ > 4).map(|r| r.start).unwrap_or(orig.len());
					let l = rng.below(60) as usize;
					let mut b = orig[..pos].to_vec(); b.extend_from_slice(&b12_record(4, &rng.bytes(l))); b.extend_from_slice(&orig[pos..]);
					("add-metadata".to_string(), b)
				},
			};
			if bytes == orig { continue; }
			if let Ok(Some(o)) = guarded(B12Aus(|| Offer::try_from(bytes.clone()).ok())) { return Some((what, o)); }
		}
		None
	}

	fn b12_offer_verify_ops(rec: &mut Rec, rng: &mut Rng, st: &mut B12St, offer: &Offer, p: &B12OfferP, recipient: &B12Party) {
		let orig = b12_ser(offer);
		let other = b12_party(rng, st);
		match p.mode {
			1 => {
				b12_emit_offer_verify(rec, st, "offerverify:ok:metadata", offer, None, &recipient.ek, Some(true));
				b12_emit_offer_verify(rec, st, "offerverify:err:otherkey", offer, None, &other.ek, Some(false));
				b12_emit_offer_verify(rec, st, "offerverify:err:as-recipient-data", offer, Some(recipient), &recipient.ek, Some(false));
			},
			2 => {
				b12_emit_offer_verify(rec, st, "offerverify:keys", offer, Some(recipient), &recipient.ek, Some(true));
				b12_emit_offer_verify(rec, st, "offerverify:err:otherkey", offer, Some(recipient), &other.ek, Some(false));
				b12_emit_offer_verify(rec, st, "offerverify:err:othernonce", offer, Some(&other), &recipient.ek, Some(false));
				b12_emit_offer_verify(rec, st, "offerverify:err:no-metadata", offer, None, &recipient.ek, Some(false));
			},
			_ => { b12_emit_offer_verify(rec, st, "offerverify:err:explicit", offer, None, &recipient.ek, Some(false)); },
		}
		if p.mode == 0 { return; }
		for k in 0..7 {
			// the last one is always the parity flip of the issuer id (excluded from the MAC input when the key is derived)
			let (what, altered) = match if k == 6 { b12_parity_flip_offer(&orig) } else { b12_alter_offer(rng, &orig) } { Some(x) => x, None => continue };
			let nonce = if p.mode == 2 { Some(recipient) } else { None };
			// the one alteration the real code accepts is KF-C18-1 (added metadata record on a path-derived offer)
			let expect = if p.mode == 2 && what == "add-metadata" { None } else { Some(false) };
			b12_emit_offer_verify(rec, st, &format!("offerverify:altered:{}", what.split(':').next().unwrap()), &altered, nonce, &recipient.ek, expect);
		}
	}

	fn b12_altered_offer_probe(rec: &mut Rec, rng: &mut Rng, st: &mut B12St, offer: &Offer, p: &B12OfferP, recipient: &B12Party, payer: &B12Party, force_parity: bool) {
		let orig = b12_ser(offer);
		let recs = match b12_split(&orig) { Some(r) => r, None => return };
		let mut found: Option<(String, Offer)> = if force_parity { match b12_parity_flip_offer(&orig) { Some((_, o)) => Some(("PARITY byte of the issuer id (type 22) flipped".to_string(), o)), None => return } } else { None };
		for _ in 0..(if force_parity { 0 } else { 12 }) {
			let (what, bytes): (String, Vec<u8>) = match rng.below(7) {
				0 | 1 => { // flip one bit inside a value
					let with_val: Vec<&B12Tlv> = recs.iter().filter(|r| r.end > r.vstart).collect();
					if with_val.is_empty() { continue; }
					let r = *rng.pick(&with_val);
					let bit = r.vstart * 8 + rng.below(((r.end - r.vstart) * 8) as u64) as usize;
					(format!("bitflip in value of type {}", r.typ), b12_flip(&orig, bit))
				},
				2 => { // insert an unknown odd record inside 1..80
					let present: BTreeSet<u64> = recs.iter().map(|r| r.typ).collect();
					let t = 1 + 2 * rng.below(40);
					if present.contains(&t) { continue; }
					let pos = recs.iter().find(|r| r.typ > t).map(|r| r.start).unwrap_or(orig.len());
					let mut b = orig[..pos].to_vec(); b.extend_from_slice(&b12_record(t, &{ let l = rng.below(20) as usize; rng.bytes(l) })); b.extend_from_slice(&orig[pos..]);
					(format!("inserted unknown odd record type {}", t), b)
				},
				3 => { // append an unknown odd experimental offer record
					let t = 1_000_000_001 + 2 * rng.below(400_000_000);
					let mut b = orig.clone(); b.extend_from_slice(&b12_record(t, &rng.bytes(4)));
					(format!("appended unknown odd experimental record type {}", t), b)
				},
				4 => { // remove a record
					let r = rng.pick(&recs);
					let mut b = orig[..r.start].to_vec(); b.extend_from_slice(&orig[r.end..]);
					(format!("removed record type {}", r.typ), b)
				},
				_ => { // replace the value of a numeric / string field
					let cands: Vec<&B12Tlv> = recs.iter().filter(|r| [8u64, 10, 14, 18, 20].contains(&r.typ)).collect();
					if cands.is_empty() { continue; }
					let r = *rng.pick(&cands);
					let val: Vec<u8> = match r.typ { 10 | 18 => b12_string(rng, 12).into_bytes(), 8 => { let v = rng.range(1, 1_000_000); let b = v.to_be_bytes(); b[b.iter().position(|x| *x != 0).unwrap_or(7)..].to_vec() }, _ => { let v = rng.range(1, 60_000); let b = v.to_be_bytes(); b[b.iter().position(|x| *x != 0).unwrap_or(7)..].to_vec() } };
					let mut b = orig[..r.start].to_vec(); b.extend_from_slice(&b12_record(r.typ, &val)); b.extend_from_slice(&orig[r.end..]);
					(format!("replaced value of type {}", r.typ), b)
				},
			};
			if bytes == orig { continue; }
			st.no_panic += 1;
			match guarded(B12Aus(|| Offer::try_from(bytes.clone()).ok())) {
				Ok(Some(o)) => { found = Some((what, o)); break; },
				Ok(None) => {},
				Err(pn) => rec.oracle_fail(format!("panic in Offer::try_from on an altered offer ({}): {} bytes={}", what, pn, hex(&bytes))),
			}
		}
		let (what, altered) = match found { Some(x) => x, None => return };
		let mut rp = b12_gen_req_p(rng, &altered);
		rp.hrn = false;
		let pid = PaymentId(rng.bytes32());
		let req = match guarded(B12Aus(|| b12_build_invreq(&altered, &rp, payer, pid, st))) {
			Ok(Ok(r)) => r,
			Ok(Err(_)) => { rec.discarded += 1; return; },
			Err(pn) => { rec.oracle_fail(format!("panic building a request against a parsed (altered) offer ({}): {} offer={}", what, pn, hex(&b12_ser(&altered)))); return; },
		};
		st.verify_neg += 1;
		let res = if p.mode == 1 { req.clone().verify_using_metadata(&recipient.ek, &st.secp) } else { req.clone().verify_using_recipient_data(recipient.nonce, &recipient.ek, &st.secp) };
		if res.is_ok() {
			rec.oracle_fail(format!("request against an ALTERED offer verified ({}; offer mode {}): original_offer={} altered_offer={} request={}", what, p.mode, hex(&orig), hex(&b12_ser(&altered)), hex(&b12_ser(&req))));
		}
		// the altered copy's records (inserted unknown odd / appended experimental records included) are mirrored as bytes
		b12_emit_mirror(rec, "mirror:altered-offer->invreq", "req", &b12_ser(&altered), &b12_ser(&req));
		// the request itself is well signed, so it must still parse
		if !matches!(b12_parse_invreq(b12_ser(&req)), Ok(Some(_))) { rec.oracle_fail(format!("request built against a parsed offer does not round trip: {}", hex(&b12_ser(&req)))); }
		// labelled probe (not an oracle): the offer metadata record (type 4) is outside the HMAC-covered record set;
		// adding one to an offer whose keys are path-derived is recorded, not judged.
		if p.mode == 2 && !st.probes.contains_key("add_type4_metadata_to_path_derived_offer") {
			let pos = recs.iter().find(|r| r.typ > 4).map(|r| r.start).unwrap_or(orig.len());
			let mut b = orig[..pos].to_vec(); b.extend_from_slice(&b12_record(4, &rng.bytes(7))); b.extend_from_slice(&orig[pos..]);
			if let Ok(Some(o4)) = guarded(B12Aus(|| Offer::try_from(b.clone()).ok())) {
				let mut rp4 = b12_gen_req_p(rng, &o4); rp4.hrn = false;
				if let Ok(r4) = b12_build_invreq(&o4, &rp4, payer, PaymentId(rng.bytes32()), st) {
					let v = r4.clone().verify_using_recipient_data(recipient.nonce, &recipient.ek, &st.secp).is_ok();
					st.probes.insert("add_type4_metadata_to_path_derived_offer".into(), format!("verify_using_recipient_data={} altered_offer={}", if v { "ok" } else { "err" }, hex(&b)));
					// the property as stated refuses a request built against ANY altered copy of the offer: keep the
					// oracle; the deviation is recorded in /verif/known_findings.txt under this key
					if v { rec.oracle_fail(format!("KF-C18-1 offer metadata record (type 4) is outside the MAC-covered record set of a path-derived offer: a request built against a copy of the offer with an ADDED metadata record passes verify_using_recipient_data; original_offer={} altered_offer={}", hex(&orig), hex(&b))); }
				}
			}
		}
	}

	fn b12_static_flow(rec: &mut Rec, rng: &mut Rng, st: &mut B12St, offer: &Offer, recipient: &B12Party) {
		let ip = b12_gen_inv_p(rng, st);
		let held: Vec<BlindedMessagePath> = (0..rng.range(1, 2)).map(|_| b12_msg_path(rng, st)).collect();
		let obytes = b12_ser(offer);
		// negatives first: other key / other nonce cannot produce a static invoice for this offer
		let other_ek = ExpandedKey::new(rng.bytes32());
		let (other_nonce, _) = b12_nonce(rng);
		st.verify_neg += 2;
		if StaticInvoiceBuilder::for_offer_using_derived_keys(offer, ip.paths.clone(), held.clone(), ip.created, &other_ek, recipient.nonce, &st.secp).is_ok() { rec.oracle_fail(format!("StaticInvoiceBuilder accepted another ExpandedKey: offer={}", hex(&obytes))); }
		if other_nonce != recipient.nonce && StaticInvoiceBuilder::for_offer_using_derived_keys(offer, ip.paths.clone(), held.clone(), ip.created, &recipient.ek, other_nonce, &st.secp).is_ok() { rec.oracle_fail(format!("StaticInvoiceBuilder accepted another nonce: offer={}", hex(&obytes))); }
		let built: Result<(StaticInvoice, [u8; 32], [u8; 32]), Bolt12SemanticError> = (|| {
			let b = StaticInvoiceBuilder::for_offer_using_derived_keys(offer, ip.paths.clone(), held.clone(), ip.created, &recipient.ek, recipient.nonce, &st.secp)?;
			let (u, keys) = b12_inv_common!(b, ip).build()?;
			let th: &lightning::offers::merkle::TaggedHash = u.as_ref();
			let (root, digest) = (th.merkle_root().to_byte_array(), *th.as_digest().as_ref());
			if Some(keys.public_key()) != offer.issuer_signing_pubkey() { return Err(Bolt12SemanticError::InvalidSigningPubkey); }
			let inv = u.sign(|m: &UnsignedStaticInvoice| { let t: &lightning::offers::merkle::TaggedHash = m.as_ref(); Ok(st.secp.sign_schnorr_no_aux_rand(t.as_digest(), &keys)) }).map_err(|_| Bolt12SemanticError::InvalidSigningPubkey)?;
			Ok((inv, root, digest))
		})();
		let (inv, uroot, udigest) = match built {
			Ok(x) => x,
			Err(e) => { if offer.is_expired() && e == Bolt12SemanticError::AlreadyExpired { st.builder_rejects += 1; } else { st.b12_builder_err("static", &e); rec.discarded += 1; } return; },
		};
		st.b12_built("static_invoice");
		let bytes = b12_ser(&inv);
		b12_emit_mirror(rec, "mirror:offer->static_invoice", "sinv", &obytes, &bytes);
		let root = b12_emit_merkle(rec, "merkle:static_invoice", &bytes);
		let digest = b12_emit_digest(rec, "digest:static_invoice", B12_TAG_STATIC, &bytes);
		if root != Some(uroot) { rec.oracle_fail(format!("hook merkle root differs from UnsignedStaticInvoice merkle root: bytes={}", hex(&bytes))); }
		if digest != Some(udigest) { rec.oracle_fail(format!("hook digest differs from UnsignedStaticInvoice digest: bytes={}", hex(&bytes))); }
		if st.secp.verify_schnorr(&inv.signature(), &secp256k1::Message::from_digest(udigest), &inv.signing_pubkey().x_only_public_key().0).is_err() { rec.oracle_fail(format!("static invoice signature does not verify over the digest: bytes={}", hex(&bytes))); }
		b12_expect(rec, inv.created_at() == ip.created, "static.created_at", &bytes);
		b12_expect(rec, inv.relative_expiry() == ip.rel.map(|r| Duration::from_secs(r as u64)).unwrap_or(lightning::offers::static_invoice::DEFAULT_RELATIVE_EXPIRY), "static.relative_expiry", &bytes);
		b12_expect(rec, inv.payment_paths() == &ip.paths[..], "static.payment_paths", &bytes);
		b12_expect(rec, inv.held_htlc_available_paths() == &held[..], "static.held_htlc_available_paths", &bytes);
		b12_expect(rec, inv.offer_message_paths() == offer.paths(), "static.offer_message_paths", &bytes);
		b12_expect(rec, inv.fallbacks().len() == ip.fallbacks.len(), "static.fallbacks", &bytes);
		b12_expect(rec, inv.invoice_features().supports_basic_mpp() == ip.mpp, "static.features(mpp)", &bytes);
		b12_expect(rec, Some(inv.signing_pubkey()) == offer.issuer_signing_pubkey() && inv.issuer_signing_pubkey() == offer.issuer_signing_pubkey(), "static.signing_pubkey", &bytes);
		b12_expect(rec, inv.amount() == offer.amount() && inv.absolute_expiry() == offer.absolute_expiry() && inv.supported_quantity() == offer.supported_quantity() && inv.chain() == offer.chains()[0] && inv.offer_id() == offer.id(), "static mirrors the offer fields", &bytes);
		b12_roundtrip(rec, st, "static_invoice", &bytes, &b12_fp_static(&inv), &b12_parse_static);
		b12_bitflips(rec, rng, st, "static_invoice", &bytes, &b12_parse_static);
		if !matches!(b12_parse_invoice(bytes.clone()), Ok(None)) { rec.oracle_fail(format!("a StaticInvoice encoding is accepted (or panics) as Bolt12Invoice: bytes={}", hex(&bytes))); }
		st.corpus.push(bytes);
	}

	// ---------------------------------------------------------------------------------------------
	// phase 3b: refund → invoice
	// ---------------------------------------------------------------------------------------------

	struct B12RefundP { mode: u8, metadata: Vec<u8>, amount: u64, desc: Option<String>, issuer: Option<String>, expiry: Option<u64>, net: Option<Network>, qty: Option<u64>, note: Option<String>, paths: Vec<BlindedMessagePath> }

	fn b12_refund_common<'a, T: secp256k1::Signing>(mut b: RefundBuilder<'a, T>, p: &B12RefundP) -> RefundBuilder<'a, T> {
		if let Some(d) = &p.desc { b = b.description(d.clone()); }
		if let Some(e) = p.expiry { b = b.absolute_expiry(Duration::from_secs(e)); }
		if let Some(i) = &p.issuer { b = b.issuer(i.clone()); }
		for path in &p.paths { b = b.path(path.clone()); }
		if let Some(n) = p.net { b = b.chain(n); }
		if let Some(q) = p.qty { b = b.quantity(q); }
		if let Some(n) = &p.note { b = b.payer_note(n.clone()); }
		b
	}

	fn b12_refund_flow(rec: &mut Rec, rng: &mut Rng, st: &mut B12St, _idx: u64) {
		let payer = b12_party(rng, st);
		let recipient = b12_party(rng, st);
		let mode = rng.below(3) as u8;
		let npaths = match mode { 0 => rng.below(3), 1 => 0, _ => rng.range(1, 3) } as usize;
		let p = B12RefundP {
			mode, metadata: { let l = *rng.pick(&[0u64, 1, 16, 32, 47, 48, 49, 80, 81]) as usize; rng.bytes(l) },
			amount: match rng.below(5) { 0 => 0, 1 => 1, 2 => B12_MAX_MSAT, _ => rng.range(1, B12_MAX_MSAT) },
			desc: if rng.chance(2, 3) { Some(b12_string(rng, 40)) } else { None }, issuer: if rng.chance(1, 3) { Some(b12_string(rng, 20)) } else { None },
			expiry: b12_gen_expiry(rng), net: if rng.chance(1, 2) { Some(*rng.pick(&B12_NETS)) } else { None },
			qty: if rng.chance(1, 3) { Some(*rng.pick(&[0u64, 1, 2, 1000, u64::MAX])) } else { None }, note: if rng.chance(1, 2) { Some(b12_string(rng, 40)) } else { None },
			paths: (0..npaths).map(|_| b12_msg_path(rng, st)).collect(),
		};
		let pid = PaymentId(rng.bytes32());
		// over-limit amounts are refused by both constructors
		if rng.chance(1, 10) {
			st.builder_rejects += 1;
			if RefundBuilder::new(vec![1], payer.keys.public_key(), B12_MAX_MSAT + 1).is_ok() || RefundBuilder::deriving_signing_pubkey(payer.keys.public_key(), &payer.ek, payer.nonce, &st.secp, B12_MAX_MSAT + 1, pid).is_ok() { rec.oracle_fail("RefundBuilder accepted an amount above MAX_VALUE_MSAT".into()); }
		}
		let refund: Result<Refund, Bolt12SemanticError> = if mode == 0 {
			RefundBuilder::new(p.metadata.clone(), payer.keys.public_key(), p.amount).and_then(|b| b12_refund_common(b, &p).build())
		} else {
			RefundBuilder::deriving_signing_pubkey(payer.keys.public_key(), &payer.ek, payer.nonce, &st.secp, p.amount, pid).and_then(|b| b12_refund_common(b, &p).build())
		};
		let refund = match refund { Ok(r) => r, Err(e) => { st.b12_builder_err("refund", &e); rec.discarded += 1; return; } };
		st.b12_built("refund");
		let fbytes = b12_ser(&refund);
		b12_emit_merkle(rec, "merkle:refund", &fbytes);
		b12_expect(rec, refund.amount_msats() == p.amount, "refund.amount_msats", &fbytes);
		b12_expect(rec, refund.description().0 == p.desc.clone().unwrap_or_default(), "refund.description", &fbytes);
		b12_expect(rec, refund.issuer().map(|s| s.0.to_string()) == p.issuer, "refund.issuer", &fbytes);
		b12_expect(rec, refund.absolute_expiry() == p.expiry.map(Duration::from_secs), "refund.absolute_expiry", &fbytes);
		b12_expect(rec, refund.chain() == b12_chain_hash(p.net.unwrap_or(Network::Bitcoin)), "refund.chain", &fbytes);
		b12_expect(rec, refund.quantity() == p.qty, "refund.quantity", &fbytes);
		b12_expect(rec, refund.payer_note().map(|s| s.0.to_string()) == p.note, "refund.payer_note", &fbytes);
		b12_expect(rec, refund.paths() == &p.paths[..], "refund.paths", &fbytes);
		match mode {
			0 => { b12_expect(rec, refund.payer_metadata() == &p.metadata[..] && refund.payer_signing_pubkey() == payer.keys.public_key(), "refund explicit metadata / payer key", &fbytes); },
			1 => { b12_expect(rec, refund.payer_metadata().len() == 80 && refund.payer_metadata()[32..48] == payer.nonce_bytes[..] && refund.payer_signing_pubkey() == payer.keys.public_key(), "refund derived metadata (enc‖nonce‖hmac), node id as payer key", &fbytes); },
			_ => { b12_expect(rec, refund.payer_metadata().len() == 48 && refund.payer_metadata()[32..48] == payer.nonce_bytes[..] && refund.payer_signing_pubkey() != payer.keys.public_key(), "refund derived payer key (enc‖nonce)", &fbytes); },
		}
		b12_roundtrip(rec, st, "refund", &fbytes, &b12_fp_refund(&refund), &b12_parse_refund);
		b12_str_roundtrip(rec, rng, st, "refund", &refund.to_string(), &fbytes);
		st.corpus.push(fbytes.clone());
		// payer metadata through the hook
		let base_p = b12_vho::offers_base_key(&payer.ek);
		let meta = refund.payer_metadata().to_vec();
		if mode == 1 && meta.len() == 80 {
			let tlv = b12_payer_records_for_hmac(&fbytes, false);
			let mut enc = [0u8; 32]; enc.copy_from_slice(&meta[..32]);
			if meta != b12_meta_payer(&base_p, B12_IV_REFUND_META, &enc, &payer.nonce_bytes, &tlv) { rec.oracle_fail(format!("derived refund metadata is not enc‖nonce‖HMAC(iv‖nonce‖records‖[1;16]‖[4;16]‖enc): bytes={}", hex(&fbytes))); }
			b12_emit_mverify(rec, st, "mverify:ok:refund", true, &payer.ek, B12_IV_REFUND_META, &meta, &tlv, Some(true));
			b12_emit_mverify(rec, st, "mverify:err:refund:iv", true, &payer.ek, B12_IV_REFUND_KEYS, &meta, &tlv, Some(false));
			b12_emit_mverify(rec, st, "mverify:err:refund:allrecords", true, &payer.ek, B12_IV_REFUND_META, &meta, &fbytes, Some(false));
		} else if mode == 2 && meta.len() == 48 {
			let tlv = b12_payer_records_for_hmac(&fbytes, true);
			let mut enc = [0u8; 32]; enc.copy_from_slice(&meta[..32]);
			let secret = b12_secret_payer(&base_p, B12_IV_REFUND_KEYS, &enc, &payer.nonce_bytes, &tlv);
			b12_emit_mhmac(rec, st, "mhmac:p:refund", true, &payer.ek, B12_IV_REFUND_KEYS, &meta, &tlv, &secret, Some(refund.payer_signing_pubkey()));
		}
		// ---- invoice for the refund
		let ip = b12_gen_inv_p(rng, st);
		let derived = rng.chance(1, 2);
		let ent = rng.bytes32();
		let built: Result<(Bolt12Invoice, Option<[u8; 32]>), Bolt12SemanticError> = (|| if derived {
			let b = refund.respond_using_derived_keys_no_std(ip.paths.clone(), ip.hash, ip.created, &recipient.ek, &B12Entropy(ent))?;
			Ok((b12_inv_common!(b, ip).build_and_sign(&st.secp)?, None))
		} else {
			let u = b12_inv_common!(refund.respond_with_no_std(ip.paths.clone(), ip.hash, recipient.keys.public_key(), ip.created)?, ip).build()?;
			let root = u.tagged_hash().merkle_root().to_byte_array();
			Ok((u.sign(|m: &UnsignedBolt12Invoice| Ok(st.secp.sign_schnorr_no_aux_rand(m.as_ref().as_digest(), &recipient.keys))).map_err(|_| Bolt12SemanticError::InvalidSigningPubkey)?, Some(root)))
		})();
		match built {
			Ok((inv, uroot)) => {
				if refund.is_expired() { rec.oracle_fail(format!("invoice built for an expired refund: refund={}", hex(&fbytes))); }
				let ibytes = b12_ser(&inv);
				b12_emit_mirror(rec, "mirror:refund->invoice", "inv", &fbytes, &ibytes);
				b12_check_invoice(rec, rng, st, "invoice_refund", &inv, &ip, uroot);
				b12_expect(rec, inv.is_for_refund() && !inv.is_for_offer() && inv.offer_id().is_none() && inv.offer_chains().is_none(), "invoice.is_for_refund", &ibytes);
				b12_expect(rec, inv.amount_msats() == p.amount, "invoice(refund).amount_msats", &ibytes);
				b12_expect(rec, derived || inv.signing_pubkey() == recipient.keys.public_key(), "invoice(refund).signing_pubkey", &ibytes);
				b12_expect(rec, inv.payer_signing_pubkey() == refund.payer_signing_pubkey() && inv.payer_metadata() == refund.payer_metadata() && inv.quantity() == p.qty && inv.chain() == refund.chain() && inv.message_paths() == refund.paths(), "invoice mirrors the refund fields", &ibytes);
				b12_expect(rec, inv.payer_note().map(|s| s.0.to_string()) == p.note && inv.description().map(|s| s.0.to_string()) == Some(p.desc.clone().unwrap_or_default()) && inv.absolute_expiry() == refund.absolute_expiry(), "invoice mirrors the refund strings/expiry", &ibytes);
				b12_check_payer_verify(rec, rng, st, &inv, &payer, if p.mode == 0 { None } else { Some(pid) }, "invoice for refund");
				b12_invoice_verify_ops(rec, rng, st, &inv, &payer, p.mode != 0, if derived { None } else { Some(&recipient.keys) });
			},
			Err(e) => { if refund.is_expired() && e == Bolt12SemanticError::AlreadyExpired { st.builder_rejects += 1; } else { st.b12_builder_err("invoice_refund", &e); rec.discarded += 1; } },
		}
	}

	// ---------------------------------------------------------------------------------------------
	// phase 4: the public parsers never panic
	// ---------------------------------------------------------------------------------------------

	fn b12_mutate(rng: &mut Rng, src: &[u8], other: &[u8]) -> Vec<u8> {
		let mut v = src.to_vec();
		for _ in 0..rng.range(1, 3) {
			if v.is_empty() { v = rng.bytes(4); }
			let n = v.len();
			match rng.below(12) {
				0 => { let b = rng.below(n as u64 * 8) as usize; v[b / 8] ^= 1 << (b % 8); },
				1 => { let i = rng.below(n as u64) as usize; v[i] = *rng.pick(&[0u8, 1, 0x7f, 0x80, 0xfc, 0xfd, 0xfe, 0xff]); },
				2 => { v.truncate(rng.below(n as u64) as usize); },
				3 => { let l = rng.range(1, 40) as usize; v.extend_from_slice(&rng.bytes(l)); },
				4 => { let i = rng.below(n as u64 + 1) as usize; let j = rng.below(other.len() as u64 + 1) as usize; v.truncate(i); v.extend_from_slice(&other[j..]); },
				5 => { // tamper with a length field
					if let Some(recs) = b12_split(&v) { if !recs.is_empty() { let r = rng.pick(&recs).clone(); let newlen = *rng.pick(&[0u64, 1, 0xfc, 0xfd, 0xffff, 0x10000, u32::MAX as u64, u64::MAX, (r.end - r.vstart) as u64 + 1]); let mut o = v[..r.lstart].to_vec(); b12_put_bigsize(&mut o, newlen); o.extend_from_slice(&v[r.vstart..]); v = o; } }
				},
				6 => { // non-minimal BigSize for a type or length
					if let Some(recs) = b12_split(&v) { if !recs.is_empty() { let r = rng.pick(&recs).clone(); let mut o = v[..r.start].to_vec(); o.push(0xfd); o.extend_from_slice(&(r.typ as u16).to_be_bytes()); o.extend_from_slice(&v[r.lstart..]); v = o; } }
				},
				7 => { // duplicate or swap records
					if let Some(recs) = b12_split(&v) { if recs.len() > 1 { let a = rng.pick(&recs).clone(); let b = rng.pick(&recs).clone(); let mut o = v[..a.end].to_vec(); o.extend_from_slice(&v[b.start..b.end]); o.extend_from_slice(&v[a.end..]); v = o; } }
				},
				8 => { // insert a random record (any type, including even unknown and signature range)
					let t = match rng.below(5) { 0 => rng.below(256), 1 => rng.range(240, 1000), 2 => rng.range(1_000_000_000, 4_000_000_000), 3 => *rng.pick(&[0u64, 4, 16, 22, 88, 90, 160, 162, 172, 176, 236, 240]), _ => rng.next() };
					let val = match rng.below(3) { 0 => vec![], 1 => rng.bytes(33), _ => { let l = rng.below(70) as usize; rng.bytes(l) } };
					let r = b12_record(t, &val);
					let pos = b12_split(&v).and_then(|recs| if recs.is_empty() { None } else { Some(rng.pick(&recs).start) }).unwrap_or(0);
					let mut o = v[..pos].to_vec(); o.extend_from_slice(&r); o.extend_from_slice(&v[pos..]); v = o;
				},
				9 => { // remove a record
					if let Some(recs) = b12_split(&v) { if !recs.is_empty() { let r = rng.pick(&recs).clone(); let mut o = v[..r.start].to_vec(); o.extend_from_slice(&v[r.end..]); v = o; } }
				},
				10 => { // replace a value with random bytes of the same or another length
					if let Some(recs) = b12_split(&v) { if !recs.is_empty() { let r = rng.pick(&recs).clone(); let l = if rng.chance(1, 2) { r.end - r.vstart } else { rng.below(80) as usize }; let mut o = v[..r.start].to_vec(); o.extend_from_slice(&b12_record(r.typ, &rng.bytes(l))); o.extend_from_slice(&v[r.end..]); v = o; } }
				},
				_ => { let i = rng.below(n as u64) as usize; let l = rng.range(1, 8) as usize; let ins = rng.bytes(l); v.splice(i..i, ins); },
			}
		}
		v
	}

	fn b12_feed_bytes(rec: &mut Rec, st: &mut B12St, input: &[u8]) {
		macro_rules! b12_try { ($name: expr, $signed: expr, $e: expr) => { {
			st.no_panic += 1;
			match guarded(B12Aus(|| $e)) {
				Ok(true) => {
					st.no_panic_parsed_ok += 1;
					// a signed parser may only accept what a builder produced (modulo unknown odd records in the unhashed range 241..=1000)
					if $signed && !st.corpus_set.contains(input) {
						let norm = b12_split(input).map(|_| b12_select(input, |t| !(241..=1000).contains(&t))).unwrap_or_default();
						if st.corpus_set.contains(&norm) { st.sig_range_accepts += 1; } else { rec.oracle_fail(format!("mutated signed stream accepted by {}: input={}", $name, hex(input))); }
					}
				},
				Ok(false) => {},
				Err(p) => rec.oracle_fail(format!("panic in {} on arbitrary bytes: {} input={}", $name, p, hex(input))),
			}
		} } }
		b12_try!("Offer::try_from", false, Offer::try_from(input.to_vec()).map(|o| { let _ = (o.to_string(), format!("{:?}", o), o.id(), o.is_expired(), o.expects_quantity()); }).is_ok());
		b12_try!("InvoiceRequest::try_from", true, InvoiceRequest::try_from(input.to_vec()).map(|o| { let _ = (format!("{:?}", o), o.amount_msats()); }).is_ok());
		b12_try!("Bolt12Invoice::try_from", true, Bolt12Invoice::try_from(input.to_vec()).map(|o| { let _ = (format!("{:?}", o), o.fallbacks(), o.is_expired()); }).is_ok());
		b12_try!("Refund::try_from", false, Refund::try_from(input.to_vec()).map(|o| { let _ = (o.to_string(), format!("{:?}", o), o.is_expired()); }).is_ok());
		b12_try!("StaticInvoice::try_from", true, StaticInvoice::try_from(input.to_vec()).map(|o| { let _ = (format!("{:?}", o), o.fallbacks(), o.is_expired()); }).is_ok());
		b12_try!("UnsignedInvoiceRequest::try_from", false, UnsignedInvoiceRequest::try_from(input.to_vec()).map(|o| { let _ = (o.amount_msats(), o.tagged_hash().merkle_root()); }).is_ok());
		b12_try!("UnsignedBolt12Invoice::try_from", false, UnsignedBolt12Invoice::try_from(input.to_vec()).map(|o| { let _ = (o.fallbacks(), o.amount_msats(), o.tagged_hash().merkle_root()); }).is_ok());
	}

	fn b12_feed_str(rec: &mut Rec, st: &mut B12St, s: &str) {
		st.no_panic += 2;
		match guarded(B12Aus(|| s.parse::<Offer>().map(|o| { let _ = o.to_string(); }).is_ok())) { Ok(ok) => if ok { st.no_panic_parsed_ok += 1; }, Err(p) => rec.oracle_fail(format!("panic in str::parse::<Offer>: {} input={:?}", p, s)) }
		match guarded(B12Aus(|| s.parse::<Refund>().map(|o| { let _ = o.to_string(); }).is_ok())) { Ok(ok) => if ok { st.no_panic_parsed_ok += 1; }, Err(p) => rec.oracle_fail(format!("panic in str::parse::<Refund>: {} input={:?}", p, s)) }
	}

	fn b12_phase_fuzz(rec: &mut Rec, rng: &mut Rng, st: &mut B12St, args: &Args) {
		const B32: &[u8] = b"qpzry9x8gf2tvdw0s3jn54khce6mua7l";
		let n_bytes = (if args.thorough { 60_000 } else { 6_000 }) * args.scale;
		let corpus = std::mem::take(&mut st.corpus);
		st.corpus_set = corpus.iter().cloned().collect();
		for i in 0..n_bytes {
			let input = if corpus.is_empty() || i % 5 == 0 {
				match rng.below(4) { 0 => { let l = rng.below(12) as usize; rng.bytes(l) }, 1 => { let l = rng.below(300) as usize; rng.bytes(l) }, 2 => { let (a, b) = (rng.range(1, 6) as usize, rng.below(2) as usize); b12_synth_stream(rng, a, b, 40) }, _ => { let n = rng.range(1, 8); let mut v = vec![]; for _ in 0..n { v.extend_from_slice(&b12_record(*rng.pick(&[0u64, 2, 4, 6, 8, 10, 12, 14, 16, 18, 20, 22, 80, 82, 84, 86, 88, 89, 90, 91, 160, 162, 164, 166, 168, 170, 172, 174, 176, 236, 240]), &{ let l = *rng.pick(&[0u64, 1, 3, 8, 32, 33, 64]) as usize; rng.bytes(l) })); } v } }
			} else {
				let a = rng.pick(&corpus); let b = rng.pick(&corpus);
				b12_mutate(rng, a, b)
			};
			b12_feed_bytes(rec, st, &input);
		}
		let n_str = (if args.thorough { 50_000 } else { 5_000 }) * args.scale;
		let strs = std::mem::take(&mut st.str_corpus);
		for _ in 0..n_str {
			let s: String = match rng.below(10) {
				0 => (0..rng.below(80)).map(|_| (rng.below(128) as u8) as char).collect(),
				1 => { let hrp = *rng.pick(&["lno1", "lnr1", "lni1", "LNO1", "lno", "lno11", "1", ""]); let body: String = (0..rng.below(120)).map(|_| *rng.pick(B32) as char).collect(); format!("{}{}", hrp, body) },
				2 => b12_string(rng, 60),
				_ if strs.is_empty() => "lno1".to_string(),
				3 => { let mut s = rng.pick(&strs).clone(); let cut = rng.below(s.len() as u64 + 1) as usize; s.truncate(cut); s },
				4 => { // '+' and whitespace at arbitrary places (also leading / trailing / doubled)
					let mut s = rng.pick(&strs).clone();
					for _ in 0..rng.range(1, 4) { let mut pos = rng.below(s.len() as u64 + 1) as usize; while !s.is_char_boundary(pos) { pos -= 1; } s.insert_str(pos, *rng.pick(&["+", "+ ", " +", "++", "+\n", "\n", " ", "+\t\r\n ", "+\u{a0}"])); }
					s
				},
				5 => { let s = rng.pick(&strs); s.chars().map(|c| if rng.chance(1, 2) { c.to_ascii_uppercase() } else { c }).collect() },
				6 => { let mut b = rng.pick(&strs).clone().into_bytes(); let i = rng.below(b.len() as u64) as usize; b[i] = *rng.pick(B32); String::from_utf8(b).unwrap_or_default() },
				7 => { let mut b = rng.pick(&strs).clone().into_bytes(); let i = rng.below(b.len() as u64) as usize; b[i] = rng.below(128) as u8; String::from_utf8_lossy(&b).into_owned() },
				8 => { let mut s = rng.pick(&strs).clone(); for _ in 0..rng.range(1, 6) { s.push(*rng.pick(B32) as char); } s },
				_ => { let a = rng.pick(&strs); let b = rng.pick(&strs); let i = rng.below(a.len() as u64) as usize; let j = rng.below(b.len() as u64) as usize; format!("{}{}", &a[..i], &b[j..]) },
			};
			b12_feed_str(rec, st, &s);
		}
		st.corpus = corpus; st.str_corpus = strs;
	}

	// ---------------------------------------------------------------------------------------------
	// entry point
	// ---------------------------------------------------------------------------------------------

	pub fn run_b12(args: &Args) {
		let mut rec = Rec::new(&args.out, "c18b12");
		let mut rng = Rng::new(args.seed);
		let secp = Secp256k1::new();
		let pks: Vec<PublicKey> = (0..48).map(|_| b12_keypair(&mut rng, &secp).public_key()).collect();
		let dummy_pk = b12_keypair(&mut rng, &secp).public_key();
		let mut st = B12St {
			secp, thorough: args.thorough, pks, dummy_pk, bitflips: 0, bitflip_full_sweeps: 0, verify_neg: 0, verify_pos: 0, roundtrips: 0, no_panic: 0, no_panic_parsed_ok: 0,
			builder_rejects: 0, builder_errs: BTreeMap::new(), built: BTreeMap::new(), sweeps_left: BTreeMap::new(), probes: BTreeMap::new(), corpus: vec![], corpus_set: Default::default(), sig_range_accepts: 0, str_corpus: vec![],
		};
		// BOLT-12 merkle test vectors through the hook and the reference (sanity of both)
		for (h, want) in [("010203e8", "b013756c8fee86503a0b4abdab4cddeb1af5d344ca6fc2fa8b6c08938caa6f93"), ("010203e802080000010000020003", "c3774abbf4815aa54ccaa026bff6581f01f3be5fe814c620a252534f434bc0d1")] {
			let got = b12_emit_merkle(&mut rec, "merkle:vector", &unhex(h));
			if got.map(|g| hex(&g)) != Some(want.to_string()) { rec.oracle_fail(format!("BOLT-12 merkle test vector {} gives {:?}", h, got.map(|g| hex(&g)))); }
		}
		b12_phase_synth_merkle(&mut rec, &mut rng, args);
		b12_phase_synth_meta(&mut rec, &mut rng, &mut st, args);
		let scenarios = (if args.thorough { 1200 } else { 120 }) * args.scale;
		for i in 0..scenarios {
			if let Err(p) = guarded(B12Aus(|| b12_offer_flow(&mut rec, &mut rng, &mut st, i))) { rec.oracle_fail(format!("panic in the offer/request/invoice builder flow (scenario {} seed {}): {}", i, args.seed, p)); }
			if let Err(p) = guarded(B12Aus(|| b12_refund_flow(&mut rec, &mut rng, &mut st, i))) { rec.oracle_fail(format!("panic in the refund/invoice builder flow (scenario {} seed {}): {}", i, args.seed, p)); }
		}
		// builders refuse amounts outside 1..=MAX_VALUE_MSAT
		for a in [0u64, B12_MAX_MSAT + 1, u64::MAX] {
			st.builder_rejects += 1;
			if OfferBuilder::new(dummy_pk).amount_msats(a).build() != Err(Bolt12SemanticError::InvalidAmount) { rec.oracle_fail(format!("OfferBuilder accepted amount_msats={}", a)); }
		}
		b12_phase_fuzz(&mut rec, &mut rng, &mut st, args);
		rec.notes.insert("rule".into(), "PRNG-driven: synthetic well-formed TLV streams (1..40 ascending records, all BigSize widths, optional signature-range records) for merkle/metadata hooks with harness-side HMAC construction and mutants; real Offer/InvoiceRequest/Bolt12Invoice/Refund/StaticInvoice objects built through the public builders over explicit, metadata-derived and path-derived key modes; every op line is distinct by its hex payload".into());
		rec.notes.insert("oracle_bitflips".into(), st.bitflips.to_string());
		rec.notes.insert("oracle_bitflip_full_sweeps".into(), st.bitflip_full_sweeps.to_string());
		rec.notes.insert("oracle_verify_neg".into(), st.verify_neg.to_string());
		rec.notes.insert("oracle_verify_pos".into(), st.verify_pos.to_string());
		rec.notes.insert("oracle_roundtrips".into(), st.roundtrips.to_string());
		rec.notes.insert("oracle_noPanic".into(), st.no_panic.to_string());
		rec.notes.insert("noPanic_inputs_parsed_ok".into(), st.no_panic_parsed_ok.to_string());
		rec.notes.insert("noPanic_signed_accepts_with_extra_241_1000_record".into(), st.sig_range_accepts.to_string());
		rec.notes.insert("oracle_builder_rejects".into(), st.builder_rejects.to_string());
		rec.notes.insert("built".into(), st.built.iter().map(|(k, v)| format!("{}={}", k, v)).collect::<Vec<_>>().join(" "));
		rec.notes.insert("builder_errors".into(), st.builder_errs.iter().map(|(k, v)| format!("{}={}", k, v)).collect::<Vec<_>>().join(" "));
		for (k, v) in st.probes.iter() { rec.notes.insert(format!("probe_{}", k), v.clone()); }
		rec.finish();
	}

}

fn main() {
	let args = parse_args("c18b11");
	match args.model.as_str() {
		"c18b11" => run_b11(&args),
		"c18b12" => b12::run_b12(&args),
		m => { eprintln!("unknown model {}", m); std::process::exit(2); },
	}
}

#[allow(dead_code)]
fn unused(_: RecoverableSignature, _: RecoveryId) {}
