//! C18 — payment requests round-trip and cannot be forged or altered.
//! model c18b11 (BOLT-11, lightning-invoice):
//!   b11 <hex of the string>        parse as SignedRawBolt11Invoice -> canonical dump | err <Bolt11ParseError variant>
//!   hrp <hex of the hrp>           RawHrp::from_str -> currency/amount/si/pico/msat dump | err ..
//!   amt <currency> <msat|none>     InvoiceBuilder::amount_milli_satoshis -> hrp string
//!   chk <hrp hex> <symbols hex>    bech32 checksum symbols (from the real encoder's output)
//!   to5 <bytes hex> / to8 <symbols hex>   Base32Iterable / FromBase32 for Vec<u8>
//! model c18b12 (BOLT-12, lightning::offers): see `run_b12`.
//! Trusted dependencies: secp256k1 (ECDSA recovery / Schnorr) and the `bech32` crate.
use bitcoin::hashes::{sha256, Hash};
use bitcoin::secp256k1::ecdsa::{RecoverableSignature, RecoveryId};
use bitcoin::secp256k1::{Message, PublicKey, Secp256k1, SecretKey};
use bitcoin::{PubkeyHash, ScriptHash, WitnessVersion};
use ldk_verif_harness::common::*;
use lightning_invoice::*;
use std::panic::AssertUnwindSafe;
use std::time::Duration;

const CHARSET: &[u8; 32] = b"qpzry9x8gf2tvdw0s3jn54khce6mua7l";

// ---- the harness' own bech32 checksum (used only to RE-checksum mutants; validated by the oracle
// that a re-checksummed string never fails with a checksum error) --------------------------------
fn polymod(values: &[u8]) -> u32 {
	const GEN: [u32; 5] = [0x3b6a57b2, 0x26508e6d, 0x1ea119fa, 0x3d4233dd, 0x2a1462b3];
	let mut chk: u32 = 1;
	for v in values {
		let b = chk >> 25;
		chk = ((chk & 0x1ffffff) << 5) ^ (*v as u32);
		for i in 0..5 { if (b >> i) & 1 == 1 { chk ^= GEN[i]; } }
	}
	chk
}
fn hrp_expand(hrp: &[u8]) -> Vec<u8> {
	let mut v: Vec<u8> = hrp.iter().map(|c| c.to_ascii_lowercase() >> 5).collect();
	v.push(0);
	v.extend(hrp.iter().map(|c| c.to_ascii_lowercase() & 31));
	v
}
fn checksum(hrp: &[u8], data: &[u8]) -> Vec<u8> {
	let mut v = hrp_expand(hrp);
	v.extend_from_slice(data);
	v.extend_from_slice(&[0; 6]);
	let pm = polymod(&v) ^ 1;
	(0..6).map(|i| ((pm >> (5 * (5 - i))) & 31) as u8).collect()
}
fn encode(hrp: &str, data: &[u8]) -> String {
	let mut s = String::from(hrp);
	s.push('1');
	for d in data.iter().chain(checksum(hrp.as_bytes(), data).iter()) { s.push(CHARSET[*d as usize] as char); }
	s
}
/// split a valid lower-case bech32 string into hrp and ALL data symbols (incl. checksum)
fn split(s: &str) -> (String, Vec<u8>) {
	let pos = s.rfind('1').unwrap();
	let syms = s[pos + 1..].bytes().map(|c| CHARSET.iter().position(|x| *x == c).unwrap() as u8).collect();
	(s[..pos].to_string(), syms)
}
fn syms_to_str(v: &[u8]) -> String { v.iter().map(|d| CHARSET[*d as usize] as char).collect() }
fn bytes_to_syms(b: &[u8]) -> Vec<u8> {
	let (mut acc, mut bits, mut out) = (0u32, 0u32, vec![]);
	for x in b { acc = (acc << 8) | *x as u32; bits += 8; while bits >= 5 { bits -= 5; out.push(((acc >> bits) & 31) as u8); } }
	if bits > 0 { out.push(((acc << (5 - bits)) & 31) as u8); }
	out
}

fn err_name<T: std::fmt::Debug>(e: &T) -> String { let s = format!("{:?}", e); s.split(|c: char| !c.is_alphanumeric()).next().unwrap().to_string() }

/// canonical dump of a parsed SignedRawBolt11Invoice (same format as the Lean driver)
fn dump(input: &str, signed: &SignedRawBolt11Invoice) -> String {
	let raw = signed.raw_invoice();
	let same = if signed.to_string() == input.to_lowercase() { 1 } else { 0 };
	let pico = raw.amount_pico_btc();
	let amt_ok = pico.map_or(true, |p| p % 10 == 0);
	let mut fields: Vec<String> = vec![];
	// the re-serialised data part (public `to_raw`), re-split along the parsed fields
	let syms: Vec<u8> = raw.to_raw().1.iter().map(|x| x.to_u8()).collect();
	let mut i = 7;
	for f in raw.data.tagged_fields.iter() {
		let known = match f { RawTaggedField::KnownSemantics(_) => true, RawTaggedField::UnknownSemantics(_) => false };
		let len = syms[i + 1] as usize * 32 + syms[i + 2] as usize;
		fields.push(format!("{}{}={}", syms[i], if known { "k" } else { "u" }, syms_to_str(&syms[i + 3..i + 3 + len])));
		i += 3 + len;
	}
	assert_eq!(i, syms.len());
	let (recid, sig) = signed.signature().0.serialize_compact();
	let mut sigb = sig.to_vec();
	sigb.push(recid.to_i32() as u8);
	format!("ok same={} {} {} {} {} {} {} {}", same, raw.hrp.to_string(), pico.map_or("none".to_string(), |p| p.to_string()),
		if amt_ok { 1 } else { 0 }, raw.data.timestamp.as_unix_timestamp(),
		if fields.is_empty() { "-".to_string() } else { fields.join(",") }, hex(&sigb), hex(signed.signable_hash()))
}

/// the real parser on one string: (answer line, class, parsed)
fn real_b11(s: &str) -> (String, String, Option<SignedRawBolt11Invoice>) {
	match guarded(AssertUnwindSafe(|| s.parse::<SignedRawBolt11Invoice>())) {
		Err(p) => (format!("panic {}", p), "b11:panic".into(), None),
		Ok(Err(e)) => { let n = err_name(&e); (format!("err {}", n), format!("b11:err:{}", n), None) },
		Ok(Ok(signed)) => (dump(s, &signed), "b11:ok".into(), Some(signed)),
	}
}

struct B11 { secp: Secp256k1<bitcoin::secp256k1::All>, sk: SecretKey, pk: PublicKey, n_ok: u64, n_mut1: u64, n_mut2: u64, outcomes: [u64; 3] }

fn emit_b11(rec: &mut Rec, s: &str, class_prefix: &str) -> Option<SignedRawBolt11Invoice> {
	let (ans, class, parsed) = real_b11(s);
	if ans.starts_with("panic") { rec.oracle_fail(format!("parser panicked on {:?}: {}", s, ans)); }
	rec.case(&format!("b11 {}", hex(s.as_bytes())), &ans, &format!("{}{}", class_prefix, class), true);
	parsed
}

fn rand_pubkey(rng: &mut Rng, secp: &Secp256k1<bitcoin::secp256k1::All>) -> PublicKey {
	loop { if let Ok(sk) = SecretKey::from_slice(&rng.bytes32()) { return PublicKey::from_secret_key(secp, &sk); } }
}
fn rand_string(rng: &mut Rng, max: usize) -> String {
	let n = rng.below(max as u64 + 1) as usize;
	let pool = ["a", "Z", " ", "1", "é", "ß", "→", "🍺", "\u{7f}", "\0", "coffee", "\"", "\\", "ナ"];
	let mut s = String::new();
	while s.len() < n { s.push_str(*rng.pick(&pool)); }
	while s.len() > max { s.pop(); }
	s
}
fn rand_amount(rng: &mut Rng) -> u64 {
	match rng.below(8) {
		0 => 0, 1 => 1, 2 => rng.below(1000), 3 => u64::MAX / 10, 4 => u64::MAX / 10 - rng.below(3),
		5 => 10u64.pow(rng.below(19) as u32) * (1 + rng.below(9)), 6 => rng.next() % (u64::MAX / 10), _ => 100_000 * rng.below(100_000),
	}
}
fn rand_route(rng: &mut Rng, secp: &Secp256k1<bitcoin::secp256k1::All>) -> RouteHint {
	let n = 1 + rng.below(3) as usize;
	RouteHint((0..n).map(|_| RouteHintHop {
		src_node_id: rand_pubkey(rng, secp), short_channel_id: rng.next(),
		fees: RoutingFees { base_msat: rng.next() as u32, proportional_millionths: rng.next() as u32 },
		cltv_expiry_delta: rng.next() as u16, htlc_minimum_msat: None, htlc_maximum_msat: None,
	}).collect())
}
fn rand_fallback(rng: &mut Rng) -> Fallback {
	match rng.below(3) {
		0 => Fallback::PubKeyHash(PubkeyHash::from_slice(&rng.bytes(20)).unwrap()),
		1 => Fallback::ScriptHash(ScriptHash::from_slice(&rng.bytes(20)).unwrap()),
		_ => { let v = rng.below(17) as u8; let n = rng.range(2, 40) as usize; Fallback::SegWitProgram { version: WitnessVersion::try_from(v).unwrap(), program: rng.bytes(n) } },
	}
}

struct Want { amount: Option<u64>, ts: u64, expiry: Option<u64>, desc: Bolt11InvoiceDescription, hash: [u8; 32], secret: [u8; 32], cltv: u64, payee_n: bool, n_fallbacks: usize, routes: Vec<RouteHint>, meta: Option<(Vec<u8>, bool)>, mpp: bool }

fn build_invoice(rng: &mut Rng, ctx: &B11) -> Option<(Bolt11Invoice, Want)> {
	let currency = match rng.below(5) { 0 => Currency::Bitcoin, 1 => Currency::BitcoinTestnet, 2 => Currency::Regtest, 3 => Currency::Simnet, _ => Currency::Signet };
	let desc = if rng.chance(1, 3) { Bolt11InvoiceDescription::Hash(Sha256(sha256::Hash::from_byte_array(rng.bytes32()))) }
		else { Bolt11InvoiceDescription::Direct({ let mx = if rng.chance(1, 8) { 639 } else { 40 }; Description::new(rand_string(rng, mx)).unwrap() }) };
	let ts = match rng.below(5) { 0 => 0, 1 => MAX_TIMESTAMP, 2 => rng.below(MAX_TIMESTAMP + 1), 3 => 1u64 << rng.below(35), _ => 1_700_000_000 + rng.below(100_000_000) };
	let w = Want {
		amount: if rng.chance(1, 5) { None } else { Some(rand_amount(rng)) }, ts,
		expiry: if rng.chance(1, 2) { None } else { Some(match rng.below(4) { 0 => 0, 1 => u64::MAX, 2 => rng.next(), _ => rng.below(100_000) }) },
		desc, hash: rng.bytes32(), secret: rng.bytes32(),
		cltv: match rng.below(4) { 0 => 0, 1 => u64::MAX, 2 => rng.next(), _ => rng.below(2000) },
		payee_n: rng.chance(1, 2), n_fallbacks: rng.below(3) as usize,
		routes: (0..rng.below(3)).map(|_| rand_route(rng, &ctx.secp)).collect(),
		meta: if rng.chance(1, 3) { let mx = if rng.chance(1, 6) { 640 } else { 50 }; let n = rng.below(mx) as usize; Some((rng.bytes(n), rng.chance(1, 2))) } else { None },
		mpp: rng.chance(1, 2),
	};
	let order = rng.below(3);
	let mut fallbacks = vec![];
	for _ in 0..w.n_fallbacks { fallbacks.push(rand_fallback(rng)); }
	macro_rules! common { ($b:expr) => {{
		let mut b = $b;
		if let Some(a) = w.amount { b = b.amount_milli_satoshis(a); }
		if w.payee_n { b = b.payee_pub_key(ctx.pk); }
		if let Some(e) = w.expiry { b = b.expiry_time(Duration::from_secs(e)); }
		for f in fallbacks.iter() { b = b.fallback(f.clone()); }
		for r in w.routes.iter() { b = b.private_route(r.clone()); }
		b
	}}}
	macro_rules! finish { ($b:expr) => {{
		let b = $b;
		let b = if w.mpp { b.basic_mpp() } else { b };
		match &w.meta {
			None => b.build_signed(|m| ctx.secp.sign_ecdsa_recoverable(m, &ctx.sk)),
			Some((md, true)) => b.payment_metadata(md.clone()).build_signed(|m| ctx.secp.sign_ecdsa_recoverable(m, &ctx.sk)),
			Some((md, false)) => b.optional_payment_metadata(md.clone()).build_signed(|m| ctx.secp.sign_ecdsa_recoverable(m, &ctx.sk)),
		}
	}}}
	let d = Duration::from_secs(w.ts);
	let r = match order {
		0 => finish!(common!(InvoiceBuilder::new(currency)).invoice_description(w.desc.clone()).payment_hash(PaymentHash(w.hash)).duration_since_epoch(d).min_final_cltv_expiry_delta(w.cltv).payment_secret(PaymentSecret(w.secret))),
		1 => finish!(common!(InvoiceBuilder::new(currency).payment_secret(PaymentSecret(w.secret)).duration_since_epoch(d).payment_hash(PaymentHash(w.hash))).min_final_cltv_expiry_delta(w.cltv).invoice_description(w.desc.clone())),
		_ => finish!(common!(InvoiceBuilder::new(currency).min_final_cltv_expiry_delta(w.cltv).invoice_description(w.desc.clone()).payment_hash(PaymentHash(w.hash)).payment_secret(PaymentSecret(w.secret)).duration_since_epoch(d))),
	};
	match r { Ok(i) => Some((i, w)), Err(_) => None }
}

/// impl oracle: the built invoice parses back to an equal object exposing what was put in
fn roundtrip_oracle(rec: &mut Rec, inv: &Bolt11Invoice, w: &Want, ctx: &B11) {
	let s = inv.to_string();
	match guarded(AssertUnwindSafe(|| s.parse::<Bolt11Invoice>())) {
		Ok(Ok(p)) => {
			let mut bad = vec![];
			if &p != inv { bad.push("object"); }
			if p.to_string() != s { bad.push("string"); }
			if p.amount_milli_satoshis() != w.amount { bad.push("amount"); }
			if p.duration_since_epoch().as_secs() != w.ts { bad.push("timestamp"); }
			if p.expiry_time().as_secs() != w.expiry.unwrap_or(DEFAULT_EXPIRY_TIME) { bad.push("expiry"); }
			if p.payment_hash().0 != w.hash { bad.push("payment_hash"); }
			if p.payment_secret().0 != w.secret { bad.push("payment_secret"); }
			if p.min_final_cltv_expiry_delta() != w.cltv { bad.push("cltv"); }
			match (&w.desc, p.description()) {
				(Bolt11InvoiceDescription::Direct(a), Bolt11InvoiceDescriptionRef::Direct(b)) if a == b => {},
				(Bolt11InvoiceDescription::Hash(a), Bolt11InvoiceDescriptionRef::Hash(b)) if a == b => {},
				_ => bad.push("description"),
			}
			if p.payee_pub_key().is_some() != w.payee_n { bad.push("payee_n"); }
			if p.get_payee_pub_key() != ctx.pk { bad.push("payee"); }
			if p.recover_payee_pub_key() != Some(ctx.pk) { bad.push("recovered"); }
			if p.fallbacks().len() != w.n_fallbacks { bad.push("fallbacks"); }
			if p.route_hints() != w.routes { bad.push("routes"); }
			if p.payment_metadata() != w.meta.as_ref().map(|m| &m.0) { bad.push("metadata"); }
			if p.features() != inv.features() || p.features().map_or(false, |f| f.supports_basic_mpp()) != w.mpp { bad.push("features"); }
			if !bad.is_empty() { rec.oracle_fail(format!("round trip differs in {:?}: {}", bad, s)); }
		},
		Ok(Err(e)) => rec.oracle_fail(format!("built invoice does not parse back ({:?}): {}", e, s)),
		Err(p) => rec.oracle_fail(format!("parser panicked on a built invoice ({}): {}", p, s)),
	}
}

/// a mutant with a RECOMPUTED checksum: classify the real outcome into the three allowed ones
fn classify_mutant(rec: &mut Rec, ctx: &mut B11, orig: &Bolt11Invoice, s: &str, what: &str) {
	let parsed = emit_b11(rec, s, "mut2:");
	ctx.n_mut2 += 1;
	let signed = match parsed { None => {
		// a checksum failure here would be a bug of the harness' own checksum code
		if let Err(Bolt11ParseError::Bech32Error(e)) = s.parse::<SignedRawBolt11Invoice>() { if format!("{:?}", e).contains("Checksum") { rec.oracle_fail(format!("harness checksum rejected: {}", s)); } }
		ctx.outcomes[0] += 1; return; }, Some(x) => x };
	match guarded(AssertUnwindSafe(|| Bolt11Invoice::from_signed(signed))) {
		Err(p) => rec.oracle_fail(format!("from_signed panicked ({}): {}", p, s)),
		Ok(Err(_)) => ctx.outcomes[0] += 1,
		Ok(Ok(inv)) => {
			if inv.signable_hash() == orig.signable_hash() { ctx.outcomes[2] += 1; }
			else if inv.payee_pub_key().is_none() && inv.recover_payee_pub_key() != Some(ctx.pk) { ctx.outcomes[1] += 1; }
			else { rec.oracle_fail(format!("ALTERED invoice accepted under the original payee key ({}): orig={} mutant={}", what, orig, s)); }
		},
	}
}

fn run_b11(args: &Args) {
	let mut rec = Rec::new(&args.out, "c18b11");
	let mut rng = Rng::new(args.seed);
	let secp = Secp256k1::new();
	let sk = SecretKey::from_slice(&[0x41; 32]).unwrap();
	let pk = PublicKey::from_secret_key(&secp, &sk);
	let mut ctx = B11 { secp, sk, pk, n_ok: 0, n_mut1: 0, n_mut2: 0, outcomes: [0; 3] };
	let scale = args.scale * if args.thorough { 10 } else { 1 };

	// (1) InvoiceBuilder over its input space
	let n_build = 60 * scale;
	for k in 0..n_build {
		let (inv, want) = match build_invoice(&mut rng, &ctx) { Some(x) => x, None => { rec.discarded += 1; continue; } };
		roundtrip_oracle(&mut rec, &inv, &want, &ctx);
		let s = inv.to_string();
		ctx.n_ok += 1;
		if emit_b11(&mut rec, &s, "built:").is_none() { rec.oracle_fail(format!("built invoice rejected: {}", s)); continue; }
		if rng.chance(1, 4) { let up = s.to_uppercase(); emit_b11(&mut rec, &up, "upper:"); }
		let (hrp, syms) = split(&s);
		// checksum tie: the six symbols the real encoder produced
		rec.case(&format!("chk {} {}", hex(hrp.as_bytes()), hex(&syms[..syms.len() - 6])), &hex(&syms[syms.len() - 6..]), "chk", true);
		// (2) single-character changes (checksum NOT recomputed) => both sides must reject
		let bytes = s.as_bytes();
		let all_positions = k < 3 * args.scale || args.thorough && k < 20;
		let n_pos = if all_positions { bytes.len() } else { 40 };
		for j in 0..n_pos {
			let pos = if all_positions { j } else { rng.below(bytes.len() as u64) as usize };
			let reps: Vec<u8> = if all_positions && k == 0 { CHARSET.iter().copied().chain(b"1bioBIO0Q -~".iter().copied()).collect() }
				else { vec![CHARSET[rng.below(32) as usize], *rng.pick(b"1bio0QZ~!"), b'0' + rng.below(10) as u8] };
			for c in reps {
				if c == bytes[pos] || c == b' ' { continue; }
				let mut m = bytes.to_vec(); m[pos] = c;
				let ms = String::from_utf8(m).unwrap();
				ctx.n_mut1 += 1;
				if emit_b11(&mut rec, &ms, "mut1:").is_some() { rec.oracle_fail(format!("single-character change accepted: pos={} orig={} mutant={}", pos, s, ms)); }
			}
		}
		// (3) single-symbol / amount changes with the checksum recomputed
		let body = &syms[..syms.len() - 6];
		let n_sym = if all_positions { body.len() } else { 60 };
		for j in 0..n_sym {
			let pos = if all_positions { j } else { rng.below(body.len() as u64) as usize };
			let mut b = body.to_vec();
			b[pos] = (b[pos] + 1 + rng.below(31) as u8) % 32;
			let ms = encode(&hrp, &b);
			classify_mutant(&mut rec, &mut ctx, &inv, &ms, &format!("symbol {}", pos));
		}
		for _ in 0..6 {
			// amount / currency changes in the human-readable part
			let mut h = hrp.clone().into_bytes();
			match rng.below(4) {
				0 => { let p = rng.below(h.len() as u64) as usize; h[p] = *rng.pick(b"0123456789munpbctrs"); },
				1 => { h.push(*rng.pick(b"0123456789munp")); },
				2 => { if h.len() > 4 { h.pop(); } else { h.push(b'1'); } },
				_ => { h = format!("ln{}{}{}", rng.pick(&["bc", "tb", "bcrt", "sb", "tbs"]), rng.below(5000), rng.pick(&["", "m", "u", "n", "p"])).into_bytes(); },
			}
			let hs = String::from_utf8(h).unwrap();
			if hs == hrp { continue; }
			let ms = encode(&hs, body);
			classify_mutant(&mut rec, &mut ctx, &inv, &ms, "hrp");
		}
	}

	// (4) raw invoices outside the builder's range: unknown tags, wrong-length known tags, non-canonical
	// encodings, hard-error payloads; signed with the fixed key, or with arbitrary signature bytes
	let n_synth = 700 * scale;
	for _ in 0..n_synth {
		let hrp = match rng.below(10) {
			0 => rng.pick(&["lnbc", "lntb", "lnbcrt", "lnsb", "lntbs", "lnbc1", "ln", "l", "lnxx", "lnbc10x", "lnbc10mm", "lnbc1m0", "lnbcm", "lntbs2500u", "xnbc", "lbbc",
				"lnbc18446744073709551615", "lnbc18446744073709551616", "lnbc18446744073709551615p", "lnbc18446744073710n", "lnbc18446744073709n", "lnbc18446744074u", "lnbc18446744073u", "lnbc18446744073m", "lnbc18446744074m", "lnbc000012p", "ln1", "lnbc9p", "lnbc10p", "lnbc0"]).to_string(),
			1 => format!("ln{}{}", rng.pick(&["bc", "tb", "bcrt", "sb", "tbs"]), rng.next()),
			_ => format!("ln{}{}{}", rng.pick(&["bc", "tb", "bcrt", "sb", "tbs"]), if rng.chance(1, 4) { String::new() } else { (rng.next() >> rng.below(64)).to_string() }, rng.pick(&["", "m", "u", "n", "p", "p"])),
		};
		let mut data: Vec<u8> = (0..7).map(|_| rng.below(32) as u8).collect();
		let n_fields = rng.below(7);
		for _ in 0..n_fields {
			let tag = if rng.chance(3, 4) { *rng.pick(&[1u8, 13, 19, 23, 6, 24, 9, 3, 16, 27, 5]) } else { rng.below(32) as u8 };
			let payload: Vec<u8> = match (tag, rng.below(4)) {
				(1, 0..=1) | (16, 0..=1) | (23, 0..=1) => (0..52).map(|_| rng.below(32) as u8).collect(),
				(13, 0..=1) => bytes_to_syms(rand_string(&mut rng, 30).as_bytes()),
				(19, 0..=1) => { let mut v = bytes_to_syms(&rand_pubkey(&mut rng, &ctx.secp).serialize()); if rng.chance(1, 4) { let l = v.len(); v[l - 1] |= 1; } v },
				(19, 2) => (0..53).map(|_| rng.below(32) as u8).collect(),
				(6, 0..=2) | (24, 0..=2) => (0..rng.below(15)).map(|_| if rng.chance(1, 3) { 0 } else { rng.below(32) as u8 }).collect(),
				(9, 0..=2) => { let ver = if rng.chance(2, 3) { *rng.pick(&[0u8, 1, 16, 17, 18]) } else { rng.below(32) as u8 };
					let n = match ver { 17 => 20, 18 => 32, _ => rng.range(0, 42) as usize }; let n = if rng.chance(1, 6) { n + 1 } else { n };
					let mut v = vec![ver]; v.extend(bytes_to_syms(&rng.bytes(n))); v },
				(3, 0..=2) => { let hops = rng.below(3) as usize; let mut b = vec![];
					for _ in 0..hops { b.extend_from_slice(&rand_pubkey(&mut rng, &ctx.secp).serialize()); b.extend(rng.bytes(18)); }
					if rng.chance(1, 6) { b.push(0); } if rng.chance(1, 8) && !b.is_empty() { b[0] = 5; } bytes_to_syms(&b) },
				(5, _) => (0..rng.below(8)).map(|_| if rng.chance(1, 2) { 0 } else { rng.below(32) as u8 }).collect(),
				_ => { let mx = if rng.chance(1, 10) { 200 } else { 60 }; let n = rng.below(mx); (0..n).map(|_| rng.below(32) as u8).collect() },
			};
			let len = if rng.chance(1, 25) { payload.len() + rng.below(4) as usize } else { payload.len() };
			data.push(tag); data.push((len / 32) as u8 % 32); data.push((len % 32) as u8);
			data.extend(payload);
		}
		if rng.chance(1, 25) { data.truncate(rng.below(data.len() as u64 + 1) as usize); }
		// signature: real one over the preimage as the parser will see it is impossible before parsing, so
		// sign the hash of what we built (valid when the data is canonical), or use arbitrary bytes
		let sig65: Vec<u8> = match rng.below(6) {
			0 => { let mut v = rng.bytes(64); v.push(rng.below(4) as u8); v },
			1 => { let mut v = vec![0xff; 32]; v.extend(rng.bytes(32)); v.push(0); v },
			2 => { let mut v = rng.bytes(32); v.extend(vec![0xff; 32]); v.push(1); v },
			3 => { let mut v = rng.bytes(64); v.push(4 + rng.below(252) as u8); v },
			_ => {
				let mut pre = hrp.clone().into_bytes();
				let mut padded = data.clone();
				let overhang = (padded.len() * 5) % 8;
				if overhang > 0 { padded.push(0); if overhang < 3 { padded.push(0); } }
				let (mut acc, mut bits) = (0u32, 0u32);
				for d in padded.iter() { acc = (acc << 5) | *d as u32; bits += 5; if bits >= 8 { bits -= 8; pre.push((acc >> bits) as u8); } }
				let h = sha256::Hash::hash(&pre);
				let (rid, sig) = ctx.secp.sign_ecdsa_recoverable(&Message::from_digest(h.to_byte_array()), &ctx.sk).serialize_compact();
				let mut v = sig.to_vec(); v.push(rid.to_i32() as u8); v },
		};
		let mut all = data.clone();
		if !rng.chance(1, 30) { all.extend(bytes_to_syms(&sig65)); }
		let mut s = encode(&hrp, &all);
		if rng.chance(1, 12) { s = s.to_uppercase(); }
		let parsed = emit_b11(&mut rec, &s, "synth:");
		if let Some(signed) = parsed {
			// no panic in the semantic layer either
			if let Err(p) = guarded(AssertUnwindSafe(|| { let _ = Bolt11Invoice::from_signed(signed.clone()).map(|i| (i.amount_milli_satoshis(), i.expiry_time(), i.route_hints(), i.fallback_addresses(), i.get_payee_pub_key())); })) {
				rec.oracle_fail(format!("from_signed/accessors panicked ({}): {}", p, s));
			}
		}
	}
	// (5) arbitrary strings never panic
	let n_arb = 400 * scale;
	for _ in 0..n_arb {
		let n = rng.below(200) as usize;
		let s: String = match rng.below(3) {
			0 => (0..n).map(|_| (33 + rng.below(94)) as u8 as char).collect(),
			1 => format!("lnbc1{}", (0..n).map(|_| CHARSET[rng.below(32) as usize] as char).collect::<String>()),
			_ => { let d: Vec<u8> = (0..n).map(|_| rng.below(32) as u8).collect(); encode(*rng.pick(&["lnbc", "lntb1u", "a", "lnbc2500u"]), &d) },
		};
		emit_b11(&mut rec, &s, "arb:");
		if let Err(p) = guarded(AssertUnwindSafe(|| { let _ = s.parse::<Bolt11Invoice>(); })) { rec.oracle_fail(format!("Bolt11Invoice::from_str panicked ({}): {:?}", p, s)); }
	}
	{
		// non-ASCII / whitespace input goes to the real parser only (op lines are space separated)
		for s in ["", " ", "lnbc1 ", "lnbc1\u{e9}qqqqqq", "ln\u{1f37a}1qqqqqq", "1", "11", "lnbc1", "1qqqqqq", "lnbc11qqqqq"] {
			if let Err(p) = guarded(AssertUnwindSafe(|| { let _ = s.parse::<Bolt11Invoice>(); })) { rec.oracle_fail(format!("Bolt11Invoice::from_str panicked ({}): {:?}", p, s)); }
			if !s.contains(' ') { emit_b11(&mut rec, s, "arb:"); }
		}
	}

	// (6) human-readable part: RawHrp::from_str and the builder's amount encoding over 0..=max
	let mut amounts: Vec<u64> = vec![0, 1, 9, 10, 99, 100, 1000, 999_999, 1_000_000, 100_000_000, 100_000_000_000, u64::MAX / 10, u64::MAX / 10 + 1, u64::MAX];
	for e in 0..20 { for m in [1u64, 2, 5, 9] { amounts.push(10u64.saturating_pow(e).saturating_mul(m)); amounts.push(10u64.saturating_pow(e).saturating_mul(m).saturating_add(1)); } }
	for _ in 0..(300 * scale) { amounts.push(rand_amount(&mut rng)); amounts.push(rng.next() >> rng.below(64)); }
	for a in amounts {
		let cur = *rng.pick(&["bc", "tb", "bcrt", "sb", "tbs"]);
		let currency = match cur { "bc" => Currency::Bitcoin, "tb" => Currency::BitcoinTestnet, "bcrt" => Currency::Regtest, "sb" => Currency::Simnet, _ => Currency::Signet };
		let r = InvoiceBuilder::new(currency).amount_milli_satoshis(a).duration_since_epoch(Duration::from_secs(1)).build_raw();
		match r {
			Ok(raw) => {
				let h = raw.hrp.to_string();
				rec.case(&format!("amt {} {}", cur, a), &format!("ok {}", h), "amt:ok", true);
				// impl oracle: amount_hrp_roundtrip on the real code
				match h.parse::<RawHrp>() {
					Ok(p) => { let back = RawBolt11Invoice { hrp: p, data: raw.data.clone() }.amount_pico_btc().map(|v| v / 10); if back != Some(a) { rec.oracle_fail(format!("amount {} msat reads back as {:?} from hrp {}", a, back, h)); } },
					Err(e) => rec.oracle_fail(format!("hrp {} built for {} msat does not parse: {:?}", h, a, e)),
				}
				hrp_case(&mut rec, &h);
			},
			Err(_) => rec.case(&format!("amt {} {}", cur, a), "err InvalidAmount", "amt:err", true),
		}
	}
	rec.case("amt bc none", "ok lnbc", "amt:ok", true);
	for _ in 0..(500 * scale) {
		let h = match rng.below(4) {
			0 => format!("ln{}{}{}", rng.pick(&["bc", "tb", "bcrt", "sb", "tbs", "", "b", "bcr", "tbss"]), rng.next() >> rng.below(64), rng.pick(&["", "m", "u", "n", "p", "k", "mm", "m1"])),
			1 => { let n = rng.below(12) as usize; (0..n).map(|_| *rng.pick(b"lnbctrs0123456789munpx") as char).collect() },
			2 => format!("lnbc{}{}", u64::MAX as u128 / *rng.pick(&[1u128, 1000, 1_000_000, 1_000_000_000]) + rng.below(3) as u128 - 1, rng.pick(&["", "m", "u", "n", "p"])),
			_ => format!("lnbc{}{}", "0".repeat(rng.below(30) as usize), rng.below(100)),
		};
		hrp_case(&mut rec, &h);
	}

	// (7) 8 <-> 5 bit regrouping, through the `m` (payment metadata, Vec<u8>) field of the public API
	for _ in 0..(200 * scale) {
		let n = rng.below(70) as usize;
		let b = rng.bytes(n);
		let raw = RawBolt11Invoice { hrp: "lnbc".parse::<RawHrp>().unwrap(), data: RawDataPart { timestamp: PositiveTimestamp::from_unix_timestamp(0).unwrap(), tagged_fields: vec![RawTaggedField::KnownSemantics(TaggedField::PaymentMetadata(b.clone()))] } };
		let syms: Vec<u8> = raw.to_raw().1.iter().map(|x| x.to_u8()).collect();
		rec.case(&format!("to5 {}", hex(&b)), &hex(&syms[10..]), "to5", true);
		let m = rng.below(100) as usize;
		let syms2: Vec<u8> = (0..m).map(|_| rng.below(32) as u8).collect();
		let mut data = vec![0u8; 7];
		data.extend_from_slice(&[27, (m / 32) as u8, (m % 32) as u8]);
		data.extend_from_slice(&syms2);
		let mut sig = rng.bytes(64); sig[0] &= 0x7f; sig[32] &= 0x7f; sig.push(0);
		data.extend(bytes_to_syms(&sig));
		match encode("lnbc", &data).parse::<SignedRawBolt11Invoice>() {
			Ok(p) => rec.case(&format!("to8 {}", hex(&syms2)), &hex(p.raw_invoice().payment_metadata().unwrap()), "to8", true),
			Err(e) => rec.oracle_fail(format!("metadata carrier invoice rejected: {:?}", e)),
		}
	}

	rec.notes.insert("rule".into(), "InvoiceBuilder over PRNG-drawn amount(0..max)/timestamp/expiry/description|hash/fallbacks/route hints/metadata/mpp/payee-by-n|recovery in 3 call orders, signed with a fixed key; every built string: parse dump + re-serialisation, every single-character change (all positions for the first invoices, sampled after), single-symbol and HRP changes with recomputed checksum classified into {error, other recovered payee, identical signed content}; synthetic raw invoices with unknown/wrong-length/non-canonical/hard-error fields and arbitrary signatures; arbitrary strings; HRP/amount sweep; 5<->8 bit regrouping".into());
	rec.notes.insert("built_invoices".into(), ctx.n_ok.to_string());
	rec.notes.insert("single_char_mutants".into(), ctx.n_mut1.to_string());
	rec.notes.insert("rechecksummed_mutants".into(), format!("{} (error {}, other payee {}, identical signed content {})", ctx.n_mut2, ctx.outcomes[0], ctx.outcomes[1], ctx.outcomes[2]));
	rec.finish();
}

fn hrp_case(rec: &mut Rec, h: &str) {
	if h.contains(' ') { return; }
	let ans = match guarded(AssertUnwindSafe(|| h.parse::<RawHrp>())) {
		Err(p) => { rec.oracle_fail(format!("RawHrp::from_str panicked ({}): {:?}", p, h)); format!("panic {}", p) },
		Ok(Err(e)) => format!("err {}", err_name(&e)),
		Ok(Ok(p)) => {
			let cur = p.currency.to_string();
			let si = p.si_prefix.map_or("none".to_string(), |s| s.to_string());
			let raw_amount = p.raw_amount;
			let back = p.to_string();
			let inv = RawBolt11Invoice { hrp: p, data: RawDataPart { timestamp: PositiveTimestamp::from_unix_timestamp(0).unwrap(), tagged_fields: vec![] } };
			let pico = inv.amount_pico_btc();
			let o = |x: Option<u64>| x.map_or("none".to_string(), |v| v.to_string());
			format!("ok {} {} {} {} {} {} {}", cur, o(raw_amount), si, o(pico), o(pico.map(|v| v / 10)), if pico.map_or(true, |v| v % 10 == 0) { 1 } else { 0 }, back)
		},
	};
	let class = if ans.starts_with("ok") { "hrp:ok".to_string() } else { format!("hrp:{}", ans.replace(' ', ":")) };
	rec.case(&format!("hrp {}", hex(h.as_bytes())), &ans, &class, true);
}

fn run_b12(args: &Args) {
	let mut rec = Rec::new(&args.out, "c18b12");
	rec.notes.insert("rule".into(), "placeholder".into());
	let _ = args;
	rec.finish();
}

fn main() {
	let args = parse_args("c18b11");
	match args.model.as_str() {
		"c18b11" => run_b11(&args),
		"c18b12" => run_b12(&args),
		m => { eprintln!("unknown model {}", m); std::process::exit(2); },
	}
}

#[allow(dead_code)]
fn unused(_: RecoverableSignature, _: RecoveryId) {}
