//! C19 — the storage layer, real code.
//!
//! model `c19kv`  : `lightning_persister::fs_store::{v1::FilesystemStore, v2::FilesystemStoreV2}` in a scratch
//!                  directory under the run directory, PRNG op sequences; ops (strings as hex, `-` = empty):
//!                    reset v1|v2 | w <p> <s> <k> <val> | r <p> <s> <k> | d <p> <s> <k> <lazy> | l <p> <s> | la
//!                    fs                                  every file below the data directory (artifacts included)
//!                    plant <dir1|-> <dir2|-> <name> <val> (directive) a file put there behind the store's back
//!                    restart                             (directive) drop the store, open a new one on the directory
//!                    ai <id> w|d ...                     create the async future (= issue: version + lock ref taken)
//!                    ax <id>                             drive that future to completion
//!                    axf <id> <fault>                    the same, with (fault=1) a non-empty directory standing at the destination
//!                                                        path while the body runs (the rename of a write fails); answers ok | err io
//! model `c19mup` : `lightning::util::persist::MonitorUpdatingPersister` over a recording, fault-injecting
//!                  in-memory `KVStoreSync` (RecStore), fed with REAL monitors/updates harvested from a
//!                  two-node network; ops:
//!                    init <N> <name> <crashAt|-> <failAt|-> <failEff> <noEff csv|->   (directive)
//!                    inject <p> <s> <k> junk 0                                         (directive)
//!                    new <id> | upd <update_id> <asFull> | full | cleanup <lazy> | archive | recover | keys
//!                  answers: `<status> | <emitted store ops>`; recover: `ok <name>:<id>` / `err` / `panic`.
//! model `c19mt`  : (harness-only, validated-not-proved) 8 threads hammering one FilesystemStore; checked
//!                  against per-key map semantics. Writes no ops for the Lean driver.
use ldk_verif_harness::common::*;
use std::collections::{BTreeMap, HashMap, HashSet};
use std::panic::AssertUnwindSafe;
use std::path::PathBuf;
use std::sync::Mutex;

use bitcoin::Transaction;
use lightning::chain::chaininterface::{BroadcasterInterface, ConfirmationTarget, FeeEstimator, TransactionType};
use lightning::chain::chainmonitor::Persist;
use lightning::chain::channelmonitor::{ChannelMonitor, ChannelMonitorUpdate};
use lightning::chain::{BlockLocator, ChannelMonitorUpdateStatus};
use lightning::ln::functional_test_utils::*;
use lightning::util::persist::{KVStore, KVStoreSync, MigratableKVStoreSync, MonitorName, MonitorUpdatingPersister};
use lightning::util::ser::{Readable, ReadableArgs, Writeable};
use lightning::util::test_channel_signer::TestChannelSigner;
use lightning::util::test_utils::TestKeysInterface;
use lightning_persister::fs_store::v1::FilesystemStore;
use lightning_persister::fs_store::v2::FilesystemStoreV2;

type IoErr = lightning::io::Error;

fn hexs(s: &str) -> String { hex(s.as_bytes()) }

// ------------------------------------------------------------------------------------------------
// c19kv
// ------------------------------------------------------------------------------------------------

fn kind_of_msg(msg: &str) -> String {
	if msg.contains("key may not be empty") { "EmptyKey".into() }
	else if msg.contains("primary namespace may not be empty") { "EmptyPrimary".into() }
	else if msg.contains("must be valid") { "Invalid".into() }
	else { format!("Other:{}", msg.split_whitespace().take(4).collect::<Vec<_>>().join("_")) }
}

/// canonical error: validity failures are `Err(other)` in release and a `debug_assert!` panic with the
/// same text in the dev profile the harness is built with — both map to the same `err <Kind>`.
fn canon_err(r: Result<IoErr, String>) -> String {
	match r {
		Ok(e) => if e.kind() == lightning::io::ErrorKind::NotFound { "err NotFound".into() } else { format!("err {}", kind_of_msg(&e.to_string())) },
		Err(p) => format!("err {}", kind_of_msg(&p)),
	}
}

trait AnyStore: KVStoreSync + MigratableKVStoreSync {}
impl<T: KVStoreSync + MigratableKVStoreSync> AnyStore for T {}

fn ref_valid(s: &str) -> bool { s.len() <= 120 && s.chars().all(|c| c.is_ascii_alphanumeric() || c == '_' || c == '-') }
/// reference validity (the documented contract of KVStoreSync), written independently of the Lean model
fn ref_check(p: &str, s: &str, k: Option<&str>) -> Option<&'static str> {
	if let Some(k) = k { if k.is_empty() { return Some("EmptyKey"); } }
	if p.is_empty() && !s.is_empty() { return Some("EmptyPrimary"); }
	if !ref_valid(p) || !ref_valid(s) || !k.map(ref_valid).unwrap_or(true) { return Some("Invalid"); }
	None
}

enum StoreE { V1(FilesystemStore), V2(FilesystemStoreV2) }
impl StoreE {
	fn open(v2: bool, dir: &PathBuf) -> StoreE { if v2 { StoreE::V2(FilesystemStoreV2::new(dir.clone()).expect("v2 store")) } else { StoreE::V1(FilesystemStore::new(dir.clone())) } }
	fn sync(&self) -> &dyn AnyStore { match self { StoreE::V1(s) => s, StoreE::V2(s) => s } }
	/// `KVStore::write` (async API): creating the future IS the issue (version + lock reference are taken now)
	fn write_async(&self, p: &str, s: &str, k: &str, v: Vec<u8>) -> AsyncFut {
		match self { StoreE::V1(st) => Box::pin(KVStore::write(st, p, s, k, v)), StoreE::V2(st) => Box::pin(KVStore::write(st, p, s, k, v)) }
	}
	fn remove_async(&self, p: &str, s: &str, k: &str, lazy: bool) -> AsyncFut {
		match self { StoreE::V1(st) => Box::pin(KVStore::remove(st, p, s, k, lazy)), StoreE::V2(st) => Box::pin(KVStore::remove(st, p, s, k, lazy)) }
	}
}
type AsyncFut = std::pin::Pin<Box<dyn std::future::Future<Output = Result<(), IoErr>> + Send>>;

/// every regular file below `dir`, as `/`-joined relative paths (the file-level observer)
fn walk_files(dir: &std::path::Path, rel: &str, out: &mut Vec<String>) {
	if let Ok(rd) = std::fs::read_dir(dir) {
		for e in rd.flatten() {
			let name = e.file_name().to_string_lossy().to_string();
			let r = if rel.is_empty() { name.clone() } else { format!("{}/{}", rel, name) };
			match e.file_type() { Ok(t) if t.is_dir() => walk_files(&e.path(), &r, out), Ok(_) => out.push(r), Err(_) => {} }
		}
	}
}
fn files_line(dir: &std::path::Path) -> String {
	let mut v = vec![]; walk_files(dir, "", &mut v); v.sort();
	format!("files {}", if v.is_empty() { "-".to_string() } else { v.join(",") })
}

extern "C" { fn syscall(num: std::os::raw::c_long, ...) -> std::os::raw::c_long; }
/// drop CAP_DAC_OVERRIDE / CAP_DAC_READ_SEARCH of the CALLING THREAD (Linux capabilities are per thread), so that the
/// permission bits of a directory bite although the harness runs as root (x86_64 syscall numbers capget=125, capset=126)
fn drop_dac_caps() -> bool {
	#[repr(C)] struct Hdr { version: u32, pid: i32 }
	#[repr(C)] #[derive(Clone, Copy)] struct Data { effective: u32, permitted: u32, inheritable: u32 }
	if !cfg!(all(target_os = "linux", target_arch = "x86_64")) { return false; }
	let mut hdr = Hdr { version: 0x20080522, pid: 0 };
	let mut data = [Data { effective: 0, permitted: 0, inheritable: 0 }; 2];
	unsafe {
		if syscall(125, &mut hdr as *mut Hdr, data.as_mut_ptr()) != 0 { return false; }
		data[0].effective &= !((1u32 << 1) | (1u32 << 2));
		syscall(126, &mut hdr as *mut Hdr, data.as_mut_ptr()) == 0
	}
}
fn set_mode(p: &std::path::Path, mode: u32) { use std::os::unix::fs::PermissionsExt; let _ = std::fs::set_permissions(p, std::fs::Permissions::from_mode(mode)); }
/// does the permission trick work here? (a thread without the DAC capabilities cannot create a file in a r-x directory)
fn perm_faults_available(scratch: &std::path::Path) -> bool {
	let d = scratch.join("perm-probe"); let _ = std::fs::create_dir_all(&d); set_mode(&d, 0o500);
	let r = std::thread::scope(|sc| sc.spawn(|| drop_dac_caps() && std::fs::File::create(d.join("x")).is_err()).join().unwrap_or(false));
	set_mode(&d, 0o755); let _ = std::fs::remove_dir_all(&d); r
}

fn kv_model(args: &Args) {
	let mut rec = Rec::new(&args.out, "c19kv");
	let mut rng = Rng::new(args.seed);
	let scratch = args.out.join("scratch-kv");
	let _ = std::fs::remove_dir_all(&scratch);
	let rt = tokio::runtime::Builder::new_current_thread().build().expect("tokio runtime");
	let _ = std::fs::create_dir_all(&scratch);
	let perm_ok = perm_faults_available(&scratch);
	rec.notes.insert("permission-faults".into(), format!("available={}", perm_ok));
	let long_n: String = std::iter::repeat('n').take(120).collect();
	let long_k: String = std::iter::repeat('k').take(120).collect();
	let too_long: String = std::iter::repeat('k').take(121).collect();
	// namespaces start with n/N, keys with k/K: the v1 layout maps an empty secondary namespace to no
	// directory level, so a key equal to a namespace name would be a file/directory clash — excluded
	// by the KVStoreSync contract ("conflicts between keys and equally named namespaces must be avoided").
	let prim: Vec<String> = vec!["".into(), "n1".into(), "n2".into(), "N-3_x".into(), long_n.clone(), "monitors".into()];
	let sec: Vec<String> = vec!["".into(), "".into(), "n1".into(), "nB".into(), long_n.clone()];
	let keys: Vec<String> = vec!["k1".into(), "k2".into(), "K_-9".into(), "k0".into(), long_k.clone(), "k".into()];
	let bad: Vec<String> = vec!["".into(), "a b".into(), "a/b".into(), "k.tmp".into(), "é".into(), "k*".into(), too_long.clone(), "..".into(), "k\u{0}".into(), "[empty]".into()];
	let n_seq = if args.thorough { 600 } else { 60 } * args.scale;
	let n_ops = if args.thorough { 300 } else { 150 };
	const BADLIST: &str = "err Other:Failed_to_list_keys";
	for seq in 0..n_seq {
		// bound the search: once 20 concrete failing inputs are recorded, more sequences add nothing (check shows 20)
		if rec.oracle_failures.len() >= 20 { rec.notes.insert("stopped-early".into(), format!("after {} of {} sequences: 20 failing inputs recorded", seq, n_seq)); break; }
		let v2 = seq % 2 == 1;
		let dir = scratch.join(format!("{}-{}", if v2 { "v2" } else { "v1" }, seq));
		let mut store = StoreE::open(v2, &dir);
		let tag = if v2 { "v2" } else { "v1" };
		rec.directive(&format!("reset {}", tag));
		let mut reference: BTreeMap<(String, String, String), Vec<u8>> = BTreeMap::new();
		// namespaces in which a file with an invalid (non-artifact) name was planted: list must refuse
		let mut poisoned: HashSet<(String, String)> = HashSet::new();
		// files planted behind the store's back (relative paths as `walk_files` prints them)
		let mut planted: HashSet<String> = HashSet::new();
		// a small per-sequence pool so that overwrite / read-after-write / remove-of-present are frequent
		let pp: Vec<String> = (0..2).map(|_| rng.pick(&prim).clone()).collect();
		let sp: Vec<String> = (0..2).map(|_| rng.pick(&sec).clone()).collect();
		let kp: Vec<String> = (0..3).map(|_| rng.pick(&keys).clone()).collect();
		let mut i_op = 0;
		while i_op < n_ops {
			i_op += 1;
			let inval = rng.chance(1, 9);
			let mut p = rng.pick(&pp).clone();
			let mut s = if p.is_empty() { String::new() } else { rng.pick(&sp).clone() };
			let mut k = rng.pick(&kp).clone();
			let what = rng.below(117);
			// ---- fault injection: leftovers of an earlier crash (tmp / trash artifacts), foreign files, restart
			if what >= 106 && what < 112 {
				let d = |x: &str| -> String { if x.is_empty() { if v2 { "[empty]".to_string() } else { String::new() } } else { x.to_string() } };
				let (d1, d2) = (d(&p), d(&s));
				let kind = rng.below(20);
				let name = match kind { 0..=6 => format!("{}.{}.tmp", k, rng.below(4)), 7..=10 => format!("{}.{}.trash", k, rng.below(4)), 11 | 12 => format!("{}.tmp", k), 13 => "x.y.trash".to_string(), 14 | 15 => k.clone(), 16 => format!("{}.bak", k), _ => format!("{}.0.tmp", rng.pick(&keys)) };
				let vl = rng.below(12) as usize; let val = rng.bytes(vl);
				let mut path = dir.clone();
				if !d1.is_empty() { path.push(&d1); }
				if !d2.is_empty() { path.push(&d2); }
				let _ = std::fs::create_dir_all(&path);
				path.push(&name);
				std::fs::write(&path, &val).expect("plant");
				planted.insert([d1.as_str(), d2.as_str(), name.as_str()].iter().filter(|x| !x.is_empty()).cloned().collect::<Vec<_>>().join("/"));
				let hd = |x: &str| if x.is_empty() { "-".to_string() } else { hexs(x) };
				rec.directive(&format!("plant {} {} {} {}", hd(&d1), hd(&d2), hexs(&name), hex(&val)));
				if kind == 14 || kind == 15 { reference.insert((p.clone(), s.clone(), k.clone()), val.clone()); }
				if kind == 16 { poisoned.insert((p.clone(), s.clone())); }
				*rec.classes.entry(format!("{}:plant:{}", tag, match kind { 0..=6 | 11 | 12 => "tmp", 7..=10 | 13 => "trash", 14 | 15 => "key", 16 => "invalid-name", _ => "tmp-of-other-key" })).or_insert(0) += 1;
				if rng.chance(1, 2) { drop(store); store = StoreE::open(v2, &dir); rec.directive("restart"); }
				continue;
			}
			// ---- the async API under I/O FAULTS: 2-4 writes/removes on ONE key issued in order, executed in a scripted
			// (often reversed) order; while a body runs a non-empty directory may stand at the destination path, so that the
			// `fs::rename` of a write fails (a remove then sees `!is_file()` and succeeds without touching anything)
			if what >= 112 {
				let dn = |x: &str| -> String { if x.is_empty() { if v2 { "[empty]".to_string() } else { String::new() } } else { x.to_string() } };
				let mut dest = dir.clone();
				if !dn(&p).is_empty() { dest.push(dn(&p)); }
				if !dn(&s).is_empty() { dest.push(dn(&s)); }
				dest.push(&k);
				if rng.chance(1, 2) {
					// make room for the fault: a directory can only stand where no file is
					let r = guarded(AssertUnwindSafe(|| store.sync().remove(&p, &s, &k, false)));
					let ans = match r { Ok(Ok(())) => "ok".to_string(), Ok(Err(e)) => canon_err(Ok(e)), Err(pm) => canon_err(Err(pm)) };
					reference.remove(&(p.clone(), s.clone(), k.clone()));
					if ans != "ok" { rec.oracle_fail(format!("{} store is not a map: seq {} remove before a fault block answered `{}`", tag, seq, ans)); }
					rec.case(&format!("d {} {} {} 0", hexs(&p), hexs(&s), hexs(&k)), &ans, &format!("{}:remove:ok", tag), true);
				}
				let m = 2 + rng.below(3) as usize;
				let mut futs: Vec<Option<AsyncFut>> = vec![];
				let mut bodies: Vec<Option<Vec<u8>>> = vec![];
				let mut sched = String::new();
				let mut oks: Vec<usize> = vec![];
				let mut pending: Vec<usize> = vec![];
				// the most recent operation that took EFFECT on the key (applied and Ok, or failed after its rename / unlink)
				let mut last_effect: Option<usize> = None;
				// events: issues in id order, each body some time after its issue; mostly all issues first (then the bodies
				// newest-first or permuted), sometimes a body completes BEFORE later operations are issued (then the lock entry
				// of the path may have been dropped by clean_locks in between, or must NOT have been: in-flight references)
				let interleave = rng.chance(1, 3);
				let newest_first = rng.chance(1, 2);
				let mut interleaved = false;
				while futs.len() < m || !pending.is_empty() {
					// a SYNC call (issue + body at once, newest version) on a thread without the DAC capabilities while the parent
					// directory is r-x (tmp create of a write fails BEFORE the lock: kind e; the unlink of a remove fails: kind c) or
					// -wx (the directory fsync AFTER the rename / unlink fails: kind d — Err although the effect is on disk)
					if perm_ok && futs.len() < m && rng.chance(1, 4) {
						let id = futs.len();
						let is_w = rng.chance(2, 3);
						let kind = if rng.chance(1, 2) { 'd' } else if is_w { 'e' } else { 'c' };
						let vl = 1 + rng.below(12) as usize; let v = rng.bytes(vl);
						let lazy = rng.chance(1, 2);
						let parent = dest.parent().expect("parent").to_path_buf();
						let _ = std::fs::create_dir_all(&parent);
						let present = dest.is_file();
						set_mode(&parent, if kind == 'd' { 0o300 } else { 0o500 });
						let r = std::thread::scope(|sc| sc.spawn(|| { drop_dac_caps(); guarded(AssertUnwindSafe(|| match &store {
							StoreE::V1(st) => if is_w { KVStoreSync::write(st, &p, &s, &k, v.clone()) } else { KVStoreSync::remove(st, &p, &s, &k, lazy) },
							StoreE::V2(st) => if is_w { KVStoreSync::write(st, &p, &s, &k, v.clone()) } else { KVStoreSync::remove(st, &p, &s, &k, lazy) } })) }).join().expect("fault thread"));
						set_mode(&parent, 0o755);
						let ans = match r { Ok(Ok(())) => "ok".to_string(), Ok(Err(_)) => "err io".to_string(), Err(pm) => canon_err(Err(pm)) };
						// oracle (independent of the Lean model): what must fail, and whether it nevertheless took effect
						let (expect, effect) = match (kind, is_w) {
							('e', _) => ("err io", false),
							('c', _) => if present { ("err io", false) } else { ("ok", true) },
							(_, true) => ("err io", true),
							(_, false) => if present && !lazy { ("err io", true) } else { ("ok", true) },
						};
						let line = if is_w { format!("sk {} w {} {} {} {}", kind, hexs(&p), hexs(&s), hexs(&k), hex(&v)) } else { format!("sk {} d {} {} {} {}", kind, hexs(&p), hexs(&s), hexs(&k), lazy as u8) };
						sched.push_str(&format!("sync#{}={}[{}]->{} ", id, if is_w { format!("write({})", hex(&v)) } else { "remove".to_string() }, match kind { 'e' => "parent r-x: tmp create fails", 'c' => "parent r-x: unlink fails", _ => "parent -wx: dir fsync fails" }, ans));
						if ans != expect { rec.oracle_fail(format!("{} sync call under I/O fault: seq {} key {}/{}/{} schedule `{}`: op {} answered `{}` expected `{}`", tag, seq, p, s, trunc_s(&k), sched.trim(), id, ans, expect)); }
						futs.push(None); bodies.push(if is_w { Some(v) } else { None });
						if ans == "ok" { oks.push(id); }
						if effect { last_effect = Some(id); }
						rec.case(&line, &ans, &format!("{}:fault-sync:{}:{}:{}", tag, kind, if is_w { "write" } else { "remove" }, ans.replace(' ', "-")), true);
						continue;
					}
					if futs.len() < m && (pending.is_empty() || !interleave || rng.chance(1, 2)) {
						let id = futs.len();
						let is_w = rng.chance(3, 4);
						let vl = 1 + rng.below(12) as usize; let v = rng.bytes(vl);
						let lazy = rng.chance(1, 2);
						let line = if is_w { format!("ai {} w {} {} {} {}", id, hexs(&p), hexs(&s), hexs(&k), hex(&v)) } else { format!("ai {} d {} {} {} {}", id, hexs(&p), hexs(&s), hexs(&k), lazy as u8) };
						let created = guarded(AssertUnwindSafe(|| if is_w { store.write_async(&p, &s, &k, v.clone()) } else { store.remove_async(&p, &s, &k, lazy) }));
						let ans = match created { Ok(f) => { futs.push(Some(f)); pending.push(id); "issued".to_string() }, Err(pm) => { futs.push(None); canon_err(Err(pm)) } };
						if ans != "issued" { rec.oracle_fail(format!("{} async issue: seq {} `{}` answered `{}` expected `issued`", tag, seq, trunc_s(&line), ans)); }
						sched.push_str(&format!("issue#{}={} ", id, if is_w { format!("write({})", hex(&v)) } else { "remove".to_string() }));
						bodies.push(if is_w { Some(v) } else { None });
						rec.case(&line, &ans, &format!("{}:fault-issue", tag), true);
						continue;
					}
					if futs.len() < m { interleaved = true; }
					let pi = if newest_first { pending.len() - 1 } else { rng.below(pending.len() as u64) as usize };
					let id = pending.remove(pi);
					let fault = rng.chance(1, 2) && !dest.exists();
					if fault { std::fs::create_dir_all(dest.join("blocker")).expect("plant the blocking directory"); }
					let f = futs[id].take().unwrap();
					let r = guarded(AssertUnwindSafe(|| rt.block_on(f)));
					if fault { std::fs::remove_dir_all(&dest).expect("remove the blocking directory"); }
					let ans = match r { Ok(Ok(())) => "ok".to_string(), Ok(Err(_)) => "err io".to_string(), Err(pm) => canon_err(Err(pm)) };
					// oracle (independent of the Lean model): an operation older than one that already returned Ok is skipped
					// (Ok); otherwise a write whose rename was blocked fails, everything else succeeds
					let stale = oks.iter().any(|j| *j > id);
					let expect = if !stale && fault && bodies[id].is_some() { "err io" } else { "ok" };
					sched.push_str(&format!("exec#{}{}->{} ", id, if fault { "[rename blocked]" } else { "" }, ans));
					if ans != expect { rec.oracle_fail(format!("{} async under I/O fault: seq {} key {}/{}/{} schedule `{}`: completion of op {} answered `{}` expected `{}`", tag, seq, p, s, trunc_s(&k), sched.trim(), id, ans, expect)); }
					if ans == "ok" { oks.push(id); if !stale { last_effect = Some(id); } }
					rec.case(&format!("axf {} {}", id, fault as u8), &ans, &format!("{}:fault-complete:{}:{}{}{}", tag, if fault { "blocked" } else { "free" }, ans.replace(' ', "-"), if stale { ":stale" } else { "" }, if interleaved { ":issue-exec-interleaved" } else { "" }), true);
				}
				// oracle (independent of the Lean model): the LAST ISSUED operation among those that RETURNED Ok is what read
				// and list show; if none returned Ok nothing changed
				let key = (p.clone(), s.clone(), k.clone());
				if let Some(mx) = last_effect.as_ref() { match &bodies[*mx] { Some(v) => { reference.insert(key.clone(), v.clone()); }, None => { reference.remove(&key); } } }
				let r = guarded(AssertUnwindSafe(|| store.sync().read(&p, &s, &k)));
				let ans = match r { Ok(Ok(v)) => format!("val {}", hex(&v)), Ok(Err(e)) => canon_err(Ok(e)), Err(pm) => canon_err(Err(pm)) };
				let expect = match reference.get(&key) { Some(v) => format!("val {}", hex(v)), None => "err NotFound".into() };
				if ans != expect { rec.oracle_fail(format!("{} async under I/O fault: seq {} key {}/{}/{} schedule `{}`: read answers `{}` but the last issued operation that returned Ok — or failed only after its rename / unlink — ({}) says `{}`", tag, seq, p, s, trunc_s(&k), sched.trim(), trunc_s(&ans), last_effect.map(|x| format!("op {}", x)).unwrap_or("none: contents before the block".into()), trunc_s(&expect))); }
				rec.case(&format!("r {} {} {}", hexs(&p), hexs(&s), hexs(&k)), &ans, &format!("{}:fault-final-read:{}", tag, ans.split_whitespace().take(if ans.starts_with("err") { 2 } else { 1 }).collect::<Vec<_>>().join("-")), true);
				if !poisoned.contains(&(p.clone(), s.clone())) {
					let canon = |mut l: Vec<String>| { let mut h: Vec<String> = l.drain(..).map(|x| hexs(&x)).collect(); h.sort(); format!("names {}", if h.is_empty() { "-".to_string() } else { h.join(",") }) };
					let r = guarded(AssertUnwindSafe(|| store.sync().list(&p, &s)));
					let ans = match r { Ok(Ok(l)) => canon(l), Ok(Err(e)) => canon_err(Ok(e)), Err(pm) => canon_err(Err(pm)) };
					let expect = canon(reference.keys().filter(|x| x.0 == p && x.1 == s).map(|x| x.2.clone()).collect());
					if ans != expect { rec.oracle_fail(format!("{} async under I/O fault: seq {} namespace {}/{} schedule `{}`: list answers `{}` but the operations that returned Ok say `{}`", tag, seq, p, s, sched.trim(), trunc_s(&ans), trunc_s(&expect))); }
					rec.case(&format!("l {} {}", hexs(&p), hexs(&s)), &ans, &format!("{}:fault-final-list", tag), true);
				}
				// oracle (independent of the Lean model): no tmp file of the store survives completed operations — neither that of
				// a write skipped as stale nor that of a write whose rename failed (planted leftovers excepted)
				{ let mut fl = vec![]; walk_files(&dir, "", &mut fl);
				  for f in fl { if f.ends_with(".tmp") && !planted.contains(&f) { rec.oracle_fail(format!("{} async under I/O fault: seq {} key {}/{}/{} schedule `{}`: tmp file `{}` left behind after all bodies completed", tag, seq, p, s, trunc_s(&k), sched.trim(), trunc_s(&f))); } } }
				rec.case("fs", &files_line(&dir), &format!("{}:files-after-fault", tag), true);
				continue;
			}
			// ---- the async API: issue a few writes/removes (versions taken now), complete them in a scripted order
			if what >= 100 && what < 106 {
				let m = 2 + rng.below(4) as usize;
				let two_keys = rng.chance(1, 3);
				let k2 = rng.pick(&kp).clone();
				let mut futs: Vec<Option<AsyncFut>> = vec![];
				let mut last: BTreeMap<(String, String, String), Option<Vec<u8>>> = BTreeMap::new();
				for id in 0..m {
					let kk = if rng.chance(1, 12) { rng.pick(&bad).clone() } else if two_keys && rng.chance(1, 2) { k2.clone() } else { k.clone() };
					let is_w = rng.chance(2, 3);
					let vl = 1 + rng.below(20) as usize; let v = rng.bytes(vl);
					let lazy = rng.chance(1, 2);
					let line = if is_w { format!("ai {} w {} {} {} {}", id, hexs(&p), hexs(&s), hexs(&kk), hex(&v)) } else { format!("ai {} d {} {} {} {}", id, hexs(&p), hexs(&s), hexs(&kk), lazy as u8) };
					let created = guarded(AssertUnwindSafe(|| if is_w { store.write_async(&p, &s, &kk, v.clone()) } else { store.remove_async(&p, &s, &kk, lazy) }));
					let valid = ref_check(&p, &s, Some(&kk)).is_none();
					let ans = match created {
						Err(pm) => { futs.push(None); canon_err(Err(pm)) },
						Ok(f) => if valid { futs.push(Some(f)); "issued".to_string() } else {
							// release profile: the validity error is the (ready) future's output
							futs.push(None);
							match guarded(AssertUnwindSafe(|| rt.block_on(f))) { Ok(Ok(())) => "ok".into(), Ok(Err(e)) => canon_err(Ok(e)), Err(pm) => canon_err(Err(pm)) }
						},
					};
					let expect = match ref_check(&p, &s, Some(&kk)) { Some(e) => format!("err {}", e), None => { last.insert((p.clone(), s.clone(), kk.clone()), if is_w { Some(v.clone()) } else { None }); "issued".into() } };
					if ans != expect { rec.oracle_fail(format!("{} async issue: seq {} `{}` answered `{}` expected `{}`", tag, seq, trunc_s(&line), ans, expect)); }
					rec.case(&line, &ans, &format!("{}:async-issue:{}", tag, ans.split_whitespace().take(2).collect::<Vec<_>>().join("-")), true);
				}
				let mut order: Vec<usize> = (0..m).filter(|i| futs[*i].is_some()).collect();
				for i in (1..order.len()).rev() { let j = rng.below(i as u64 + 1) as usize; order.swap(i, j); }
				let in_order = order.windows(2).all(|w| w[0] < w[1]);
				for id in order {
					let f = futs[id].take().unwrap();
					let r = guarded(AssertUnwindSafe(|| rt.block_on(f)));
					let ans = match r { Ok(Ok(())) => "ok".to_string(), Ok(Err(e)) => canon_err(Ok(e)), Err(pm) => canon_err(Err(pm)) };
					if ans != "ok" { rec.oracle_fail(format!("{} async completion of op {} failed: {}", tag, id, ans)); }
					rec.case(&format!("ax {}", id), &ans, &format!("{}:async-complete:{}", tag, if in_order { "issue-order" } else { "permuted" }), true);
				}
				// oracle (independent of the Lean model): the LAST ISSUED operation on each key wins
				for (key, val) in last {
					match &val { Some(v) => { reference.insert(key.clone(), v.clone()); }, None => { reference.remove(&key); } }
					let r = guarded(AssertUnwindSafe(|| store.sync().read(&key.0, &key.1, &key.2)));
					let ans = match r { Ok(Ok(v)) => format!("val {}", hex(&v)), Ok(Err(e)) => canon_err(Ok(e)), Err(pm) => canon_err(Err(pm)) };
					let expect = match &val { Some(v) => format!("val {}", hex(v)), None => "err NotFound".into() };
					if ans != expect { rec.oracle_fail(format!("{} async ordering: seq {} key {}/{}/{} reads `{}` after all completions but the last issued operation says `{}`", tag, seq, key.0, key.1, trunc_s(&key.2), trunc_s(&ans), trunc_s(&expect))); }
					rec.case(&format!("r {} {} {}", hexs(&key.0), hexs(&key.1), hexs(&key.2)), &ans, &format!("{}:async-final-read", tag), true);
				}
				rec.case("fs", &files_line(&dir), &format!("{}:files-after-async", tag), true);
				continue;
			}
			if inval {
				match rng.below(4) { 0 => k = rng.pick(&bad).clone(), 1 => p = rng.pick(&bad[1..]).to_string(), 2 => s = rng.pick(&bad[1..]).to_string(), _ => { p = String::new(); s = "n1".into(); } }
			}
			let store_s = store.sync();
			let (op, ans, class, expect): (String, String, String, String) = if what < 34 {
				let len = match rng.below(10) { 0 => 0, 1 => 4096, _ => rng.below(40) as usize };
				let v = rng.bytes(len);
				let r = guarded(AssertUnwindSafe(|| store_s.write(&p, &s, &k, v.clone())));
				let ans = match r { Ok(Ok(())) => "ok".to_string(), Ok(Err(e)) => canon_err(Ok(e)), Err(pm) => canon_err(Err(pm)) };
				let expect = match ref_check(&p, &s, Some(&k)) { Some(e) => format!("err {}", e), None => { reference.insert((p.clone(), s.clone(), k.clone()), v.clone()); "ok".into() } };
				(format!("w {} {} {} {}", hexs(&p), hexs(&s), hexs(&k), hex(&v)), ans, "write".into(), expect)
			} else if what < 56 {
				let r = guarded(AssertUnwindSafe(|| store_s.read(&p, &s, &k)));
				let ans = match r { Ok(Ok(v)) => format!("val {}", hex(&v)), Ok(Err(e)) => canon_err(Ok(e)), Err(pm) => canon_err(Err(pm)) };
				let expect = match ref_check(&p, &s, Some(&k)) { Some(e) => format!("err {}", e), None => match reference.get(&(p.clone(), s.clone(), k.clone())) { Some(v) => format!("val {}", hex(v)), None => "err NotFound".into() } };
				(format!("r {} {} {}", hexs(&p), hexs(&s), hexs(&k)), ans, "read".into(), expect)
			} else if what < 72 {
				let lazy = rng.chance(1, 2);
				let r = guarded(AssertUnwindSafe(|| store_s.remove(&p, &s, &k, lazy)));
				let ans = match r { Ok(Ok(())) => "ok".to_string(), Ok(Err(e)) => canon_err(Ok(e)), Err(pm) => canon_err(Err(pm)) };
				let expect = match ref_check(&p, &s, Some(&k)) { Some(e) => format!("err {}", e), None => { reference.remove(&(p.clone(), s.clone(), k.clone())); "ok".into() } };
				(format!("d {} {} {} {}", hexs(&p), hexs(&s), hexs(&k), lazy as u8), ans, "remove".into(), expect)
			} else if what < 86 {
				let r = guarded(AssertUnwindSafe(|| store_s.list(&p, &s)));
				let canon = |mut l: Vec<String>| { let mut h: Vec<String> = l.drain(..).map(|x| hexs(&x)).collect(); h.sort(); format!("names {}", if h.is_empty() { "-".to_string() } else { h.join(",") }) };
				let ans = match r { Ok(Ok(l)) => canon(l), Ok(Err(e)) => canon_err(Ok(e)), Err(pm) => canon_err(Err(pm)) };
				let expect = match ref_check(&p, &s, None) { Some(e) => format!("err {}", e), None => if poisoned.contains(&(p.clone(), s.clone())) { BADLIST.to_string() } else { canon(reference.keys().filter(|x| x.0 == p && x.1 == s).map(|x| x.2.clone()).collect()) } };
				(format!("l {} {}", hexs(&p), hexs(&s)), ans, "list".into(), expect)
			} else if what < 92 {
				let r = guarded(AssertUnwindSafe(|| store_s.list_all_keys()));
				let canon = |l: Vec<(String, String, String)>| { let mut h: Vec<String> = l.iter().map(|x| format!("{}/{}/{}", hexs(&x.0), hexs(&x.1), hexs(&x.2))).collect(); h.sort(); format!("all {}", if h.is_empty() { "-".to_string() } else { h.join(",") }) };
				let ans = match r { Ok(Ok(l)) => canon(l), Ok(Err(e)) => canon_err(Ok(e)), Err(pm) => canon_err(Err(pm)) };
				let expect = if poisoned.is_empty() { canon(reference.keys().cloned().collect()) } else { BADLIST.to_string() };
				("la".to_string(), ans, "listall".into(), expect)
			} else {
				// the file-level observer: every file of the data directory, artifacts included
				let ans = files_line(&dir);
				("fs".to_string(), ans.clone(), "files".into(), ans)
			};
			// implementation-side oracle (independent of the Lean model): the shipped store is an atomic map,
			// whatever tmp/trash artifacts lie around
			if ans != expect { rec.oracle_fail(format!("{} store is not a map: seq {} op `{}` answered `{}` but the reference map says `{}`", tag, seq, trunc_s(&op), trunc_s(&ans), trunc_s(&expect))); }
			if class == "files" {
				// independent oracle on the directory itself: no tmp file survives a completed call unless it was planted
				// (planted ones are named by the model side too, so only the correspondence judges them)
			}
			let cls = format!("{}:{}:{}", tag, class, ans.split_whitespace().take(if ans.starts_with("err") { 2 } else { 1 }).collect::<Vec<_>>().join("-"));
			rec.case(&op, &ans, &cls, true);
		}
		// ---- v2 list_paginated probe (harness-only oracle; the writes are ordinary `w` cases, so the model stays in step):
		// 120 keys in one namespace (PAGE_SIZE = 50 => 3 pages); between the pages an already listed key is overwritten, a
		// not yet listed one is overwritten (v2 preserves the mtime of an update), one new key is added and one listed key
		// removed. Oracle: no page longer than 50, no key twice, every key that existed throughout exactly once, only
		// keys that existed at some point; without concurrent writes the pages concatenate to exactly `list`.
		if let (true, StoreE::V2(st2)) = (seq % 100 == 1, &store) {
			use lightning::util::persist::PaginatedKVStoreSync;
			let (pn, sn) = ("nPage".to_string(), "".to_string());
			let mut put = |rec: &mut Rec, reference: &mut BTreeMap<(String, String, String), Vec<u8>>, k: &str, v: Vec<u8>| {
				let r = guarded(AssertUnwindSafe(|| KVStoreSync::write(st2, &pn, &sn, k, v.clone())));
				let ans = match r { Ok(Ok(())) => "ok".to_string(), Ok(Err(e)) => canon_err(Ok(e)), Err(pm) => canon_err(Err(pm)) };
				reference.insert((pn.clone(), sn.clone(), k.to_string()), v.clone());
				if ans != "ok" { rec.oracle_fail(format!("v2 store is not a map: seq {} paginated probe write {} answered `{}`", seq, k, ans)); }
				rec.case(&format!("w {} {} {} {}", hexs(&pn), hexs(&sn), hexs(k), hex(&v)), &ans, "v2:write:ok", true);
			};
			for i in 0..120 { put(&mut rec, &mut reference, &format!("kp{:03}", i), vec![i as u8]); }
			for concurrent in [false, true] {
				let before: HashSet<String> = reference.keys().filter(|x| x.0 == pn).map(|x| x.2.clone()).collect();
				let mut ever = before.clone(); let mut removed: HashSet<String> = HashSet::new();
				let mut pages: Vec<Vec<String>> = vec![]; let mut token = None; let mut bad = None;
				for pg in 0..10 {
					match guarded(AssertUnwindSafe(|| PaginatedKVStoreSync::list_paginated(st2, &pn, &sn, token.clone()))) {
						Ok(Ok(resp)) => { pages.push(resp.keys.clone()); token = resp.next_page_token; },
						Ok(Err(e)) => { bad = Some(format!("page {} failed: {}", pg, e)); break; },
						Err(pm) => { bad = Some(format!("page {} panicked: {}", pg, pm)); break; },
					}
					if token.is_none() { break; }
					if concurrent && pg == 0 {
						let listed = pages[0][0].clone(); let listed2 = pages[0][1].clone();
						let unlisted = before.iter().filter(|k| !pages[0].contains(k)).min().cloned().unwrap_or_default();
						put(&mut rec, &mut reference, &listed, vec![200]);
						if !unlisted.is_empty() { put(&mut rec, &mut reference, &unlisted, vec![201]); }
						put(&mut rec, &mut reference, "kpNEW", vec![202]); ever.insert("kpNEW".into());
						let r = guarded(AssertUnwindSafe(|| KVStoreSync::remove(st2, &pn, &sn, &listed2, false)));
						let ans = match r { Ok(Ok(())) => "ok".to_string(), Ok(Err(e)) => canon_err(Ok(e)), Err(pm) => canon_err(Err(pm)) };
						reference.remove(&(pn.clone(), sn.clone(), listed2.clone())); removed.insert(listed2.clone());
						rec.case(&format!("d {} {} {} 0", hexs(&pn), hexs(&sn), hexs(&listed2)), &ans, "v2:remove:ok", true);
					}
				}
				let all: Vec<String> = pages.iter().flatten().cloned().collect();
				let set: HashSet<String> = all.iter().cloned().collect();
				let what = if concurrent { "with writes between the pages" } else { "quiescent" };
				if let Some(b) = bad { rec.oracle_fail(format!("v2 list_paginated ({}): seq {} {}", what, seq, b)); }
				if token.is_some() { rec.oracle_fail(format!("v2 list_paginated ({}): seq {} still has a next page after 10 pages", what, seq)); }
				if pages.iter().any(|p| p.len() > 50) { rec.oracle_fail(format!("v2 list_paginated ({}): seq {} a page has more than 50 keys", what, seq)); }
				if set.len() != all.len() { let mut seen = HashSet::new(); let dup: Vec<&String> = all.iter().filter(|k| !seen.insert((*k).clone())).take(3).collect(); rec.oracle_fail(format!("v2 list_paginated ({}): seq {} keys listed twice across pages: {:?}", what, seq, dup)); }
				let missing: Vec<&String> = before.iter().filter(|k| !removed.contains(*k) && !set.contains(*k)).take(3).collect();
				if !missing.is_empty() { rec.oracle_fail(format!("v2 list_paginated ({}): seq {} keys that existed throughout are on no page: {:?} (pages of {:?} keys)", what, seq, missing, pages.iter().map(|p| p.len()).collect::<Vec<_>>())); }
				let alien: Vec<&String> = set.iter().filter(|k| !ever.contains(*k)).take(3).collect();
				if !alien.is_empty() { rec.oracle_fail(format!("v2 list_paginated ({}): seq {} keys that never existed: {:?}", what, seq, alien)); }
				if !concurrent {
					let mut l = KVStoreSync::list(st2, &pn, &sn).unwrap_or_default(); l.sort(); let mut a = all.clone(); a.sort();
					if l != a { rec.oracle_fail(format!("v2 list_paginated (quiescent): seq {} pages concatenate to {} keys but list returns {}", seq, a.len(), l.len())); }
				}
				*rec.classes.entry(format!("v2:list-paginated:{}:{}-pages", if concurrent { "concurrent-writes" } else { "quiescent" }, pages.len())).or_insert(0) += 1;
			}
		}
		drop(store);
		let _ = std::fs::remove_dir_all(&dir);
	}
	rec.notes.insert("rule".into(), "PRNG op sequences over a small pool of namespaces/keys (empty, 120-char, invalid: empty key, empty primary with secondary, bad characters, 121 chars) so that overwrite, remove-of-missing and list-after-remove are frequent; alternating FilesystemStore (v1) and FilesystemStoreV2 in fresh scratch directories; `fs` = every file of the data directory (compared with the model's file system, artifacts included); planted leftovers of an earlier crash (`<key>.<n>.tmp`, `<key>.<n>.trash`, `<key>.tmp`, a foreign file with a key name, a file with an invalid name) with and without a restart of the store; async blocks: 2-5 KVStore::write/remove futures created in order (versions taken at creation) and driven to completion one by one in a PRNG permutation on a current-thread tokio runtime, then read back; fault blocks: 2-4 futures on ONE key, executed in reversed / permuted order (in a third of the blocks bodies complete before later operations are issued), each with probability 1/2 while a non-empty directory blocks the destination path (the write's rename fails with an I/O error), oracle: an operation older than one that returned Ok is skipped, and read / list / the directory show the LAST ISSUED operation among those that RETURNED Ok; every op line is a case".into());
	rec.notes.insert("concurrency".into(), "completion orders of the async API are scripted (body granularity); true thread interleavings inside bodies, rename atomicity and fsync are not exhibited; see model c19mt (validated, not proved)".into());
	rec.finish();
}

fn trunc_s(s: &str) -> String { if s.len() > 200 { format!("{}…", &s[..200]) } else { s.to_string() } }

// ------------------------------------------------------------------------------------------------
// c19mt — 8-thread stress of FilesystemStore, harness-only oracle (validated, not proved)
// ------------------------------------------------------------------------------------------------

fn mt_model(args: &Args) {
	let mut rec = Rec::new(&args.out, "c19mt");
	let scratch = args.out.join("scratch-mt");
	let _ = std::fs::remove_dir_all(&scratch);
	let rounds = if args.thorough { 20 } else { 2 };
	let per_thread = if args.thorough { 400 } else { 80 };
	for round in 0..rounds {
		for v2 in [false, true] {
			let dir = scratch.join(format!("r{}-{}", round, v2 as u8));
			let store: std::sync::Arc<dyn AnyStoreSend> = if v2 { std::sync::Arc::new(FilesystemStoreV2::new(dir.clone()).unwrap()) } else { std::sync::Arc::new(FilesystemStore::new(dir.clone())) };
			let bad = std::sync::Arc::new(Mutex::new(Vec::<String>::new()));
			let mut hs = vec![];
			for t in 0..8u64 {
				let store = store.clone();
				let bad = bad.clone();
				let seed = args.seed.wrapping_mul(1000).wrapping_add(round as u64 * 16 + t);
				hs.push(std::thread::spawn(move || {
					let mut rng = Rng::new(seed);
					// thread t owns key "kt<t>" (sequential consistency per key is checkable exactly); all threads
					// also write the shared key "kshared" with self-describing values (never torn / mixed).
					let own = format!("kt{}", t);
					let mut last: Option<Vec<u8>> = None;
					for i in 0..per_thread {
						match rng.below(6) {
							0 | 1 => { let mut v = vec![t as u8; 1 + rng.below(300) as usize]; v.push(i as u8); if store.write("n1", "", &own, v.clone()).is_err() { bad.lock().unwrap().push(format!("write failed {}", own)); } last = Some(v); },
							2 => { match (store.read("n1", "", &own), &last) { (Ok(v), Some(l)) if &v == l => {}, (Err(e), None) if e.kind() == lightning::io::ErrorKind::NotFound => {}, (r, l) => bad.lock().unwrap().push(format!("own-key read {:?} expected {:?}", r.map(|v| v.len()), l.as_ref().map(|v| v.len()))) } },
							3 => { if store.remove("n1", "", &own, rng.chance(1, 2)).is_err() { bad.lock().unwrap().push("remove failed".into()); } last = None; },
							4 => { let len = 1 + rng.below(2000) as usize; let v = vec![(t as u8) ^ (i as u8); len]; let _ = store.write("n1", "", "kshared", v); match store.read("n1", "", "kshared") { Ok(v) => { if v.is_empty() || v.iter().any(|b| *b != v[0]) { bad.lock().unwrap().push(format!("torn shared value len {}", v.len())); } }, Err(e) => bad.lock().unwrap().push(format!("shared read {:?}", e.kind())) } },
							_ => { match store.list("n1", "") { Ok(l) => { if last.is_some() && !l.contains(&own) { bad.lock().unwrap().push(format!("list misses own completed write {}", own)); } if last.is_none() && l.contains(&own) { bad.lock().unwrap().push(format!("list shows removed key {}", own)); } for k in l { if !(k.starts_with("kt") || k == "kshared") { bad.lock().unwrap().push(format!("list shows artifact {}", k)); } } }, Err(e) => bad.lock().unwrap().push(format!("list err {:?}", e.kind())) } },
						}
					}
				}));
			}
			for h in hs { let _ = h.join(); }
			let b = bad.lock().unwrap();
			for x in b.iter().take(3) { rec.oracle_fail(format!("c19mt {} round {}: {}", if v2 { "v2" } else { "v1" }, round, x)); }
			rec.evaluations += 8 * per_thread as u64;
			*rec.classes.entry(format!("mt:{}:{}", if v2 { "v2" } else { "v1" }, if b.is_empty() { "consistent" } else { "INCONSISTENT" })).or_insert(0) += 1;
			drop(b);
			let _ = std::fs::remove_dir_all(&dir);
		}
	}
	rec.notes.insert("rule".into(), "validated-not-proved: 8 threads x per-thread owned key (exact read-your-writes, list agreement) + one shared key with self-describing values (no torn/mixed value); no Lean counterpart".into());
	rec.finish();
}
trait AnyStoreSend: KVStoreSync + Send + Sync {}
impl<T: KVStoreSync + Send + Sync> AnyStoreSend for T {}

// ------------------------------------------------------------------------------------------------
// c19mup
// ------------------------------------------------------------------------------------------------

struct DummyB;
impl BroadcasterInterface for DummyB { fn broadcast_transactions(&self, _txs: &[(&Transaction, TransactionType)]) {} }
struct DummyF;
impl FeeEstimator for DummyF { fn get_est_sat_per_1000_weight(&self, _t: ConfirmationTarget) -> u32 { 253 } }

#[derive(Clone)]
enum LogOp { W(String, String, String, Vec<u8>), R(String, String, String), D(String, String, String, bool), L(String, String) }

struct Inner {
	kv: Vec<((String, String, String), Vec<u8>)>,
	n: u64,
	crash: u64,
	fail_at: Option<u64>,
	fail_eff: bool,
	no_eff: HashSet<u64>,
	log: Vec<LogOp>,
}
/// recording, fault-injecting in-memory KVStoreSync; same list discipline as the Lean `Store`
/// (newest binding first) so that list-order-dependent op sequences coincide.
struct RecStore { i: Mutex<Inner> }
impl RecStore {
	fn new() -> Self { RecStore { i: Mutex::new(Inner { kv: vec![], n: 0, crash: u64::MAX, fail_at: None, fail_eff: false, no_eff: HashSet::new(), log: vec![] }) } }
	fn put_raw(&self, p: &str, s: &str, k: &str, v: Vec<u8>) { let mut i = self.i.lock().unwrap(); let key = (p.to_string(), s.to_string(), k.to_string()); i.kv.retain(|e| e.0 != key); i.kv.insert(0, (key, v)); }
}
impl Inner {
	fn sched(&mut self) -> (bool, bool) {
		let n = self.n; self.n += 1;
		let ok = n < self.crash && self.fail_at != Some(n);
		let eff = n < self.crash && (if self.fail_at == Some(n) { self.fail_eff } else { !self.no_eff.contains(&n) });
		(ok, eff)
	}
}
fn io_other() -> IoErr { IoErr::new(lightning::io::ErrorKind::Other, "injected failure") }
impl KVStoreSync for RecStore {
	fn read(&self, p: &str, s: &str, k: &str) -> Result<Vec<u8>, IoErr> {
		let mut i = self.i.lock().unwrap();
		i.log.push(LogOp::R(p.into(), s.into(), k.into()));
		let (ok, _) = i.sched();
		if !ok { return Err(io_other()); }
		let key = (p.to_string(), s.to_string(), k.to_string());
		i.kv.iter().find(|e| e.0 == key).map(|e| e.1.clone()).ok_or_else(|| IoErr::new(lightning::io::ErrorKind::NotFound, "not found"))
	}
	fn write(&self, p: &str, s: &str, k: &str, buf: Vec<u8>) -> Result<(), IoErr> {
		let mut i = self.i.lock().unwrap();
		i.log.push(LogOp::W(p.into(), s.into(), k.into(), buf.clone()));
		let (ok, eff) = i.sched();
		if ok || eff { let key = (p.to_string(), s.to_string(), k.to_string()); i.kv.retain(|e| e.0 != key); i.kv.insert(0, (key, buf)); }
		if ok { Ok(()) } else { Err(io_other()) }
	}
	fn remove(&self, p: &str, s: &str, k: &str, lazy: bool) -> Result<(), IoErr> {
		let mut i = self.i.lock().unwrap();
		i.log.push(LogOp::D(p.into(), s.into(), k.into(), lazy));
		let (ok, eff) = i.sched();
		let eff = if lazy { eff } else { ok || eff };
		if eff { let key = (p.to_string(), s.to_string(), k.to_string()); i.kv.retain(|e| e.0 != key); }
		if ok { Ok(()) } else { Err(io_other()) }
	}
	fn list(&self, p: &str, s: &str) -> Result<Vec<String>, IoErr> {
		let mut i = self.i.lock().unwrap();
		i.log.push(LogOp::L(p.into(), s.into()));
		let (ok, _) = i.sched();
		if !ok { return Err(io_other()); }
		Ok(i.kv.iter().filter(|e| e.0 .0 == p && e.0 .1 == s).map(|e| e.0 .2.clone()).collect())
	}
}

type Mon = ChannelMonitor<TestChannelSigner>;

struct Ctx { keys: &'static TestKeysInterface, idcache: Mutex<HashMap<u64, String>> }

fn fnv64(b: &[u8]) -> u64 { let mut h = 0xcbf29ce484222325u64; for x in b { h ^= *x as u64; h = h.wrapping_mul(0x100000001b3); } h ^ (b.len() as u64) }

fn decode_mon(ctx: &Ctx, bytes: &[u8]) -> Option<Mon> {
	let b = if bytes.starts_with(&[0xFF, 0xFF]) { &bytes[2..] } else { bytes };
	let mut cur = lightning::io::Cursor::new(b);
	match <(BlockLocator, Mon)>::read(&mut cur, (ctx.keys, ctx.keys)) { Ok((_, m)) => Some(m), Err(_) => None }
}

/// `:s<sentinel>:m<id>` / `:u<id>` / `:junk` — what the written bytes decode to (cached by content hash)
fn describe(ctx: &Ctx, p: &str, bytes: &[u8]) -> String {
	let h = fnv64(bytes) ^ fnv64(p.as_bytes());
	if let Some(s) = ctx.idcache.lock().unwrap().get(&h) { return s.clone(); }
	let d = if p == "monitor_updates" {
		match ChannelMonitorUpdate::read(&mut &bytes[..]) { Ok(u) => format!(":u{}", u.update_id), Err(_) => ":junk".to_string() }
	} else {
		match guarded(AssertUnwindSafe(|| decode_mon(ctx, bytes))) { Ok(Some(m)) => format!(":s{}:m{}", bytes.starts_with(&[0xFF, 0xFF]) as u8, m.get_latest_update_id()), _ => ":junk".to_string() }
	};
	ctx.idcache.lock().unwrap().insert(h, d.clone());
	d
}

fn show_ops(ctx: &Ctx, ops: &[LogOp]) -> String {
	if ops.is_empty() { return "-".into(); }
	ops.iter().map(|o| match o {
		LogOp::W(p, s, k, v) => format!("w:{}/{}/{}{}", p, s, k, describe(ctx, p, v)),
		LogOp::R(p, s, k) => format!("r:{}/{}/{}", p, s, k),
		LogOp::D(p, s, k, l) => format!("d:{}/{}/{}:{}", p, s, k, *l as u8),
		LogOp::L(p, s) => format!("l:{}/{}", p, s),
	}).collect::<Vec<_>>().join(" ")
}

/// one harvested monitor life: the serialized monitor before any of `updates`, and the updates in order
struct Hist { name: MonitorName, m0: Vec<u8>, updates: Vec<ChannelMonitorUpdate>, closes: bool }

#[derive(Clone, Debug)]
enum Call { Upd(usize, bool), Skip(usize), Legacy, Full, Cleanup(bool), Archive, InjectJunkName }

#[derive(Clone)]
struct Faults { crash: Option<u64>, fail_at: Option<u64>, fail_eff: bool, no_eff: Vec<u64> }

struct Outcome { total_ops: u64, started: bool, completed: usize, applied: usize, snaps: Vec<Vec<u8>>, lines: u64 }

fn status_name(s: ChannelMonitorUpdateStatus) -> &'static str { match s { ChannelMonitorUpdateStatus::Completed => "Completed", ChannelMonitorUpdateStatus::InProgress => "InProgress", ChannelMonitorUpdateStatus::UnrecoverableError => "UnrecoverableError" } }

/// Run one script against the real persister under a fault schedule, emitting op lines. `start_at` = number
/// of updates already folded into the initial monitor (so that m0.id > 0 and stale keys can be injected).
fn run_script(ctx: &Ctx, rec: &mut Rec, tag: &str, h: &Hist, script: &[Call], start_at: usize, n: u64, f: &Faults, stale: &[u64], snaps_ref: Option<&Vec<Vec<u8>>>, class: &str) -> Option<Outcome> {
	let store = RecStore::new();
	{ let mut i = store.i.lock().unwrap(); i.crash = f.crash.unwrap_or(u64::MAX); i.fail_at = f.fail_at; i.fail_eff = f.fail_eff; i.no_eff = f.no_eff.iter().cloned().collect(); }
	let bc = DummyB; let fe = DummyF; let lg = NullLogger;
	let persister = MonitorUpdatingPersister::new(&store, &lg, n, ctx.keys, ctx.keys, &bc, &fe);
	let mon = match decode_mon(ctx, &h.m0) { Some(m) => m, None => { rec.discarded += 1; return None; } };
	for u in &h.updates[..start_at] { if mon.update_monitor(u, &bc, &fe, &lg).is_err() { rec.discarded += 1; return None; } }
	let name = h.name;
	let name_s = name.to_string();
	let csv = |v: &Vec<u64>| if v.is_empty() { "-".to_string() } else { v.iter().map(|x| x.to_string()).collect::<Vec<_>>().join(",") };
	let opt = |v: Option<u64>| v.map(|x| x.to_string()).unwrap_or("-".into());
	rec.directive(&format!("init {} {} {} {} {} {}", n, name_s, opt(f.crash), opt(f.fail_at), f.fail_eff as u8, csv(&f.no_eff)));
	for id in stale {
		store.put_raw("monitor_updates", &name_s, &id.to_string(), vec![0u8]);
		rec.directive(&format!("inject monitor_updates {} {} junk 0", name_s, id));
	}
	let mut lines = 0u64;
	let mut snaps: Vec<Vec<u8>> = vec![mon.encode()];
	let mark = |store: &RecStore| store.i.lock().unwrap().log.len();
	let since = |store: &RecStore, m: usize| -> Vec<LogOp> { store.i.lock().unwrap().log[m..].to_vec() };
	// persist_new_channel
	let m0id = mon.get_latest_update_id();
	let mk = mark(&store);
	let st = persister.persist_new_channel(name, &mon);
	rec.case(&format!("new {} {}", m0id, tag), &format!("{} | {}", status_name(st), show_ops(ctx, &since(&store, mk))), &format!("{}:new:{}", class, status_name(st)), true);
	lines += 1;
	let started = st == ChannelMonitorUpdateStatus::Completed;
	let mut alive = started;
	let mut completed = 0usize;
	let mut applied = 0usize;
	let mut next = start_at;
	for c in script {
		if !alive { break; }
		match c {
			Call::Upd(_, _) | Call::Skip(_) | Call::Legacy => {
				let (u, as_full) = match c {
					Call::Upd(i, a) => { if *i != next { continue; } (h.updates[*i].clone(), *a) },
					Call::Skip(i) => { if *i + 1 >= h.updates.len() || *i != next { continue; } (h.updates[*i + 1].clone(), false) },
					_ => { if !h.closes || next == 0 { continue; } let mut u = h.updates[h.updates.len() - 1].clone(); u.update_id = u64::MAX; (u, false) },
				};
				let ap = guarded(AssertUnwindSafe(|| mon.update_monitor(&u, &bc, &fe, &lg)));
				match ap {
					Err(_) => { rec.case(&format!("upd {} {} {}", u.update_id, as_full as u8, tag), "panic | -", &format!("{}:upd:panic-out-of-order", class), true); lines += 1; std::mem::forget(mon); let total_ops = store.i.lock().unwrap().n; let o = Outcome { total_ops, started, completed, applied, snaps, lines }; return Some(finish_run(ctx, rec, tag, &store, &persister, &name_s, o, snaps_ref, class, f)); },
					Ok(Err(())) => { rec.discarded += 1; return None; },
					Ok(Ok(())) => {},
				}
				if let Call::Upd(_, _) = c { next += 1; }
				applied += 1;
				snaps.push(mon.encode());
				let mk = mark(&store);
				let st = persister.update_persisted_channel(name, if as_full { None } else { Some(&u) }, &mon);
				rec.case(&format!("upd {} {} {}", u.update_id, as_full as u8, tag), &format!("{} | {}", status_name(st), show_ops(ctx, &since(&store, mk))),
					&format!("{}:upd:{}:{}", class, if as_full { "asfull" } else if u.update_id == u64::MAX { "legacy" } else if n != 0 && u.update_id % n != 0 { "updfile" } else { "consolidate" }, status_name(st)), true);
				lines += 1;
				if st == ChannelMonitorUpdateStatus::Completed { completed = applied; } else { alive = false; }
			},
			Call::Full => {
				let mk = mark(&store);
				let st = persister.update_persisted_channel(name, None, &mon);
				rec.case(&format!("full {}", tag), &format!("{} | {}", status_name(st), show_ops(ctx, &since(&store, mk))), &format!("{}:full:{}", class, status_name(st)), true);
				lines += 1;
				if st != ChannelMonitorUpdateStatus::Completed { alive = false; }
			},
			Call::Cleanup(lazy) => {
				let mk = mark(&store);
				let r = guarded(AssertUnwindSafe(|| persister.cleanup_stale_updates(*lazy)));
				let a = match r { Ok(Ok(())) => "ok", Ok(Err(_)) => "err", Err(_) => "panic" };
				rec.case(&format!("cleanup {} {}", *lazy as u8, tag), &format!("{} | {}", a, show_ops(ctx, &since(&store, mk))), &format!("{}:cleanup:{}", class, a), true);
				lines += 1;
			},
			Call::InjectJunkName => {
				store.put_raw("monitor_updates", &name_s, "zz", vec![1u8]);
				rec.directive(&format!("inject monitor_updates {} zz junk 0", name_s));
			},
			Call::Archive => {
				let mk = mark(&store);
				let r = guarded(AssertUnwindSafe(|| <MonitorUpdatingPersister<_, _, _, _, _, _> as Persist<TestChannelSigner>>::archive_persisted_channel(&persister, name)));
				let a = if r.is_ok() { "-" } else { "panic" };
				rec.case(&format!("archive {}", tag), &format!("{} | {}", a, show_ops(ctx, &since(&store, mk))), &format!("{}:archive", class), true);
				lines += 1;
				// after archiving nothing is claimed about the live key: stop the life here
				let total_ops = store.i.lock().unwrap().n;
				let keys = store_keys(&store);
				rec.case(&format!("keys {}", tag), &keys, &format!("{}:keys", class), false);
				return Some(Outcome { total_ops, started, completed, applied, snaps, lines: lines + 1 });
			},
		}
	}
	let total_ops = store.i.lock().unwrap().n;
	Some(finish_run(ctx, rec, tag, &store, &persister, &name_s, Outcome { total_ops, started, completed, applied, snaps, lines }, snaps_ref, class, f))
}

fn store_keys(store: &RecStore) -> String {
	let mut k: Vec<String> = store.i.lock().unwrap().kv.iter().map(|e| format!("{}/{}/{}", e.0 .0, e.0 .1, e.0 .2)).collect();
	k.sort();
	format!("keys {}", if k.is_empty() { "-".to_string() } else { k.join(",") })
}

/// the crash happened (or the script ended): restart with a healthy store and recover
fn finish_run<P: std::ops::Deref<Target = RecStore>>(ctx: &Ctx, rec: &mut Rec, tag: &str, store: &RecStore, persister: &MonitorUpdatingPersister<P, &NullLogger, &'static TestKeysInterface, &'static TestKeysInterface, &DummyB, &DummyF>,
	name_s: &str, mut o: Outcome, snaps_ref: Option<&Vec<Vec<u8>>>, class: &str, f: &Faults) -> Outcome {
	{ let mut i = store.i.lock().unwrap(); i.crash = u64::MAX; i.fail_at = None; i.no_eff.clear(); }
	let r = guarded(AssertUnwindSafe(|| persister.read_all_channel_monitors_with_updates()));
	let ans = match &r {
		Ok(Ok(l)) => { let mut v: Vec<String> = l.iter().map(|(_, m)| format!("{}:{}", m.persistence_key(), m.get_latest_update_id())).collect(); v.sort(); format!("ok {}", if v.is_empty() { "-".to_string() } else { v.join(",") }) },
		Ok(Err(_)) => "err".to_string(),
		Err(_) => "panic".to_string(),
	};
	// implementation-side oracle, independent of the Lean model
	let snaps = snaps_ref.unwrap_or(&o.snaps);
	let fault = format!("N-dependent crash={:?} fail_at={:?} fail_eff={} no_eff={:?}", f.crash, f.fail_at, f.fail_eff, &f.no_eff[..f.no_eff.len().min(12)]);
	let mut kind = "not-started";
	if o.started && !class.contains("junk") {
		match &r {
			Ok(Ok(l)) if l.len() == 1 => {
				let got = l[0].1.encode();
				let mut found = None;
				for n in o.completed..=o.applied.min(snaps.len() - 1) { if snaps[n] == got { found = Some(n); break; } }
				if found.is_none() {
					// byte equality can fail for benign reasons (map iteration order); fall back to PartialEq
					for n in o.completed..=o.applied.min(snaps.len() - 1) { if let Some(m) = decode_mon(ctx, &snaps[n]) { if m == l[0].1 { found = Some(n); *rec.classes.entry("oracle:eq-by-PartialEq-only".into()).or_insert(0) += 1; break; } } }
				}
				match found {
					Some(n) => { kind = if n == o.completed { "recovered-last-completed" } else { "recovered-later" }; },
					None => { kind = "VIOLATION"; rec.oracle_fail(format!("MonitorUpdatingPersister lost or tore state: monitor {} recovered at update_id {} equals no in-memory snapshot in [completed={}, applied={}] ({})", name_s, l[0].1.get_latest_update_id(), o.completed, o.applied, fault)); },
				}
			},
			_ => { kind = "VIOLATION"; rec.oracle_fail(format!("MonitorUpdatingPersister cannot recover monitor {} after Completed persists: read_all answered `{}` (completed={}, applied={}, {})", name_s, ans, o.completed, o.applied, fault)); },
		}
	}
	rec.case(&format!("recover {}", tag), &ans, &format!("{}:recover:{}", class, kind), true);
	rec.case(&format!("keys {}", tag), &store_keys(store), &format!("{}:keys", class), false);
	o.lines += 2;
	// r6: recovery through a persister built with a DIFFERENT maximum_pending_updates than the writer's
	// (it is a constructor argument, not something stored; 0 = "update writing disabled"). The store may
	// hold update entries above the stored full monitor, each of which was reported Completed.
	{
		let wm = persister_max_pending(class);
		let rm: u64 = if wm == 0 { [3u64, 1][(o.total_ops % 2) as usize] } else if o.total_ops % 4 == 3 { wm + 1 } else { 0 };
		let bc = DummyB; let fe = DummyF; let lg = NullLogger;
		let reader = MonitorUpdatingPersister::new(store, &lg, rm, ctx.keys, ctx.keys, &bc, &fe);
		let r2 = guarded(AssertUnwindSafe(|| reader.read_all_channel_monitors_with_updates()));
		let ans2 = match &r2 {
			Ok(Ok(l)) => { let mut v: Vec<String> = l.iter().map(|(_, m)| format!("{}:{}", m.persistence_key(), m.get_latest_update_id())).collect(); v.sort(); format!("ok {}", if v.is_empty() { "-".to_string() } else { v.join(",") }) },
			Ok(Err(_)) => "err".to_string(),
			Err(_) => "panic".to_string(),
		};
		// what the store holds: id of the stored full monitor and the number of update entries above it
		let (stored_id, pending): (Option<u64>, usize) = {
			let kv = store.i.lock().unwrap().kv.clone();
			let sid = kv.iter().find(|e| e.0 .0 == "monitors" && e.0 .2 == name_s).and_then(|e| { let d = describe(ctx, "monitors", &e.1); d.rsplit(":m").next().and_then(|x| x.parse::<u64>().ok()) });
			let pend = match sid { Some(id) => kv.iter().filter(|e| e.0 .0 == "monitor_updates" && e.0 .1 == name_s && e.0 .2.parse::<u64>().map(|u| u > id).unwrap_or(false)).count(), None => 0 };
			(sid, pend)
		};
		let snaps = snaps_ref.unwrap_or(&o.snaps);
		let mut kind2 = "no-claim";
		if o.started {
			if let Ok(Ok(l)) = &r2 {
				let reported = decode_mon(ctx, &snaps[o.completed.min(snaps.len() - 1)]).map(|m| m.get_latest_update_id());
				match (l.iter().find(|(_, m)| m.persistence_key().to_string() == name_s), reported) {
					(Some((_, m)), Some(y)) => {
						let x = m.get_latest_update_id();
						if x < y { kind2 = "VIOLATION"; rec.oracle_fail(format!("recovered monitor {} is at update id {} although update {} had been reported persisted (writer m={}, reader m={}; store holds the full monitor at {:?} and {} update entries above it; {})", name_s, x, y, wm, rm, stored_id, pending, fault)); } else { kind2 = "includes-reported"; }
					},
					(None, Some(y)) => { kind2 = "VIOLATION"; rec.oracle_fail(format!("recovered monitor {} is missing from a successful recovery although update {} had been reported persisted (writer m={}, reader m={}; {})", name_s, y, wm, rm, fault)); },
					_ => {},
				}
			}
		}
		rec.case(&format!("recoverm {} {}", rm, tag), &ans2, &format!("{}:recoverm:{}", class, kind2), true);
		*rec.classes.entry(format!("recover:reader-m={}:pending-updates{}", if rm == 0 { "0" } else { "other" }, if pending > 0 { ">0" } else { "=0" })).or_insert(0) += 1;
		o.lines += 1;
	}
	o
}

/// the writer's maximum_pending_updates, from the class prefix `N<m>:`
fn persister_max_pending(class: &str) -> u64 { class.trim_start_matches('N').split(':').next().and_then(|x| x.parse().ok()).unwrap_or(0) }

fn harvest(ctx_out: &mut Vec<(Hist, &'static TestKeysInterface)>, n_payments: usize, rng: &mut Rng) {
	// everything is leaked on purpose: Node::drop & friends assert on a drained network, which a
	// force-closed scenario is not; the process exits right after the run.
	let chanmon_cfgs: &'static Vec<TestChanMonCfg> = Box::leak(Box::new(create_chanmon_cfgs(2)));
	let node_cfgs = Box::leak(Box::new(create_node_cfgs(2, chanmon_cfgs)));
	let node_chanmgrs = Box::leak(Box::new(create_node_chanmgrs(2, node_cfgs, &[None, None])));
	let nodes = Box::leak(Box::new(create_network(2, node_cfgs, node_chanmgrs)));
	let chan = create_announced_chan_between_nodes(nodes, 0, 1);
	let chan_id = chan.2;
	let m0: Vec<Vec<u8>> = (0..2).map(|i| nodes[i].chain_monitor.chain_monitor.get_monitor(chan_id).unwrap().encode()).collect();
	let id0: Vec<u64> = (0..2).map(|i| nodes[i].chain_monitor.chain_monitor.get_monitor(chan_id).unwrap().get_latest_update_id()).collect();
	for p in 0..n_payments {
		if p % 2 == 0 { send_payment(&nodes[0], &[&nodes[1]], 5_000_000 + rng.below(3_000_000)); } else { send_payment(&nodes[1], &[&nodes[0]], 1_000_000 + rng.below(2_000_000)); }
	}
	// an HTLC left pending at close time makes the final monitors richer
	let _pending = route_payment(&nodes[0], &[&nodes[1]], 500_000);
	let node_id_1 = nodes[1].node.get_our_node_id();
	nodes[0].node.force_close_broadcasting_latest_txn(&chan_id, &node_id_1, "verif".to_string()).unwrap();
	for i in 0..2 {
		let ups = nodes[i].chain_monitor.monitor_updates.lock().unwrap();
		let mut v: Vec<ChannelMonitorUpdate> = ups.get(&chan_id).cloned().unwrap_or_default().into_iter().filter(|u| u.update_id > id0[i]).collect();
		v.sort_by_key(|u| u.update_id);
		v.dedup_by_key(|u| u.update_id);
		let name = nodes[i].chain_monitor.chain_monitor.get_monitor(chan_id).unwrap().persistence_key();
		let closes = i == 0 && v.last().map(|u| format!("{:?}", u).contains("ChannelForceClosed")).unwrap_or(false);
		ctx_out.push((Hist { name, m0: m0[i].clone(), updates: v, closes }, &chanmon_cfgs[i].keys_manager));
	}
}

fn mup_model(args: &Args) {
	let mut rec = Rec::new(&args.out, "c19mup");
	let mut rng = Rng::new(args.seed);
	let n_pay = if args.thorough { 7 } else { 4 };
	let hists: Vec<(Hist, &'static TestKeysInterface)> = match guarded(AssertUnwindSafe(|| { let mut h = vec![]; harvest(&mut h, n_pay, &mut Rng::new(args.seed ^ 0x55)); h })) {
		Ok(h) => h,
		Err(p) => { eprintln!("network scenario panicked: {}", p); rec.notes.insert("rule".into(), format!("scenario set-up failed: {}", p)); rec.finish(); std::process::exit(3); },
	};
	let ns: Vec<u64> = vec![0, 1, 2, 3, 5, 10];
	let mut total_lines = 0u64;
	let mut run_id = 0u64;
	let mut sanity = vec![];
	for (hi, (h, keys_h)) in hists.iter().enumerate() {
		// each monitor deserializes with the keys manager of *its* node
		let ctx = Ctx { keys: *keys_h, idcache: Mutex::new(HashMap::new()) };
		sanity.push(format!("hist{}: {} updates ids {:?}..{:?} closes={}", hi, h.updates.len(), h.updates.first().map(|u| u.update_id), h.updates.last().map(|u| u.update_id), h.closes));
		if h.updates.len() < 6 { rec.discarded += 1; continue; }
		let n_scripts = if args.thorough { 4 } else { 2 } * args.scale as usize;
		for si in 0..n_scripts {
			// --- draw a script
			let start_at = if si == 0 { 0 } else { rng.below(4) as usize };
			let upto = h.updates.len();
			let mut script: Vec<Call> = vec![];
			for i in start_at..upto {
				script.push(Call::Upd(i, rng.chance(1, 9)));
				if rng.chance(1, 6) { script.push(Call::Full); }
				if rng.chance(1, 10) { script.push(Call::Cleanup(rng.chance(1, 2))); }
			}
			let ending = [1usize, 2, 3, 0][(si * 2 + hi) % 4];
			if ending == 1 && h.closes { script.push(Call::Legacy); script.push(Call::Full); script.push(Call::Legacy); }
			if ending == 2 { script.push(Call::Cleanup(false)); script.push(Call::Archive); }
			if ending == 3 { let cut = start_at + 3 + rng.below((upto - start_at - 4) as u64) as usize; script.retain(|c| match c { Call::Upd(i, _) => *i < cut, _ => true }); script.push(Call::Skip(cut)); }
			let stale: Vec<u64> = if start_at > 0 && rng.chance(2, 3) { (0..=h.updates[start_at - 1].update_id).filter(|_| rng.chance(1, 2)).collect() } else { vec![] };
			for &n in &ns {
				let nof = Faults { crash: None, fail_at: None, fail_eff: false, no_eff: vec![] };
				let base = match run_script(&ctx, &mut rec, &{ run_id += 1; format!("r{}", run_id) }, h, &script, start_at, n, &nof, &stale, None, &format!("N{}:base", n)) { Some(o) => o, None => continue };
				total_lines += base.lines;
				let t = base.total_ops;
				// junk (non-numeric) update name: both sides must refuse to read / clean up
				if si == 0 && n == 3 {
					let mut s2: Vec<Call> = script.iter().take(6).cloned().collect(); s2.push(Call::InjectJunkName); s2.push(Call::Cleanup(true));
					if let Some(o) = run_script(&ctx, &mut rec, &{ run_id += 1; format!("r{}", run_id) }, h, &s2, start_at, n, &nof, &stale, None, &format!("N{}:junkname", n)) { total_lines += o.lines; }
				}
				// the point excluded by the initial-state hypothesis of `persister_recovers` (a foreign, non-stale
				// update key above the new monitor's id): run the real code exactly there; model and code must
				// agree (`err` while the junk is still there, fine once a real update overwrote it); no oracle.
				if si == 0 && (n == 3 || n == 0 || n == 10) {
					let base_id = if start_at > 0 { h.updates[start_at - 1].update_id } else { h.updates[0].update_id - 1 };
					for len in [1usize, 4] {
						let s3: Vec<Call> = (start_at..start_at + len).map(|i| Call::Upd(i, false)).collect();
						if let Some(o) = run_script(&ctx, &mut rec, &{ run_id += 1; format!("r{}", run_id) }, h, &s3, start_at, n, &nof, &[base_id + 2], None, &format!("N{}:junkabove{}", n, len)) { total_lines += o.lines; }
					}
				}
				// --- every crash point x lazy-delete subsets x one failing op
				let cap: u64 = if args.thorough { 150 } else { 48 };
				let points: Vec<u64> = if t <= cap { (0..=t).collect() } else { let mut v: Vec<u64> = (0..cap).map(|_| rng.below(t + 1)).collect(); v.push(0); v.push(t); v.sort(); v.dedup(); v };
				for &c in &points {
					let all: Vec<u64> = (0..c).collect();
					let variants: Vec<Faults> = vec![
						Faults { crash: Some(c), fail_at: None, fail_eff: false, no_eff: vec![] },
						Faults { crash: Some(c), fail_at: None, fail_eff: false, no_eff: all.clone() },
						Faults { crash: Some(c), fail_at: None, fail_eff: false, no_eff: all.iter().cloned().filter(|_| rng.chance(1, 2)).collect() },
						Faults { crash: if rng.chance(1, 3) { None } else { Some(c) }, fail_at: if c > 0 { Some(rng.below(c)) } else { None }, fail_eff: rng.chance(1, 2), no_eff: all.iter().cloned().filter(|_| rng.chance(1, 3)).collect() },
					];
					for (vi, f) in variants.iter().enumerate() {
						if !args.thorough && vi >= 2 && rng.chance(1, 2) { continue; }
						if let Some(o) = run_script(&ctx, &mut rec, &{ run_id += 1; format!("r{}", run_id) }, h, &script, start_at, n, f, &stale, Some(&base.snaps), &format!("N{}:crash-v{}", n, vi)) { total_lines += o.lines; }
					}
				}
			}
		}
	}
	rec.notes.insert("rule".into(), "real monitors + ChannelMonitorUpdates harvested from a 2-node network (payments both ways, a pending HTLC, force close), replayed offline into MonitorUpdatingPersister for maximum_pending_updates in {0,1,2,3,5,10}: scripts mix update / update-persisted-as-full / chain-sync full persists / cleanup_stale_updates / legacy u64::MAX updates / archive / an out-of-order update / pre-existing stale and junk update keys; then every crash point of the emitted op sequence (all of them up to 48 [quick] / 150 [thorough] ops, a PRNG sample of that many beyond) x {all lazy deletes applied, none, random subset, one failing op with/without effect}; every persister call, recovery and final key set is a case".into());
	rec.notes.insert("histories".into(), sanity.join("; "));
	rec.notes.insert("lines".into(), total_lines.to_string());
	rec.finish();
}

fn main() {
	let args = &parse_args("c19kv");
	match args.model.as_str() {
		"c19kv" => kv_model(args),
		"c19mup" => mup_model(args),
		"c19mt" => mt_model(args),
		m => { eprintln!("unknown model {}", m); std::process::exit(2); },
	}
	let _ = PathBuf::new();
	// network objects are leaked; do not run destructors of anything else either
	std::process::exit(0);
}
