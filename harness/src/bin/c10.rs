//! C10 — restarting from persisted state is safe at every crash point.
//!
//! Scenarios over real nodes (sim engine), two topologies: a line 0 -c0- 1 -c1- 2, and a "Y" 0 -c0- 2, 1 -c1- 2, 2 -c2- 3
//! with TWO inbound channels into node 2 whose HTLC ids both count from 0 (ids collide across channels; some Y scenarios
//! start with a scripted lock-step prefix: HTLC (c0,0) forwarded over c2 and left pending, HTLC (c1,0) committed and decoded
//! into node 2's to-forward queue but not forwarded, then node 2 pays over c2 itself / had force-closed c2).  Payments in
//! flight in all directions, every peer message delivered separately, inbound HTLCs decoded (`decode`) and forwarded (`fwd`)
//! as separate ops, the application may force-close a channel, node `t` (the node under test) persists its monitors
//! asynchronously with out-of-order completion.  After EVERY op the harness takes a numbered durable point of `t`: the
//! serialized ChannelManager (as production writes it, and as a build that can take the reconstruct-from-monitors reload
//! path writes it — hook H12), every serialized ChannelMonitor, the ids chain::Watch still reports pending, through
//! verif_hooks the numbers `from_channel_manager_data` will compare, the manager's QUEUED forwards (forward_htlcs /
//! pending_intercepted_htlcs / decode_update_add_htlcs entries by previous hop) and each monitor's forwarded HTLCs.
//!
//! A *crash world* = (crash point p, manager written at an earlier point q ≤ p, per channel a monitor copy from a point
//! p' ≤ p, reload path).  It is *admissible* when each monitor copy contains at least every update of the contiguous prefix
//! reported complete at p (an InProgress write may or may not be on disk).  For a stratified sample (quick; with directed
//! strata for "forwards queued + some channel closed at load" and "HTLC id collision across inbound channels") / a larger
//! one (thorough) the scenario is re-run from its seed up to p in a fresh `Net`, node t is restarted from those bytes, and
//! we observe Ok / Err(DangerousValue), the channels closed with ClosureReason::OutdatedChannelManager, the
//! ChannelMonitorUpdates handed to the new chain::Watch right after the restart, and the forwards still queued.
//! Op lines (the abstract world with the numbers read from the real objects):
//!   reload <n> (<latestId> <unblockedId> <holder> <cp> <revokedCp> <in-flight ids> <monId> <monHolder> <monCp> <monMinSecret>)*n
//!     -> err | ok (closed:<replay>:<closeId> | resumed:<replay>)*n             (channels the manager copy still has)
//!   reconcile <queued forwards chan:id,..> <awaiting decode chan:id,..> <forwarded HTLCs (previous hops) of the monitors of the channels closed at load>
//!     -> <forwards still queued> | <still awaiting decode>                      (legacy = production reload path)
//! plus, on the reference run of every scenario, the run model's state tracked against the live node:
//!   init/upd/jump/release/complete/notify <chan> ..., state <chan> -> <latest> <watch> <in-flight> <chan nums> <monitor nums>
//!   spendconf <matured> <pending FundingSpendConfirmation height|-> <best> <#HTLCs the real get_onchain_failed_outbound_htlcs returned> -> ok confs=<n> | INCONSISTENT
//!   spendfail <matured> <height|-> <best> <a|d|o0|o1> <resolved to user> -> true | false     (one outbound HTLC of a channel closed on chain)
//! On-chain worlds (`run_chain_world`): a channel of t (payer or forwarder) is closed on chain before the crash by either side's
//! commitment, 0..ANTI_REORG_DELAY+2 blocks deep, with a PRESENT, a DUST and an ABSENT outbound HTLC; the manager reloaded was written
//! at the crash / before the blocks / before the close; after the restart optionally a shallow reorg confirms the counterparty's
//! other commitment; then everything is buried.  Oracles: nothing is failed by the reload while the closing transaction has fewer
//! than ANTI_REORG_DELAY confirmations; no PaymentFailed / upstream fail-back for an HTLC that is a live output of the buried
//! commitment; dust / absent HTLCs have failed once it is buried.  VERIF_C10_CHAIN="fwd:processed:closer_t:depth:lag:reorg".
//! Event re-delivery worlds (`run_evt_world`): outbound payments over a channel closed on chain whose HTLC timeouts are buried; the event
//! handler accepts a PREFIX of the pending events and returns Err(ReplayEvent) for the next; crash; restart from the manager written before the
//! close / after it / after the failure was queued / after the partial handling (optionally crashing twice).  Op line
//!   evlife (close | timeout | h<k> | persist | crash)* -> part=0/1 queue=<P|F[*],..> resolved=0/1 handledT=0/1      (Restart.erun, single payment)
//! Oracle: a PaymentFailed the handler never accepted before the crash is delivered after the restart.  VERIF_C10_EVT="n_pay:closer_t:k:mgr_pt:second".
//! Interception worlds (`run_icpt_world`): node 1 of a line 0-1-2 intercepts forwards (htlc_interception_flags) and holds 1-4 HTLCs; its handler accepts a
//! prefix of the HTLCIntercepted events; the application forwards / fails some; manager written; crash + restart (production path), optionally repeated.  Op line
//!   icpt (i<id>:<hash>:<in|->:<out>:<cltv>:<scid> | h<k> | r<id> | b<height> | p | c)* -> held=<ids> queue=<id/scid/hash/in/out/expiry,..> told=<ids>      (Restart.irun)
//! Oracles: after every restart each held HTLC has a pending HTLCIntercepted equal to the first one; the events delivered after the last restart name every held
//! HTLC; what the application is told about can be forwarded and every payment reaches its terminal event at the payer.  VERIF_C10_ICPT="<key>|all".
//! Repaired KF-C10-6 (HARD oracles): in the world loop the read must never fail back an HTLC that the monitor copy of a channel closed as
//! OutdatedChannelManager still lists as pending; `kf6_probe` runs the scenario end to end (forwarded HTLC / own payment in the stale manager's
//! holding cell, committed afterwards): nothing is failed at the restart, and after the downstream peer's on-chain claim the node learns the
//! preimage from its monitor (PaymentForwarded + upstream balance credited + PaymentSent at the payer / PaymentSent, no PaymentFailed).
//! After the restart(s) the application retries the claim / fail-back decisions it took before the crash (as
//! the claim_funds documentation requires), peers are reconnected and everything is delivered until quiet.
//!
//! Impl-side oracles (independent of the Lean model), admissible worlds only:
//!   * the read never fails; no panic (this includes TestChannelSigner's revoked-state policy checks);
//!   * a channel whose manager copy has a lower latest update id than its monitor copy is closed with
//!     OutdatedChannelManager, is no longer listed, and t sends no update/commitment/revocation on it;
//!   * a second crash during recovery (restart again at once, from the same manager and either the same
//!     monitors or the monitors as they are after the replay) gives the same outcome;
//!   * after reconnect + settle, in EVERY world (closed channels included): every HTLC still committed on an inbound channel
//!     of t is backed by an outbound HTLC one of t's monitors tracks — an HTLC that was only QUEUED for forwarding at the crash
//!     was forwarded or failed back, never forgotten ("HTLC stuck on inbound channel after restart": channel, id, world);
//!     no payment is both sent and failed;
//!   * when no channel was closed: every HTLC is resolved, every payment has a terminal event at its sender, the forwarding
//!     node's Σ value_to_self did not decrease (net of what it paid / was paid itself), no protocol error was emitted, and
//!     every channel of t with nothing blocked or in flight is in sync with its monitor (same update id and numbers).
//! Known findings (known_findings.txt) are recognised by an implementation-side pattern on the world and tagged
//! KF-C10-1 / -2 / -3 / -5 / -6 (OBS-C10-4 on the non-production reload path only); the same symptom outside the pattern is
//! reported untagged.  VERIF_C10_WORLD="sc:p:q:monpts" VERIF_TRACE=2 replays one world.
use ldk_verif_harness::common::*;
use ldk_verif_harness::sim::*;
use lightning::chain::ChannelMonitorUpdateStatus;
use lightning::events::{ClosureReason, Event};
use lightning::ln::types::ChannelId;
use lightning::ln::verif_hooks as vh;
use lightning::util::ser::Writeable;
use std::collections::{BTreeMap, BTreeSet};
use std::panic::AssertUnwindSafe;

#[derive(Clone, Debug, PartialEq)]
struct ChanView {
	chan: Option<[u64; 6]>, // latest, unblocked, holder, cp, revokedCp, #blocked
	inflight: Vec<u64>,
	mon_id: u64,
	mon: [u64; 3], // holder, cp, min seen secret
	pending: Vec<u64>,
	/// previous hops (channel index, htlc id) of the outbound HTLCs this channel's monitor lists (forwarded HTLCs)
	prev_hops: Vec<(usize, u64)>,
}
impl ChanView {
	/// every update through this id has been reported complete
	fn durable(&self) -> u64 { self.pending.iter().min().map(|m| m - 1).unwrap_or(self.mon_id) }
}
/// `queued_fwd` / `queued_dec`: previous hops (channel index, htlc id) of the AddHTLC entries in the manager's forward_htlcs /
/// pending_intercepted_htlcs, resp. of the update_adds still in decode_update_add_htlcs (committed inbound, not yet forwarded)
struct Point { mgr: Vec<u8>, mgr_rebuild: Vec<u8>, mons: Vec<Vec<u8>>, views: Vec<ChanView>, trace_len: usize, n_pays: usize, op: String, queued_fwd: Vec<(usize, u64)>, queued_dec: Vec<(usize, u64)>, extras: Vec<Extra>, pays: Vec<String>, evq: Vec<String> }
/// HTLC-level inputs of the reconstruction (NOT part of the determinism check of a re-run: payment ids / session keys are random):
/// the monitor's get_all_current_outbound_htlcs / get_onchain_failed_outbound_htlcs entries by source key, whether it has claimable
/// balances, and the sources of the channel's outbound HTLCs (holding | pending | announced-blocked) — hooks of /repo commit 687d16c
#[derive(Clone, Debug, Default)]
struct Extra { mon_htlcs: Vec<String>, onchain_failed: Vec<String>, balances_empty: bool, chan_htlcs: Vec<String> }

/// (queued forwards, awaiting decode) of node i's live manager, from the persisted-state dump (hook of C12)
fn queued_of(net: &Net, i: usize) -> (Vec<(usize, u64)>, Vec<(usize, u64)>) {
	let names: Vec<String> = net.chans.iter().map(|c| format!("{}", c.2)).collect();
	let find = |hexid: &str| names.iter().position(|n| n == hexid).unwrap_or(usize::MAX);
	let (mut f, mut d) = (vec![], vec![]);
	for line in vh::manager_persisted_state_dump(net.nodes[i].node) {
		if (line.starts_with("forward ") && line.contains(" add prev=")) || line.starts_with("intercepted ") {
			if let Some(rest) = line.split("prev=").nth(1) { let tok = rest.split(' ').next().unwrap_or(""); let mut it = tok.split(':'); if let (Some(c), Some(id)) = (it.next(), it.next()) { f.push((find(c), id.parse().unwrap_or(u64::MAX))); } }
		} else if line.starts_with("decode_update_add ") {
			let c = line.split(" chan=").nth(1).and_then(|r| r.split(' ').next()).unwrap_or("");
			let id = line.split(" htlc_id=").nth(1).and_then(|r| r.split(' ').next()).and_then(|x| x.parse().ok()).unwrap_or(u64::MAX);
			d.push((find(c), id));
		}
	}
	f.sort(); d.sort();
	(f, d)
}

/// channels (indices into net.chans) of node t, with the peer
fn chans_of(net: &Net, t: usize) -> Vec<(usize, usize, ChannelId)> {
	net.chans.iter().enumerate().filter(|(_, c)| c.0 == t || c.1 == t).map(|(i, c)| (i, if c.0 == t { c.1 } else { c.0 }, c.2)).collect()
}

fn take_point(net: &Net, t: usize, op: String) -> Point {
	let mgr = net.nodes[t].node.encode();
	// the same manager as a build that can take the reconstruct-from-monitors reload path writes it (committed inbound update_adds, TLV 75)
	vh::WRITE_INBOUND_COMMITTED_UPDATE_ADDS.store(true, std::sync::atomic::Ordering::Relaxed);
	let mgr_rebuild = net.nodes[t].node.encode();
	vh::WRITE_INBOUND_COMMITTED_UPDATE_ADDS.store(false, std::sync::atomic::Ordering::Relaxed);
	let mut mons = vec![];
	let mut views = vec![];
	let mut extras = vec![];
	for (ci, peer, cid) in chans_of(net, t) {
		let m = net.nodes[t].chain_monitor.chain_monitor.get_monitor(cid).unwrap();
		mons.push(m.encode());
		views.push(ChanView {
			chan: vh::channel_restart_numbers(net.nodes[t].node, &net.ids[peer], &cid),
			inflight: vh::manager_in_flight_update_ids(net.nodes[t].node, &net.ids[peer], &cid),
			mon_id: m.get_latest_update_id(),
			mon: vh::monitor_restart_numbers(&m),
			pending: net.pending_updates(t, ci),
			prev_hops: vh::monitor_outbound_htlc_prev_hops(&m).into_iter().map(|(c, id)| (net.chan_idx(&c), id)).collect(),
		});
		extras.push(Extra { mon_htlcs: vh::monitor_outbound_htlcs_dump(&m), onchain_failed: vh::monitor_onchain_failed_outbound_htlc_keys(&m), balances_empty: m.get_claimable_balances().is_empty(),
			chan_htlcs: vh::channel_outbound_htlc_sources(net.nodes[t].node, &net.ids[peer], &cid) });
	}
	let dump_q = vh::manager_persisted_state_dump(net.nodes[t].node);
	let pays: Vec<String> = dump_q.iter().filter(|l| l.starts_with("outbound ")).cloned().collect();
	let evq: Vec<String> = dump_q.iter().filter(|l| l.starts_with("event #")).cloned().collect();
	let (queued_fwd, queued_dec) = queued_of(net, t);
	Point { mgr, mgr_rebuild, mons, views, trace_len: net.trace.len(), n_pays: net.pays.len(), op, queued_fwd, queued_dec, extras, pays, evq }
}

/// topology 0: line 0 -c0- 1 -c1- 2.   topology 1: "Y" 0 -c0- 2, 1 -c1- 2, 2 -c2- 3 (two inbound channels into node 2,
/// whose HTLC ids both count from 0 and therefore collide).  The first `main` routes are the multi-hop ones.
const ROUTES0: [(&[usize], &[usize]); 6] = [(&[0, 1, 2], &[0, 1]), (&[2, 1, 0], &[1, 0]), (&[0, 1], &[0]), (&[1, 2], &[1]), (&[1, 0], &[0]), (&[2, 1], &[1])];
const ROUTES1: [(&[usize], &[usize]); 12] = [(&[0, 2, 3], &[0, 2]), (&[1, 2, 3], &[1, 2]), (&[3, 2, 0], &[2, 0]), (&[3, 2, 1], &[2, 1]), (&[0, 2, 1], &[0, 1]), (&[1, 2, 0], &[1, 0]),
	(&[2, 3], &[2]), (&[0, 2], &[0]), (&[1, 2], &[1]), (&[3, 2], &[2]), (&[2, 0], &[0]), (&[2, 1], &[1])];
fn routes(topo: usize) -> (&'static [(&'static [usize], &'static [usize])], u64) { if topo == 0 { (&ROUTES0, 2) } else { (&ROUTES1, 4) } }
/// the node whose Σ value_to_self must not decrease
fn fwd_node(topo: usize) -> usize { if topo == 0 { 1 } else { 2 } }

fn top_up(net: &Net, t: usize) {
	if net.in_progress[t] {
		let mut q = net.persisters[t].update_rets.lock().unwrap();
		while q.len() < 64 { q.push_back(ChannelMonitorUpdateStatus::InProgress); }
	}
}

struct Scen { net: Net, pts: Vec<Point>, start_bal: Option<u64>, decided: Vec<(usize, bool)>, t: usize, upto: usize }
impl Scen {
	fn full(&self) -> bool { self.pts.len() > self.upto }
	fn point(&mut self, op: String) { if !self.full() { let p = take_point(&self.net, self.t, op); self.pts.push(p); } }
	/// complete every pending monitor update of t (one point each), then deliver / forward until quiet; `only`: restrict
	/// deliveries to messages between these two nodes and do not forward; events are not processed (nothing becomes claimable)
	fn drain(&mut self, only: Option<(usize, usize)>, forward: bool) {
		let t = self.t;
		for _ in 0..80 {
			if self.full() { return; }
			top_up(&self.net, t);
			let pend: Vec<(usize, u64)> = chans_of(&self.net, t).iter().flat_map(|c| self.net.pending_updates(t, c.0).into_iter().map(move |id| (c.0, id))).collect();
			if let Some((c, id)) = pend.first() { self.net.complete(t, *c, *id); self.point(format!("complete c{} {}", c, id)); continue; }
			let q: Vec<(usize, usize)> = self.net.q.iter().filter(|(k, v)| !v.is_empty() && only.map(|(a, b)| (k.0 == a && k.1 == b) || (k.0 == b && k.1 == a)).unwrap_or(true)).map(|(k, _)| *k).collect();
			if let Some((i, j)) = q.first() { let k = self.net.deliver(*i, *j).unwrap_or("-"); self.point(format!("deliver {}>{} {}", i, j, k)); continue; }
			if forward { if let Some(i) = (0..self.net.nodes.len()).find(|i| self.net.nodes[*i].node.needs_pending_htlc_processing()) { self.net.forward(i); self.point(format!("fwd {}", i)); continue; } }
			return;
		}
	}
}

/// Deterministic in its arguments: the scenario up to `upto` points after point 0.
/// `flavor` (topology 1, t = 2): 0 = random schedule only; 1 / 2 = a scripted prefix that drives the two inbound channels in
/// lock-step — HTLC (c0, id 0) is forwarded over c2 and left pending, HTLC (c1, id 0) is committed and decoded into the to-forward
/// queue of node 2 but not forwarded — and then (1) node 2 sends a payment of its own over c2 (c2's monitor advances, a manager
/// written before is stale for c2 only), or (2) had force-closed c2 before the second HTLC arrived; then the random schedule.
fn run_scenario(seed: u64, topo: usize, flavor: u64, t: usize, async_t: bool, n_ops: usize, upto: usize) -> (Net, Vec<Point>, Option<u64>, Vec<(usize, bool)>) {
	let mut rng = Rng::new(seed);
	let n = if topo == 0 { 3 } else { 4 };
	let mut net = Net::new(n, (0..n).map(|_| None).collect());
	if topo == 0 { net.open(0, 1, 1_000_000, 400_000_000); net.open(1, 2, 1_000_000, 400_000_000); }
	else { net.open(0, 2, 1_000_000, 400_000_000); net.open(1, 2, 1_000_000, 400_000_000); net.open(2, 3, 1_000_000, 400_000_000); }
	if async_t { net.set_mode(t, true); }
	let start_bal = sum_value_to_self(&net, fwd_node(topo));
	let p0 = take_point(&net, t, "start".into());
	let mut sc = Scen { net, pts: vec![p0], start_bal, decided: vec![], t, upto };
	let my_chans: Vec<usize> = chans_of(&sc.net, t).iter().map(|c| c.0).collect();
	let max_pays = 2 + rng.below(5) as usize + if flavor > 0 { 2 } else { 0 };
	let mut force_closed = false;
	if topo == 1 && flavor > 0 && t == 2 {
		let amt = 1_000_000 + rng.below(20_000_000);
		if let Ok(p) = sc.net.send(&[0, 2, 3], &[0, 2], amt, 70) { sc.point(format!("send#{} [0, 2, 3] {}", p, amt)); }
		sc.drain(None, true);
		if flavor == 2 && !sc.full() {
			let (_, peer, cid) = chans_of(&sc.net, t)[2];
			let _ = sc.net.nodes[t].node.force_close_broadcasting_latest_txn(&cid, &sc.net.ids[peer], "closed by the application".to_string());
			sc.net.pump(t); sc.net.process_events(t); force_closed = true;
			sc.point("force-close c2".into());
			sc.drain(Some((2, 3)), false);
		}
		if !sc.full() {
			let amt = 1_000_000 + rng.below(20_000_000);
			if let Ok(p) = sc.net.send(&[1, 2, 3], &[1, 2], amt, 70) { sc.point(format!("send#{} [1, 2, 3] {}", p, amt)); }
			sc.drain(Some((1, 2)), false);
		}
		if !sc.full() { sc.net.nodes[t].node.test_process_pending_update_add_htlcs(); sc.net.pump(t); sc.point(format!("decode {}", t)); }
		if flavor == 1 && !sc.full() {
			if let Ok(p) = sc.net.send(&[2, 3], &[2], 100_000 + rng.below(5_000_000), 70) { sc.point(format!("send#{} [2, 3]", p)); }
			let pend = sc.net.pending_updates(t, 2);
			for id in pend { if !sc.full() { sc.net.complete(t, 2, id); sc.point(format!("complete c2 {}", id)); } }
		}
	}
	if topo == 0 && flavor == 3 && t == 1 {
		// scripted prefix (line, t forwards): a payment 0→1→2 is forwarded, becomes claimable at node 2 and is CLAIMED; every message of the
		// fulfil path is a crash point, so for a while t's monitor of c1 holds the preimage of a forwarded HTLC (pending_claims_to_replay)
		let amt = 1_000_000 + rng.below(20_000_000);
		if let Ok(p) = sc.net.send(&[0, 1, 2], &[0, 1], amt, 70) {
			sc.point(format!("send#{} [0, 1, 2] {}", p, amt));
			sc.drain(None, true);
			if !sc.full() { sc.net.process_events(2); sc.point("events 2".into()); }
			let h = sc.net.pays[p].hash;
			if !sc.full() && sc.net.claimable[2].iter().any(|c| c.0 == h) {
				sc.net.claimable[2].retain(|c| c.0 != h);
				sc.decided.push((p, true)); sc.net.claim(p); sc.point(format!("claim#{}", p));
				sc.drain(None, true);
			}
		}
	}
	let (rts, n_main) = routes(topo);
	for _ in 0..n_ops {
		if sc.full() { break; }
		let net = &mut sc.net;
		top_up(net, t);
		// weighted choice among the actions that can currently make progress
		let queues: Vec<(usize, usize)> = net.q.iter().filter(|(_, v)| !v.is_empty()).map(|(k, _)| *k).collect();
		let fwd: Vec<usize> = (0..n).filter(|i| net.nodes[*i].node.needs_pending_htlc_processing()).collect();
		let cands: Vec<usize> = (0..net.pays.len()).filter(|p| net.claimable[net.pays[*p].to].iter().any(|c| c.0 == net.pays[*p].hash)).collect();
		let pend: Vec<(usize, u64)> = my_chans.iter().flat_map(|c| net.pending_updates(t, *c).into_iter().map(move |id| (*c, id))).collect();
		let can_fc = topo == 1 && !force_closed && net.pays.len() >= 2;
		let mut acts: Vec<(u64, u8)> = vec![(if net.pays.len() < max_pays { 3 } else { 0 }, 0), (if queues.is_empty() { 0 } else { 9 }, 1), (if fwd.is_empty() { 0 } else { 4 }, 2), (2, 3),
			(if cands.is_empty() { 0 } else { 4 }, 4), (if pend.is_empty() { 0 } else { 4 }, 5), (if pend.is_empty() { 0 } else { 1 }, 6),
			(if fwd.contains(&t) { 3 } else { 0 }, 7), (if can_fc { 1 } else { 0 }, 8)];
		acts.retain(|a| a.0 > 0);
		let total: u64 = acts.iter().map(|a| a.0).sum();
		let mut r = rng.below(total);
		let mut which = acts[0].1;
		for a in &acts { if r < a.0 { which = a.1; break; } r -= a.0; }
		let op = match which {
			0 => {
				let nr = if rng.chance(2, 3) { n_main } else { rts.len() as u64 };
				let (pn, pc) = rts[rng.below(nr) as usize];
				let amt = match rng.below(6) { 0 => 100_000 + rng.below(200_000), 1 => 1_000_000, _ => 1_000_000 + rng.below(40_000_000) };
				match net.send(pn, pc, amt, 70) { Ok(p) => format!("send#{} {:?} {}", p, pn, amt), Err(e) => format!("send-refused {}", e) }
			},
			1 => { let (i, j) = *rng.pick(&queues); let k = net.deliver(i, j).unwrap_or("-"); format!("deliver {}>{} {}", i, j, k) },
			2 => { let i = *rng.pick(&fwd); net.forward(i); format!("fwd {}", i) },
			3 => { let i = rng.below(n as u64) as usize; net.process_events(i); format!("events {}", i) },
			4 => {
				let p = *rng.pick(&cands);
				let to = net.pays[p].to; let h = net.pays[p].hash;
				net.claimable[to].retain(|c| c.0 != h);
				if rng.chance(4, 5) { sc.decided.push((p, true)); net.claim(p); format!("claim#{}", p) } else { sc.decided.push((p, false)); net.fail_back(p); format!("failback#{}", p) }
			},
			5 => { let (c, id) = *rng.pick(&pend); net.complete(t, c, id); format!("complete c{} {}", c, id) },
			6 => {
				let c = rng.pick(&pend).0;
				let p = net.pending_updates(t, c);
				for id in &p { net.complete(t, c, *id); }
				format!("complete-all c{} {:?}", c, p)
			},
			7 => { net.nodes[t].node.test_process_pending_update_add_htlcs(); net.pump(t); format!("decode {}", t) },
			_ => {
				// the application force-closes one of t's channels
				let cs = chans_of(net, t);
				let (ci, peer, cid) = cs[rng.below(cs.len() as u64) as usize];
				let _ = net.nodes[t].node.force_close_broadcasting_latest_txn(&cid, &net.ids[peer], "closed by the application".to_string());
				net.pump(t); net.process_events(t); force_closed = true;
				format!("force-close c{}", ci)
			},
		};
		sc.point(op);
	}
	(sc.net, sc.pts, sc.start_bal, sc.decided)
}

fn csv(v: &[u64]) -> String { if v.is_empty() { "-".into() } else { v.iter().map(|x| x.to_string()).collect::<Vec<_>>().join(",") } }

/// what the restart did, per channel of t
#[derive(Clone, Debug, PartialEq)]
enum Seen { Err(String), Ok(Vec<(bool, Vec<u64>, Option<u64>)>) } // (closed with OutdatedChannelManager, replayed ids, close update id)

fn observe_restart(net: &mut Net, t: usize, mgr: &[u8], mons: &[Vec<u8>], unblocked: &[u64]) -> Seen {
	let ev_before = net.events[t].len();
	let tr_before = net.trace.len();
	match net.restart_from(t, mgr, mons) {
		Err(e) => Seen::Err(e),
		Ok(()) => {
			let tr_after = net.trace.len();
			net.process_events(t);
			let mut out = vec![];
			for (k, (ci, _, cid)) in chans_of(net, t).into_iter().enumerate() {
				let closed = net.events[t][ev_before..].iter().any(|e| matches!(e, Event::ChannelClosed { channel_id, reason: ClosureReason::OutdatedChannelManager, .. } if *channel_id == cid));
				let mut replay = vec![];
				let mut close_id = None;
				for o in &net.trace[tr_before..tr_after] {
					if let Obs::Update { node, chan, id, kinds, .. } = o { if *node == t && *chan == ci {
						if kinds.iter().any(|k| *k == "ChannelForceClosed") { if close_id.is_none() { close_id = Some(*id); } }
						else if close_id.is_none() && *id <= unblocked[k] { replay.push(*id); }
					} }
				}
				out.push((closed, replay, if closed { close_id } else { None }));
			}
			Seen::Ok(out)
		},
	}
}

fn seen_line(s: &Seen, open_q: &[usize]) -> String {
	match s {
		Seen::Err(e) => if e.contains("DangerousValue") { "err".to_string() } else { format!("panic {}", e.replace('\n', " ").chars().take(120).collect::<String>()) },
		Seen::Ok(v) => format!("ok {}", open_q.iter().map(|k| &v[*k]).map(|(closed, replay, cid)| if *closed { format!("closed:{}:{}", csv(replay), cid.map(|x| x.to_string()).unwrap_or("none".into())) } else { format!("resumed:{}", csv(replay)) }).collect::<Vec<_>>().join(" ")),
	}
}

/// a known finding: every occurrence is counted, the first few per finding are reported (the failure list of a run is capped
/// and must stay available for anything that is NOT a known finding)
fn kf_fail(rec: &mut Rec, counts: &mut BTreeMap<String, u64>, text: String) {
	let id: String = text.chars().take(8).collect();
	let n = counts.entry(id).or_insert(0);
	*n += 1;
	if *n <= 4 { rec.oracle_fail(text); }
}

/// The reconstruct_manager_from_monitors reload path cannot be taken by a production build of this source
/// (RECONSTRUCT_HTLCS_FROM_CHANS_VERSION is None; the harness reaches it through hook H12).  On that path the read itself,
/// the closure of stale channels, stuck inbound HTLCs and sent-and-failed payments are judged like on the production path;
/// every other symptom is recorded as an anomaly in the run's notes, not as a violation of the property.
fn judge(rec: &mut Rec, anoms: &mut Vec<String>, not_judged: bool, text: String) { if not_judged { anoms.push(text); } else { rec.oracle_fail(text); } }

const KF5_TEXT: &str = "KF-C10-5 startup hands a released blocked ChannelMonitorUpdate to chain::Watch before the replay of an earlier in-flight update of the same channel: the MonitorUpdatesComplete background event of ANOTHER channel (all of its in-flight updates are already in its monitor) runs a completion action that releases the blocked update while the channel's own MonitorUpdateRegeneratedOnStartup is still queued (background-event order follows per_peer_state hash order, so it happens on some restarts only); ChannelMonitor::update_monitor panics 'Attempted to apply ChannelMonitorUpdates out of order' and the node cannot start";

const KF6_TEXT: &str = "stale-manager fail-back of a LIVE HTLC (what KF-C10-6 was before its repair; must never happen again): the read fails back (reason ChannelClosed) an HTLC of a channel it closes as OutdatedChannelManager although that channel's newer ChannelMonitor lists the same HTLC as committed to the counterparty and unresolved: the counterparty can still claim it on chain after the upstream HTLC was failed (forwarder loses the amount) / after PaymentFailed was reported";

/// Re-runs the scenario of world `w` in a fresh Net and restarts t a dozen times from the world's bytes with an ASYNCHRONOUS persister
/// (same reload path): Some(panic text, k of n) if any of the restarts panics, None if the node starts every time.
fn confirm_with_async_persister(seed: u64, topo: usize, flavor: u64, t: usize, async_t: bool, n_ops: usize, w: &World) -> Option<String> {
	let (mut net, wpts, _, _) = guarded(AssertUnwindSafe(|| run_scenario(seed, topo, flavor, t, async_t, n_ops, w.p))).ok()?;
	if wpts.len() != w.p + 1 { std::mem::forget(net); return None; }
	let n_ch = wpts[0].views.len();
	let mgr = if w.rebuild { wpts[w.q].mgr_rebuild.clone() } else { wpts[w.q].mgr.clone() };
	let mons: Vec<Vec<u8>> = (0..n_ch).map(|k| wpts[w.mon_pts[k]].mons[k].clone()).collect();
	{ use lightning::ln::msgs::BaseMessageHandler; for j in 0..net.nodes.len() { if j != t { net.nodes[j].node.peer_disconnected(net.ids[t]); } } }
	let (mut bad, mut first) = (0, String::new());
	vh::RELOAD_RECONSTRUCT_FROM_MONITORS.store(w.rebuild, std::sync::atomic::Ordering::Relaxed);
	for _ in 0..12 { if let Err(e) = probe_async_restart(&mut net, t, &mgr, &mons) { if bad == 0 { first = e.chars().take(110).collect(); } bad += 1; } }
	vh::RELOAD_RECONSTRUCT_FROM_MONITORS.store(false, std::sync::atomic::Ordering::Relaxed);
	std::mem::forget(net);
	if bad > 0 { Some(format!("{} of 12 restarts from the same bytes panic: {}", bad, first)) } else { None }
}

/// Diagnostic (VERIF_C10_ASYNC_PROBE=n): restart t from the given bytes with a persister that answers InProgress (the node
/// keeps persisting asynchronously across the restart — unlike Net::restart_from, which installs a synchronous one) and run the
/// startup background events; returns the panic text, if any.
fn probe_async_restart(net: &mut Net, t: usize, mgr: &[u8], mons: &[Vec<u8>]) -> Result<(), String> {
	use lightning::ln::functional_test_utils::_reload_node;
	use lightning::ln::msgs::BaseMessageHandler;
	use lightning::util::test_utils;
	let config = net.nodes[t].node.get_current_config();
	let persister: &'static test_utils::TestPersister = leak(test_utils::TestPersister::new());
	let node = &mut net.nodes[t];
	let cm: &'static test_utils::TestChainMonitor<'static> = leak(test_utils::TestChainMonitor::new(Some(node.chain_source), node.tx_broadcaster, node.logger, node.fee_estimator, persister, node.keys_manager));
	node.chain_monitor = cm;
	let refs: Vec<&[u8]> = mons.iter().map(|m| &m[..]).collect();
	let new_mgr = guarded(AssertUnwindSafe(|| _reload_node(node, config, mgr, &refs, None)))?;
	let new_mgr: &'static lightning::ln::functional_test_utils::TestChannelManager<'static, 'static> = leak(new_mgr);
	node.node = new_mgr;
	{ let mut q = persister.update_rets.lock().unwrap(); for _ in 0..64 { q.push_back(ChannelMonitorUpdateStatus::InProgress); } }
	node.chain_monitor.added_monitors.lock().unwrap().clear();
	guarded(AssertUnwindSafe(|| { let _ = new_mgr.get_and_clear_pending_msg_events(); }))
}

fn sum_value_to_self(net: &Net, n: usize) -> Option<u64> {
	let mut s = 0;
	for (_, peer, cid) in chans_of(net, n) { s += vh::channel_value_to_self_msat(net.nodes[n].node, &net.ids[peer], &cid)?; }
	Some(s)
}


/// A second, side-effect-free read of the same bytes (the resulting manager is only dumped, never run): the HTLC-level decisions the
/// read recorded (hook STARTUP_DECISIONS: failed_htlcs / pending_claims_to_replay) and the persisted-state dump of the manager it
/// built, BEFORE any background event is processed or any message exchanged.
fn pure_read(net: &Net, t: usize, mgr: &[u8], mons: &[Vec<u8>]) -> Result<(Vec<String>, Vec<String>), String> {
	use lightning::chain::{channelmonitor::ChannelMonitor, BlockLocator};
	use lightning::ln::channelmanager::ChannelManagerReadArgs;
	use lightning::ln::functional_test_utils::TestChannelManager;
	use lightning::util::ser::ReadableArgs;
	use lightning::util::test_channel_signer::TestChannelSigner;
	guarded(AssertUnwindSafe(|| {
		let node = &net.nodes[t];
		let mut monitors_read = vec![];
		for enc in mons { let mut r = &enc[..]; let (_, m) = <(BlockLocator, ChannelMonitor<TestChannelSigner>)>::read(&mut r, (node.keys_manager, node.keys_manager)).unwrap(); monitors_read.push(m); }
		let monitors_read: &'static Vec<ChannelMonitor<TestChannelSigner>> = leak(monitors_read);
		let args = ChannelManagerReadArgs::new(node.keys_manager, node.keys_manager, node.keys_manager, node.fee_estimator, node.chain_monitor, node.tx_broadcaster, node.router, node.message_router, node.logger,
			node.node.get_current_config(), monitors_read.iter().collect());
		let mut r = &mgr[..];
		let (_, m) = <(BlockLocator, TestChannelManager<'static, 'static>)>::read(&mut r, args).unwrap();
		let decisions = vh::STARTUP_DECISIONS.lock().unwrap().clone();
		let dump = vh::manager_persisted_state_dump(&m);
		std::mem::forget(m);
		(decisions, dump)
	}))
}

/// canonical numbering of channels (index in net.chans), payment ids and session keys (rank among those seen in this world)
struct Keys { chans: Vec<String>, pays: Vec<String>, privs: Vec<String> }
impl Keys {
	fn src(&self, key: &str) -> Option<String> {
		let mut it = key.split(':');
		match it.next()? {
			"prev" => { let a = it.next()?; let c = self.chans.iter().position(|n| n == a)?; Some(format!("p{}.{}", c, it.next()?)) },
			"route" => { let a = it.next()?; let b = it.next()?; let p = self.pays.iter().position(|n| n == a)?; let k = self.privs.iter().position(|n| n == b)?; Some(format!("r{}.{}", p, k)) },
			_ => None,
		}
	}
}
fn join_sorted(mut v: Vec<String>) -> String { v.sort(); if v.is_empty() { "-".into() } else { v.join(",") } }
/// `outbound <id> <State> .. privs=[a,b] ..` -> (id, R|F|A, auto-retryable now, session keys); None for a state the start-up model does not cover
fn parse_pay(line: &str) -> Option<(String, char, bool, Vec<String>)> {
	let mut it = line.split(' ');
	it.next()?; let id = it.next()?.to_string();
	let st = match it.next()? { "Retryable" => 'R', "Fulfilled" => 'F', "Abandoned" => 'A', _ => return None };
	let privs: Vec<String> = line.split("privs=[").nth(1)?.split(']').next()?.split(',').filter(|x| !x.is_empty()).map(|x| x.to_string()).collect();
	let auto = st == 'R' && (|| -> Option<bool> {
		let n: u64 = line.split("retry=Some(Attempts(").nth(1)?.split(')').next()?.parse().ok()?;
		let k: u64 = line.split(" attempts=").nth(1)?.split(' ').next()?.parse().ok()?;
		Some(n > k) })().unwrap_or(false);
	Some((id, st, auto, privs))
}

struct World { p: usize, q: usize, mon_pts: Vec<usize>, admissible: bool, rebuild: bool }

fn main() {
	let args = &parse_args("c10");
	silence_stdout();
	let mut rec = Rec::new(&args.out, &args.model);
	let probes_only = std::env::var("VERIF_C10_PROBES_ONLY").is_ok();
	let mut rng = Rng::new(args.seed);
	let trace_on = std::env::var("VERIF_TRACE").is_ok();
	let n_scen = if args.thorough { 22 } else { 11 } * args.scale as usize;
	let n_scen = if std::env::var("VERIF_C10_ONLY_CHAIN").is_ok() || probes_only { 0 } else { n_scen };
	let worlds_per_scen = if args.thorough { 200 } else { 70 }; // a leaked Net per world: memory bounds the thorough tier
	let mut n_worlds = 0u64; let mut n_adm = 0u64; let mut n_closed = 0u64; let mut n_replay = 0u64; let mut n_second = 0u64; let mut n_settled = 0u64;
	let mut nondet = 0u64; let mut late_panics = 0u64; let mut n_recon = 0u64; let (mut n_live_failed, mut n_dropped_listed, mut n_dropped_forgotten) = (0u64, 0u64, 0u64); let n_pre_pts = 0u64; let mut n_pre_kept = 0u64;
	let mut kf_counts: BTreeMap<String, u64> = BTreeMap::new();
	let mut anoms: Vec<String> = vec![]; let mut persister_switch = 0u64;
	for sc in 0..n_scen {
		let seed = rng.next();
		// even scenarios: line of 3 nodes; odd scenarios: 4 nodes, two inbound channels into node 2 (colliding HTLC ids)
		let topo = sc % 2;
		let t = if topo == 0 { match (sc / 2) % 4 { 0 | 1 => 1, 2 => 0, _ => 2 } } else if (sc / 2) % 5 == 4 { 0 } else { 2 };
		let flavor = if topo == 1 && t == 2 { [1u64, 2, 0, 1, 2][(sc / 2) % 5] } else if topo == 0 && t == 1 && sc >= 8 && (sc / 2) % 4 == 0 { 3 } else { 0 };
		let async_t = sc % 5 != 4;
		let nn = if topo == 0 { 3 } else { 4 };
		let n_ops = if args.thorough { 50 + rng.below(90) as usize } else { 40 + rng.below(50) as usize };
		// ---- reference run: all points, run-model tracking ops ------------------------------------
		let (net, pts, start_bal1, _) = match guarded(AssertUnwindSafe(|| run_scenario(seed, topo, flavor, t, async_t, n_ops, usize::MAX))) {
			Ok(x) => x,
			Err(p) => { rec.oracle_fail(format!("scenario {} (seed {}) panicked in honest operation: {}", sc, seed, p.chars().take(200).collect::<String>())); continue; },
		};
		if trace_on { eprintln!("=== scenario {} seed {} topo={} flavor={} t={} async={} points={}", sc, seed, topo, flavor, t, async_t, pts.len()); for (k, p) in pts.iter().enumerate() { eprintln!("  pt{} {} fwd={:?} dec={:?} {:?}", k, p.op, p.queued_fwd, p.queued_dec, p.views); } }
		if std::env::var("VERIF_TRACE").map(|v| v == "3").unwrap_or(false) { let mut pi = 0; for (k, o) in net.trace.iter().enumerate() { while pi < pts.len() && pts[pi].trace_len <= k { eprintln!("   -- pt{} {}", pi, pts[pi].op); pi += 1; } if !matches!(o, Obs::Balance { .. }) { eprintln!("      {}", fmt_obs(o)); } } }
		let my = chans_of(&net, t);
		// points of the reference run at which a preimage-only update was handed to chain::Watch under an id the channel had
		// already generated (it jumped ahead of blocked updates, whose ids were bumped)
		let mut jumps: Vec<Vec<usize>> = vec![vec![]; my.len()];
		for (k, (ci, _, _)) in my.iter().enumerate() { for pi in 1..pts.len() { if let Some(cprev) = pts[pi - 1].views[k].chan {
			for o in &net.trace[pts[pi - 1].trace_len..pts[pi].trace_len] { if let Obs::Update { node, chan, id, kinds, .. } = o { if *node == t && chan == ci && *id <= cprev[0] && *id > cprev[1] && cprev[5] > 0
				&& !kinds.iter().any(|s| s.starts_with("HolderCommitment") || s.starts_with("CounterpartyCommitment") || *s == "CommitmentSecret") { jumps[k].push(pi); } } }
		} } }
		track_run(&mut rec, sc, t, &net, &pts, &my);
		std::mem::forget(net);
		// ---- enumerate crash worlds -----------------------------------------------------------------
		let mut worlds: Vec<World> = vec![];
		for p in 0..pts.len() {
			// per channel: the distinct monitor ids available at points ≤ p (first point having each id)
			let mut per_chan: Vec<Vec<(usize, u64)>> = vec![];
			for k in 0..my.len() {
				let mut seen: BTreeMap<u64, usize> = BTreeMap::new();
				for pp in 0..=p { seen.entry(pts[pp].views[k].mon_id).or_insert(pp); }
				per_chan.push(seen.into_iter().map(|(id, pp)| (pp, id)).collect());
			}
			for q in 0..=p {
				if pts[q].views.iter().all(|v| v.chan.is_none()) { continue; }
				// admissible monitor choices: id ≥ durable prefix at p (a channel the manager of q no longer has: its latest monitor)
				let adm: Vec<Vec<usize>> = (0..my.len()).map(|k| if pts[q].views[k].chan.is_none() { vec![p] } else { per_chan[k].iter().filter(|(_, id)| *id >= pts[p].views[k].durable()).map(|(pp, _)| *pp).collect() }).collect();
				let mut combos: Vec<Vec<usize>> = vec![vec![]];
				for k in 0..my.len() { let mut n = vec![]; for c in &combos { for x in &adm[k] { let mut c2 = c.clone(); c2.push(*x); n.push(c2); } } combos = n; }
				for c in combos { worlds.push(World { p, q, mon_pts: c, admissible: true, rebuild: (p * 3 + q) % 4 == 0 }); }
				// one inadmissible world: some monitor older than what was reported complete
				let stale: Vec<(usize, usize)> = (0..my.len()).filter(|k| pts[q].views[*k].chan.is_some()).flat_map(|k| per_chan[k].iter().filter(|(_, id)| *id < pts[p].views[k].durable()).map(move |(pp, _)| (k, *pp)).collect::<Vec<_>>()).collect();
				if !stale.is_empty() && (q + p) % 3 == 0 {
					let (k, pp) = stale[(p * 7 + q) % stale.len()];
					let mut c: Vec<usize> = (0..my.len()).map(|_| p).collect(); c[k] = pp;
					worlds.push(World { p, q, mon_pts: c, admissible: false, rebuild: false });
				}
			}
		}
		// sample (quick): shuffle deterministically, then stratify — fresh manager (q = p), lagging but
		// not stale manager, stale manager, inadmissible — and keep at most two worlds per abstract world
		let mut wrng = Rng::new(seed ^ 0xC10);
		for i in (1..worlds.len()).rev() { let j = wrng.below(i as u64 + 1) as usize; worlds.swap(i, j); }
		if std::env::var("VERIF_C10_WORLD").is_err() {
			let key = |w: &World| -> String { let mut k = format!("{:?}{:?}", pts[w.q].queued_fwd, pts[w.q].queued_dec); for c in 0..my.len() { let v = &pts[w.q].views[c]; let m = &pts[w.mon_pts[c]].views[c]; k.push_str(&format!("{:?}/{:?}/{}|", v.chan, v.inflight, m.mon_id)); } k };
			// closed at load: the manager of q no longer has the channel, or its copy is older than the monitor copy
			let closed_at_load = |w: &World, c: usize| -> bool { match pts[w.q].views[c].chan { None => true, Some(x) => x[0] < pts[w.mon_pts[c]].views[c].mon_id } };
			// bucket 4 (directed): forwards are QUEUED in the manager copy for an inbound channel that stays open, and some other
			// channel is closed at load time (the reconciliation of queued forwards with closed channels' monitors is exercised)
			let bucket = |w: &World| -> usize {
				if !w.admissible { return 3; }
				let queued_open = pts[w.q].queued_fwd.iter().chain(pts[w.q].queued_dec.iter()).any(|(ci, _)| my.iter().position(|m| m.0 == *ci).map(|k| !closed_at_load(w, k)).unwrap_or(false));
				// bucket 5 (directed): ... and a closed channel's monitor copy lists, as already forwarded, an HTLC with the SAME id from a
				// DIFFERENT inbound channel, while the queued one itself is not listed (HTLC ids collide across inbound channels)
				let closed_hops: Vec<(usize, u64)> = (0..my.len()).filter(|c| closed_at_load(w, *c)).flat_map(|c| pts[w.mon_pts[c]].views[c].prev_hops.clone()).collect();
				let collision = pts[w.q].queued_fwd.iter().chain(pts[w.q].queued_dec.iter()).any(|(ci, id)| my.iter().position(|m| m.0 == *ci).map(|k| !closed_at_load(w, k)).unwrap_or(false)
					&& !closed_hops.contains(&(*ci, *id)) && closed_hops.iter().any(|(cj, idj)| idj == id && cj != ci));
				// bucket 6 (directed): some monitor copy of the world carries the PREIMAGE of a forwarded HTLC (pending_claims_to_replay is not empty
				// unless the inbound edge has nothing claimable)
				let has_preimage = (0..my.len()).any(|c| pts[w.mon_pts[c]].extras[c].mon_htlcs.iter().any(|l| l.starts_with("prev:") && l.ends_with("preimage=1")));
				if collision { 5 }
				else if queued_open && (0..my.len()).any(|c| closed_at_load(w, c)) { 4 }
				else if has_preimage { 6 }
				else if (0..my.len()).any(|c| closed_at_load(w, c)) { 2 } else if w.q == w.p { 0 } else { 1 }
			};
			let quota = [worlds_per_scen * 5 / 20, worlds_per_scen * 5 / 20, worlds_per_scen * 3 / 20, worlds_per_scen * 3 / 20, worlds_per_scen * 2 / 20, worlds_per_scen * 2 / 20, worlds_per_scen * 2 / 20];
			let mut taken = [0usize; 7];
			let mut per_key: BTreeMap<String, usize> = BTreeMap::new();
			let mut keep = vec![]; let mut rest = vec![];
			for w in worlds.drain(..) {
				let b = bucket(&w); let k = key(&w);
				let n = per_key.entry(k).or_insert(0);
				if taken[b] < quota[b] && *n < (if b >= 4 { 4 } else { 2 }) { taken[b] += 1; *n += 1; if b == 6 { n_pre_kept += 1; } keep.push(w); } else { rest.push(w); }
			}
			for w in rest { if keep.len() >= worlds_per_scen { break; } keep.push(w); }
			worlds = keep;
		}
		let only = std::env::var("VERIF_C10_WORLD").ok();
		for w in &worlds {
			if let Some(o) = &only { if *o != format!("{}:{}:{}:{}", sc, w.p, w.q, w.mon_pts.iter().map(|x| x.to_string()).collect::<Vec<_>>().join("-")) { continue; } }
			n_worlds += 1;
			let tag = format!("scenario {} seed {} topo={} flavor={} t={} async={} world(p={} [{}], manager of q={}, monitors of {:?}{}{})", sc, seed, topo, flavor, t, async_t, w.p, pts[w.p].op, w.q, w.mon_pts, if w.rebuild { ", reload path reconstruct_manager_from_monitors" } else { "" }, if w.admissible { "" } else { ", INADMISSIBLE: a monitor older than an update reported complete" });
			let r = guarded(AssertUnwindSafe(|| run_scenario(seed, topo, flavor, t, async_t, n_ops, w.p)));
			let (mut net, wpts, _, decided) = match r { Ok(x) => x, Err(e) => { rec.oracle_fail(format!("{}: re-run panicked: {}", tag, e.chars().take(160).collect::<String>())); continue; } };
			// the re-run must have reached the same durable points (hash-map iteration order may differ between runs)
			if wpts.len() != w.p + 1 || (0..=w.p).any(|k| wpts[k].views != pts[k].views || wpts[k].queued_fwd != pts[k].queued_fwd || wpts[k].queued_dec != pts[k].queued_dec) { nondet += 1; rec.discarded += 1; std::mem::forget(net); continue; }
			let mgr = if w.rebuild { &wpts[w.q].mgr_rebuild } else { &wpts[w.q].mgr };
			let mons: Vec<Vec<u8>> = (0..my.len()).map(|k| wpts[w.mon_pts[k]].mons[k].clone()).collect();
			let qv = &wpts[w.q].views;
			let mv: Vec<&ChanView> = (0..my.len()).map(|k| &wpts[w.mon_pts[k]].views[k]).collect();
			let open_q: Vec<usize> = (0..my.len()).filter(|k| qv[*k].chan.is_some()).collect();
			let mut op = format!("reload {}", open_q.len());
			for &k in &open_q { let c = qv[k].chan.unwrap(); op.push_str(&format!(" {} {} {} {} {} {} {} {} {} {}", c[0], c[1], c[2], c[3], c[4], csv(&qv[k].inflight), mv[k].mon_id, mv[k].mon[0], mv[k].mon[1], mv[k].mon[2])); }
			let unblocked: Vec<u64> = qv.iter().map(|v| v.chan.map(|c| c[1]).unwrap_or(0)).collect();
			if let Some(n) = std::env::var("VERIF_C10_ASYNC_PROBE").ok().and_then(|x| x.parse::<usize>().ok()) {
				{ use lightning::ln::msgs::BaseMessageHandler; for j in 0..net.nodes.len() { if j != t { net.nodes[j].node.peer_disconnected(net.ids[t]); } } }
				let mut res: BTreeMap<String, usize> = BTreeMap::new();
				for _ in 0..n { let r = probe_async_restart(&mut net, t, mgr, &mons); *res.entry(match r { Ok(()) => "started".to_string(), Err(e) => e.chars().take(90).collect() }).or_insert(0) += 1; }
				eprintln!("ASYNC-PROBE {} :: {:?}", tag, res);
				std::mem::forget(net); continue;
			}
			let trace_mark = net.trace.len();
			vh::RELOAD_RECONSTRUCT_FROM_MONITORS.store(w.rebuild, std::sync::atomic::Ordering::Relaxed);
			let seen = match guarded(AssertUnwindSafe(|| observe_restart(&mut net, t, mgr, &mons, &unblocked))) { Ok(s) => s, Err(e) => Seen::Err(format!("PANIC {}", e)) };
			vh::RELOAD_RECONSTRUCT_FROM_MONITORS.store(false, std::sync::atomic::Ordering::Relaxed);
			let line = seen_line(&seen, &open_q);
			// KF-C10-5 pattern: a channel with a blocked update AND an in-flight update its monitor copy does not contain yet (a replay is
			// pending), while another channel's in-flight updates are all in its monitor copy (its MonitorUpdatesComplete runs completion actions)
			let kf5_pattern = open_q.iter().any(|&k| qv[k].chan.unwrap()[5] > 0 && qv[k].inflight.iter().max().map(|m| mv[k].mon_id < *m).unwrap_or(false))
				&& open_q.iter().any(|&j| qv[j].inflight.iter().max().map(|m| mv[j].mon_id >= *m).unwrap_or(false));
			// A panic of the startup background events (after a successful read) in a world of an asynchronously persisting node:
			// Net::restart_from installs a SYNCHRONOUS persister, so a replayed update completes at once and completion actions run that an
			// asynchronous persister would not have triggered yet.  Re-run the world and restart with an asynchronous persister instead:
			// if the node then starts every time the panic is an artifact of the harness (discarded, counted); if it still panics it is
			// the implementation (the reload decision itself cannot be observed in either case: no op line).
			if let Seen::Err(e) = &seen { if w.admissible && async_t && (e.contains("returned Completed while prior updates are still InProgress") || e.contains("Attempted to apply ChannelMonitorUpdates out of order")) {
				std::mem::forget(net);
				match confirm_with_async_persister(seed, topo, flavor, t, async_t, n_ops, w) {
					Some(text) => { if kf5_pattern { let m = format!("{} :: {} [{}] :: with an asynchronous persister after the restart: {}", KF5_TEXT, tag, op, text); if w.rebuild { anoms.push(m); } else { kf_fail(&mut rec, &mut kf_counts, m); } } else { judge(&mut rec, &mut anoms, false, format!("{}: restart from durable state FAILED (also when the node keeps its asynchronous persister: {}) [{}]", tag, text, op)); } },
					None => { persister_switch += 1; rec.discarded += 1; },
				}
				continue;
			} }
			let lag = qv.iter().zip(mv.iter()).any(|(a, b)| a.chan.map(|c| c[0] < b.mon_id).unwrap_or(false));
			let has_replay = matches!(&seen, Seen::Ok(v) if v.iter().any(|x| !x.1.is_empty()));
			let class = format!("{}{}:{}{}{}", if w.admissible { "admissible" } else { "stale-monitor" }, if w.rebuild { "/rebuild" } else { "" }, match &seen { Seen::Err(_) => "err", Seen::Ok(v) if v.iter().any(|x| x.0) => "closed", _ => "resumed" },
				if has_replay { "+replay" } else { "" }, if w.q < w.p && !lag { "+lagging-manager" } else { "" });
			let pre_closed: Vec<bool> = qv.iter().map(|v| v.chan.is_none()).collect();
			if !w.admissible && line.starts_with("panic") { late_panics += 1; rec.discarded += 1; std::mem::forget(net); continue; } // the read succeeded, a later step choked on the stale monitor
			rec.case(&op, &line, &class, true);
			if trace_on { eprintln!("  W {} {} => {}   ## {}", class, op, line, tag); }
			if !w.admissible { std::mem::forget(net); continue; }
			n_adm += 1;
			// ---- oracles ---------------------------------------------------------------------------------
			let chans = match &seen {
				Seen::Err(e) => { rec.oracle_fail(format!("{}: restart from durable state FAILED: {} [{}]", tag, e.chars().take(160).collect::<String>(), op)); std::mem::forget(net); continue; },
				Seen::Ok(v) => v.clone(),
			};
			if has_replay { n_replay += 1; }
			// ---- reconciliation of queued forwards with the monitors of the channels that are closed at load time (legacy reload
			// path): what the manager copy had queued, what those monitors list as forwarded, what is still queued after the read
			// KF-C10-4 pattern (reconstruct_manager_from_monitors reload path only): right after the read the same inbound HTLC is
			// waiting to be decoded twice — once rebuilt from the channel's committed inbound HTLCs, once released from
			// monitor_pending_update_adds when the in-flight monitor update it was waiting for completes
			let kf4 = w.rebuild && { let (_, d) = queued_of(&net, t); d.windows(2).any(|x| x[0] == x[1]) };
			let kf4_text = "OBS-C10-4 reconstruct_manager_from_monitors reload path (not the production path) decodes an inbound HTLC twice: the manager was written while the HTLC's revoke_and_ack monitor update was in progress, the read rebuilds it from the channel's committed inbound HTLCs and monitor_updating_restored releases it again from monitor_pending_update_adds; it is forwarded twice";
			if !w.rebuild {
				let refs = |v: &Vec<(usize, u64)>| -> String { if v.is_empty() { "-".into() } else { v.iter().map(|(c, i)| format!("{}:{}", c, i)).collect::<Vec<_>>().join(",") } };
				let mut mons_h: Vec<(usize, u64)> = vec![];
				for k in 0..my.len() { if pre_closed[k] || chans[k].0 { mons_h.extend(mv[k].prev_hops.iter().cloned()); } }
				mons_h.sort(); mons_h.dedup();
				let q0 = &wpts[w.q];
				// (an inbound HTLC that was still waiting for a monitor update at q may enter the queues during the restart: not compared)
				let (kept_f, kept_d) = { let (f, d) = queued_of(&net, t); (f.into_iter().filter(|x| q0.queued_fwd.contains(x)).collect::<Vec<_>>(), d.into_iter().filter(|x| q0.queued_dec.contains(x)).collect::<Vec<_>>()) };
				if !(q0.queued_fwd.is_empty() && q0.queued_dec.is_empty()) {
					let collide = q0.queued_fwd.iter().chain(q0.queued_dec.iter()).any(|(c, i)| mons_h.iter().any(|(mc, mi)| mi == i && mc != c));
					let hit = q0.queued_fwd.iter().chain(q0.queued_dec.iter()).any(|x| mons_h.contains(x));
					rec.case(&format!("reconcile {} {} {}", refs(&q0.queued_fwd), refs(&q0.queued_dec), refs(&mons_h)), &format!("{} | {}", refs(&kept_f), refs(&kept_d)),
						&format!("reconcile:{}{}{}", if mons_h.is_empty() { "no-closed-monitor-htlc" } else { "closed-monitor-htlcs" }, if hit { "+already-forwarded" } else { "" }, if collide { "+id-collision-across-channels" } else { "" }), true);
					if trace_on { eprintln!("    reconcile {} {} {} => {} | {}", refs(&q0.queued_fwd), refs(&q0.queued_dec), refs(&mons_h), refs(&kept_f), refs(&kept_d)); }
				}
			}
			// ---- reconstruction layer (production reload path): the model's predictions (Restart.claims / fails / paysAfter / bgEvents) against a
			// second, side-effect-free read of the same bytes, BEFORE any background event runs or any message is exchanged
			if !w.rebuild { if let Ok((decisions, dump)) = pure_read(&net, t, mgr, &mons) {
				n_recon += 1;
				let q0 = &wpts[w.q];
				let ex: Vec<&Extra> = (0..my.len()).map(|k| &wpts[w.mon_pts[k]].extras[k]).collect();
				let mut keys = Keys { chans: net.chans.iter().map(|c| format!("{}", c.2)).collect(), pays: vec![], privs: vec![] };
				let post_pays: Vec<String> = dump.iter().filter(|l| l.starts_with("outbound ")).cloned().collect();
				{
					let mut add = |k: &str| { let mut it = k.split(' ').next().unwrap_or("").split(':'); if it.next() == Some("route") { if let (Some(a), Some(b)) = (it.next(), it.next()) { keys.pays.push(a.to_string()); keys.privs.push(b.to_string()); } } };
					for k in 0..my.len() { for l in ex[k].mon_htlcs.iter().chain(ex[k].onchain_failed.iter()).chain(q0.extras[k].chan_htlcs.iter()) { add(l); } }
					for l in decisions.iter() { add(l.split(' ').nth(1).unwrap_or("")); }
				}
				let parsed_q: Vec<Option<(String, char, bool, Vec<String>)>> = q0.pays.iter().map(|l| parse_pay(l)).collect();
				let parsed_post: Vec<Option<(String, char, bool, Vec<String>)>> = post_pays.iter().map(|l| parse_pay(l)).collect();
				for p in parsed_q.iter().chain(parsed_post.iter()).flatten() { keys.pays.push(p.0.clone()); for k in &p.3 { keys.privs.push(k.clone()); } }
				keys.pays.sort(); keys.pays.dedup(); keys.privs.sort(); keys.privs.dedup();
				let covered = parsed_q.iter().chain(parsed_post.iter()).all(|p| p.is_some())
					&& (0..my.len()).all(|k| ex[k].mon_htlcs.iter().chain(ex[k].onchain_failed.iter()).chain(q0.extras[k].chan_htlcs.iter()).all(|l| keys.src(l.split(' ').next().unwrap_or("")).is_some()));
				if covered {
					let srcs = |v: Vec<String>| -> String { if v.is_empty() { "-".into() } else { v.join(",") } };
					let mut op2 = format!("recon {}", my.len());
					for k in 0..my.len() {
						let wtok = match qv[k].chan { Some(c) => format!("{}/{}/{}/{}/{}/{}/{}/{}/{}/{}", c[0], c[1], c[2], c[3], c[4], csv(&qv[k].inflight), mv[k].mon_id, mv[k].mon[0], mv[k].mon[1], mv[k].mon[2]), None => "-".into() };
						let mon: Vec<String> = ex[k].mon_htlcs.iter().map(|l| format!("{}:{}", keys.src(l.split(' ').next().unwrap()).unwrap(), if l.ends_with("preimage=1") { 1 } else { 0 })).collect();
						let onch: Vec<String> = ex[k].onchain_failed.iter().map(|l| keys.src(l).unwrap()).collect();
						let pend: Vec<String> = q0.extras[k].chan_htlcs.iter().filter(|l| l.ends_with("kind=pending")).map(|l| keys.src(l.split(' ').next().unwrap()).unwrap()).collect();
						let drop: Vec<String> = q0.extras[k].chan_htlcs.iter().filter(|l| !l.ends_with("kind=pending")).map(|l| keys.src(l.split(' ').next().unwrap()).unwrap()).collect();
						op2.push_str(&format!(" {} {} {} {} {} {} {}", my[k].0, wtok, ex[k].balances_empty as u8, srcs(mon), srcs(onch), srcs(pend), srcs(drop)));
					}
					let payline = |v: &Vec<Option<(String, char, bool, Vec<String>)>>, with_auto: bool| -> String { join_sorted(v.iter().flatten().map(|p| {
						let mut pr: Vec<usize> = p.3.iter().map(|k| keys.privs.iter().position(|x| x == k).unwrap()).collect(); pr.sort();
						let prs = if pr.is_empty() { "-".to_string() } else { pr.iter().map(|x| x.to_string()).collect::<Vec<_>>().join(";") };
						if with_auto { format!("{}:{}:{}:{}", keys.pays.iter().position(|x| *x == p.0).unwrap(), p.1, p.2 as u8, prs) } else { format!("{}:{}:{}", keys.pays.iter().position(|x| *x == p.0).unwrap(), p.1, prs) } }).collect()) };
					op2.push_str(&format!(" {}", payline(&parsed_q, true)));
					let cl: Vec<String> = decisions.iter().filter(|l| l.starts_with("claim ")).map(|l| { let mut it = l.split(' '); it.next(); let src = keys.src(it.next().unwrap_or("")).unwrap_or("?".into());
						let ds = it.next().unwrap_or("").trim_start_matches("downstream=").to_string(); let closed = it.next().unwrap_or("") == "closed=true";
						format!("{}@{}:{}", src, keys.chans.iter().position(|n| *n == ds).map(|x| x.to_string()).unwrap_or("?".into()), closed as u8) }).collect();
					let fl: Vec<String> = decisions.iter().filter(|l| l.starts_with("fail ")).map(|l| { let src = keys.src(l.split(' ').nth(1).unwrap_or("")).unwrap_or("?".into());
						format!("{}:{}", src, if l.ends_with("reason=ChannelClosed") { "C" } else if l.ends_with("reason=OnChainTimeout") { "O" } else { "?" }) }).collect();
					let count = |v: &Vec<String>, pat: &str| v.iter().filter(|l| l.starts_with("event #") && l.contains(pat)).count();
					let post_evs: Vec<String> = dump.iter().filter(|l| l.starts_with("event #")).cloned().collect();
					// PaymentSent / PaymentFailed generated by the read, BY CONTENT: the payments (canonical index) of the events in the rebuilt
					// manager's queue minus those the manager copy already had queued (multiset difference)
					let ev_ids = |v: &Vec<String>, pat: &str| -> Vec<usize> { let mut o: Vec<usize> = v.iter().filter(|l| l.starts_with("event #") && l.contains(pat)).filter_map(|l| keys.pays.iter().position(|id| l.contains(id.as_str()))).collect(); o.sort(); o };
					let gen_ids = |pat: &str| -> String { let mut post = ev_ids(&post_evs, pat); for x in ev_ids(&q0.evq, pat) { if let Some(i) = post.iter().position(|y| *y == x) { post.remove(i); } }
						if post.is_empty() { "-".to_string() } else { post.iter().map(|x| x.to_string()).collect::<Vec<_>>().join(";") } };
					let _ = &count;
					let ans = format!("claims={} fails={} pays={} evs=s{},f{}", join_sorted(cl), join_sorted(fl), payline(&parsed_post, false), gen_ids(" PaymentSent {"), gen_ids(" PaymentFailed {"));
					let any_cl = decisions.iter().any(|l| l.starts_with("claim ")); let any_fl = decisions.iter().any(|l| l.starts_with("fail "));
					rec.case(&op2, &ans, &format!("recon:{}{}{}", if any_cl { "claims" } else { "no-claim" }, if any_fl { "+fails" } else { "" }, if chans.iter().any(|c| c.0) { "+stale-closed" } else { "" }), any_cl || any_fl || !post_pays.is_empty());
					if trace_on { eprintln!("    {} => {}", op2, ans); }
				} else { rec.discarded += 1; if trace_on { eprintln!("    recon NOT COVERED pays_q={:?} post={:?} ex={:?} chan={:?} keys={:?}/{:?}", q0.pays, post_pays, ex, q0.extras.iter().map(|e| &e.chan_htlcs).collect::<Vec<_>>(), keys.pays, keys.privs); } }
				// HARD oracle (implementation-side, independent of the Lean model; this was KF-C10-6 until /repo's fix of from_channel_manager_data):
				// the read must not fail an HTLC back (reason ChannelClosed) while the monitor copy of a channel it closes as OutdatedChannelManager
				// still lists the very same HTLC source as an outbound HTLC of the counterparty's commitment(s), without preimage and not replayed
				// as a claim — the counterparty could still claim it on chain.  Any hit is a VIOLATION (at most 4 are listed).
				for l in decisions.iter().filter(|l| l.starts_with("fail ") && l.ends_with("reason=ChannelClosed")) {
					let key = l.split(' ').nth(1).unwrap_or("");
					let claimed = decisions.iter().any(|c| c.starts_with("claim ") && c.split(' ').nth(1) == Some(key));
					for k in 0..my.len() { if chans[k].0 && !claimed && ex[k].mon_htlcs.iter().any(|m| m.split(' ').next() == Some(key) && m.ends_with("preimage=0")) {
						n_live_failed += 1;
						if n_live_failed <= 4 { rec.oracle_fail(format!("{} :: {} [{}] :: channel {} is closed as OutdatedChannelManager, its monitor copy (update id {}) lists {} as a pending outbound HTLC (no preimage), the manager copy (update id {}) has it in the holding cell / as a blocked LocalAnnounced HTLC ({}) and the read decides `{}`{}",
							KF6_TEXT, tag, op, my[k].0, mv[k].mon_id, keys.src(key).unwrap_or(key.to_string()), qv[k].chan.map(|c| c[0]).unwrap_or(0),
							wpts[w.q].extras[k].chan_htlcs.iter().find(|h| h.split(' ').next() == Some(key)).map(|h| h.split(' ').last().unwrap_or("")).unwrap_or("not listed"), l.split(' ').filter(|x| !x.starts_with("hash=")).collect::<Vec<_>>().join(" "),
							if key.starts_with("route:") { " (own payment: PaymentFailed is generated)" } else { " (forwarded HTLC: update_fail_htlc goes upstream)" })); }
					} }
				}
				// the situation the repair is about, counted: force_shutdown DROPPED an HTLC (holding-cell add / blocked LocalAnnounced) of a channel closed
				// as OutdatedChannelManager and the newer monitor copy lists it (=> it must be left to the monitor) / does not list it (=> failed back)
				for k in 0..my.len() { if chans[k].0 { for h in wpts[w.q].extras[k].chan_htlcs.iter().filter(|h| !h.ends_with("kind=pending")) {
					let key = h.split(' ').next().unwrap_or("");
					if ex[k].mon_htlcs.iter().any(|m| m.split(' ').next() == Some(key)) { n_dropped_listed += 1; } else { n_dropped_forgotten += 1; }
				} } }
				// wake-up events of every RESUMED channel
				for &k in &open_q { if !chans[k].0 {
					let c = qv[k].chan.unwrap(); let hexid = format!("{}", my[k].2);
					let bg: Vec<&String> = dump.iter().filter(|l| l.starts_with("background ") && l.contains(&hexid)).collect();
					let muc = bg.iter().find(|l| l.contains("MonitorUpdatesComplete")).and_then(|l| l.split("highest_update_id_completed: ").nth(1)).and_then(|x| x.trim_end_matches(|ch: char| !ch.is_ascii_digit()).parse::<u64>().ok());
					let mut regen: Vec<u64> = bg.iter().filter(|l| l.contains("MonitorUpdateRegeneratedOnStartup")).filter_map(|l| l.split("update_id=").nth(1).and_then(|x| x.parse::<u64>().ok())).filter(|id| *id <= c[1]).collect(); regen.sort();
					let unb = bg.iter().any(|l| l.contains("AttemptUnblockMonitorUpdates"));
					let first = match muc { Some(id) => format!("muc:{}", id), None => if regen.is_empty() { "none".to_string() } else { format!("regen:{}", csv(&regen)) } };
					rec.case(&format!("bgev {} {} {} {}", c[0], c[1], csv(&qv[k].inflight), mv[k].mon_id), &format!("{} unblock:{}", first, unb as u8),
						&format!("bgev:{}{}{}", if muc.is_some() { "muc" } else if regen.is_empty() { "none" } else { "regen" }, if unb { "+unblock" } else { "" }, if c[5] > 0 { "+blocked-at-write" } else { "" }), true);
				} }
			} }
			// KF-C10-3 pattern: the manager copy holds blocked updates, the channel is resumed with a monitor copy past the manager's
			// released id (so blocked updates are dropped as completed), and between the manager write and that monitor copy a
			// preimage update jumped ahead of the blocked ones (their ids were bumped): same id, different content
			let kf3 = open_q.iter().any(|&k| { let c = qv[k].chan.unwrap(); c[5] > 0 && !chans[k].0 && mv[k].mon_id > c[1] && jumps[k].iter().any(|j| w.q < *j && *j <= w.mon_pts[k]) });
			let kf3_text = "KF-C10-3 blocked monitor update dropped although the monitor never received it: a preimage update took the blocked update's id after the manager was written (ids of blocked updates are renumbered), so manager and monitor agree on the id but not on the content; on_startup_drop_completed_blocked_mon_updates_through discards the held revoke_and_ack update and the monitor permanently misses that revocation secret / counterparty commitment";
			// the application force-closed a channel before the crash: peers may have closed it too, whatever was persisted
			let mut any_closed = wpts.iter().any(|x| x.op.starts_with("force-close"));
			for k in 0..my.len() {
				if pre_closed[k] { any_closed = true; continue; } // closed before the manager was written
				let older = qv[k].chan.unwrap()[0] < mv[k].mon_id;
				if chans[k].0 { any_closed = true; }
				if older && !chans[k].0 { rec.oracle_fail(format!("{}: channel {} has manager update id {} < monitor update id {} but was NOT closed with OutdatedChannelManager [{}]", tag, my[k].0, qv[k].chan.unwrap()[0], mv[k].mon_id, op)); }
				let listed = net.nodes[t].node.list_channels().iter().any(|c| c.channel_id == my[k].2);
				if chans[k].0 && listed { rec.oracle_fail(format!("{}: channel {} closed with OutdatedChannelManager but still listed (resumed) [{}]", tag, my[k].0, op)); }
				if !chans[k].0 && !listed { rec.oracle_fail(format!("{}: channel {} neither closed with OutdatedChannelManager nor listed after the restart [{}]", tag, my[k].0, op)); }
			}
			if any_closed { n_closed += 1; }
			// second crash during recovery
			let mut mon2_ids: Option<Vec<u64>> = None;
			let mut closed2: Vec<bool> = vec![false; my.len()];
			if (w.p + w.q) % 2 == 0 && std::env::var("VERIF_C10_NO_SECOND").is_err() {
				n_second += 1;
				let same_mons = (w.p + w.q) % 4 == 0;
				let mons2: Vec<Vec<u8>> = if same_mons { mons.clone() } else { my.iter().map(|(_, _, cid)| net.nodes[t].chain_monitor.chain_monitor.get_monitor(*cid).unwrap().encode()).collect() };
				if !same_mons { mon2_ids = Some(my.iter().map(|(_, _, cid)| net.nodes[t].chain_monitor.chain_monitor.get_monitor(*cid).unwrap().get_latest_update_id()).collect()); }
				vh::RELOAD_RECONSTRUCT_FROM_MONITORS.store(w.rebuild, std::sync::atomic::Ordering::Relaxed);
				let seen2 = match guarded(AssertUnwindSafe(|| observe_restart(&mut net, t, mgr, &mons2, &unblocked))) { Ok(s) => s, Err(e) => Seen::Err(format!("PANIC {}", e)) };
				vh::RELOAD_RECONSTRUCT_FROM_MONITORS.store(false, std::sync::atomic::Ordering::Relaxed);
				match &seen2 {
					Seen::Err(e) => { if async_t && (e.contains("returned Completed while prior updates are still InProgress") || e.contains("Attempted to apply ChannelMonitorUpdates out of order")) {
						std::mem::forget(net);
						match confirm_with_async_persister(seed, topo, flavor, t, async_t, n_ops, w) {
							Some(text) => { if kf5_pattern { let m = format!("{} :: {} [{}] :: second restart; with an asynchronous persister after the restart: {}", KF5_TEXT, tag, op, text); if w.rebuild { anoms.push(m); } else { kf_fail(&mut rec, &mut kf_counts, m); } } else { judge(&mut rec, &mut anoms, false, format!("{}: SECOND restart from durable state FAILED (also when the node keeps its asynchronous persister: {}) [{}]", tag, text, op)); } },
							None => { persister_switch += 1; },
						}
						continue;
					} judge(&mut rec, &mut anoms, w.rebuild, format!("{}: SECOND restart ({}) failed: {}", tag, if same_mons { "same monitors" } else { "monitors after replay" }, e.chars().take(160).collect::<String>())); std::mem::forget(net); continue; },
					Seen::Ok(v2) => {
						for k in 0..my.len() {
							// fresh updates generated during the first recovery and persisted make the (unchanged) manager older than its monitor
							if pre_closed[k] { continue; }
							let newer = mon2_ids.as_ref().map(|m| m[k] > qv[k].chan.unwrap()[0]).unwrap_or(false);
							if newer && v2[k].0 && !chans[k].0 { closed2[k] = true; continue; }
							if v2[k].0 != chans[k].0 { judge(&mut rec, &mut anoms, w.rebuild, format!("{}: second restart ({}) closed={} but first closed={} for channel {}", tag, if same_mons { "same monitors" } else { "monitors after replay" }, v2[k].0, chans[k].0, my[k].0)); }
							if same_mons && v2[k] != chans[k] { judge(&mut rec, &mut anoms, w.rebuild, format!("{}: second restart from identical bytes differs: {:?} vs {:?}", tag, v2[k], chans[k])); }
							if !same_mons && !v2[k].0 && !v2[k].1.is_empty() { judge(&mut rec, &mut anoms, w.rebuild, format!("{}: second restart after the replayed updates were persisted replays again: {:?}", tag, v2[k].1)); }
						}
					},
				}
			}
			let chans: Vec<(bool, Vec<u64>, Option<u64>)> = chans.iter().enumerate().map(|(k, c)| (c.0 || closed2[k], c.1.clone(), c.2)).collect();
			let any_closed = any_closed || closed2.iter().any(|x| *x);
			// continue to settlement
			let fin = guarded(AssertUnwindSafe(|| {
				for (_, peer, _) in chans_of(&net, t) { net.reconnect(t, peer); }
				for round in 0..12 {
					net.settle(8);
					let mut did = false;
					// the application retries the decisions it took before the crash until it sees them take effect
					if round < 3 { for (p, claim) in &decided { if net.pays[*p].to == t {
						let h = net.pays[*p].hash;
						let seen = net.events[t].iter().any(|e| matches!(e, Event::PaymentClaimed { payment_hash, .. } if *payment_hash == h));
						if *claim && !seen { net.claim(*p); did = true; } else if !*claim && round == 0 { net.fail_back(*p); did = true; }
					} } }
					for p in 0..net.pays.len() { let to = net.pays[p].to; let h = net.pays[p].hash; if net.claimable[to].iter().any(|c| c.0 == h) { net.claimable[to].retain(|c| c.0 != h); net.claim(p); did = true; } }
					if !did && net.any_queued().is_none() { break; }
				}
				net.settle(8);
			}));
			if let Err(e) = fin {
				if kf4 { judge(&mut rec, &mut anoms, true, format!("{} :: {} [{}] :: panic while settling after the restart: {}", kf4_text, tag, op, e.chars().take(120).collect::<String>())); }
				else if kf3 { kf_fail(&mut rec, &mut kf_counts, format!("{} :: {} [{}] :: panic while settling after the restart: {}", kf3_text, tag, op, e.chars().take(120).collect::<String>())); }
				else { judge(&mut rec, &mut anoms, w.rebuild, format!("{}: panic while settling after the restart: {}", tag, e.chars().take(200).collect::<String>())); }
				std::mem::forget(net); continue;
			}
			n_settled += 1;
			if std::env::var("VERIF_C10_PROBE").is_ok() {
				let stuck = (0..nn).any(|i| net.nodes[i].node.list_channels().iter().any(|c| !c.pending_inbound_htlcs.is_empty() || !c.pending_outbound_htlcs.is_empty()));
				if stuck {
					for (ci, _, cid) in chans_of(&net, t) { let id = net.nodes[t].chain_monitor.chain_monitor.get_monitor(cid).unwrap().get_latest_update_id(); net.complete(t, ci, id); }
					for _ in 0..6 { net.settle(8); for p in 0..net.pays.len() { let to = net.pays[p].to; let h = net.pays[p].hash; if net.claimable[to].iter().any(|c| c.0 == h) { net.claimable[to].retain(|c| c.0 != h); net.claim(p); } } }
					let stuck2 = (0..nn).any(|i| net.nodes[i].node.list_channels().iter().any(|c| !c.pending_inbound_htlcs.is_empty() || !c.pending_outbound_htlcs.is_empty()));
					eprintln!("PROBE: stuck before; after a spurious channel_monitor_updated at t: stuck={}", stuck2);
				}
			}
			// KF-C10-1 pattern: the manager was written while monitor updates were blocked and none was in flight, and the
			// monitor on disk already contains every one of those blocked updates
			let kf1 = open_q.iter().any(|&k| { let c = qv[k].chan.unwrap(); c[5] > 0 && qv[k].inflight.is_empty() && !chans[k].0 && (mv[k].mon_id >= c[0] || mon2_ids.as_ref().map(|m| m[k] >= c[0]).unwrap_or(false)) });
			let mut fails: Vec<String> = vec![];
			// no payment both sent and failed
			let mut sent: BTreeSet<[u8; 32]> = BTreeSet::new(); let mut failed: BTreeSet<[u8; 32]> = BTreeSet::new(); let mut claimed1: BTreeMap<[u8; 32], u64> = BTreeMap::new();
			for i in 0..nn { for e in &net.events[i] { match e {
				Event::PaymentSent { payment_hash, .. } => { sent.insert(payment_hash.0); },
				Event::PaymentFailed { payment_hash: Some(h), .. } => { failed.insert(h.0); },
				Event::PaymentClaimed { payment_hash, amount_msat, .. } if i == fwd_node(topo) => { claimed1.insert(payment_hash.0, *amount_msat); },
				_ => {},
			} } }
			for h in sent.intersection(&failed) {
				let from_t = net.pays.iter().any(|p| p.hash.0 == *h && p.from == t);
				if any_closed && from_t {
					// KF-C10-2: the stale manager still lists the payment's HTLC, the newer monitor no longer does (fulfilled and fully
					// removed, or its PaymentSent already released): from_channel_manager_data fails it back => PaymentFailed
					kf_fail(&mut rec, &mut kf_counts, format!("KF-C10-2 a stale ChannelManager reports PaymentFailed for an outbound payment that succeeded (PaymentSent was delivered): its HTLC is pending in the old manager and no longer present in the newer ChannelMonitor, so the force-close path fails it back :: {} [{}] payment {}", tag, op, hex(&h[..4])));
				} else { fails.push(format!("{}: payment {} is both PaymentSent and PaymentFailed", tag, hex(&h[..4]))); }
			}
			// t must not continue a closed channel
			for k in 0..my.len() { if chans[k].0 {
				for o in &net.trace[trace_mark..] { if let Obs::Msg { from, kind, chan, .. } = o { if *from == t && *chan == my[k].0 && ["add", "fulfill", "fail", "malformed", "cs", "raa", "fee"].contains(kind) {
					fails.push(format!("{}: node {} sent {} on channel {} after closing it as OutdatedChannelManager", tag, t, kind, chan)); } } }
			} }
			if !any_closed {
				for i in 0..nn { for c in net.nodes[i].node.list_channels() { if !c.pending_inbound_htlcs.is_empty() || !c.pending_outbound_htlcs.is_empty() {
					fails.push(format!("{}: node {} still has {} inbound / {} outbound HTLCs pending on channel {} after settling", tag, i, c.pending_inbound_htlcs.len(), c.pending_outbound_htlcs.len(), net.chan_idx(&c.channel_id))); } } }
				for (pi, p) in net.pays.iter().enumerate() { if p.from == t && pi >= wpts[w.q].n_pays { continue; } // sent by t after its manager was written: lost with the crash
					if !sent.contains(&p.hash.0) && !failed.contains(&p.hash.0) { fails.push(format!("{}: payment {} ({}→{}, {} msat) has no terminal event at its sender", tag, hex(&p.hash.0[..4]), p.from, p.to, p.amt)); } }
				for o in &net.trace[trace_mark..] { if let Obs::ProtoError { node, text } = o { fails.push(format!("{}: protocol error at node {} after the restart: {}", tag, node, text.chars().take(120).collect::<String>())); } }
				if net.closed.len() > 0 { fails.push(format!("{}: channel closed after the restart: {:?}", tag, net.closed)); }
				if let (Some(b0), Some(b1)) = (start_bal1, sum_value_to_self(&net, fwd_node(topo))) {
					let paid: u64 = net.pays.iter().filter(|p| p.from == fwd_node(topo) && sent.contains(&p.hash.0)).map(|p| p.amt).sum();
					let got: u64 = claimed1.values().sum();
					if b1 + paid < b0 + got { fails.push(format!("{}: forwarding node lost money: Σ value_to_self {} → {} (paid {} itself, was paid {})", tag, b0, b1, paid, got)); }
				}
			}
			// every HTLC committed on an inbound channel of t is, once everything is quiet, either resolved or backed by an outbound
			// HTLC that one of t's monitors still tracks (it was forwarded, possibly over a channel that is closed now) — an HTLC that
			// was only QUEUED for forwarding at the crash must have been forwarded or failed back, never forgotten
			{
				let mut backed: BTreeSet<(ChannelId, u64)> = BTreeSet::new();
				for (_, _, cid) in chans_of(&net, t) { if let Ok(m) = net.nodes[t].chain_monitor.chain_monitor.get_monitor(cid) { for x in vh::monitor_outbound_htlc_prev_hops(&m) { backed.insert(x); } } }
				let q0 = &wpts[w.q];
				for c in net.nodes[t].node.list_channels() { let ci = net.chan_idx(&c.channel_id); for h in &c.pending_inbound_htlcs {
					if net.pays.iter().any(|p| p.hash == h.payment_hash && p.to == t) { continue; } // t is the recipient: the application decides
					if !backed.contains(&(c.channel_id, h.htlc_id)) {
						let was_queued = q0.queued_fwd.contains(&(ci, h.htlc_id)) || q0.queued_dec.contains(&(ci, h.htlc_id));
						fails.push(format!("{}: HTLC stuck on inbound channel after restart: channel {} htlc id {} ({} msat) is still committed at node {}, was neither forwarded nor failed back{} [{}]", tag, ci, h.htlc_id, h.amount_msat, t,
							if was_queued { "; it was QUEUED for forwarding in the manager that was reloaded" } else { "" }, op));
					}
				} }
			}
			// once settled, a channel with nothing blocked and nothing in flight is in sync with its monitor
			let mut out_of_sync = vec![];
			for (ci, peer, cid) in chans_of(&net, t) {
				if let (Some(c), Ok(m)) = (vh::channel_restart_numbers(net.nodes[t].node, &net.ids[peer], &cid), net.nodes[t].chain_monitor.chain_monitor.get_monitor(cid)) {
					let infl = vh::manager_in_flight_update_ids(net.nodes[t].node, &net.ids[peer], &cid);
					let mn = vh::monitor_restart_numbers(&m);
					if c[5] == 0 && infl.is_empty() && (c[0] != m.get_latest_update_id() || [c[2], c[3], c[4]] != mn) {
						out_of_sync.push(format!("{}: settled channel {} (id {}, numbers {:?}) and its monitor (id {}, numbers {:?}) disagree with nothing blocked or in flight", tag, ci, c[0], &c[2..5], m.get_latest_update_id(), mn));
					}
				}
			}
			if kf4 && (!out_of_sync.is_empty() || !fails.is_empty()) {
				let first = fails.first().or(out_of_sync.first()).unwrap().clone();
				// the reconstruct path is reachable only through the verification hook (RECONSTRUCT_HTLCS_FROM_CHANS_VERSION = None in
				// production): recorded as an observation (evidence note reconstruct_path_anomalies), not judged
				judge(&mut rec, &mut anoms, true, format!("{} :: {} [{}] :: {} symptoms, first: {}", kf4_text, tag, op, out_of_sync.len() + fails.len(), first));
				fails.clear(); out_of_sync.clear();
			}
			if kf3 && (!out_of_sync.is_empty() || !fails.is_empty()) {
				let first = out_of_sync.first().or(fails.first()).unwrap().clone();
				kf_fail(&mut rec, &mut kf_counts, format!("{} :: {} [{}] :: {} symptoms, first: {}", kf3_text, tag, op, out_of_sync.len() + fails.len(), first));
				fails.clear(); out_of_sync.clear();
			}
			fails.extend(out_of_sync);
			if kf1 && fails.iter().any(|f| f.contains("HTLCs pending") || f.contains("HTLC stuck")) {
				kf_fail(&mut rec, &mut kf_counts, format!("KF-C10-1 channel stays paused after a restart that drops completed blocked monitor updates: the manager was written with blocked updates and nothing in flight, the monitor on disk contains them all, no MonitorUpdatesComplete is queued, revoke_and_ack is never sent :: {} [{}] :: {} symptoms, first: {}", tag, op, fails.len(), fails[0]));
			} else { for f in fails { let core = f.contains("HTLC stuck on inbound channel") || f.contains("is both PaymentSent and PaymentFailed") || f.contains("after closing it as OutdatedChannelManager"); judge(&mut rec, &mut anoms, w.rebuild && !core, f); } }
			if trace_on && std::env::var("VERIF_TRACE").map(|v| v == "2").unwrap_or(false) { for (k, o) in net.trace.iter().enumerate() { if k == trace_mark { eprintln!("      ---------------- crash"); } if !matches!(o, Obs::Balance { .. }) { eprintln!("      {}", fmt_obs(o)); } } }
			std::mem::forget(net);
		}
	}
	rec.notes.insert("rule".into(), "crash worlds = (crash point after any op of a 3-node line or 4-node Y payment scenario — two inbound channels with colliding HTLC ids, forwards queued but not forwarded, application force-closes — with asynchronous, out-of-order monitor persistence at the node under test) x (manager bytes of any earlier point) x (per channel any monitor copy between the completed prefix and the last update handed to chain::Watch) x (production / reconstruct-from-monitors reload path), plus monitors older than that (stale-monitor class, DangerousValue expected, no oracles); each world re-runs the scenario in a fresh Net and restarts the real node from those bytes; reconcile lines = the manager copy's queued forwards against the closed channels' monitors; distinct by op text (the abstract world)".into());
	rec.notes.insert("known_findings_hit".into(), format!("{:?} (every occurrence counted; at most 4 per finding are listed)", kf_counts));
	rec.notes.insert("reconstruct_path_anomalies".into(), format!("{} (not judged; first: {:?})", anoms.len(), anoms.iter().take(3).map(|a| a.chars().take(260).collect::<String>()).collect::<Vec<_>>()));
	rec.notes.insert("discarded_persister_mode_switch".into(), format!("{} worlds: the startup background events panic ('Watch::update_channel returned Completed while prior updates are still InProgress' / 'Attempted to apply ChannelMonitorUpdates out of order') only because the sim restarts the asynchronously persisting node with a synchronous persister; each was re-run and restarted 12 times with an asynchronous persister without a panic", persister_switch));
	let (n_chain, chain_setup_errs) = if probes_only { (0, 0) } else { chain_family(&mut rec, args) };
	rec.notes.insert("onchain_worlds".into(), format!("{} worlds with a channel closed on chain before the crash (payer / forwarder; commitment of either side, 0..ANTI_REORG_DELAY+2 blocks deep; PRESENT / DUST / ABSENT outbound HTLCs; manager written at the crash / before the blocks / before the close; optional shallow reorg to the counterparty's other commitment); {} could not be set up", n_chain, chain_setup_errs));
	{
		let (n_evt, evt_errs, pat) = if probes_only { (0, 0, 0) } else { evt_family(&mut rec, args) };
		rec.notes.insert("event_redelivery_worlds".into(), format!("{} worlds (1-2 payments over a channel closed on chain by either commitment, HTLC timeouts buried; the event handler accepts a prefix of 0..all pending events and replays the rest; restart from the manager written before the close / after it / after the failure was queued / after the partial handling, optionally crashing twice); {} could not be set up; in {} payments the restarted (older) manager keeps the payment pending although PaymentFailed had been handled before the crash (observation, not judged: the terminal event was delivered)", n_evt, evt_errs, pat));
	}
	{
		let (n_ic, ic_errs, ic_held) = if probes_only && std::env::var("VERIF_C10_ICPT").is_err() { (0, 0, 0) } else { icpt_family(&mut rec, args) };
		rec.notes.insert("interception_worlds".into(), format!("{} worlds (a forwarding node holding 1-4 intercepted HTLCs; its handler accepts a prefix of the HTLCIntercepted events and replays the rest, the application forwards / fails some, the manager is written, crash, restart on the production reload path, optionally repeated); {} could not be set up; {} held HTLCs checked for a pending HTLCIntercepted event right after a restart, {} held HTLCs failed back by the expiry sweep (blocks connected to the fail-back deadline of the first-expiring held HTLC / one short of it); every world ends with the application forwarding what it was told about and every payment reaching its terminal event at the payer", n_ic, ic_errs, ic_held / 1000, ic_held % 1000));
	}
	for (flags, name) in [(false, "hold_probe"), (true, "hold_probe_with_interception")] {
		match guarded(AssertUnwindSafe(|| hold_probe(args.seed ^ 0x401D ^ (flags as u64), flags))) {
			Ok(Ok((text, Some(bad)))) => { rec.oracle_fail(format!("{} :: {} :: {}", HOLD_TEXT, bad, text)); rec.notes.insert(name.into(), format!("VIOLATED: {} :: {}", bad, text)); },
			Ok(Ok((text, None))) => { rec.notes.insert(name.into(), format!("held: {}", text)); },
			Ok(Err(e)) => { rec.notes.insert(name.into(), format!("could not be set up: {}", e)); },
			Err(pn) => { rec.oracle_fail(format!("hold probe: the real code panicked: {}", pn.chars().take(300).collect::<String>())); rec.notes.insert(name.into(), format!("panicked: {}", pn.chars().take(300).collect::<String>())); },
		}
	}
	// end-to-end probes of the repaired stale-manager holding-cell fail-back (HARD oracles): forwarded HTLC and own payment
	for (own, by_timeout, name) in [(false, false, "kf6_probe"), (true, false, "kf6_probe_own_payment"), (false, true, "kf6_probe_timeout"), (true, true, "kf6_probe_own_payment_timeout")] {
		let what = format!("{}, {}", if own { "own payment of the restarted node" } else { "forwarded HTLC" }, if by_timeout { "never claimed: resolved by the on-chain timeout" } else { "claimed on chain by the recipient" });
		match guarded(AssertUnwindSafe(|| kf6_probe(args.seed ^ 0x6F6 ^ (own as u64) ^ ((by_timeout as u64) << 1), own, by_timeout))) {
			Ok(Ok((text, Some(bad)))) => { rec.oracle_fail(format!("{} :: END-TO-END probe ({}): {} :: {}", if bad.contains("failed back at the restart") { KF6_TEXT } else { "an HTLC of the stale manager's holding cell that was left to the ChannelMonitor is not resolved truthfully" }, what, bad, text)); rec.notes.insert(name.into(), format!("VIOLATED: {} :: {}", bad, text)); },
			Ok(Ok((text, None))) => { rec.notes.insert(name.into(), format!("held: {}", text)); },
			Ok(Err(e)) => { rec.notes.insert(name.into(), format!("could not be set up: {}", e)); },
			Err(p) => { rec.oracle_fail(format!("END-TO-END probe of a stale manager with an HTLC in the holding cell ({}): the real code panicked: {}", what, p.chars().take(300).collect::<String>())); rec.notes.insert(name.into(), format!("panicked: {}", p.chars().take(300).collect::<String>())); },
		}
	}
	rec.notes.insert("stale_dropped_htlcs".into(), format!("HTLCs dropped by force_shutdown from a channel closed as OutdatedChannelManager over all production-path worlds: {} listed by the newer monitor copy (must be left to the monitor), {} not listed (failed back); fail decisions ChannelClosed for an HTLC the closed channel's monitor still lists as pending: {} (each is a VIOLATION)", n_dropped_listed, n_dropped_forgotten, n_live_failed));
	rec.notes.insert("known_findings_hit".into(), format!("{:?} (every occurrence counted; at most 4 per finding are listed)", kf_counts));
	rec.notes.insert("reconstruction".into(), format!("{} admissible production-path worlds read a second time without side effects: pending_claims_to_replay / failed_htlcs (hook STARTUP_DECISIONS), pending_outbound_payments, generated PaymentSent / PaymentFailed and the background events of every resumed channel compared with Restart.claims / fails / paysAfter / bgEvents before any message is exchanged", n_recon));
	rec.notes.insert("preimage_worlds".into(), format!("{} worlds kept by the directed stratum \"a monitor copy holds the preimage of a forwarded HTLC\" (scripted claim prefix of the line scenarios with flavor 3){}", n_pre_kept, if n_pre_pts > 0 { "" } else { "" }));
	rec.notes.insert("worlds".into(), format!("worlds={} admissible={} with_replay={} with_closed_channel={} second_crash={} settled={} discarded_nondeterministic_rerun={} discarded_stale_monitor_panic_after_read={}", n_worlds, n_adm, n_replay, n_closed, n_second, n_settled, nondet, late_panics));
	rec.finish();
}


// =====================================================================================================================
// Channels closed ON CHAIN before the crash (C10: "outbound payments reach a truthful terminal event")
// =====================================================================================================================
/// One on-chain crash world. Line 0 -c0- 1 -c1- 2, synchronous persistence.  `fwd`: node under test t = 1 forwards 0→1→2 and the
/// channel closed on chain is c1 (peer P = 2); otherwise t = 0 pays 1 directly over c0 (P = 1).  Three outbound HTLCs of t on the
/// closed channel: PRESENT (an output of the confirmed commitment), DUST (in it, no output) and ABSENT (signed by t into the
/// counterparty's next commitment; `processed`: P has received add + commitment_signed, so P also holds that next commitment).
/// The commitment that confirms is P's commitment without the ABSENT HTLC (`closer_t` = false) or t's own holder commitment
/// (`closer_t`), `depth` blocks deep at the crash (0 = broadcast only).  `lag`: the manager that is reloaded was written 0 = at
/// the crash, 1 = before the blocks, 2 = before the close.  `reorg`: after the restart the confirming blocks are disconnected and
/// P's OTHER commitment (with the ABSENT HTLC as an output) confirms instead.
#[derive(Clone, Copy, Debug)]
struct ChainWorld { fwd: bool, processed: bool, closer_t: bool, depth: u32, lag: u8, reorg: bool }

fn all_nodes_blocks(net: &mut Net, f: impl Fn(&N)) { for i in 0..net.nodes.len() { f(&net.nodes[i]); } net.pump_all(); }

fn run_chain_world(w: ChainWorld, rec: &mut Rec, seed: u64) -> Result<(), String> {
	use lightning::chain::channelmonitor::{Balance, ANTI_REORG_DELAY};
	use lightning::ln::functional_test_utils::{connect_blocks, disconnect_blocks, mine_transaction};
	let tag = format!("on-chain world {:?} (seed {})", w, seed);
	let mut rng = Rng::new(seed);
	let mut net = Net::new(3, vec![None, None, None]);
	net.open(0, 1, 1_000_000, 400_000_000); net.open(1, 2, 1_000_000, 400_000_000);
	let (t, pnode, x, pn, pc): (usize, usize, usize, &[usize], &[usize]) = if w.fwd { (1, 2, 1, &[0, 1, 2], &[0, 1]) } else { (0, 1, 0, &[0, 1], &[0]) };
	let payer = 0usize;
	let xcid = net.chans[x].2;
	// baseline payment, settled
	let b = net.send(pn, pc, 2_000_000 + rng.below(5_000_000), 70)?; net.settle(8); net.claim(b); net.settle(8);
	// PRESENT and DUST, fully committed and left pending at the recipient
	let p_pres = net.send(pn, pc, 5_000_000 + rng.below(20_000_000), 70)?; net.settle(8);
	let p_dust = net.send(pn, pc, 100_000 + rng.below(100_000), 70)?; net.settle(8);
	let mon_p = |net: &Net| net.nodes[pnode].chain_monitor.chain_monitor.get_monitor(xcid).unwrap().unsafe_get_latest_holder_commitment_txn(&net.nodes[pnode].logger);
	let tx_n = mon_p(&net)[0].clone();
	// ABSENT: t signs it into P's next commitment; P may or may not process add + commitment_signed; nothing comes back to t
	let p_abs = net.send(pn, pc, 3_000_000 + rng.below(20_000_000), 70)?;
	if w.fwd { for _ in 0..20 { if net.queued(0, 1) > 0 { net.deliver(0, 1); } else if net.queued(1, 0) > 0 { net.deliver(1, 0); } else { break; } } net.forward(1); }
	let mut tx_n1 = None;
	if w.processed { while net.queued(t, pnode) > 0 { net.deliver(t, pnode); } tx_n1 = Some(mon_p(&net)[0].clone()); }
	net.q.remove(&(pnode, t)); net.q.remove(&(t, pnode));
	let hashes = [net.pays[p_pres].hash, net.pays[p_dust].hash, net.pays[p_abs].hash];
	let mgr_before_close = net.nodes[t].node.encode();
	let h_before_close = net.nodes[t].best_block_info().1;
	// the close
	let closing_tx = if w.closer_t {
		// t's own holder commitment (it does not contain the ABSENT HTLC: P's commitment_signed for it never arrived)
		let tx_t = net.nodes[t].chain_monitor.chain_monitor.get_monitor(xcid).unwrap().unsafe_get_latest_holder_commitment_txn(&net.nodes[t].logger)[0].clone();
		net.nodes[t].node.force_close_broadcasting_latest_txn(&xcid, &net.ids[pnode], "closed by the application".to_string()).map_err(|e| format!("{:?}", e))?;
		net.pump(t); net.process_events(t);
		tx_t
	} else { tx_n.clone() };
	net.q.remove(&(pnode, t)); net.q.remove(&(t, pnode));
	let mgr_before_blocks = net.nodes[t].node.encode();
	if w.depth > 0 {
		all_nodes_blocks(&mut net, |n| { mine_transaction(n, &closing_tx); });
		if w.depth > 1 { all_nodes_blocks(&mut net, |n| { connect_blocks(n, w.depth - 1); }); }
	}
	let tip = net.nodes[t].best_block_info().1;
	// ---- the durable world ---------------------------------------------------------------------------------------
	let mgr = match w.lag { 0 => net.nodes[t].node.encode(), 1 => mgr_before_blocks, _ => mgr_before_close };
	let mgr_height = match w.lag { 0 => tip, _ => h_before_close };
	let mut mons = vec![];
	for (_, _, cid) in chans_of(&net, t) { mons.push(net.nodes[t].chain_monitor.chain_monitor.get_monitor(cid).unwrap().encode()); }
	{
		let m = net.nodes[t].chain_monitor.chain_monitor.get_monitor(xcid).unwrap();
		let (best, awaiting, matured, _, _) = vh::monitor_onchain_view(&m);
		let sh = awaiting.iter().find(|a| a.2 == "FundingSpendConfirmation").map(|a| a.1);
		let failed = vh::monitor_onchain_failed_outbound_htlcs(&m);
		let mt = if matured.is_some() { 1 } else { 0 };
		let shs = sh.map(|h| h.to_string()).unwrap_or("-".into());
		rec.case(&format!("spendconf {} {} {} {}", mt, shs, best, failed.len()), &format!("ok confs={}", if sh.is_some() { w.depth } else { 0 }), &format!("onchain:spendconf:depth{}", w.depth.min(ANTI_REORG_DELAY + 1)), true);
		// PRESENT is an output of the confirmed commitment and unresolved; DUST has no output; ABSENT is not in it at all
		for (pos, h, name) in [("o0", hashes[0], "present"), ("d", hashes[1], "dust"), ("a", hashes[2], "absent")] {
			rec.case(&format!("spendfail {} {} {} {} 0", mt, shs, best, pos), &format!("{}", failed.contains(&h)), &format!("onchain:spendfail:{}:{}", name, if w.depth == 0 { "unconfirmed" } else if w.depth < ANTI_REORG_DELAY { "shallow" } else { "buried" }), true);
		}
	}
	// ---- restart ---------------------------------------------------------------------------------------------------
	let ev0: Vec<usize> = (0..3).map(|i| net.events[i].len()).collect();
	net.restart_from(t, &mgr, &mons).map_err(|e| format!("restart failed: {}", e))?;
	if mgr_height < tip { // the application brings the older manager up to the chain tip
		use lightning::chain::Listen;
		let blocks: Vec<(bitcoin::Block, u32)> = net.nodes[t].blocks.lock().unwrap().iter().filter(|b| b.1 > mgr_height).cloned().collect();
		for (blk, h) in blocks { net.nodes[t].node.block_connected(&blk, h); }
		net.pump(t);
	}
	net.process_events(t); net.forward(t); net.process_events(t);
	if w.fwd { net.reconnect(1, 0); for _ in 0..30 { if net.queued(1, 0) > 0 { net.deliver(1, 0); } else if net.queued(0, 1) > 0 { net.deliver(0, 1); } else { break; } } net.process_events(0); net.process_events(1); }
	let failed_now = |net: &Net, h: &lightning::types::payment::PaymentHash| -> bool {
		net.events[payer][ev0[payer]..].iter().any(|e| matches!(e, Event::PaymentFailed { payment_hash: Some(x), .. } if x == h))
	};
	let claimed_now = |net: &Net, h: &lightning::types::payment::PaymentHash| -> bool { net.events[payer].iter().any(|e| matches!(e, Event::PaymentSent { payment_hash, .. } if payment_hash == h)) };
	let what = if w.fwd { "forward failed back upstream (the payer got PaymentFailed)" } else { "payment reported PaymentFailed" };
	let names = ["PRESENT", "DUST", "ABSENT"];
	// (a) nothing is failed by the reload while the closing transaction is not buried
	let mut failed_at_reload = [false; 3];
	for k in 0..3 { failed_at_reload[k] = failed_now(&net, &hashes[k]);
		if failed_at_reload[k] && w.depth < ANTI_REORG_DELAY {
			rec.oracle_fail(format!("{}: {} on reload although its closing transaction has only {} < ANTI_REORG_DELAY confirmations ({} HTLC {} of channel {})", tag, what, w.depth, names[k], hex(&hashes[k].0[..4]), x));
		}
	}
	// ---- optional shallow reorg to the counterparty's other commitment, then bury -----------------------------------------
	let reorged = w.reorg && w.depth >= 1 && w.depth < ANTI_REORG_DELAY && !w.closer_t && tx_n1.is_some();
	if reorged {
		let d = w.depth;
		all_nodes_blocks(&mut net, |n| { disconnect_blocks(n, d); });
		let other = tx_n1.clone().unwrap();
		all_nodes_blocks(&mut net, |n| { mine_transaction(n, &other); });
	} else if w.depth == 0 { all_nodes_blocks(&mut net, |n| { mine_transaction(n, &closing_tx); }); }
	all_nodes_blocks(&mut net, |n| { connect_blocks(n, ANTI_REORG_DELAY + 1); });
	for _ in 0..3 { net.process_events(t); net.forward(t); if w.fwd { for _ in 0..30 { if net.queued(1, 0) > 0 { net.deliver(1, 0); } else if net.queued(0, 1) > 0 { net.deliver(0, 1); } else { break; } } } net.process_events(0); net.process_events(1); }
	// (b) truthfulness once the confirmed commitment is buried
	let live: Vec<lightning::types::payment::PaymentHash> = net.nodes[t].chain_monitor.chain_monitor.get_monitor(xcid).unwrap().get_claimable_balances().iter().filter_map(|b| match b { Balance::MaybeTimeoutClaimableHTLC { payment_hash, .. } => Some(*payment_hash), _ => None }).collect();
	for k in 0..3 {
		let failed = failed_now(&net, &hashes[k]);
		if failed && live.contains(&hashes[k]) {
			rec.oracle_fail(format!("{}: {} although, with the confirmed commitment buried{}, the {} HTLC {} is a live output that the recipient can still claim on chain", tag, what, if reorged { " after the reorg" } else { "" }, names[k], hex(&hashes[k].0[..4])));
		}
		if failed && claimed_now(&net, &hashes[k]) { rec.oracle_fail(format!("{}: {} HTLC {} is both PaymentSent and PaymentFailed", tag, names[k], hex(&hashes[k].0[..4]))); }
		// an HTLC that is not an output of the buried commitment (dust, or absent from it) has failed by now
		let gone = k == 1 || (k == 2 && !reorged && !live.contains(&hashes[k]));
		if gone && !failed && !w.closer_t { rec.oracle_fail(format!("{}: the {} HTLC {} is not an output of the buried commitment but {} never happened", tag, names[k], hex(&hashes[k].0[..4]), if w.fwd { "the fail-back upstream" } else { "PaymentFailed" })); }
	}
	std::mem::forget(net);
	Ok(())
}

fn chain_family(rec: &mut Rec, args: &Args) -> (u64, u64) {
	use lightning::chain::channelmonitor::ANTI_REORG_DELAY;
	let mut worlds = vec![];
	for fwd in [false, true] { for processed in [false, true] { for closer_t in [false, true] { for depth in 0..=ANTI_REORG_DELAY + 2 { for lag in 0..3u8 { for reorg in [false, true] {
		if reorg && (closer_t || !processed || depth == 0 || depth >= ANTI_REORG_DELAY) { continue; }
		worlds.push(ChainWorld { fwd, processed, closer_t, depth, lag, reorg });
	} } } } } }
	let mut rng = Rng::new(args.seed ^ 0x0C4A1);
	for i in (1..worlds.len()).rev() { let j = rng.below(i as u64 + 1) as usize; worlds.swap(i, j); }
	if !args.thorough { worlds.truncate(60); }
	let only = std::env::var("VERIF_C10_CHAIN").ok();
	let (mut n, mut errs) = (0u64, 0u64);
	for w in worlds {
		let key = format!("{}:{}:{}:{}:{}:{}", w.fwd as u8, w.processed as u8, w.closer_t as u8, w.depth, w.lag, w.reorg as u8);
		if let Some(o) = &only { if *o != key { continue; } }
		n += 1;
		let seed = rng.next();
		match guarded(AssertUnwindSafe(|| run_chain_world(w, rec, seed))) {
			Ok(Ok(())) => {},
			Ok(Err(e)) => { errs += 1; rec.discarded += 1; if std::env::var("VERIF_TRACE").is_ok() { eprintln!("chain world {} could not be set up: {}", key, e); } },
			Err(p) => rec.oracle_fail(format!("on-chain world {:?} [VERIF_C10_CHAIN={}] (seed {}): panic: {}", w, key, seed, p.chars().take(200).collect::<String>())),
		}
	}
	(n, errs)
}

// =====================================================================================================================
// Persistent-event re-delivery: the handler handles a PREFIX of the pending events, the rest is replayed; crash in between
// =====================================================================================================================
/// One event re-delivery world.  Two nodes, legacy channel, t = 0 pays node 1 `n_pay` single-part payments that stay pending; the
/// channel is closed on chain by t's own (`closer_t`) or the counterparty's commitment; the HTLCs time out, t's timeout claims are
/// buried ANTI_REORG_DELAY deep and the manager queues PaymentPathFailed + PaymentFailed per payment (with a ReleasePaymentComplete
/// completion action).  The application's handler accepts the first `k` pending events and returns Err(ReplayEvent) for the next; the
/// release monitor updates of the handled ones are durable.  Crash; restart from the manager written (`mgr_pt`) 0 = before the close,
/// 1 = after the close, 2 = after the failure was processed (events queued), 3 = after the partial handling; monitors as they are;
/// `second`: crash again right after the restart.  Oracle (independent of the Lean model): every payment whose PaymentFailed the
/// handler had not accepted before the crash gets PaymentFailed (or PaymentSent) delivered after the restart.
/// VERIF_C10_EVT="n_pay:closer_t:k:mgr_pt:second".
#[derive(Clone, Copy, Debug)]
struct EvtWorld { n_pay: usize, closer_t: bool, k: usize, mgr_pt: usize, second: bool }

fn pay_event_queue(net: &Net, t: usize) -> Vec<String> {
	vh::manager_persisted_state_dump(net.nodes[t].node).iter().filter(|l| l.starts_with("event #")).map(|l| {
		let kind = if l.contains(" PaymentPathFailed {") { "P" } else if l.contains(" PaymentFailed {") { "F" } else if l.contains(" PaymentSent {") { "S" } else { "x" };
		format!("{}{}", kind, if l.contains("action=Some(ReleasePaymentComplete") { "*" } else { "" }) }).collect()
}

fn run_evt_world(w: EvtWorld, rec: &mut Rec, seed: u64, pending_after_terminal: &mut u64) -> Result<(), String> {
	use lightning::chain::channelmonitor::ANTI_REORG_DELAY;
	use lightning::events::{EventsProvider, ReplayEvent};
	use lightning::ln::channelmanager::RecentPaymentDetails;
	use lightning::ln::functional_test_utils::{connect_blocks, mine_transaction, test_legacy_channel_config};
	use std::cell::{Cell, RefCell};
	let key = format!("{}:{}:{}:{}:{}", w.n_pay, w.closer_t as u8, w.k, w.mgr_pt, w.second as u8);
	let tag = format!("event re-delivery world {:?} [VERIF_C10_EVT={}] (seed {})", w, key, seed);
	let mut rng = Rng::new(seed);
	let cfg = test_legacy_channel_config();
	let mut net = Net::new(2, vec![Some(cfg.clone()), Some(cfg)]);
	net.open(0, 1, 1_000_000, 400_000_000);
	let t = 0usize; let cid = net.chans[0].2;
	let mut pays = vec![];
	for _ in 0..w.n_pay { pays.push(net.send(&[0, 1], &[0], 3_000_000 + rng.below(20_000_000), 70)?); net.settle(8); }
	let mut mgrs: Vec<(Vec<u8>, u32)> = vec![(net.nodes[t].node.encode(), net.nodes[t].best_block_info().1)];
	// ---- close on chain ------------------------------------------------------------------------------------------------
	let closing_tx = if w.closer_t {
		let tx = net.nodes[t].chain_monitor.chain_monitor.get_monitor(cid).unwrap().unsafe_get_latest_holder_commitment_txn(&net.nodes[t].logger)[0].clone();
		net.nodes[t].node.force_close_broadcasting_latest_txn(&cid, &net.ids[1], "closed by the application".to_string()).map_err(|e| format!("{:?}", e))?;
		tx
	} else { net.nodes[1].chain_monitor.chain_monitor.get_monitor(cid).unwrap().unsafe_get_latest_holder_commitment_txn(&net.nodes[1].logger)[0].clone() };
	net.pump(t); net.process_events(t);
	mine_transaction(&net.nodes[t], &closing_tx);
	net.pump(t); net.process_events(t);
	net.q.clear();
	mgrs.push((net.nodes[t].node.encode(), net.nodes[t].best_block_info().1));
	// ---- the HTLCs time out; t's timeout claims are buried -----------------------------------------------------------------
	connect_blocks(&net.nodes[t], 70 + 8);
	net.pump(t); net.process_events(t);
	let closing_txid = closing_tx.compute_txid();
	let bcast: Vec<bitcoin::Transaction> = net.nodes[t].tx_broadcaster.txn_broadcasted.lock().unwrap().clone();
	let mut spent: BTreeSet<String> = BTreeSet::new(); let mut claims = vec![];
	for tx in bcast.iter().rev() {
		if tx.input.iter().all(|i| i.previous_output.txid == closing_txid) && tx.input.iter().all(|i| !spent.contains(&format!("{}", i.previous_output))) {
			for i in &tx.input { spent.insert(format!("{}", i.previous_output)); }
			claims.push(tx.clone());
		}
	}
	if claims.is_empty() { return Err("no timeout claim was broadcast".into()); }
	for tx in &claims { mine_transaction(&net.nodes[t], tx); }
	connect_blocks(&net.nodes[t], ANTI_REORG_DELAY - 1);
	net.pump(t);
	let q2 = pay_event_queue(&net, t);
	if q2.len() != 2 * w.n_pay || q2.iter().any(|x| x == "x" || x == "S") { return Err(format!("unexpected event queue after the timeouts: {:?}", q2)); }
	mgrs.push((net.nodes[t].node.encode(), net.nodes[t].best_block_info().1));
	// ---- the handler accepts a prefix --------------------------------------------------------------------------------------
	let handled: RefCell<Vec<Event>> = RefCell::new(vec![]);
	let cnt = Cell::new(0usize);
	let handler = |ev: Event| -> Result<(), ReplayEvent> { if cnt.get() < w.k { cnt.set(cnt.get() + 1); handled.borrow_mut().push(ev); Ok(()) } else { Err(ReplayEvent()) } };
	net.nodes[t].node.process_pending_events(&handler);
	net.pump(t);
	mgrs.push((net.nodes[t].node.encode(), net.nodes[t].best_block_info().1));
	let handled_before: Vec<Event> = handled.borrow().clone();
	let terminal_before = |id: &lightning::ln::channelmanager::PaymentId| handled_before.iter().any(|e| matches!(e, Event::PaymentFailed { payment_id, .. } if payment_id == id));
	// ---- crash, restart -----------------------------------------------------------------------------------------------------
	let tip = net.nodes[t].best_block_info().1;
	let (mgr, mgr_height) = mgrs[w.mgr_pt].clone();
	let ev0 = net.events[t].len();
	for round in 0..(if w.second { 2 } else { 1 }) {
		let mons = vec![net.nodes[t].chain_monitor.chain_monitor.get_monitor(cid).unwrap().encode()];
		net.restart_from(t, &mgr, &mons).map_err(|e| format!("restart {} failed: {}", round, e))?;
		if mgr_height < tip {
			use lightning::chain::Listen;
			let blocks: Vec<(bitcoin::Block, u32)> = net.nodes[t].blocks.lock().unwrap().iter().filter(|b| b.1 > mgr_height).cloned().collect();
			for (blk, h) in blocks { net.nodes[t].node.block_connected(&blk, h); }
			net.pump(t);
		}
	}
	// ---- the model's prediction of the restarted manager (single payment), before any event is handled -------------------------
	if w.n_pay == 1 {
		let dump = vh::manager_persisted_state_dump(net.nodes[t].node);
		let part = dump.iter().filter(|l| l.starts_with("outbound ")).filter_map(|l| parse_pay(l)).any(|p| !p.3.is_empty());
		let q: Vec<String> = pay_event_queue(&net, t).into_iter().filter(|x| x != "x").collect();
		let m = net.nodes[t].chain_monitor.chain_monitor.get_monitor(cid).unwrap();
		let resolved = !vh::monitor_outbound_htlcs_dump(&m).iter().any(|l| l.starts_with("route:"));
		let hk = format!("h{}", w.k);
		let mut ops: Vec<&str> = match w.mgr_pt { 0 => vec!["persist", "close", "timeout", &hk], 1 => vec!["close", "persist", "timeout", &hk], 2 => vec!["close", "timeout", "persist", &hk], _ => vec!["close", "timeout", &hk, "persist"] };
		ops.push("crash"); if w.second { ops.push("crash"); }
		rec.case(&format!("evlife {}", ops.join(" ")), &format!("part={} queue={} resolved={} handledT={}", part as u8, if q.is_empty() { "-".to_string() } else { q.join(",") }, resolved as u8, terminal_before(&net.pays[pays[0]].id) as u8),
			&format!("evlife:mgr{}:k{}{}", w.mgr_pt, w.k, if w.second { ":second" } else { "" }), true);
	}
	// ---- everything is handled now -------------------------------------------------------------------------------------------
	for _ in 0..3 { net.process_events(t); net.pump(t); }
	for &p in &pays {
		let id = net.pays[p].id;
		let after = net.events[t][ev0..].iter().any(|e| matches!(e, Event::PaymentFailed { payment_id, .. } if *payment_id == id) || matches!(e, Event::PaymentSent { payment_id: Some(pid), .. } if *pid == id));
		let pending = net.nodes[t].node.list_recent_payments().iter().any(|d| matches!(d, RecentPaymentDetails::Pending { payment_id, .. } if *payment_id == id));
		if !terminal_before(&id) && !after {
			rec.oracle_fail(format!("{}: Event::PaymentFailed of payment {} was never accepted by the event handler before the crash (it accepted {} of {} pending events: {}) and is NOT re-delivered after the restart; payment still pending: {}",
				tag, hex(&net.pays[p].hash.0[..4]), w.k.min(q2.len()), q2.len(), q2.join(","), pending));
		} else if pending { *pending_after_terminal += 1; }
	}
	std::mem::forget(net);
	Ok(())
}

fn evt_family(rec: &mut Rec, args: &Args) -> (u64, u64, u64) {
	let mut worlds = vec![];
	for n_pay in [1usize, 2] { for closer_t in [false, true] { for k in 0..=2 * n_pay { for mgr_pt in 0..4usize { for second in [false, true] {
		worlds.push(EvtWorld { n_pay, closer_t, k, mgr_pt, second });
	} } } } }
	let mut rng = Rng::new(args.seed ^ 0xE7E7);
	if !args.thorough {
		// quick: every single-payment world without a second crash, a sample of the others
		let (a, mut b): (Vec<EvtWorld>, Vec<EvtWorld>) = worlds.into_iter().partition(|w| w.n_pay == 1 && !w.second);
		for i in (1..b.len()).rev() { let j = rng.below(i as u64 + 1) as usize; b.swap(i, j); }
		b.truncate(16);
		worlds = a; worlds.extend(b);
	}
	let only = std::env::var("VERIF_C10_EVT").ok();
	let (mut n, mut errs, mut pat) = (0u64, 0u64, 0u64);
	for w in worlds {
		let key = format!("{}:{}:{}:{}:{}", w.n_pay, w.closer_t as u8, w.k, w.mgr_pt, w.second as u8);
		if let Some(o) = &only { if *o != key { continue; } }
		n += 1;
		let seed = rng.next();
		match guarded(AssertUnwindSafe(|| run_evt_world(w, rec, seed, &mut pat))) {
			Ok(Ok(())) => {},
			Ok(Err(e)) => { errs += 1; rec.discarded += 1; if std::env::var("VERIF_TRACE").is_ok() { eprintln!("evt world {} could not be set up: {}", key, e); } },
			Err(p) => rec.oracle_fail(format!("event re-delivery world {:?} [VERIF_C10_EVT={}] (seed {}): panic: {}", w, key, seed, p.chars().take(200).collect::<String>())),
		}
	}
	(n, errs, pat)
}

// =====================================================================================================================
// Re-delivery of Event::HTLCIntercepted for the HTLCs held in pending_intercepted_htlcs (from_channel_manager_data's regeneration loop)
// =====================================================================================================================
/// One interception world.  Line 0 -c0- 1 -c1- 2 (legacy channels), node under test t = 1 intercepts forwards to its intercept SCIDs
/// (`htlc_interception_flags = ToInterceptSCIDs`).  Ops: `I` node 0 pays node 2 over an intercept SCID of t, everything is delivered, t decodes
/// and holds the HTLC (entry in pending_intercepted_htlcs + Event::HTLCIntercepted); `H k` t's event handler accepts the first k HTLCIntercepted
/// events and returns Err(ReplayEvent) for the next; `R j fwd` the application forwards / fails the j-th HTLC it was told about;
/// `B e` blocks are connected up to the fail-back deadline (outgoing expiry - HTLC_FAIL_BACK_BUFFER) of the held HTLC that expires first (e = 1) / one block short (e = 0);
/// `P` the ChannelManager is written; `C` crash, restart from the last written manager and the current monitors (production reload path),
/// peers reconnect.  Only `H` ops stand between a `P` and the following `C` (the written manager is never older than the monitors: no channel is
/// closed), and after the first crash handlers accept nothing or everything (the order of regenerated events follows a HashMap).
/// Compared with Restart.irun after every crash and at the end (`icpt` op).  Oracles (independent of the Lean model): after every restart each
/// HTLC in pending_intercepted_htlcs has a pending HTLCIntercepted event, equal to the one first delivered; at the end the events DELIVERED after
/// the last restart name every held HTLC; the application then forwards what it was told about, the recipient claims, and every payment reaches
/// PaymentSent (forwarded) / PaymentFailed (failed by the application) at the payer.  VERIF_C10_ICPT="<world key>" replays one world ("all" with VERIF_C10_PROBES_ONLY=1: this family only).
#[derive(Clone, Copy, Debug, PartialEq)]
enum IcOp { I, H(usize), R(usize, bool), B(bool), P, C }

fn icpt_key(ops: &[IcOp]) -> String {
	ops.iter().map(|o| match o { IcOp::I => "I".to_string(), IcOp::H(k) => format!("H{}", k), IcOp::R(j, f) => format!("R{}{}", j, if *f { "f" } else { "x" }), IcOp::B(e) => format!("B{}", *e as u8), IcOp::P => "P".into(), IcOp::C => "C".into() }).collect::<Vec<_>>().join(".")
}

fn dbg_field<'a>(l: &'a str, name: &str) -> Option<&'a str> {
	let i = l.find(&format!("{}: ", name))? + name.len() + 2;
	let rest = &l[i..];
	let end = rest.find(|c: char| c == ',' || c == ' ' || c == '}').unwrap_or(rest.len());
	Some(&rest[..end])
}
fn kv_field<'a>(l: &'a str, name: &str) -> Option<&'a str> { l.split(' ').find_map(|t| t.strip_prefix(&format!("{}=", name))) }
fn hex48(s: &str) -> u64 { u64::from_str_radix(&s[..12.min(s.len())], 16).unwrap_or(u64::MAX) }
fn opt_num(s: &str) -> String { s.strip_prefix("Some(").and_then(|x| x.strip_suffix(")")).map(|x| x.to_string()).unwrap_or_else(|| "-".into()) }

/// (full intercept id hex, `id/scid/hash/in/out/expiry`) of every HTLCIntercepted in t's pending_events, in queue order
fn icpt_events(net: &Net, t: usize) -> Vec<(String, String)> {
	vh::manager_persisted_state_dump(net.nodes[t].node).iter().filter(|l| l.starts_with("event #") && l.contains(" HTLCIntercepted {")).filter_map(|l| {
		let id = dbg_field(l, "intercept_id")?;
		Some((id.to_string(), format!("{}/{}/{}/{}/{}/{}", hex48(id), dbg_field(l, "requested_next_hop_scid")?, hex48(dbg_field(l, "payment_hash")?), dbg_field(l, "inbound_amount_msat")?,
			dbg_field(l, "expected_outbound_amount_msat")?, opt_num(dbg_field(l, "outgoing_htlc_expiry_block_height")?))))
	}).collect()
}
/// (full intercept id hex, hash48, incoming amount | -, outgoing amount, outgoing cltv) of every entry of t's pending_intercepted_htlcs
fn icpt_held(net: &Net, t: usize) -> Vec<(String, u64, String, String, String)> {
	vh::manager_persisted_state_dump(net.nodes[t].node).iter().filter(|l| l.starts_with("intercepted ")).filter_map(|l| {
		let id = l.split(' ').nth(1)?;
		Some((id.to_string(), hex48(kv_field(l, "hash")?), opt_num(kv_field(l, "incoming_amt")?), kv_field(l, "outgoing_amt")?.to_string(), kv_field(l, "outgoing_cltv")?.to_string()))
	}).collect()
}

fn icpt_settle(net: &mut Net, t: usize) {
	for _ in 0..16 {
		let mut moved = false;
		while let Some((i, j)) = net.any_queued() { net.deliver(i, j); moved = true; }
		for i in 0..net.nodes.len() {
			if net.nodes[i].node.needs_pending_htlc_processing() { net.forward(i); moved = true; }
			if i != t { let before = net.trace.len(); net.process_events(i); if net.trace.len() != before { moved = true; } }
		}
		if !moved { break; }
	}
}

fn run_icpt_world(ops: &[IcOp], rebuild: bool, rec: &mut Rec, seed: u64, regen_total: &mut u64, swept: &mut u64) -> Result<(), String> {
	use lightning::events::{EventsProvider, ReplayEvent};
	use lightning::ln::channelmanager::{InterceptId, PaymentId};
	use lightning::ln::functional_test_utils::{get_payment_preimage_hash, test_legacy_channel_config};
	use lightning::ln::outbound_payment::RecipientOnionFields;
	use lightning::routing::router::{Path, PaymentParameters, Route, RouteHop, RouteParameters};
	use lightning::types::features::{ChannelFeatures, NodeFeatures};
	use lightning::util::config::HTLCInterceptionFlags;
	use std::cell::{Cell, RefCell};
	let key = format!("{}{}", if rebuild { "rb:" } else { "" }, icpt_key(ops));
	let tag = format!("interception world [VERIF_C10_ICPT={}] (seed {}{})", key, seed, if rebuild { ", reconstruct-from-monitors reload path" } else { "" });
	vh::RELOAD_RECONSTRUCT_FROM_MONITORS.store(false, std::sync::atomic::Ordering::Relaxed);
	let mut rng = Rng::new(seed);
	let cfg = test_legacy_channel_config();
	let mut cfg_t = cfg.clone();
	cfg_t.htlc_interception_flags = HTLCInterceptionFlags::ToInterceptSCIDs as u8;
	let mut net = Net::new(3, vec![Some(cfg.clone()), Some(cfg_t), Some(cfg)]);
	net.open(0, 1, 1_000_000, 300_000_000);
	net.open(1, 2, 1_000_000, 300_000_000);
	let t = 1usize;
	let out_chan = net.chans[1].2;
	let mut toks: Vec<String> = vec![];                       // the model's op tokens
	let mut order: Vec<String> = vec![];                      // intercept ids (full hex) in interception order
	let mut first_ev: BTreeMap<String, String> = BTreeMap::new();   // id -> the event as first queued
	let mut pay_of: BTreeMap<String, usize> = BTreeMap::new();      // id -> payment index
	let mut failed_by_app: BTreeSet<usize> = BTreeSet::new();
	let mut told: Vec<String> = vec![];                       // ids the handler accepted since the last restart
	let mut disk: Option<Vec<u8>> = None;
	let mut crashed = false;
	let mut blocks_connected = false;
	let show = |net: &Net, told: &Vec<String>| -> String {
		let h: Vec<String> = icpt_held(net, t).iter().map(|x| hex48(&x.0).to_string()).collect();
		let q: Vec<String> = icpt_events(net, t).into_iter().map(|x| x.1).collect();
		format!("held={} queue={} told={}", join_sorted(h), join_sorted(q), join_sorted(told.iter().map(|x| hex48(x).to_string()).collect()))
	};
	for (n_op, op) in ops.iter().enumerate() {
		match *op {
			IcOp::I => {
				let amt = 3_000_000 + rng.below(20_000_000);
				let scid = net.nodes[t].node.get_intercept_scid();
				let fee0 = 1000 + rng.below(3000);
				let (preimage, hash, secret) = get_payment_preimage_hash(&net.nodes[2], Some(amt), None);
				let hops = vec![
					RouteHop { pubkey: net.ids[1], node_features: NodeFeatures::empty(), short_channel_id: net.chans[0].3, channel_features: ChannelFeatures::empty(), fee_msat: fee0, cltv_expiry_delta: 48, maybe_announced_channel: true },
					RouteHop { pubkey: net.ids[2], node_features: NodeFeatures::empty(), short_channel_id: scid, channel_features: ChannelFeatures::empty(), fee_msat: amt, cltv_expiry_delta: 70, maybe_announced_channel: true }];
				let params = PaymentParameters::from_node_id(net.ids[2], 70);
				let route = Route { paths: vec![Path { hops, blinded_tail: None }], route_params: RouteParameters::from_payment_params_and_value(params, amt) };
				let id = PaymentId(hash.0);
				net.nodes[0].node.send_payment_with_route(route, hash, RecipientOnionFields::secret_only(secret, amt), id).map_err(|e| format!("send failed: {:?}", e))?;
				net.pump(0);
				net.pays.push(PendingPay { hash, preimage, secret, amt, id, from: 0, to: 2 });
				icpt_settle(&mut net, t);
				let held = icpt_held(&net, t);
				let new: Vec<_> = held.iter().filter(|h| !order.contains(&h.0)).collect();
				if new.len() != 1 { return Err(format!("op {}: the HTLC was not intercepted ({} new entries)", n_op, new.len())); }
				let h = new[0];
				if h.1 != hex48(&hex(&hash.0)) { return Err("intercepted entry has another payment hash".into()); }
				order.push(h.0.clone());
				pay_of.insert(h.0.clone(), net.pays.len() - 1);
				if let Some(e) = icpt_events(&net, t).into_iter().find(|e| e.0 == h.0) {
					// what the payer put into the onion: forward `amt` to the intercept SCID, `amt + fee` arrives, expiry = tip + 1 + final delta
					let want = format!("{}/{}/{}/{}/{}/", hex48(&h.0), scid, hex48(&hex(&hash.0)), amt + fee0, amt);
					if !e.1.starts_with(&want) { rec.oracle_fail(format!("{}: op {}: Event::HTLCIntercepted does not describe the intercepted HTLC: event {} but the payer sent id/scid/hash/in/out = {} (expiry not compared)", tag, n_op, e.1, want)); }
					first_ev.insert(h.0.clone(), e.1);
				}
				else { rec.oracle_fail(format!("{}: after op {} node {} holds intercepted HTLC {} but no Event::HTLCIntercepted was queued for it", tag, n_op, t, &h.0[..12])); }
				toks.push(format!("i{}:{}:{}:{}:{}:{}", hex48(&h.0), h.1, h.2, h.3, h.4, scid));
			},
			IcOp::H(k) => {
				let cnt = Cell::new(0usize);
				let acc: RefCell<Vec<String>> = RefCell::new(vec![]);
				let handler = |ev: Event| -> Result<(), ReplayEvent> { match ev {
					Event::HTLCIntercepted { intercept_id, .. } => if cnt.get() < k { cnt.set(cnt.get() + 1); acc.borrow_mut().push(hex(&intercept_id.0)); Ok(()) } else { Err(ReplayEvent()) },
					_ => Ok(()) } };
				net.nodes[t].node.process_pending_events(&handler);
				net.pump(t);
				told.extend(acc.into_inner());
				toks.push(format!("h{}", k));
			},
			IcOp::R(j, fwd) => {
				// the j-th HTLC (interception order) among those the running application was told about and that are still held
				let held: Vec<String> = icpt_held(&net, t).into_iter().map(|x| x.0).collect();
				let cands: Vec<String> = order.iter().filter(|id| told.contains(id) && held.contains(id)).cloned().collect();
				if cands.is_empty() { continue; }
				let idh = cands[j % cands.len()].clone();
				let mut idb = [0u8; 32]; idb.copy_from_slice(&unhex(&idh));
				let p = pay_of[&idh];
				let r = if fwd { net.nodes[t].node.forward_intercepted_htlc(InterceptId(idb), &out_chan, net.ids[2], net.pays[p].amt) } else { failed_by_app.insert(p); net.nodes[t].node.fail_intercepted_htlc(InterceptId(idb)) };
				if let Err(e) = r { rec.oracle_fail(format!("{}: op {}: the application was told about intercepted HTLC {} and it is still held, but {} fails: {:?}", tag, n_op, &idh[..12], if fwd { "forward_intercepted_htlc" } else { "fail_intercepted_htlc" }, e)); }
				net.pump(t);
				icpt_settle(&mut net, t);
				toks.push(format!("r{}", hex48(&idh)));
			},
			IcOp::B(edge) => {
				// blocks up to the height at which the expiry sweep must fail back the held HTLC that expires first (edge) / one block short of it
				use lightning::chain::channelmonitor::HTLC_FAIL_BACK_BUFFER;
				use lightning::ln::functional_test_utils::connect_blocks;
				let held = icpt_held(&net, t);
				if held.is_empty() { continue; }
				let cltv_of = |h: &(String, u64, String, String, String)| h.4.parse::<u32>().unwrap_or(0);
				let boundary = held.iter().map(|h| cltv_of(h)).min().unwrap().saturating_sub(HTLC_FAIL_BACK_BUFFER);
				let target = if edge { boundary } else { boundary.saturating_sub(1) };
				if target <= net.nodes[t].best_block_info().1 { continue; }
				for i in 0..net.nodes.len() { let cur = net.nodes[i].best_block_info().1; if target > cur { connect_blocks(&net.nodes[i], target - cur); } }
				net.pump_all();
				icpt_settle(&mut net, t);
				let ht = net.nodes[t].best_block_info().1;
				let after = icpt_held(&net, t);
				for h in &held {
					let due = ht + HTLC_FAIL_BACK_BUFFER >= cltv_of(h);
					let still = after.iter().any(|a| a.0 == h.0);
					if due && still { rec.oracle_fail(format!("{}: op {}: intercepted HTLC {} is still held at height {} although its outgoing expiry {} is within HTLC_FAIL_BACK_BUFFER = {} blocks: it is not failed back in time", tag, n_op, &h.0[..12], ht, cltv_of(h), HTLC_FAIL_BACK_BUFFER)); }
					if !due && !still { rec.oracle_fail(format!("{}: op {}: intercepted HTLC {} was dropped at height {} although its outgoing expiry {} is more than HTLC_FAIL_BACK_BUFFER = {} blocks away and the application did not resolve it", tag, n_op, &h.0[..12], ht, cltv_of(h), HTLC_FAIL_BACK_BUFFER)); }
					if !still { failed_by_app.insert(pay_of[&h.0]); *swept += 1; }
				}
				blocks_connected = true;
				toks.push(format!("b{}", ht));
			},
			IcOp::P => {
				// (on the reconstruct path: written as a build that can take that path writes it — committed inbound update_adds, TLV 75)
				vh::WRITE_INBOUND_COMMITTED_UPDATE_ADDS.store(rebuild, std::sync::atomic::Ordering::Relaxed);
				disk = Some(net.nodes[t].node.encode());
				vh::WRITE_INBOUND_COMMITTED_UPDATE_ADDS.store(false, std::sync::atomic::Ordering::Relaxed);
				toks.push("p".into());
			},
			IcOp::C => {
				let mgr = match &disk { Some(m) => m.clone(), None => return Err("crash before the first write".into()) };
				let (_, mons) = net.snapshot(t);
				let held_disk_q: usize = 0; let _ = held_disk_q;
				vh::RELOAD_RECONSTRUCT_FROM_MONITORS.store(rebuild, std::sync::atomic::Ordering::Relaxed);
				let r = net.restart_from(t, &mgr, &mons);
				vh::RELOAD_RECONSTRUCT_FROM_MONITORS.store(false, std::sync::atomic::Ordering::Relaxed);
				r.map_err(|e| format!("restart failed: {}", e))?;
				told.clear(); crashed = true;
				toks.push(if rebuild { "cr" } else { "c" }.into());
				if rebuild {
					// the map starts empty; the committed inbound HTLCs are decoded again by the first process_pending_htlc_forwards
					let before = icpt_held(&net, t);
					if !before.is_empty() { rec.oracle_fail(format!("{}: op {}: pending_intercepted_htlcs is not empty right after a restart on the reconstruct path ({} entries)", tag, n_op, before.len())); }
					rec.case(&format!("icpt {}", toks.join(" ")), &show(&net, &told), "icpt:rebuild:fresh", true);
					net.reconnect(t, 0); net.reconnect(t, 2);
					icpt_settle(&mut net, t);
					let mut again = icpt_held(&net, t);
					again.sort_by_key(|h| order.iter().position(|o| *o == h.0).unwrap_or(usize::MAX));
					for h in &again {
						if !order.contains(&h.0) { rec.oracle_fail(format!("{}: op {}: after the restart an HTLC with an unknown intercept id {} is held", tag, n_op, &h.0[..12])); continue; }
						let scid = first_ev.get(&h.0).and_then(|e| e.split('/').nth(1).map(|x| x.to_string())).unwrap_or_else(|| "-".into());
						toks.push(format!("i{}:{}:{}:{}:{}:{}", hex48(&h.0), h.1, h.2, h.3, h.4, scid));
					}
				}
				// ---- oracle: every held HTLC has its event pending again, equal to the one first delivered --------------------------
				let evs = icpt_events(&net, t);
				let held = icpt_held(&net, t);
				let mut regen = 0;
				for h in &held {
					let mine: Vec<&(String, String)> = evs.iter().filter(|e| e.0 == h.0).collect();
					if mine.is_empty() {
						rec.oracle_fail(format!("{}: after the restart (op {}) the node holds {} intercepted HTLC(s) in pending_intercepted_htlcs but NO Event::HTLCIntercepted is pending for intercept id {} (payment {}): the application never learns this id again and can neither forward nor fail the HTLC; pending HTLCIntercepted events: {} of {} held",
							tag, n_op, held.len(), &h.0[..12], pay_of.get(&h.0).map(|p| hex(&net.pays[*p].hash.0[..4])).unwrap_or_default(), evs.len(), held.len()));
					} else if let Some(orig) = first_ev.get(&h.0) {
						if mine.iter().any(|e| &e.1 != orig) { rec.oracle_fail(format!("{}: after the restart (op {}) the HTLCIntercepted event of intercept id {} differs from the one delivered when the HTLC was intercepted: {} vs {} (id/scid/hash/in/out/expiry)", tag, n_op, &h.0[..12], mine[0].1, orig)); }
					}
					regen += 1;
				}
				*regen_total += regen;
				rec.case(&format!("icpt {}", toks.join(" ")), &show(&net, &told), &format!("icpt:held{}:ev{}", held.len().min(3), evs.len().min(4)), !held.is_empty());
				if !rebuild { net.reconnect(t, 0); net.reconnect(t, 2); icpt_settle(&mut net, t); }
			},
		}
	}
	if ops.last() != Some(&IcOp::C) { rec.case(&format!("icpt {}", toks.join(" ")), &show(&net, &told), "icpt:live", true); }
	// ---- end to end: what is DELIVERED after the last restart names every held HTLC; everything the application is told about completes ----
	if crashed {
		let acc: RefCell<Vec<String>> = RefCell::new(vec![]);
		let handler = |ev: Event| -> Result<(), ReplayEvent> { if let Event::HTLCIntercepted { intercept_id, .. } = ev { acc.borrow_mut().push(hex(&intercept_id.0)); } Ok(()) };
		net.nodes[t].node.process_pending_events(&handler);
		net.pump(t);
		told.extend(acc.into_inner());
		let held = icpt_held(&net, t);
		for h in &held {
			if !told.contains(&h.0) {
				rec.oracle_fail(format!("{}: Event::HTLCIntercepted for intercept id {} (payment {}) is NOT delivered after the last restart although the node still holds the HTLC ({} held, events delivered since the restart name {:?}): the HTLC can only time out",
					tag, &h.0[..12], pay_of.get(&h.0).map(|p| hex(&net.pays[*p].hash.0[..4])).unwrap_or_default(), held.len(), told.iter().map(|x| x[..12].to_string()).collect::<Vec<_>>()));
			}
		}
		for h in &held {
			if !told.contains(&h.0) { continue; }
			let mut idb = [0u8; 32]; idb.copy_from_slice(&unhex(&h.0));
			let p = pay_of[&h.0];
			if let Err(e) = net.nodes[t].node.forward_intercepted_htlc(InterceptId(idb), &out_chan, net.ids[2], net.pays[p].amt) { rec.oracle_fail(format!("{}: forward_intercepted_htlc of the re-delivered intercept id {} fails after the restart: {:?}", tag, &h.0[..12], e)); }
		}
		net.pump(t);
		net.settle(16);
		for p in 0..net.pays.len() { if net.claimable[2].iter().any(|c| c.0 == net.pays[p].hash) { net.claim(p); } }
		net.settle(16);
		for p in 0..net.pays.len() {
			let id = net.pays[p].id;
			let sent = net.events[0].iter().any(|e| matches!(e, Event::PaymentSent { payment_id: Some(pid), .. } if *pid == id));
			let failed = net.events[0].iter().any(|e| matches!(e, Event::PaymentFailed { payment_id, .. } if *payment_id == id));
			let want_failed = failed_by_app.contains(&p);
			// once blocks were connected up to (one short of) a fail-back deadline, a forward may legitimately be refused downstream (expiry too soon) and be
			// failed back: then only "exactly one terminal event" is required
			let bad = if blocks_connected && !want_failed { sent == failed } else { want_failed && sent || !want_failed && failed || !(sent || failed) };
			if bad {
				rec.oracle_fail(format!("{}: payment {} ({}) ends with PaymentSent={} PaymentFailed={} at the payer after the intercepting node restarted, the application handled every event it was given and the recipient claimed what arrived",
					tag, hex(&net.pays[p].hash.0[..4]), if want_failed { "failed back: fail_intercepted_htlc by the application / expiry sweep" } else { "forwarded by the application with forward_intercepted_htlc" }, sent, failed));
			}
		}
	}
	std::mem::forget(net);
	Ok(())
}

fn icpt_family(rec: &mut Rec, args: &Args) -> (u64, u64, u64) {
	use IcOp::*;
	let mut worlds: Vec<Vec<IcOp>> = vec![
		vec![I, I, H(1), P, C],                 // first event handled, second replayed, manager written afterwards (seeded C10-r5)
		vec![I, I, P, H(1), C],                 // manager written before the handling: both events are in the written queue
		vec![I, I, H(2), P, C],                 // both handled: both regenerated
		vec![I, I, H(0), P, C],                 // none handled
		vec![I, H(1), I, P, C],                 // first handled before the second arrives
		vec![I, I, I, H(2), P, C],
		vec![I, I, I, H(1), P, H(1), C],
		vec![I, I, H(2), R(0, true), P, C],     // one forwarded before the write: one held, no event in the written queue
		vec![I, I, H(2), R(1, false), P, H(0), C],
		vec![I, I, H(1), R(0, false), P, C],    // the handled one failed back: only the queued one is held
		vec![I, I, H(1), P, C, C],              // crash twice
		vec![I, I, H(1), P, C, P, C],           // written again right after the restart
		vec![I, I, H(1), P, C, I, H(9), P, C],  // second round: everything handled, a third HTLC, crash: three regenerated
		vec![I, P, C, I, H(0), P, C],
		vec![I, I, H(1), P],                    // no crash: the live queue
		vec![I, B(false), P, C],                // one block short of the fail-back deadline: still held, event regenerated
		vec![I, B(true), P, C],                 // at the deadline: failed back by the sweep, nothing held
		vec![I, I, H(1), B(true), P, C],
		vec![I, B(true), I, H(0), B(false), P, C],
		vec![I, H(1), P, C, B(false), I, P, C, B(true), P, C],
	];
	let mut rng = Rng::new(args.seed ^ 0x1C97);
	let n_random = if args.thorough { 240 } else { 40 };
	for _ in 0..n_random {
		let mut w = vec![]; let mut n_i = 0; let mut crashed = false;
		let rounds = 1 + rng.below(2);
		for _ in 0..rounds {
			let n_pre = 2 + rng.below(4);
			for _ in 0..n_pre {
				match rng.below(6) {
					0 | 1 | 2 if n_i < 4 => { w.push(I); n_i += 1; },
					3 => w.push(H(if crashed { if rng.chance(1, 2) { 0 } else { 9 } } else { rng.below(3) as usize })),
					4 => if rng.chance(1, 3) { w.push(B(rng.chance(1, 2))) } else { w.push(R(rng.below(3) as usize, rng.chance(1, 2))) },
					_ => if n_i < 4 { w.push(I); n_i += 1; },
				}
			}
			if n_i == 0 { w.push(I); n_i += 1; }
			w.push(P);
			if rng.chance(1, 2) { w.push(H(if crashed { if rng.chance(1, 2) { 0 } else { 9 } } else { rng.below(3) as usize })); }
			w.push(C); crashed = true;
			if rng.chance(1, 4) { w.push(C); }
		}
		worlds.push(w);
	}
	let only = std::env::var("VERIF_C10_ICPT").ok();
	let (mut n, mut errs, mut regen, mut swept) = (0u64, 0u64, 0u64, 0u64);
	let n_w = worlds.len();
	let mut all: Vec<(Vec<IcOp>, bool)> = worlds.iter().cloned().map(|w| (w, false)).collect();
	// the same worlds on the reconstruct-from-monitors reload path (every directed one; every third random one)
	for (k, w) in worlds.into_iter().enumerate() { if w.contains(&IcOp::C) && (k < 20 || k % 3 == 0 || n_w == 0) { all.push((w, true)); } }
	for (w, rebuild) in all {
		let key = format!("{}{}", if rebuild { "rb:" } else { "" }, icpt_key(&w));
		if let Some(o) = &only { if o != "all" && *o != key { continue; } }
		n += 1;
		let seed = rng.next();
		match guarded(AssertUnwindSafe(|| run_icpt_world(&w, rebuild, rec, seed, &mut regen, &mut swept))) {
			Ok(Ok(())) => {},
			Ok(Err(e)) => { errs += 1; rec.discarded += 1; if std::env::var("VERIF_TRACE").is_ok() { eprintln!("interception world {} could not be set up: {}", key, e); } },
			Err(p) => rec.oracle_fail(format!("interception world [VERIF_C10_ICPT={}] (seed {}): panic: {}", key, seed, p.chars().take(300).collect::<String>())),
		}
	}
	(n, errs, regen * 1000 + swept.min(999))
}

/// Hold probe (async payments): node 1 (`enable_htlc_hold`) receives an update_add_htlc carrying `hold_htlc` (the sender asks its LSP to hold the HTLC until the often-offline
/// recipient is online; emulated by setting the TLV on the sender's update_add in transit — it is not covered by the commitment signature).  Node 1 decodes it and keeps it in
/// `pending_intercepted_htlcs` WITHOUT an event (`should_hold_htlc()` branch).  The manager is written, node 1 restarts on the production reload path.
/// Oracle: the restart must not surface an Event::HTLCIntercepted for an HTLC the live node never reported (the protocol says it is held until release_held_htlc).
/// Returns (description, Some(violation text)).
const HOLD_TEXT: &str = "KF-C10-8 a restart invents Event::HTLCIntercepted for an HTLC that is HELD for an often-offline recipient (hold_htlc, async payments): the regeneration loop of from_channel_manager_data creates the event for every entry of pending_intercepted_htlcs, including should_hold_htlc() entries for which the live node never produced one";
fn hold_probe(seed: u64, with_intercept_flags: bool) -> Result<(String, Option<String>), String> {
	use lightning::ln::channelmanager::InterceptId;
	use lightning::ln::functional_test_utils::test_legacy_channel_config;
	use lightning::util::config::HTLCInterceptionFlags;
	vh::RELOAD_RECONSTRUCT_FROM_MONITORS.store(false, std::sync::atomic::Ordering::Relaxed);
	let mut rng = Rng::new(seed);
	let cfg = test_legacy_channel_config();
	let mut cfg_t = cfg.clone();
	cfg_t.enable_htlc_hold = true;
	if with_intercept_flags { cfg_t.htlc_interception_flags = HTLCInterceptionFlags::ToInterceptSCIDs as u8; }
	let mut net = Net::new(3, vec![Some(cfg.clone()), Some(cfg_t), Some(cfg)]);
	net.open(0, 1, 1_000_000, 300_000_000);
	net.open(1, 2, 1_000_000, 300_000_000);
	let t = 1usize;
	let out_chan = net.chans[1].2;
	let amt = 3_000_000 + rng.below(20_000_000);
	let p = net.send(&[0, 1, 2], &[0, 1], amt, 70)?;
	let mut marked = 0;
	if let Some(q) = net.q.get_mut(&(0, 1)) { for w in q.iter_mut() { if let Wire::Add(m) = w { m.hold_htlc = Some(()); marked += 1; } } }
	if marked != 1 { return Err(format!("{} update_add_htlc in transit", marked)); }
	icpt_settle(&mut net, t);
	let held = icpt_held(&net, t);
	if held.len() != 1 { return Err(format!("the HTLC is not held by node 1 ({} entries in pending_intercepted_htlcs)", held.len())); }
	let live_events = icpt_events(&net, t);
	let idh = held[0].0.clone();
	let mut idb = [0u8; 32]; idb.copy_from_slice(&unhex(&idh));
	let mut text = format!("hold probe (seed {}, interception flags {}): node 1 holds HTLC {} of payment {} (amount {}) with hold_htlc set; HTLCIntercepted events pending in the live node: {}", seed, with_intercept_flags, &idh[..12], hex(&net.pays[p].hash.0[..4]), amt, live_events.len());
	if !live_events.is_empty() { return Ok((text.clone(), Some(format!("the LIVE node queued Event::HTLCIntercepted for a held HTLC: {}", live_events[0].1)))); }
	let mgr = net.nodes[t].node.encode();
	let (_, mons) = net.snapshot(t);
	net.restart_from(t, &mgr, &mons).map_err(|e| format!("restart failed: {}", e))?;
	let held2 = icpt_held(&net, t);
	let evs = icpt_events(&net, t);
	text += &format!("; after writing the manager and restarting (production reload path): {} held, {} HTLCIntercepted event(s) pending", held2.len(), evs.len());
	if evs.is_empty() { return Ok((text, None)); }
	text += &format!(": {} (id/scid/hash/in/out/expiry)", evs[0].1);
	// what can the application now do with the id it was handed?
	net.reconnect(t, 0); net.reconnect(t, 2);
	icpt_settle(&mut net, t);
	let r = { let node = net.nodes[t].node; let to = net.ids[2]; guarded(AssertUnwindSafe(|| node.forward_intercepted_htlc(InterceptId(idb), &out_chan, to, amt))) };
	let fwd = match r { Ok(Ok(())) => "Ok(()) — the held HTLC is forwarded although the recipient never released it".to_string(), Ok(Err(e)) => format!("Err({:?})", e).chars().take(160).collect(), Err(pn) => format!("panics (debug build): {}", pn.chars().take(200).collect::<String>()) };
	text += &format!("; forward_intercepted_htlc with that id: {}", fwd);
	// fresh restart for the other call
	if net.restart_from(t, &mgr, &mons).is_ok() {
		net.reconnect(t, 0); net.reconnect(t, 2);
		icpt_settle(&mut net, t);
		let r = { let node = net.nodes[t].node; guarded(AssertUnwindSafe(|| node.fail_intercepted_htlc(InterceptId(idb)))) };
		let fl = match r { Ok(Ok(())) => { net.pump(t); net.settle(12); let id = net.pays[p].id; let failed = net.events[0].iter().any(|e| matches!(e, Event::PaymentFailed { payment_id, .. } if *payment_id == id)); format!("Ok(()) — the held HTLC is failed back (PaymentFailed at the payer: {})", failed) }, Ok(Err(e)) => format!("Err({:?})", e).chars().take(160).collect(), Err(pn) => format!("panics: {}", pn.chars().take(200).collect::<String>()) };
		text += &format!("; after another restart from the same bytes, fail_intercepted_htlc: {}", fl);
	}
	std::mem::forget(net);
	Ok((text.clone(), Some(format!("{} event(s) invented by the restart", evs.len()))))
}

// =====================================================================================================================
// Repaired KF-C10-6 end to end: an HTLC of the stale manager's holding cell that the newer monitor lists is left to the monitor
// =====================================================================================================================
/// Line 0 -c0- 1 -c1- 2 (legacy channels), node under test t = 1.  (1) t pays node 2 itself; node 2's revoke_and_ack is held back, so c1
/// awaits it.  (2) `own` = false: node 0 pays node 2 through t: the HTLC is irrevocably committed on c0 and t's forward lands in c1's
/// HOLDING CELL; `own` = true: t sends a second payment of its own to node 2, which lands in c1's holding cell.  (3) the ChannelManager
/// is written (the copy that will be reloaded).  (4) node 2's revoke_and_ack arrives: the holding cell is freed, the HTLC is committed on
/// c1 (monitor updates durable) and becomes claimable at node 2; nothing happens on c0.  (5) crash; restart from the manager of (3) and the
/// current monitors: c0 is resumed, c1 is closed as OutdatedChannelManager.  (6) peers reconnect, everything is delivered: NOTHING may be
/// failed (no update_fail_htlc upstream / no PaymentFailed), the HTLC stays committed on c0.  (7) node 2 claims; t's commitment (broadcast
/// by the close) and node 2's preimage claim confirm and are buried: t learns the preimage from its monitor and claims upstream
/// (PaymentForwarded, balance on c0 credited, PaymentSent at node 0) / generates PaymentSent for its own payment.
/// Returns a description of what happened; `Some(what)` when one of these expectations failed.
fn kf6_probe(seed: u64, own: bool, by_timeout: bool) -> Result<(String, Option<String>), String> {
	use lightning::chain::channelmonitor::ANTI_REORG_DELAY;
	use lightning::ln::functional_test_utils::{connect_blocks, mine_transaction, test_legacy_channel_config};
	let mut rng = Rng::new(seed);
	let cfg = test_legacy_channel_config();
	let mut net = Net::new(3, vec![Some(cfg.clone()), Some(cfg.clone()), Some(cfg)]);
	net.open(0, 1, 1_000_000, 400_000_000); net.open(1, 2, 1_000_000, 400_000_000);
	let t = 1usize; let (c0, c1) = (net.chans[0].2, net.chans[1].2);
	let v_c0_start = vh::channel_value_to_self_msat(net.nodes[t].node, &net.ids[0], &c0).ok_or("no c0")?;
	// (1)
	let _pa = net.send(&[1, 2], &[1], 2_000_000 + rng.below(3_000_000), 70)?;
	for _ in 0..2 { net.deliver(1, 2).ok_or("1>2 message missing")?; }
	// (2)
	let amt_b = 5_000_000 + rng.below(20_000_000);
	let pb = if own { net.send(&[1, 2], &[1], amt_b, 70)? } else { net.send(&[0, 1, 2], &[0, 1], amt_b, 70)? };
	if !own {
		for _ in 0..30 { if net.queued(0, 1) > 0 { net.deliver(0, 1); } else if net.queued(1, 0) > 0 { net.deliver(1, 0); } else { break; } }
		for _ in 0..3 { if net.nodes[t].node.needs_pending_htlc_processing() { net.forward(t); } }
	}
	let held = vh::channel_outbound_htlc_sources(net.nodes[t].node, &net.ids[2], &c1);
	let want = if own { "route:" } else { "prev:" };
	if !held.iter().any(|l| l.starts_with(want) && l.ends_with("kind=holding")) { return Err(format!("the HTLC did not land in the holding cell: {:?}", held)); }
	// (3)
	let mgr = net.nodes[t].node.encode();
	let c0_nums = vh::channel_restart_numbers(net.nodes[t].node, &net.ids[0], &c0);
	// (4)
	for _ in 0..40 { if net.queued(2, 1) > 0 { net.deliver(2, 1); } else if net.queued(1, 2) > 0 { net.deliver(1, 2); } else { break; } }
	for _ in 0..3 { if net.nodes[2].node.needs_pending_htlc_processing() { net.forward(2); } }
	net.process_events(2);
	let hb = net.pays[pb].hash;
	if !net.claimable[2].iter().any(|c| c.0 == hb) { return Err("the HTLC did not become claimable at node 2".into()); }
	if vh::channel_restart_numbers(net.nodes[t].node, &net.ids[0], &c0) != c0_nums { return Err("c0 moved after the manager was written".into()); }
	// (5)
	let mons: Vec<Vec<u8>> = vec![net.nodes[t].chain_monitor.chain_monitor.get_monitor(c0).unwrap().encode(), net.nodes[t].chain_monitor.chain_monitor.get_monitor(c1).unwrap().encode()];
	let listed_before = vh::monitor_outbound_htlcs_dump(&net.nodes[t].chain_monitor.chain_monitor.get_monitor(c1).unwrap());
	let payer = if own { t } else { 0 };
	let ev0 = net.events[payer].len();
	net.restart_from(t, &mgr, &mons).map_err(|e| format!("restart failed: {}", e))?;
	net.process_events(t);
	let closed_c1 = net.events[t].iter().any(|e| matches!(e, Event::ChannelClosed { channel_id, reason: ClosureReason::OutdatedChannelManager, .. } if *channel_id == c1));
	let c0_resumed = net.nodes[t].node.list_channels().iter().any(|c| c.channel_id == c0);
	if !closed_c1 || !c0_resumed { return Err(format!("unexpected restart outcome: c1 closed as OutdatedChannelManager = {}, c0 resumed = {}", closed_c1, c0_resumed)); }
	// (6)
	net.reconnect(1, 0); net.reconnect(1, 2);
	net.settle(10);
	let failed_at_restart = net.events[payer][ev0..].iter().any(|e| matches!(e, Event::PaymentFailed { payment_hash: Some(h), .. } if *h == hb));
	let c0_inbound_left = net.nodes[t].node.list_channels().iter().filter(|c| c.channel_id == c0).map(|c| c.pending_inbound_htlcs.len()).sum::<usize>();
	// (7) node 2 claims (or never does: `by_timeout`); t's commitment of c1 confirms, then node 2's preimage claim / t's HTLC-timeout claims
	if !by_timeout { net.claimable[2].retain(|c| c.0 != hb); net.claim(pb); }
	net.settle(4);
	let funding = net.nodes[t].chain_monitor.chain_monitor.get_monitor(c1).unwrap().get_funding_txo();
	let commit = net.nodes[t].tx_broadcaster.txn_broadcasted.lock().unwrap().iter().find(|tx| tx.input.len() == 1 && tx.input[0].previous_output.txid == funding.txid && tx.input[0].previous_output.vout == funding.index as u32).cloned().ok_or("t did not broadcast a commitment transaction of c1")?;
	all_nodes_blocks(&mut net, |n| { mine_transaction(n, &commit); });
	net.settle(4);
	let commit_txid = commit.compute_txid();
	let (mut claimed_downstream, mut claim_spends_htlc) = (false, false);
	if by_timeout {
		// the HTLC expires (final_cltv_delta 70; the inbound HTLC on c0 expires 48 blocks later); t's HTLC-timeout claims confirm and are buried
		all_nodes_blocks(&mut net, |n| { connect_blocks(n, 70 + 8); });
		net.settle(4);
		let bcast: Vec<bitcoin::Transaction> = net.nodes[t].tx_broadcaster.txn_broadcasted.lock().unwrap().clone();
		let mut spent: BTreeSet<String> = BTreeSet::new(); let mut claims = vec![];
		for tx in bcast.iter().rev() { if tx.input.iter().all(|i| i.previous_output.txid == commit_txid) && tx.input.iter().all(|i| !spent.contains(&format!("{}", i.previous_output))) {
			for i in &tx.input { spent.insert(format!("{}", i.previous_output)); }
			claims.push(tx.clone());
		} }
		if !claims.iter().any(|tx| tx.input.iter().any(|i| commit.output.get(i.previous_output.vout as usize).map(|o| o.value.to_sat() == amt_b / 1000).unwrap_or(false))) { return Err(format!("t broadcast no timeout claim of the {}-sat HTLC output ({} claims)", amt_b / 1000, claims.len())); }
		for tx in &claims { let tx = tx.clone(); all_nodes_blocks(&mut net, move |n| { mine_transaction(n, &tx); }); }
		all_nodes_blocks(&mut net, |n| { connect_blocks(n, ANTI_REORG_DELAY + 1); });
		for _ in 0..3 { net.settle(6); }
	} else {
		let claim2: Vec<bitcoin::Transaction> = net.nodes[2].tx_broadcaster.txn_broadcasted.lock().unwrap().iter().filter(|tx| tx.input.iter().any(|i| i.previous_output.txid == commit_txid)).cloned().collect();
		let claim_tx = claim2.last().cloned().ok_or("node 2 did not broadcast a preimage claim of the HTLC output")?;
		all_nodes_blocks(&mut net, |n| { mine_transaction(n, &claim_tx); });
		all_nodes_blocks(&mut net, |n| { connect_blocks(n, ANTI_REORG_DELAY + 1); });
		for _ in 0..3 { net.settle(6); }
		claimed_downstream = net.events[2].iter().any(|e| matches!(e, Event::PaymentClaimed { payment_hash, .. } if *payment_hash == hb));
		claim_spends_htlc = claim_tx.input.iter().any(|i| i.previous_output.txid == commit_txid && commit.output.get(i.previous_output.vout as usize).map(|o| o.value.to_sat() == amt_b / 1000).unwrap_or(false));
		if !claimed_downstream || !claim_spends_htlc { return Err(format!("node 2 did not collect the HTLC on chain (PaymentClaimed = {}, its claim spends the {}-sat HTLC output = {})", claimed_downstream, amt_b / 1000, claim_spends_htlc)); }
	}
	let forwarded_ev = net.events[t].iter().any(|e| matches!(e, Event::PaymentForwarded { .. }));
	let v_c0_end = vh::channel_value_to_self_msat(net.nodes[t].node, &net.ids[0], &c0);
	let payer_sent = net.events[payer].iter().any(|e| matches!(e, Event::PaymentSent { payment_hash, .. } if *payment_hash == hb));
	let payer_failed = net.events[payer].iter().any(|e| matches!(e, Event::PaymentFailed { payment_hash: Some(h), .. } if *h == hb));
	let c0_inbound_end = net.nodes[t].node.list_channels().iter().filter(|c| c.channel_id == c0).map(|c| c.pending_inbound_htlcs.len()).sum::<usize>();
	let c0_open = net.nodes[t].node.list_channels().iter().any(|c| c.channel_id == c0);
	let text = format!("seed {}: HTLC {} ({} msat) {}; manager of node 1 written with the HTLC in c1's holding cell (c1 monitor then listed {:?}); after the restart c1 closed as OutdatedChannelManager, c0 resumed; payer got PaymentFailed before the on-chain resolution = {}, inbound HTLCs left on c0 at node 1 = {}; {}; node 1 PaymentForwarded = {}, payer PaymentSent = {}, payer PaymentFailed = {}; inbound HTLCs on c0 at the end = {} (c0 open = {}); node 1's balance on c0 {} → {:?} msat",
		seed, hex(&hb.0[..4]), amt_b, if own { "1→2 (own payment of node 1)" } else { "0→1→2" }, listed_before.iter().map(|l| l.split(' ').filter(|x| !x.starts_with("hash=")).collect::<Vec<_>>().join(" ")).collect::<Vec<_>>(), failed_at_restart, c0_inbound_left,
		if by_timeout { format!("node 2 never claims: node 1's HTLC-timeout claim of the {}-sat HTLC output confirmed and is buried", amt_b / 1000) } else { format!("node 2 PaymentClaimed = {}, its on-chain claim spends the {}-sat HTLC output of node 1's commitment = {}", claimed_downstream, amt_b / 1000, claim_spends_htlc) },
		forwarded_ev, payer_sent, payer_failed, c0_inbound_end, c0_open, v_c0_start, v_c0_end);
	let mut bad: Vec<String> = vec![];
	if failed_at_restart { bad.push(format!("the HTLC was failed back at the restart although node 1's newer monitor of c1 lists it as committed (payer saw PaymentFailed){}", if by_timeout { String::new() } else { format!(", and node 2 then collected {} msat on chain", amt_b) })); }
	if !own && c0_inbound_left != 1 { bad.push(format!("{} inbound HTLCs were left on c0 after the restart settled (expected the 1 that backs the live downstream HTLC)", c0_inbound_left)); }
	if by_timeout {
		// resolved by the timeout: failed back exactly then (never claimed), nothing stays pending, nobody gains or loses
		if !payer_failed { bad.push("the payer never saw PaymentFailed although node 1's HTLC-timeout claim is buried".into()); }
		if payer_sent { bad.push("the payer saw PaymentSent although the recipient never released the preimage".into()); }
		if !own {
			if !c0_open { bad.push("c0 was closed".into()); }
			if c0_inbound_end != 0 { bad.push(format!("{} inbound HTLCs still pending on c0 at the end", c0_inbound_end)); }
			if forwarded_ev { bad.push("node 1 generated PaymentForwarded for an HTLC that timed out".into()); }
			if v_c0_end != Some(v_c0_start) { bad.push(format!("node 1's balance on c0 went {} → {:?} msat although the HTLC timed out on both legs", v_c0_start, v_c0_end)); }
		}
	} else {
		if payer_failed && !failed_at_restart { bad.push("the payer saw PaymentFailed although the recipient collected the HTLC".into()); }
		if !payer_sent { bad.push("the payer never saw PaymentSent although node 2's preimage claim is buried in node 1's chain".into()); }
		if !own {
			if !forwarded_ev { bad.push("node 1 generated no PaymentForwarded".into()); }
			if c0_inbound_end != 0 { bad.push(format!("{} inbound HTLCs still pending on c0 at the end", c0_inbound_end)); }
			match v_c0_end { Some(v) if v >= v_c0_start + amt_b => {}, other => bad.push(format!("node 1 paid {} msat downstream (claimed on chain by node 2) and its balance on c0 went {} → {:?} msat: not credited the upstream amount", amt_b, v_c0_start, other)) }
		}
	}
	std::mem::forget(net);
	Ok((text, if bad.is_empty() { None } else { Some(bad.join("; ")) }))
}

/// Reference run → ops for the run model (Restart.step), checked against the live node at every point.
/// Fresh updates and releases carry their step kinds (Update observations); an update handed to chain::Watch
/// with an id the channel had already generated and without any commitment step is a preimage update that
/// jumped ahead of the blocked ones (`jump`); the content of a blocked update is inferred from the change of
/// the channel's numbers at the point where it was generated (tracking stops if that is ambiguous).
fn track_run(rec: &mut Rec, sc: usize, t: usize, net: &Net, pts: &[Point], my: &[(usize, usize, ChannelId)]) {
	let dec = |ks: &Vec<&'static str>| -> [u64; 3] { let mut d = [0u64; 3]; for s in ks { if s.starts_with("HolderCommitment") { d[0] += 1; } else if s.starts_with("CounterpartyCommitment") { d[1] += 1; } else if *s == "CommitmentSecret" { d[2] += 1; } } d };
	for (k, (ci, _, _)) in my.iter().enumerate() {
		let key = format!("s{}c{}", sc, ci);
		let v0 = &pts[0].views[k];
		let c0 = match v0.chan { Some(c) => c, None => continue };
		rec.directive(&format!("init {} {} {} {} {}", key, v0.mon_id, c0[2], c0[3], c0[4]));
		let mut generated = v0.mon_id; let mut watch = v0.mon_id; let mut durable = v0.mon_id;
		let mut pending: BTreeSet<u64> = BTreeSet::new();
		'points: for pi in 1..pts.len() {
			let (cp, cn) = match (pts[pi - 1].views[k].chan, pts[pi].views[k].chan) { (Some(a), Some(b)) => (a, b), _ => break };
			let obs: Vec<&Obs> = net.trace[pts[pi - 1].trace_len..pts[pi].trace_len].iter().filter(|o| match o { Obs::Generated { node, chan, .. } | Obs::Update { node, chan, .. } | Obs::Completed { node, chan, .. } => *node == t && chan == ci, _ => false }).collect();
			// decrement left over for the (single) blocked update generated in this interval
			let mut known = [0u64; 3]; let mut n_blocked_gen = 0;
			{ let mut g = generated; for o in &obs { match o {
				Obs::Update { id, kinds, .. } => { if *id > g { let d = dec(kinds); for x in 0..3 { known[x] += d[x]; } g = *id; } else if dec(kinds) == [0, 0, 0] { g += 1; } },
				Obs::Generated { id, .. } => { while g < *id { g += 1; n_blocked_gen += 1; } },
				_ => {},
			} } }
			let total = [cp[2] - cn[2], cp[3] - cn[3], cp[4] - cn[4]];
			if n_blocked_gen > 1 || (0..3).any(|x| total[x] < known[x]) { rec.discarded += 1; break 'points; }
			let blocked_d = [total[0] - known[0], total[1] - known[1], total[2] - known[2]];
			for o in &obs {
				match o {
					Obs::Generated { id, .. } => { while generated < *id { generated += 1; rec.directive(&format!("upd {} {} {} {} 1", key, blocked_d[0], blocked_d[1], blocked_d[2])); } },
					Obs::Update { id, kinds, in_progress, .. } => {
						let d = dec(kinds);
						if *id > generated { generated = *id; watch = *id; rec.directive(&format!("upd {} {} {} {} 0", key, d[0], d[1], d[2])); }
						else if d == [0, 0, 0] { generated += 1; watch = *id; rec.directive(&format!("jump {} 0 0 0", key)); }
						else { watch = *id; rec.directive(&format!("release {}", key)); }
						if *in_progress { pending.insert(*id); }
						else if pending.is_empty() { durable = watch; rec.directive(&format!("complete {} {}", key, durable)); rec.directive(&format!("notify {}", key)); }
					},
					Obs::Completed { id, .. } => {
						pending.remove(id);
						let dn = pending.iter().next().map(|m| m - 1).unwrap_or(watch);
						if dn > durable { durable = dn; rec.directive(&format!("complete {} {}", key, durable)); }
						if pending.is_empty() { rec.directive(&format!("notify {}", key)); }
					},
					_ => {},
				}
			}
			let v = &pts[pi].views[k];
			rec.case(&format!("state {}", key), &format!("{} {} {} {} {} {} {} {} {}", cn[0], cn[1], csv(&v.inflight), cn[2], cn[3], cn[4], v.mon[0], v.mon[1], v.mon[2]),
				&format!("track:{}", if cn[5] > 0 { "blocked" } else if !v.inflight.is_empty() { "in-flight" } else { "quiet" }), pi == pts.len() - 1 || pts[pi].views[k] != pts[pi - 1].views[k]);
		}
	}
}
