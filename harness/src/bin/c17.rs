//! C17 — the real `NetworkGraph` / `P2PGossipSync` on generated gossip, against the Lean model
//! (lean/LdkModel/Model/Gossip.lean) and three model-independent oracles.
//!
//! op lines (decimal integers, booleans 0/1; node ids are ranks 1..NK of the pool keys in `NodeId` order):
//!   reset
//!   ca <scid> <n1> <n2> <sameBtc> <chainOk> <verify> <sN1> <sN2> <sB1> <sB2> <utxo: n|u|v<sats>|w<sats>> <now>   (w = TxOut paying to another script)
//!        (sX = 0: that signature does not verify against the key of its slot; HOW it is forged is a function of the
//!         line: Ctx::forgery_style(scid, n1, n2, sameBtc), see build_ca)
//!   cp <scid> <cap|-> <recv> <n1> <n2>                 add_channel_from_partial_announcement
//!   cu <scid> <dir> <disabled> <ts> <cltv> <min> <max> <base> <prop> <chainOk> <dontFwd> <verify> <signer>
//!   na <node> <ts> <payload> <verify> <sigOk>
//!   fc <scid> <now>   fn <id> <now>   pr <t>           permanent failures (handle_network_update), pruning
//!   tc <scid> <now>   tn <id> <now>                    NON-permanent failures (handle_network_update): no-ops
//!   dump / dumpp                                        canonical dump with / without tombstones
//!   asynchronous UTXO lookups (phase F/G): `ca … a<fid> <now>` = the lookup answers UtxoResult::Async with a fresh
//!   UtxoFuture <fid>; `rs <fid> <u|v<sats>>` = UtxoFuture::resolve; `pc <now>` = P2PGossipSync::
//!   get_and_clear_pending_msg_events (check_resolved_futures), answer = `done` + the queued broadcasts
//!   (A<scid> / N<node>/<ts> / U<scid>/<dir>/<ts>); `tm` = processing_queue_high (too_many_checks_pending)
//!
//! Wall clock: `announcement_received_time` and the tombstone times of `channel_failed_permanent` /
//! `node_failed_permanent` are `SystemTime::now()` inside the library. The harness reads the clock once
//! (T0); op lines carry `now = T0`; dumps print any stored time in [T0, T0+3600) as T0; every explicit
//! time the generator chooses lies outside that window and outside the windows where a comparison
//! with a wall-clock value could come out differently for T0 and for T0+run time.
use bitcoin::amount::Amount;
use bitcoin::constants::ChainHash;
use bitcoin::hashes::sha256d::Hash as Sha256dHash;
use bitcoin::hashes::Hash;
use bitcoin::secp256k1::{Message, PublicKey, Secp256k1, SecretKey};
use bitcoin::{Network, TxOut};
use ldk_verif_harness::common::*;
use lightning::ln::chan_utils::make_funding_redeemscript;
use lightning::ln::msgs::{
	BaseMessageHandler, ChannelAnnouncement, ChannelUpdate, LightningError, MessageSendEvent, NodeAnnouncement, RoutingMessageHandler,
	UnsignedChannelAnnouncement, UnsignedChannelUpdate, UnsignedNodeAnnouncement,
};
use lightning::routing::gossip::{NetworkGraph, NetworkUpdate, NodeAlias, NodeId, P2PGossipSync};
use lightning::routing::utxo::{UtxoFuture, UtxoLookup, UtxoLookupError, UtxoResult};
use lightning::types::features::{ChannelFeatures, NodeFeatures};
use lightning::util::ser::{BigSize, ReadableArgs, Writeable};
use lightning_rapid_gossip_sync::{GraphSyncError, RapidGossipSync};
use lightning::util::wakers::Notifier;
use std::collections::HashMap;
use std::panic::AssertUnwindSafe;
use std::sync::{Arc, Mutex};
use std::time::{SystemTime, UNIX_EPOCH};

static LOGGER: NullLogger = NullLogger;
type Graph = NetworkGraph<&'static NullLogger>;

/// 21 million BTC in msat (msgs::MAX_VALUE_MSAT is crate-private; the oracle states the bound itself)
const MAX_VALUE_MSAT: u64 = 21_000_000 * 100_000_000 * 1000;
const NK: usize = 5; // node key pool
const GARBAGE: u64 = 99; // "signer" that is no pool node
const STALE: u64 = 60 * 60 * 24 * 14;
const TRACK: u64 = 60 * 60 * 24 * 7;
const WINDOW: u64 = 3600;

struct Stub(Result<TxOut, UtxoLookupError>);
impl UtxoLookup for Stub {
	fn get_utxo(&self, _c: &ChainHash, _scid: u64, _n: Arc<Notifier>) -> UtxoResult { UtxoResult::Sync(self.0.clone()) }
}

struct Ctx {
	secp: Secp256k1<bitcoin::secp256k1::All>,
	node_sk: Vec<SecretKey>, // index = rank-1, sorted by NodeId
	node_id: Vec<NodeId>,
	node_pk: Vec<PublicKey>,
	rank: HashMap<NodeId, u64>,
	garbage_sk: SecretKey,
	btc_sk: [SecretKey; 2],
	btc_other: SecretKey,
	t0: u64,
	/// recorded dumps print each node's channel list in ARRIVAL order (the Vec as it is) — off in the asynchronous phases
	ordered: std::cell::Cell<bool>,
}

#[derive(Clone, Copy, PartialEq, Debug)]
enum Utxo { NoLookup, Value(u64), UnknownTx, /// the lookup answers a TxOut of that many sats paying to ANOTHER script (2-of-2 of bitcoin_key_1 and an unrelated key)
	WrongScript(u64), /// UtxoResult::Async with the fresh future <fid> (phases F/G only)
	Async(u64) }

/// what the scripted lookup answers next
enum Mode { Sync(Result<TxOut, UtxoLookupError>), /// a future that is already resolved when get_utxo returns it (handled in-line by the library)
	Early(Result<TxOut, UtxoLookupError>), Async(u64) }
/// a UtxoLookup the harness scripts call by call; it keeps a clone of every future it hands out
struct Scripted { next: Mutex<Option<Mode>>, futures: Mutex<HashMap<u64, UtxoFuture>>, calls: Mutex<u64> }
impl UtxoLookup for Scripted {
	fn get_utxo(&self, _c: &ChainHash, _scid: u64, n: Arc<Notifier>) -> UtxoResult {
		*self.calls.lock().unwrap() += 1;
		match self.next.lock().unwrap().take().expect("scripted lookup called without a script") {
			Mode::Sync(r) => UtxoResult::Sync(r),
			Mode::Early(r) => { let f = UtxoFuture::new(n); f.resolve(r); UtxoResult::Async(f) },
			Mode::Async(fid) => { let f = UtxoFuture::new(n); self.futures.lock().unwrap().insert(fid, f.clone()); UtxoResult::Async(f) },
		}
	}
}
/// the real graph + one P2PGossipSync with the scripted lookup (phases F/G)
struct AsyncEnv<'a> { g: &'a Graph, look: Arc<Scripted>, sync: P2PGossipSync<&'a Graph, Arc<Scripted>, &'static NullLogger>, early: bool }
impl<'a> AsyncEnv<'a> {
	fn new(g: &'a Graph, early: bool) -> AsyncEnv<'a> {
		let look = Arc::new(Scripted { next: Mutex::new(None), futures: Mutex::new(HashMap::new()), calls: Mutex::new(0) });
		AsyncEnv { g, sync: P2PGossipSync::new(g, Some(Arc::clone(&look)), &LOGGER), look, early }
	}
}

#[derive(Clone, PartialEq, Debug)]
enum Op {
	Ca { scid: u64, n1: u64, n2: u64, same_btc: bool, chain_ok: bool, verify: bool, sigs: [bool; 4], utxo: Utxo },
	Cp { scid: u64, cap: Option<u64>, recv: u64, n1: u64, n2: u64 },
	Cu { scid: u64, dir: bool, disabled: bool, ts: u64, cltv: u64, min: u64, max: u64, base: u64, prop: u64, chain_ok: bool, dont_fwd: bool, verify: bool, signer: u64 },
	Na { node: u64, ts: u64, payload: u64, verify: bool, sig_ok: bool },
	Fc { scid: u64 },
	Fn { id: u64 },
	/// NON-permanent payment failures through handle_network_update (must not touch the graph)
	Tc { scid: u64 },
	Tn { id: u64 },
	Pr { t: u64 },
	/// rapid-gossip-sync snapshot: nodes = detail bits per pool node (rank order), anns = (scid, cap, n1, n2), upds = (scid, flags, cltv, min, base, prop, max)
	Rgs { latest: u64, now: Option<u64>, d: [u64; 5], nodes: Vec<u8>, anns: Vec<(u64, Option<u64>, u64, u64)>, upds: Vec<(u64, u8, [u64; 5])> },
	/// UtxoFuture::resolve of future <fid> (res = Value | UnknownTx)
	Rs { fid: u64, res: Utxo },
	/// check_resolved_futures through P2PGossipSync::get_and_clear_pending_msg_events
	Pc,
	/// too_many_checks_pending
	Tm,
}

fn b(x: bool) -> u8 { x as u8 }

impl Op {
	fn line(&self, t0: u64) -> String {
		match self {
			Op::Ca { scid, n1, n2, same_btc, chain_ok, verify, sigs, utxo } => format!("ca {} {} {} {} {} {} {} {} {} {} {} {}", scid, n1, n2, b(*same_btc), b(*chain_ok), b(*verify), b(sigs[0]), b(sigs[1]), b(sigs[2]), b(sigs[3]),
				match utxo { Utxo::NoLookup => "n".to_string(), Utxo::UnknownTx => "u".to_string(), Utxo::Value(v) => format!("v{}", v), Utxo::WrongScript(v) => format!("w{}", v), Utxo::Async(f) => format!("a{}", f) }, t0),
			Op::Cp { scid, cap, recv, n1, n2 } => format!("cp {} {} {} {} {}", scid, cap.map(|c| c.to_string()).unwrap_or("-".into()), recv, n1, n2),
			Op::Cu { scid, dir, disabled, ts, cltv, min, max, base, prop, chain_ok, dont_fwd, verify, signer } => format!("cu {} {} {} {} {} {} {} {} {} {} {} {} {}", scid, b(*dir), b(*disabled), ts, cltv, min, max, base, prop, b(*chain_ok), b(*dont_fwd), b(*verify), signer),
			Op::Na { node, ts, payload, verify, sig_ok } => format!("na {} {} {} {} {}", node, ts, payload, b(*verify), b(*sig_ok)),
			Op::Fc { scid } => format!("fc {} {}", scid, t0),
			Op::Fn { id } => format!("fn {} {}", id, t0),
			Op::Tc { scid } => format!("tc {} {}", scid, t0),
			Op::Tn { id } => format!("tn {} {}", id, t0),
			Op::Pr { t } => format!("pr {}", t),
			Op::Rs { fid, res } => format!("rs {} {}", fid, match res { Utxo::Value(v) => format!("v{}", v), Utxo::WrongScript(v) => format!("w{}", v), _ => "u".to_string() }),
			Op::Pc => format!("pc {}", t0),
			Op::Tm => "tm".to_string(),
			Op::Rgs { .. } => unreachable!("rgs lines need the key parities: Ctx::rgs_line"),
		}
	}
	fn kind(&self) -> &'static str { match self { Op::Ca { .. } => "ca", Op::Cp { .. } => "cp", Op::Cu { .. } => "cu", Op::Na { .. } => "na", Op::Fc { .. } => "fc", Op::Fn { .. } => "fn", Op::Tc { .. } => "tc", Op::Tn { .. } => "tn", Op::Pr { .. } => "pr", Op::Rgs { .. } => "rgs", Op::Rs { .. } => "rs", Op::Pc => "pc", Op::Tm => "tm" } }
	fn is_msg(&self) -> bool { matches!(self, Op::Ca { .. } | Op::Cu { .. } | Op::Na { .. }) }
}

fn msg_hash<W: Writeable>(m: &W) -> Message { Message::from_digest(Sha256dHash::hash(&m.encode()[..]).to_byte_array()) }

fn err_kind(e: &LightningError) -> String {
	let s = e.err.as_str();
	let k = if s == "node_ids in channel_announcements must be sorted" { "NodeIdsNotSorted" }
		else if s == "Channel announcement node had a channel with itself" { "SelfChannel" }
		else if s.ends_with("chain hash does not match genesis hash") { "WrongChain" }
		else if s == "Already have chain-validated channel" { "DupChainValidated" }
		else if s == "Already have non-chain-validated channel" { "DupNonChainValidated" }
		else if s.starts_with("Invalid signature on") { "BadSig" }
		else if s.contains("was removed from our network graph recently") { "RecentlyRemoved" }
		else if s == "Channel announced without corresponding UTXO entry" { "UtxoUnknownTx" }
		else if s.starts_with("Channel announcement key (") && s.contains("didn't match on-chain script") { "UtxoScriptMismatch" }
		else if s == "Already have knowledge of channel" { "AlreadyKnown" }
		else if s == "Ignoring channel_update with dont_forward bit set" { "DontForward" }
		else if s == "htlc_maximum_msat is larger than maximum possible msats" { "HtlcMaxTooLarge" }
		else if s == "Couldn't find channel for update" { "UnknownChannel" }
		else if s == "htlc_maximum_msat is larger than channel capacity or capacity is bogus" { "HtlcMaxAboveCapacity" }
		else if s == "Update older than last processed update" { "Older" }
		else if s == "Update had same timestamp as last processed update" || s == "Update had the same timestamp as last processed update" { "SameTimestamp" }
		else if s == "No existing channels for node_announcement" { "NoChannelsForNode" }
		else if s == "Rapid Gossip Sync data is more than two weeks old" { "RgsStale" }
		else if s == "Channel announcement is already being checked" { "AlreadyChecking" }
		else if s == "Channel being checked async" { "CheckingAsync" }
		else if s == "Awaiting channel_announcement validation to accept channel_update" { "AwaitingChanUpd" }
		else if s == "Awaiting channel_announcement validation to accept node_announcement" { "AwaitingNodeAnn" }
		else { return format!("err Other({})", s.replace(' ', "_")); };
	let a = format!("{:?}", e.action);
	let a = a.split(|c: char| !c.is_alphanumeric()).next().unwrap().to_string();
	format!("err {} {}", k, a)
}

impl Ctx {
	fn new() -> Ctx {
		let secp = Secp256k1::new();
		let mut ks: Vec<(NodeId, SecretKey, PublicKey)> = (0..NK).map(|i| { let sk = SecretKey::from_slice(&[11 + i as u8; 32]).unwrap(); let pk = PublicKey::from_secret_key(&secp, &sk); (NodeId::from_pubkey(&pk), sk, pk) }).collect();
		ks.sort_by(|a, b| a.0.cmp(&b.0));
		let mut rank = HashMap::new();
		for (i, k) in ks.iter().enumerate() { rank.insert(k.0, i as u64 + 1); }
		let t0 = SystemTime::now().duration_since(UNIX_EPOCH).unwrap().as_secs();
		Ctx { node_sk: ks.iter().map(|k| k.1).collect(), node_id: ks.iter().map(|k| k.0).collect(), node_pk: ks.iter().map(|k| k.2).collect(), rank,
			garbage_sk: SecretKey::from_slice(&[77; 32]).unwrap(), btc_sk: [SecretKey::from_slice(&[40; 32]).unwrap(), SecretKey::from_slice(&[39; 32]).unwrap()], btc_other: SecretKey::from_slice(&[41; 32]).unwrap(), secp, t0, ordered: std::cell::Cell::new(true) }
	}
	fn sk_of(&self, n: u64) -> &SecretKey { if n >= 1 && n as usize <= NK { &self.node_sk[n as usize - 1] } else { &self.garbage_sk } }
	fn id_of(&self, n: u64) -> NodeId { self.node_id[(n as usize - 1) % NK] }
	fn rank_of(&self, id: &NodeId) -> u64 { *self.rank.get(id).unwrap_or(&0) }
	fn canon_time(&self, t: u64) -> u64 { if t >= self.t0 && t < self.t0 + WINDOW { self.t0 } else { t } }

	fn chain(ok: bool) -> ChainHash { ChainHash::using_genesis_block(if ok { Network::Testnet } else { Network::Bitcoin }) }

	fn build_ca(&self, scid: u64, n1: u64, n2: u64, same_btc: bool, chain_ok: bool, sigs: [bool; 4]) -> ChannelAnnouncement {
		let bk1 = PublicKey::from_secret_key(&self.secp, &self.btc_sk[0]);
		let bk2 = if same_btc { bk1 } else { PublicKey::from_secret_key(&self.secp, &self.btc_sk[1]) };
		let contents = UnsignedChannelAnnouncement { features: ChannelFeatures::empty(), chain_hash: Self::chain(chain_ok), short_channel_id: scid, node_id_1: self.id_of(n1), node_id_2: self.id_of(n2),
			bitcoin_key_1: NodeId::from_pubkey(&bk1), bitcoin_key_2: NodeId::from_pubkey(&bk2), excess_data: vec![] };
		let h = msg_hash(&contents);
		// a wrong signature is a real signature that does not verify against the key of ITS slot. Three styles, a pure
		// function of the op line (`Ctx::forgery_style`): 0 = made by a key that is none of the announced ones,
		// 1 = made by the holder of the NEIGHBOUR key (node_signature_1 by node_id_2's key, node_signature_2 by
		// node_id_1's, bitcoin_signature_1 by bitcoin_key_2's, bitcoin_signature_2 by bitcoin_key_1's: a library that
		// pairs a signature with the wrong announced key accepts these), 2 = made by the RIGHT key over another
		// message (the same contents with short_channel_id + 1: "re-signed" contents).
		let style = Self::forgery_style(scid, n1, n2, same_btc);
		let h_other = msg_hash(&UnsignedChannelAnnouncement { short_channel_id: scid.wrapping_add(1), ..contents.clone() });
		let s = |ok: bool, sk: &SecretKey, wrong: &SecretKey, neighbour: &SecretKey| if ok { self.secp.sign_ecdsa(&h, sk) } else { match style { 1 => self.secp.sign_ecdsa(&h, neighbour), 2 => self.secp.sign_ecdsa(&h_other, sk), _ => self.secp.sign_ecdsa(&h, wrong) } };
		let b2sk = if same_btc { &self.btc_sk[0] } else { &self.btc_sk[1] };
		ChannelAnnouncement { node_signature_1: s(sigs[0], self.sk_of(n1), self.sk_of(n1 % NK as u64 + 1), self.sk_of(n2)), node_signature_2: s(sigs[1], self.sk_of(n2), &self.garbage_sk, self.sk_of(n1)),
			bitcoin_signature_1: s(sigs[2], &self.btc_sk[0], &self.btc_other, &self.btc_sk[1]), bitcoin_signature_2: s(sigs[3], b2sk, &self.btc_other, &self.btc_sk[0]), contents }
	}
	/// how the signatures flagged 0 of a `ca` line are forged (see build_ca); style 1 needs distinct neighbours
	fn forgery_style(scid: u64, n1: u64, n2: u64, same_btc: bool) -> u64 { if same_btc || (n1 as usize - 1) % NK == (n2 as usize - 1) % NK { 0 } else { (scid + n1 + n2) % 3 } }
	fn build_cu(&self, op: &Op) -> ChannelUpdate {
		if let Op::Cu { scid, dir, disabled, ts, cltv, min, max, base, prop, chain_ok, dont_fwd, signer, .. } = op {
			let contents = UnsignedChannelUpdate { chain_hash: Self::chain(*chain_ok), short_channel_id: *scid, timestamp: *ts as u32, message_flags: 1 | ((*dont_fwd as u8) << 1), channel_flags: (*dir as u8) | ((*disabled as u8) << 1),
				cltv_expiry_delta: *cltv as u16, htlc_minimum_msat: *min, htlc_maximum_msat: *max, fee_base_msat: *base as u32, fee_proportional_millionths: *prop as u32, excess_data: vec![] };
			let h = msg_hash(&contents);
			ChannelUpdate { signature: self.secp.sign_ecdsa(&h, self.sk_of(*signer)), contents }
		} else { unreachable!() }
	}
	fn build_na(&self, node: u64, ts: u64, payload: u64, sig_ok: bool) -> NodeAnnouncement {
		let contents = UnsignedNodeAnnouncement { features: NodeFeatures::empty(), timestamp: ts as u32, node_id: self.id_of(node), rgb: [(payload >> 16) as u8, (payload >> 8) as u8, payload as u8], alias: NodeAlias([0; 32]), addresses: vec![], excess_address_data: vec![], excess_data: vec![] };
		let h = msg_hash(&contents);
		NodeAnnouncement { signature: self.secp.sign_ecdsa(&h, if sig_ok { self.sk_of(node) } else { self.sk_of(node % NK as u64 + 1) }), contents }
	}

	fn line(&self, op: &Op) -> String { if let Op::Rgs { .. } = op { self.rgs_line(op) } else { op.line(self.t0) } }
	/// first byte of node `rank`'s entry in a version-2 snapshot: key parity | detail bits
	fn rgs_flag(&self, rank: usize, bits: u8) -> u8 { self.node_pk[rank].serialize()[0] | bits }
	fn rgs_line(&self, op: &Op) -> String {
		if let Op::Rgs { latest, now, d, nodes, anns, upds } = op {
			let mut l = format!("rgs {} {} {} {} {} {} {} N {}", latest, now.map(|t| t.to_string()).unwrap_or("-".into()), d[0], d[1], d[2], d[3], d[4], nodes.len());
			for (i, bits) in nodes.iter().enumerate() { l.push_str(&format!(" {} {}", i + 1, self.rgs_flag(i, *bits))); }
			l.push_str(&format!(" A {}", anns.len()));
			for a in anns { l.push_str(&format!(" {} {} {} {}", a.0, a.1.map(|c| c.to_string()).unwrap_or("-".into()), a.2, a.3)); }
			l.push_str(&format!(" U {}", upds.len()));
			for u in upds { l.push_str(&format!(" {} {} {} {} {} {} {}", u.0, u.1, u.2[0], u.2[1], u.2[2], u.2[3], u.2[4])); }
			l
		} else { unreachable!() }
	}
	/// the version-2 wire encoding of the snapshot (what an RGS server would send)
	fn rgs_bytes(&self, op: &Op) -> Vec<u8> {
		if let Op::Rgs { latest, d, nodes, anns, upds, .. } = op {
			let mut o = vec![76u8, 68, 75, 2];
			o.extend(Self::chain(true).encode());
			o.extend((*latest as u32).to_be_bytes());
			o.push(2); // two default feature sets
			o.extend(NodeFeatures::empty().encode()); o.extend(NodeFeatures::empty().encode());
			o.extend((nodes.len() as u32).to_be_bytes());
			for (i, bits) in nodes.iter().enumerate() {
				let mut pk = self.node_pk[i].serialize();
				pk[0] = self.rgs_flag(i, *bits);
				o.extend(pk);
				let marker = (bits >> 3) & 7;
				if bits & 64 != 0 || bits & 4 != 0 || marker > 0 {
					if bits & 4 != 0 { o.push(0); } // no addresses
					if marker == 7 { o.extend(NodeFeatures::empty().encode()); }
				}
				if bits & 128 != 0 { o.extend([0u8, 2, 0xab, 0xcd]); }
			}
			o.extend((anns.len() as u32).to_be_bytes());
			let mut prev = 0u64;
			for a in anns {
				o.extend(ChannelFeatures::empty().encode());
				o.extend(BigSize(a.0 - prev).encode()); prev = a.0;
				o.extend(BigSize(a.2 - 1).encode());
				o.extend(BigSize((a.3 - 1) | if a.1.is_some() { 1 << 63 } else { 0 }).encode());
				if let Some(c) = a.1 { let e = BigSize(c).encode(); o.extend((e.len() as u16).to_be_bytes()); o.extend(e); }
			}
			o.extend((upds.len() as u32).to_be_bytes());
			if upds.is_empty() { return o; }
			o.extend((d[0] as u16).to_be_bytes()); o.extend(d[1].to_be_bytes()); o.extend((d[2] as u32).to_be_bytes()); o.extend((d[3] as u32).to_be_bytes()); o.extend(d[4].to_be_bytes());
			let mut prev = 0u64;
			for u in upds {
				o.extend(BigSize(u.0 - prev).encode()); prev = u.0;
				o.push(u.1);
				if u.1 & 64 != 0 { o.extend((u.2[0] as u16).to_be_bytes()); }
				if u.1 & 32 != 0 { o.extend(u.2[1].to_be_bytes()); }
				if u.1 & 16 != 0 { o.extend((u.2[2] as u32).to_be_bytes()); }
				if u.1 & 8 != 0 { o.extend((u.2[3] as u32).to_be_bytes()); }
				if u.1 & 4 != 0 { o.extend(u.2[4].to_be_bytes()); }
			}
			o
		} else { unreachable!() }
	}

	/// run one op on the real graph; the answer line
	fn apply(&self, g: &Graph, op: &Op) -> String {
		let res = |r: Result<(), LightningError>| match r { Ok(()) => "ok".to_string(), Err(e) => err_kind(&e) };
		// signed handlers: Ok(true) = forward to peers
		let resr = |r: Result<bool, LightningError>| match r { Ok(true) => "ok".to_string(), Ok(false) => "ok-norelay".to_string(), Err(e) => err_kind(&e) };
		match op {
			Op::Ca { scid, n1, n2, same_btc, chain_ok, verify, sigs, utxo } => {
				let msg = self.build_ca(*scid, *n1, *n2, *same_btc, *chain_ok, *sigs);
				let bk1 = PublicKey::from_secret_key(&self.secp, &self.btc_sk[0]);
				let bk2 = PublicKey::from_secret_key(&self.secp, &self.btc_sk[1]);
				if let Utxo::Async(_) = utxo { unreachable!("async lookups need an AsyncEnv"); }
				let _ = (&bk1, &bk2);
				let stub = Stub(self.lookup_result(utxo));
				let lookup: Option<&Stub> = if *utxo == Utxo::NoLookup { None } else { Some(&stub) };
				if *verify {
					let sync = P2PGossipSync::new(g, lookup, &LOGGER);
					resr(sync.handle_channel_announcement(None, &msg))
				} else { res(g.update_channel_from_unsigned_announcement(&msg.contents, &lookup)) }
			},
			Op::Cp { scid, cap, recv, n1, n2 } => res(g.add_channel_from_partial_announcement(*scid, *cap, *recv, ChannelFeatures::empty(), self.id_of(*n1), self.id_of(*n2))),
			Op::Cu { verify, .. } => {
				let msg = self.build_cu(op);
				if *verify {
					let sync = P2PGossipSync::new(g, None::<&Stub>, &LOGGER);
					resr(sync.handle_channel_update(None, &msg).map(|n| n.is_some()))
				} else { res(g.update_channel_unsigned(&msg.contents).map(|_| ())) }
			},
			Op::Na { node, ts, payload, verify, sig_ok } => {
				let msg = self.build_na(*node, *ts, *payload, *sig_ok);
				if *verify {
					let sync = P2PGossipSync::new(g, None::<&Stub>, &LOGGER);
					resr(sync.handle_node_announcement(None, &msg))
				} else { res(g.update_node_from_unsigned_announcement(&msg.contents)) }
			},
			Op::Fc { scid } => { g.handle_network_update(&NetworkUpdate::ChannelFailure { short_channel_id: *scid, is_permanent: true }); "done".into() },
			Op::Fn { id } => { g.handle_network_update(&NetworkUpdate::NodeFailure { node_id: self.node_pk[(*id as usize - 1) % NK], is_permanent: true }); "done".into() },
			Op::Tc { scid } => { g.handle_network_update(&NetworkUpdate::ChannelFailure { short_channel_id: *scid, is_permanent: false }); "done".into() },
			Op::Tn { id } => { g.handle_network_update(&NetworkUpdate::NodeFailure { node_id: self.node_pk[(*id as usize - 1) % NK], is_permanent: false }); "done".into() },
			Op::Pr { t } => { g.remove_stale_channels_and_tracking_with_time(*t); "done".into() },
			Op::Rs { .. } | Op::Pc | Op::Tm => unreachable!("async ops need an AsyncEnv"),
			Op::Rgs { now, .. } => {
				let sync = RapidGossipSync::new(g, &LOGGER);
				match sync.update_network_graph_no_std(&self.rgs_bytes(op), *now) {
					Ok(_) => "done".into(),
					Err(GraphSyncError::LightningError(e)) => err_kind(&e),
					Err(GraphSyncError::DecodeError(e)) => format!("err Decode({:?})", e),
				}
			},
		}
	}
	fn lookup_result(&self, res: &Utxo) -> Result<TxOut, UtxoLookupError> {
		let bk1 = PublicKey::from_secret_key(&self.secp, &self.btc_sk[0]);
		let bk2 = PublicKey::from_secret_key(&self.secp, &self.btc_sk[1]);
		match res {
			Utxo::Value(v) => Ok(TxOut { value: Amount::from_sat(*v), script_pubkey: make_funding_redeemscript(&bk1, &bk2).to_p2wsh() }),
			Utxo::WrongScript(v) => Ok(TxOut { value: Amount::from_sat(*v), script_pubkey: make_funding_redeemscript(&bk1, &PublicKey::from_secret_key(&self.secp, &self.btc_other)).to_p2wsh() }),
			_ => Err(UtxoLookupError::UnknownTx) }
	}
	fn event_text(&self, ev: &MessageSendEvent) -> String {
		match ev {
			MessageSendEvent::BroadcastChannelAnnouncement { msg, .. } => format!("A{}", msg.contents.short_channel_id),
			MessageSendEvent::BroadcastNodeAnnouncement { msg } => format!("N{}/{}", self.rank_of(&msg.contents.node_id), msg.contents.timestamp),
			MessageSendEvent::BroadcastChannelUpdate { msg, .. } => format!("U{}/{}/{}", msg.contents.short_channel_id, msg.contents.channel_flags & 1, msg.contents.timestamp),
			_ => "other".to_string(),
		}
	}
	/// run one op on the real graph behind one P2PGossipSync whose UtxoLookup is scripted (async phases)
	fn apply_env(&self, env: &AsyncEnv, op: &Op) -> String {
		let res = |r: Result<(), LightningError>| match r { Ok(()) => "ok".to_string(), Err(e) => err_kind(&e) };
		// signed handlers: Ok(true) = forward to peers
		let resr = |r: Result<bool, LightningError>| match r { Ok(true) => "ok".to_string(), Ok(false) => "ok-norelay".to_string(), Err(e) => err_kind(&e) };
		let g = env.g;
		match op {
			Op::Ca { scid, n1, n2, same_btc, chain_ok, verify, sigs, utxo } => {
				let msg = self.build_ca(*scid, *n1, *n2, *same_btc, *chain_ok, *sigs);
				if *utxo == Utxo::NoLookup {
					return if *verify { res(g.update_channel_from_announcement(&msg, &None::<&Scripted>)) } else { res(g.update_channel_from_unsigned_announcement(&msg.contents, &None::<&Scripted>)) };
				}
				*env.look.next.lock().unwrap() = Some(match utxo { Utxo::Async(fid) => Mode::Async(*fid), u => if env.early { Mode::Early(self.lookup_result(u)) } else { Mode::Sync(self.lookup_result(u)) } });
				let r = if *verify { resr(env.sync.handle_channel_announcement(None, &msg)) } else { res(g.update_channel_from_unsigned_announcement(&msg.contents, &Some(&*env.look))) };
				*env.look.next.lock().unwrap() = None; // the library does not reach the lookup when an earlier check refuses the message
				r
			},
			Op::Cu { verify, .. } => {
				let msg = self.build_cu(op);
				if *verify { resr(env.sync.handle_channel_update(None, &msg).map(|n| n.is_some())) } else { res(g.update_channel_unsigned(&msg.contents).map(|_| ())) }
			},
			Op::Na { node, ts, payload, verify, sig_ok } => {
				let msg = self.build_na(*node, *ts, *payload, *sig_ok);
				if *verify { resr(env.sync.handle_node_announcement(None, &msg)) } else { res(g.update_node_from_unsigned_announcement(&msg.contents)) }
			},
			Op::Rs { fid, res } => {
				let f = env.look.futures.lock().unwrap().get(fid).cloned();
				match f { Some(f) => { f.resolve(self.lookup_result(res)); "done".into() }, None => "done".into() }
			},
			Op::Pc => {
				let evs = env.sync.get_and_clear_pending_msg_events();
				let mut out = vec!["done".to_string()];
				for e in evs.iter() { out.push(self.event_text(e)); }
				out.join(" ")
			},
			Op::Tm => format!("{}", b(env.sync.processing_queue_high())),
			_ => self.apply(g, op),
		}
	}
	/// MODEL-INDEPENDENT authenticity oracle: every signed message the graph stores (announcement_message,
	/// last_update_message, the Relayed node announcement) really verifies, with secp256k1, against the keys the
	/// graph announces for that slot, and is the message the stored fields came from. Returns the violations.
	fn stored_sigs_bad(&self, g: &Graph) -> Vec<String> {
		let ro = g.read_only();
		let mut bad = vec![];
		let ok = |h: &Message, sig: &bitcoin::secp256k1::ecdsa::Signature, id: &NodeId| id.as_pubkey().map(|pk| self.secp.verify_ecdsa(h, sig, &pk).is_ok()).unwrap_or(false);
		for (scid, c) in ro.channels().unordered_iter() {
			if let Some(m) = &c.announcement_message {
				let h = msg_hash(&m.contents);
				if m.contents.node_id_1 != c.node_one || m.contents.node_id_2 != c.node_two || m.contents.short_channel_id != *scid
					|| !ok(&h, &m.node_signature_1, &c.node_one) || !ok(&h, &m.node_signature_2, &c.node_two)
					|| !ok(&h, &m.bitcoin_signature_1, &m.contents.bitcoin_key_1) || !ok(&h, &m.bitcoin_signature_2, &m.contents.bitcoin_key_2) {
					bad.push(format!("channel {}: stored channel_announcement does not verify against the announced keys", scid));
				}
			}
			for (dir, u, id) in [(0u8, &c.one_to_two, &c.node_one), (1u8, &c.two_to_one, &c.node_two)] {
				if let Some(u) = u { if let Some(m) = &u.last_update_message {
					if m.contents.short_channel_id != *scid || m.contents.channel_flags & 1 != dir || m.contents.timestamp != u.last_update || !ok(&msg_hash(&m.contents), &m.signature, id) {
						bad.push(format!("channel {} direction {}: stored channel_update (timestamp {}) is not signed by node {} of the channel", scid, dir, u.last_update, self.rank_of(id)));
					}
				} }
			}
		}
		for (id, n) in ro.nodes().unordered_iter() {
			if let Some(a) = &n.announcement_info { if let Some(m) = a.announcement_message() {
				if m.contents.node_id != *id || !ok(&msg_hash(&m.contents), &m.signature, id) { bad.push(format!("node {}: stored node_announcement is not signed by that node", self.rank_of(id))); }
			} }
		}
		bad
	}
	/// every stored (last_update, content) of the graph: channel directions and node announcements
	fn all_stamps(&self, g: &Graph) -> HashMap<(u64, u8), (u32, String)> {
		let ro = g.read_only();
		let mut m = HashMap::new();
		for (scid, c) in ro.channels().unordered_iter() {
			if let Some(u) = &c.one_to_two { m.insert((*scid, 0u8), (u.last_update, format!("{:?}", u))); }
			if let Some(u) = &c.two_to_one { m.insert((*scid, 1u8), (u.last_update, format!("{:?}", u))); }
		}
		for (id, n) in ro.nodes().unordered_iter() { if let Some(a) = &n.announcement_info { m.insert((self.rank_of(id), 2u8), (a.last_update(), format!("{:?}", a))); } }
		m
	}

	/// canonical dump, node channel lists sorted (what the oracles compare)
	fn dump(&self, g: &Graph, tomb: bool) -> String { self.dump_o(g, tomb, false) }
	/// the dump that is RECORDED and compared with the model: node channel lists in arrival order unless switched off
	fn dump_rec(&self, g: &Graph, tomb: bool) -> String { self.dump_o(g, tomb, self.ordered.get()) }
	fn dump_o(&self, g: &Graph, tomb: bool, ordered: bool) -> String {
		let ro = g.read_only();
		let mut chans: Vec<(u64, String)> = ro.channels().unordered_iter().map(|(scid, c)| {
			let d = |u: &Option<lightning::routing::gossip::ChannelUpdateInfo>| match u { None => "-".to_string(), Some(u) => format!("{}/{}/{}/{}/{}/{}/{}/{}", u.last_update, b(u.enabled), u.cltv_expiry_delta, u.htlc_minimum_msat, u.htlc_maximum_msat, u.fees.base_msat, u.fees.proportional_millionths, b(u.last_update_message.is_some())) };
			(*scid, format!("{}:{}:{}:{}:{}:{}:{}:{}", scid, self.rank_of(&c.node_one), self.rank_of(&c.node_two), c.capacity_sats.map(|v| v.to_string()).unwrap_or("-".into()), self.canon_time(c.verif_announcement_received_time()), b(c.announcement_message.is_some()), d(&c.one_to_two), d(&c.two_to_one)))
		}).collect();
		chans.sort();
		let mut nodes: Vec<(u64, String)> = ro.nodes().unordered_iter().map(|(id, n)| {
			let mut cs = n.channels.clone(); if !ordered { cs.sort(); }
			let ann = match &n.announcement_info { None => "-".to_string(), Some(a) => { let rgb = a.rgb(); format!("{}/{}/{}", a.last_update(), ((rgb[0] as u64) << 16) | ((rgb[1] as u64) << 8) | rgb[2] as u64, b(a.announcement_message().is_some())) } };
			(self.rank_of(id), format!("{}:[{}]:{}", self.rank_of(id), cs.iter().map(|c| c.to_string()).collect::<Vec<_>>().join(","), ann))
		}).collect();
		nodes.sort();
		drop(ro);
		let base = format!("C {} | N {}", chans.iter().map(|c| c.1.clone()).collect::<Vec<_>>().join(" "), nodes.iter().map(|c| c.1.clone()).collect::<Vec<_>>().join(" "));
		if !tomb { return base; }
		let (rc, rn) = g.verif_removed_entries();
		let tm = |t: &Option<u64>| t.map(|t| self.canon_time(t).to_string()).unwrap_or("none".into());
		let mut rn: Vec<(u64, String)> = rn.iter().map(|(id, t)| (self.rank_of(id), format!("{}@{}", self.rank_of(id), tm(t)))).collect();
		rn.sort();
		format!("{} | RC {} | RN {}", base, rc.iter().map(|(s, t)| format!("{}@{}", s, tm(t))).collect::<Vec<_>>().join(" "), rn.iter().map(|c| c.1.clone()).collect::<Vec<_>>().join(" "))
	}

	/// canonical bytes of the graph: `Writeable` encodings of every channel (sorted by scid) and of every
	/// node (sorted by id, with the node's channel list sorted). The encoding of the whole graph iterates
	/// two hash maps with per-instance random state, so it is not comparable byte-for-byte as it is.
	fn canon_bytes(&self, g: &Graph) -> Vec<u8> {
		let ro = g.read_only();
		let mut chans: Vec<(u64, Vec<u8>)> = ro.channels().unordered_iter().map(|(s, c)| (*s, c.encode())).collect();
		chans.sort();
		let mut nodes: Vec<(NodeId, Vec<u8>)> = ro.nodes().unordered_iter().map(|(id, n)| { let mut n = n.clone(); n.channels.sort(); (*id, n.encode()) }).collect();
		nodes.sort();
		let mut out = vec![];
		for (s, e) in chans { out.extend_from_slice(&s.to_be_bytes()); out.extend_from_slice(&(e.len() as u32).to_be_bytes()); out.extend(e); }
		out.push(0xff);
		for (id, e) in nodes { out.extend_from_slice(id.as_slice()); out.extend_from_slice(&(e.len() as u32).to_be_bytes()); out.extend(e); }
		out
	}
	/// same but keeping each node's channel list in arrival order (what `NodeInfo: PartialEq` compares)
	fn raw_node_lists(&self, g: &Graph) -> Vec<(u64, Vec<u64>)> {
		let ro = g.read_only();
		let mut v: Vec<(u64, Vec<u64>)> = ro.nodes().unordered_iter().map(|(id, n)| (self.rank_of(id), n.channels.clone())).collect();
		v.sort();
		v
	}
}

fn new_graph() -> Graph { NetworkGraph::new(Network::Testnet, &LOGGER) }

/// the current node of a direction, as the real graph has it (to produce correctly signed updates)
fn dir_node(ctx: &Ctx, g: &Graph, scid: u64, dir: bool) -> Option<u64> {
	g.read_only().channel(scid).map(|c| ctx.rank_of(if dir { &c.node_two } else { &c.node_one }))
}
fn dir_last_update(g: &Graph, scid: u64, dir: bool) -> Option<(u32, String)> {
	g.read_only().channel(scid).and_then(|c| (if dir { &c.two_to_one } else { &c.one_to_two }).as_ref().map(|u| (u.last_update, format!("{:?}", u))))
}
fn node_last_update(ctx: &Ctx, g: &Graph, node: u64) -> Option<(u32, String)> {
	g.read_only().node(&ctx.id_of(node)).and_then(|n| n.announcement_info.as_ref().map(|a| (a.last_update(), format!("{:?}", a))))
}

struct Times { t0: u64 }
impl Times {
	/// message timestamps / explicit receipt times: clustered around the pruning thresholds of `prune_time`
	fn stamp(&self, rng: &mut Rng) -> u64 {
		match rng.below(10) {
			0..=3 => self.t0 - STALE - 45 + rng.below(60),        // around minT of a prune at ~T0-1..T0-30
			4..=5 => self.t0 + WINDOW + rng.below(40),            // around minT of a prune at T0+14d+3600+..
			6 => self.t0 - TRACK + WINDOW + rng.below(40),        // around minT of a prune at T0+7d+3600+..
			7 => self.t0 - 100_000 + rng.below(12),
			_ => self.t0 + 200_000 + rng.below(12),
		}
	}
	fn prune_time(&self, rng: &mut Rng, last_explicit: Option<u64>, wall_tombs: bool) -> u64 {
		let t = match rng.below(12) {
			0..=3 => self.t0 - 1 - rng.below(30),
			4..=5 => self.t0 + STALE + WINDOW + rng.below(40),
			6..=7 => self.t0 + TRACK + WINDOW + 1 + rng.below(40),
			8..=9 => match last_explicit { Some(l) => l + TRACK + rng.below(5) - 2, None => self.t0 - 1 - rng.below(30) },
			10 => rng.below(STALE),                                // below the age limit: no-op
			_ => (u32::MAX as u64) + rng.below(3),                 // u32::MAX itself is allowed, above is a no-op
		};
		// never let a comparison against a wall-clock value depend on the seconds elapsed since T0
		let min_t = t.saturating_sub(STALE);
		let bad = (min_t > self.t0 && min_t < self.t0 + WINDOW) || (wall_tombs && t >= self.t0 + TRACK && t < self.t0 + TRACK + WINDOW) || (t >= self.t0 && t < self.t0 + WINDOW);
		if bad { self.t0 - 1 - rng.below(30) } else { t }
	}
}

struct Gen { scids: u64 }
impl Gen {
	fn ca(&self, rng: &mut Rng, valid_bias: bool) -> Op {
		let scid = 1 + rng.below(self.scids);
		let (mut n1, mut n2) = (1 + rng.below(NK as u64), 1 + rng.below(NK as u64));
		if n1 > n2 { std::mem::swap(&mut n1, &mut n2); }
		if n1 == n2 { if n2 < NK as u64 { n2 += 1 } else { n1 -= 1 } }
		let mut op = (false, true, true, [true; 4]);
		let utxo = match rng.below(10) { 0..=5 => Utxo::NoLookup, 6 => if rng.chance(1, 2) { Utxo::UnknownTx } else { Utxo::WrongScript(*rng.pick(&[1000u64, 2_000_000])) }, 7 => Utxo::Value(MAX_VALUE_MSAT / 1000 + rng.below(2)), _ => Utxo::Value(*rng.pick(&[1000u64, 5, 2_000_000])) };
		if !valid_bias || rng.chance(3, 10) {
			match rng.below(9) {
				0 => { std::mem::swap(&mut n1, &mut n2); },
				1 => { n2 = n1; },
				2 => op.0 = true,
				3 => op.1 = false,
				4 => op.2 = false,
				k => op.3[(k - 5) as usize] = false,
			}
		}
		Op::Ca { scid, n1, n2, same_btc: op.0, chain_ok: op.1, verify: op.2, sigs: op.3, utxo }
	}
	fn cu(&self, rng: &mut Rng, ctx: &Ctx, g: &Graph, tm: &Times, scid: Option<u64>) -> Op {
		let existing: Vec<u64> = { let ro = g.read_only(); let mut v: Vec<u64> = ro.channels().unordered_iter().map(|(s, _)| *s).collect(); v.sort(); v };
		let scid = scid.unwrap_or(if !existing.is_empty() && rng.chance(4, 5) { *rng.pick(&existing) } else { 1 + rng.below(self.scids + 1) });
		let dir = rng.chance(1, 2);
		let cap = g.read_only().channel(scid).and_then(|c| c.capacity_sats);
		let max = match rng.below(8) { 0 => MAX_VALUE_MSAT + rng.below(2), 1 | 2 => cap.map(|c| c.saturating_mul(1000)).unwrap_or(500_000) + rng.below(2), 3 => cap.map(|c| c.saturating_mul(1000)).unwrap_or(7).saturating_sub(1), _ => *rng.pick(&[1u64, 4000, 900_000]) };
		let right = dir_node(ctx, g, scid, dir);
		let signer = match rng.below(10) { 0 => GARBAGE, 1 => right.map(|r| r % NK as u64 + 1).unwrap_or(1), 2 => dir_node(ctx, g, scid, !dir).unwrap_or(2), _ => right.unwrap_or(1 + rng.below(NK as u64)) };
		Op::Cu { scid, dir, disabled: rng.chance(1, 4), ts: tm.stamp(rng), cltv: *rng.pick(&[18u64, 40, 144]), min: rng.below(3), max, base: rng.below(1000), prop: rng.below(50), chain_ok: !rng.chance(1, 25), dont_fwd: rng.chance(1, 25), verify: !rng.chance(1, 8), signer }
	}
	/// a snapshot: announcements sorted by scid, at most one update per (scid, direction), sorted
	fn rgs(&self, rng: &mut Rng, tm: &Times, now: Option<u64>) -> Op {
		let latest = tm.stamp(rng) + if rng.chance(1, 2) { TRACK } else { 0 };
		let nodes: Vec<u8> = (0..NK).map(|_| match rng.below(10) { 0..=4 => 0u8, 5 => 64, 6 => 4, 7 => (1 + rng.below(2) as u8) << 3, 8 => 7 << 3, _ => 128 | if rng.chance(1, 2) { 64 } else { 0 } }).collect();
		let mut anns = vec![];
		for scid in 1..=self.scids + 1 {
			if !rng.chance(1, 3) { continue; }
			let a = 1 + rng.below(NK as u64 - 1);
			let (n1, n2) = (if rng.chance(1, 20) { a + 1 } else { a }, a + 1 + rng.below(NK as u64 - a));
			anns.push((scid, match rng.below(3) { 0 => None, 1 => Some(700), _ => Some(*rng.pick(&[5u64, 2_000_000, MAX_VALUE_MSAT / 1000 + 1])) }, n1, n2));
		}
		let mut upds = vec![];
		if !rng.chance(1, 6) {
			for scid in 1..=self.scids + 1 { for dir in 0..2u8 {
				if !rng.chance(2, 5) { continue; }
				let mut flags = dir | if rng.chance(1, 4) { 2 } else { 0 };
				if rng.chance(1, 2) { flags |= 128; }
				for bit in [64u8, 32, 16, 8, 4] { if rng.chance(1, 3) { flags |= bit; } }
				upds.push((scid, flags, [*rng.pick(&[18u64, 40, 144]), rng.below(3), rng.below(1000), rng.below(50), *rng.pick(&[1u64, 4000, 900_000, 5001, MAX_VALUE_MSAT + 1])]));
			} }
		}
		Op::Rgs { latest, now, d: [*rng.pick(&[18u64, 72]), rng.below(3), rng.below(1000), rng.below(50), *rng.pick(&[4000u64, 900_000])], nodes, anns, upds }
	}
	fn na(&self, rng: &mut Rng, tm: &Times) -> Op {
		Op::Na { node: 1 + rng.below(NK as u64), ts: tm.stamp(rng), payload: rng.below(1 << 24), verify: !rng.chance(1, 8), sig_ok: !rng.chance(1, 6) }
	}
}

/// does this message carry a signature that does not verify against the key the library must check?
fn wrongly_signed(ctx: &Ctx, g: &Graph, op: &Op) -> bool {
	match op {
		Op::Ca { verify, sigs, .. } => *verify && sigs.iter().any(|s| !*s),
		Op::Cu { verify, scid, dir, signer, .. } => *verify && dir_node(ctx, g, *scid, *dir).map(|n| n != *signer).unwrap_or(true),
		Op::Na { verify, sig_ok, .. } => *verify && !*sig_ok,
		_ => false,
	}
}

struct Runner<'a> { ctx: &'a Ctx, rec: &'a mut Rec, n_dump: u64, /// violations of the stored-signature oracle already reported (each is reported once)
	last_bad: Vec<String> }
impl<'a> Runner<'a> {
	/// execute + record one op, running the per-op oracles
	fn exec(&mut self, g: &Graph, op: &Op, tag: &str) -> String { self.exec_in(g, None, op, tag) }
	/// `env`: the graph sits behind a P2PGossipSync with a scripted (possibly asynchronous) UtxoLookup
	fn exec_in(&mut self, g: &Graph, env: Option<&AsyncEnv>, op: &Op, tag: &str) -> String {
		let ctx = self.ctx;
		let before = ctx.dump(g, true);
		let forged = wrongly_signed(ctx, g, op);
		let prev = match op { Op::Cu { scid, dir, .. } => dir_last_update(g, *scid, *dir), Op::Na { node, .. } => node_last_update(ctx, g, *node), _ => None };
		let pre_chan: Option<Option<u64>> = match op { Op::Cu { scid, .. } => g.read_only().channel(*scid).map(|c| c.capacity_sats), _ => None };
		let line = ctx.line(op);
		let stamps_before = if let Op::Rgs { .. } = op { Some(ctx.all_stamps(g)) } else { None };
		let ans = match guarded(AssertUnwindSafe(|| match env { Some(e) => ctx.apply_env(e, op), None => ctx.apply(g, op) })) { Ok(a) => a, Err(p) => format!("panic {}", p.replace(' ', "_")) };
		let after = ctx.dump(g, true);
		if ans.starts_with("panic") { self.rec.oracle_fail(format!("panic in the library on `{}`: {} (graph before: {})", line, ans, before)); }
		// (i) a wrongly signed message never changes the graph
		if forged && before != after { self.rec.oracle_fail(format!("wrongly signed message changed the graph: `{}` => {}; before: {}; after: {}", line, ans, before, after)); }
		// a NON-permanent payment failure never changes the graph (handle_network_update acts only `if is_permanent`)
		if matches!(op, Op::Tc { .. } | Op::Tn { .. }) && before != after { self.rec.oracle_fail(format!("non-permanent payment failure changed the graph: `{}` => {}; before: {}; after: {}", line, ans, before, after)); }
		// a lookup answer that pays to ANOTHER script never validates an announcement (utxo.rs check_channel_announcement)
		if let Op::Ca { utxo: Utxo::WrongScript(_), .. } = op { if ans == "ok" || before != after { self.rec.oracle_fail(format!("channel_announcement accepted although the looked-up UTXO pays to another script than the 2-of-2 of the announced bitcoin keys: `{}` => {}; before: {}; after: {}", line, ans, before, after)); } }
		// a rejected message never changes the graph
		if op.is_msg() && ans.starts_with("err") && before != after { self.rec.oracle_fail(format!("rejected message changed the graph: `{}` => {}; before: {}; after: {}", line, ans, before, after)); }
		// stored last_update never decreases, an equal timestamp never replaces
		let now = match op { Op::Cu { scid, dir, .. } => dir_last_update(g, *scid, *dir), Op::Na { node, .. } => node_last_update(ctx, g, *node), _ => None };
		if let (Some(p), Some(n)) = (&prev, &now) {
			if n.0 < p.0 || (n.0 == p.0 && n.1 != p.1) { self.rec.oracle_fail(format!("stored last_update went back or was replaced at an equal timestamp: `{}` => {}; before: {}; after: {}", line, ans, before, after)); }
		}
		// a snapshot never replaces a stored update / node announcement by an older or equally old one
		if let Some(sb) = stamps_before {
			let sa = ctx.all_stamps(g);
			for (k, p) in sb.iter() { if let Some(n) = sa.get(k) { if n.0 < p.0 || (n.0 == p.0 && n.1 != p.1) {
				self.rec.oracle_fail(format!("rapid-gossip-sync snapshot replaced stored gossip by older or equally old data at {:?}: `{}` => {}; before: {}; after: {}", k, line, ans, before, after)); } } }
		}
		if op.is_msg() && ans == "ok" {
			// reject rules, checked from the message and the channel entry before the call
			let bad = match op {
				Op::Cu { chain_ok, max, .. } => !*chain_ok || *max > MAX_VALUE_MSAT || match pre_chan { None => true, Some(Some(cap)) => cap > MAX_VALUE_MSAT / 1000 || *max > cap * 1000, Some(None) => false },
				Op::Ca { chain_ok, .. } => !*chain_ok,
				_ => false,
			};
			if bad { self.rec.oracle_fail(format!("message that must be rejected (unknown channel / wrong chain / htlc_maximum above capacity or MAX_VALUE_MSAT) was accepted: `{}`; before: {}", line, before)); }
		}
		let mut first = ans.split(' ').take(2).collect::<Vec<_>>().join(" ");
		match op {
			Op::Ca { scid, .. } if ans == "ok" && (before.contains(&format!(" {}:", scid)) && before.split(" | N ").next().unwrap().contains(&format!(" {}:", scid))) => first.push_str("-replaced"),
			Op::Fc { .. } | Op::Fn { .. } | Op::Tc { .. } | Op::Tn { .. } | Op::Pr { .. } | Op::Rgs { .. } => first.push_str(if before != after { "-changed" } else { "-noop" }),
			Op::Pc => { first = format!("done-{}events", ans.split(' ').count() - 1); first.push_str(if before != after { "-changed" } else { "-noop" }) },
			_ => {}
		}
		if env.is_some() {
			// authenticity, independent of the model: whatever is stored as a signed message verifies (secp256k1)
			let bad = ctx.stored_sigs_bad(g);
			for v in bad.iter() { if !self.last_bad.contains(v) { self.rec.oracle_fail(format!("WRONGLY SIGNED GOSSIP IN THE GRAPH after `{}` => {}: {}; before: {}; after: {}", line, ans, v, before, after)); } }
			self.last_bad = bad;
		}
		self.rec.case(&line, &ans, &format!("{}{}:{}", tag, op.kind(), first), true);
		ans
	}
	fn dump(&mut self, g: &Graph, tomb: bool) -> String {
		let d = self.ctx.dump(g, tomb);
		let d_rec = self.ctx.dump_rec(g, tomb);
		if tomb { let bad = self.ctx.stored_sigs_bad(g); for v in bad.iter() { if !self.last_bad.contains(v) { self.rec.oracle_fail(format!("WRONGLY SIGNED GOSSIP IN THE GRAPH: {}; graph: {}", v, d)); } } self.last_bad = bad; }
		self.rec.case(if tomb { "dump" } else { "dumpp" }, &d_rec, "dump", false);
		self.n_dump += 1;
		if tomb && self.n_dump % 4 == 0 { self.serve(g); }
		d
	}
	/// what we SERVE to peers: iterate get_next_channel_announcement / get_next_node_announcement over the whole graph the way
	/// peer_handler does (start := served + 1 / after the served node). Differential per step (`gc` / `gn`) + MODEL-INDEPENDENT
	/// oracle: exactly the channels with an announcement message, ascending, each once, with the stored update messages;
	/// exactly the nodes whose announcement is the signed (Relayed) one.
	fn serve(&mut self, g: &Graph) {
		let ctx = self.ctx;
		let sync = P2PGossipSync::new(g, None::<&Stub>, &LOGGER);
		let (mut start, mut served) = (0u64, vec![]);
		loop {
			match sync.get_next_channel_announcement(start) {
				Some((ann, u1, u2)) => {
					let scid = ann.contents.short_channel_id;
					self.rec.case(&format!("gc {}", start), &format!("{} {} {}", scid, b(u1.is_some()), b(u2.is_some())), "serve:gc:some", true);
					let ok = { let ro = g.read_only(); ro.channel(scid).map(|c| c.announcement_message.as_ref() == Some(&ann) && c.one_to_two.as_ref().and_then(|d| d.last_update_message.clone()) == u1 && c.two_to_one.as_ref().and_then(|d| d.last_update_message.clone()) == u2).unwrap_or(false) };
					if !ok || scid < start { self.rec.oracle_fail(format!("get_next_channel_announcement({}) served channel {} which is before the starting point / not stored with these messages; graph: {}", start, scid, ctx.dump(g, false))); }
					served.push(scid);
					if served.len() > 64 { self.rec.oracle_fail(format!("get_next_channel_announcement does not terminate; graph: {}", ctx.dump(g, false))); break; }
					start = scid + 1;
				},
				None => { self.rec.case(&format!("gc {}", start), "none", "serve:gc:none", true); break; },
			}
		}
		let expect: Vec<u64> = { let ro = g.read_only(); let mut v: Vec<u64> = ro.channels().unordered_iter().filter(|(_, c)| c.announcement_message.is_some()).map(|(k, _)| *k).collect(); v.sort(); v };
		if served != expect { self.rec.oracle_fail(format!("serving channel announcements to a peer: served {:?}, the graph holds announcement messages for {:?}; graph: {}", served, expect, ctx.dump(g, false))); }
		let (mut after, mut served_n): (Option<NodeId>, Vec<u64>) = (None, vec![]);
		loop {
			let tok = after.as_ref().map(|i| ctx.rank_of(i).to_string()).unwrap_or("-".into());
			match sync.get_next_node_announcement(after.as_ref()) {
				Some(na) => { let id = na.contents.node_id; self.rec.case(&format!("gn {}", tok), &format!("{}", ctx.rank_of(&id)), "serve:gn:some", true); served_n.push(ctx.rank_of(&id)); after = Some(id); if served_n.len() > 64 { break; } },
				None => { self.rec.case(&format!("gn {}", tok), "none", "serve:gn:none", true); break; },
			}
		}
		let expect_n: Vec<u64> = { let ro = g.read_only(); let mut v: Vec<u64> = ro.nodes().unordered_iter().filter(|(_, n)| n.announcement_info.as_ref().map(|a| a.announcement_message().is_some()).unwrap_or(false)).map(|(k, _)| ctx.rank_of(k)).collect(); v.sort(); v };
		if served_n != expect_n { self.rec.oracle_fail(format!("serving node announcements to a peer: served {:?}, the graph holds signed node announcements for {:?}; graph: {}", served_n, expect_n, ctx.dump(g, false))); }
	}
	/// (iii) the graph survives write/read
	fn roundtrip(&mut self, g: &Graph, what: &str) {
		let bytes = g.encode();
		match <Graph as ReadableArgs<&'static NullLogger>>::read(&mut &bytes[..], &LOGGER) {
			Ok(g2) => {
				let (a, b2) = (self.ctx.dump(g, false), self.ctx.dump(&g2, false));
				if a != b2 || self.ctx.canon_bytes(g) != self.ctx.canon_bytes(&g2) || *g != g2 { self.rec.oracle_fail(format!("NetworkGraph::read(write(g)) differs ({}): {} vs {}", what, a, b2)); }
				self.rec.case("dumpp", &self.ctx.dump_rec(&g2, false), "dump-after-read", false);
			},
			Err(e) => self.rec.oracle_fail(format!("NetworkGraph::read(write(g)) failed ({}): {:?}; graph {}", what, e, self.ctx.dump(g, false))),
		}
	}
}

/// the dependency relation of admissible orders: index i must be delivered before index j
fn must_precede(a: &Op, b2: &Op) -> bool {
	match (a, b2) {
		(Op::Ca { scid: s, .. }, Op::Cu { scid: s2, .. }) => s == s2,
		(Op::Ca { n1, n2, .. }, Op::Na { node, .. }) => node == n1 || node == n2,
		_ => false,
	}
}
fn random_admissible(rng: &mut Rng, msgs: &[Op]) -> Vec<usize> {
	let n = msgs.len();
	let mut done = vec![false; n];
	let mut order = vec![];
	while order.len() < n {
		let ready: Vec<usize> = (0..n).filter(|&j| !done[j] && (0..n).all(|i| done[i] || !must_precede(&msgs[i], &msgs[j]))).collect();
		let j = *rng.pick(&ready);
		done[j] = true;
		order.push(j);
	}
	order
}

fn main() {
	let args = &parse_args("c17");
	let mut rec = Rec::new(&args.out, "c17");
	let mut rng = Rng::new(args.seed);
	let ctx = Ctx::new();
	let tm = Times { t0: ctx.t0 };
	let (n_sets, n_orders, len_a) = if args.thorough { (15000 * args.scale, 12usize, 90u64) } else { (600 * args.scale, 6usize, 60u64) };
	let gen = Gen { scids: 6 };
	let mut stats: HashMap<&'static str, u64> = HashMap::new();
	let mut r = Runner { ctx: &ctx, rec: &mut rec, n_dump: 0, last_bad: vec![] };

	// ---- phase S (runs FIRST: it is small, deterministic, and its failing inputs are the most readable): the signature matrix of channel_announcement. Every non-empty subset of the four signatures
	// forged (15) x the three forgery styles (by an unrelated key / by the holder of the neighbour key / by the right
	// key over another message) x the four verifying entry paths, each on an empty graph; then the untampered message.
	// MODEL-INDEPENDENT oracle: a message with any forged signature is refused as an invalid signature and leaves
	// the graph empty; the untampered one is accepted. (verify_channel_announcement, gossip.rs)
	{
		const SIG_NAMES: [&str; 4] = ["node_signature_1", "node_signature_2", "bitcoin_signature_1", "bitcoin_signature_2"];
		const ENTRY: [&str; 4] = ["P2PGossipSync::handle_channel_announcement (no UtxoLookup)", "NetworkGraph::update_channel_from_announcement (no UtxoLookup)", "P2PGossipSync::handle_channel_announcement (synchronous UtxoLookup)", "P2PGossipSync::handle_channel_announcement (asynchronous UtxoLookup)"];
		const STYLE: [&str; 3] = ["a key that is none of the announced ones", "the holder of the neighbour key of the same kind", "the right key over another message"];
		let (mut n_forged, mut n_valid) = (0u64, 0u64);
		for entry in 0..4usize {
			for scid in 1..=3u64 {
				let style = Ctx::forgery_style(scid, 1, 2, false) as usize;
				for mask in 0..16u32 {
					let sigs = [mask & 1 == 0, mask & 2 == 0, mask & 4 == 0, mask & 8 == 0];
					let g = new_graph();
					r.rec.directive("reset"); r.rec.directive("unordered");
					let env = AsyncEnv::new(&g, false);
					let utxo = match entry { 0 | 1 => Utxo::NoLookup, 2 => Utxo::Value(1000), _ => Utxo::Async(1) };
					let op = Op::Ca { scid, n1: 1, n2: 2, same_btc: false, chain_ok: true, verify: true, sigs, utxo };
					let ans = if entry == 0 { r.exec(&g, &op, "S:") } else { r.exec_in(&g, Some(&env), &op, "S:") };
					if mask != 0 {
						n_forged += 1;
						let forged: Vec<&str> = (0..4).filter(|i| !sigs[*i]).map(|i| SIG_NAMES[i]).collect();
						let empty = { let ro = g.read_only(); ro.channels().is_empty() && ro.nodes().is_empty() };
						if !ans.starts_with("err BadSig") || !empty {
							r.rec.oracle_fail(format!("channel_announcement whose {} {} made by {} was NOT refused as an invalid signature by {}: `{}` => {}; graph after: {}", forged.join(" + "), if forged.len() == 1 { "is" } else { "are" }, STYLE[style], ENTRY[entry], ctx.line(&op), ans, ctx.dump(&g, true)));
						}
					} else {
						n_valid += 1;
						if entry == 3 {
							if !ans.starts_with("err CheckingAsync") { r.rec.oracle_fail(format!("untampered channel_announcement with an asynchronous lookup: `{}` => {}", ctx.line(&op), ans)); }
							r.exec_in(&g, Some(&env), &Op::Rs { fid: 1, res: Utxo::Value(1000) }, "S:");
							r.exec_in(&g, Some(&env), &Op::Pc, "S:");
						} else if ans != "ok" { r.rec.oracle_fail(format!("untampered channel_announcement refused by {}: `{}` => {}", ENTRY[entry], ctx.line(&op), ans)); }
						if g.read_only().channels().get(&scid).is_none() { r.rec.oracle_fail(format!("untampered channel_announcement did not enter the graph through {}: `{}` => {}", ENTRY[entry], ctx.line(&op), ans)); }
					}
					r.dump(&g, true);
				}
			}
		}
		// the looked-up UTXO pays to another script: refused synchronously, and never enters the graph when the answer
		// arrives through a future either (utxo.rs check_channel_announcement / resolve_single_future)
		for asynchronous in [false, true] {
			let g = new_graph();
			r.rec.directive("reset"); r.rec.directive("unordered");
			let env = AsyncEnv::new(&g, false);
			let ca = |utxo| Op::Ca { scid: 9, n1: 1, n2: 2, same_btc: false, chain_ok: true, verify: true, sigs: [true; 4], utxo };
			if asynchronous {
				r.exec_in(&g, Some(&env), &ca(Utxo::Async(1)), "S:");
				r.exec_in(&g, Some(&env), &Op::Rs { fid: 1, res: Utxo::WrongScript(1000) }, "S:");
				r.exec_in(&g, Some(&env), &Op::Pc, "S:");
			} else {
				let ans = r.exec_in(&g, Some(&env), &ca(Utxo::WrongScript(1000)), "S:");
				if !ans.starts_with("err UtxoScriptMismatch") { r.rec.oracle_fail(format!("a lookup answer paying to another script was not refused as a script mismatch: {}", ans)); }
			}
			let empty = { let ro = g.read_only(); ro.channels().is_empty() && ro.nodes().is_empty() };
			if !empty { r.rec.oracle_fail(format!("channel_announcement entered the graph although the looked-up UTXO ({}) pays to another script than the 2-of-2 of the announced bitcoin keys; graph: {}", if asynchronous { "answered through a UtxoFuture" } else { "answered synchronously" }, ctx.dump(&g, true))); }
			r.dump(&g, true);
		}
		// relay limit: the REAL signed handlers on messages that carry real excess data around MAX_EXCESS_BYTES_FOR_RELAY.
		// Differential `rl …` against the translated relay expressions + model-independent consistency oracle: a message
		// is forwarded to peers iff its signed form is stored (and hence served later by get_next_*).
		{
			let sign = |h: &Message, sk: &SecretKey| ctx.secp.sign_ecdsa(h, sk);
			let mk_ca = |scid: u64, excess: usize| { let mut m = ctx.build_ca(scid, 1, 2, false, true, [true; 4]); m.contents.excess_data = vec![7u8; excess]; let h = msg_hash(&m.contents);
				m.node_signature_1 = sign(&h, ctx.sk_of(1)); m.node_signature_2 = sign(&h, ctx.sk_of(2)); m.bitcoin_signature_1 = sign(&h, &ctx.btc_sk[0]); m.bitcoin_signature_2 = sign(&h, &ctx.btc_sk[1]); m };
			let tb = ctx.t0 - 100_000;
			for &e in &[0usize, 1, 1023, 1024, 1025, 4000] {
				{
					let g = new_graph(); let sync = P2PGossipSync::new(&g, None::<&Stub>, &LOGGER);
					let ans = match sync.handle_channel_announcement(None, &mk_ca(1, e)) { Ok(x) => b(x).to_string(), Err(er) => err_kind(&er) };
					r.rec.case(&format!("rl ca {}", e), &ans, "S:rl:ca", true);
					let stored = g.read_only().channel(1).map(|c| c.announcement_message.is_some()).unwrap_or(false);
					let served = sync.get_next_channel_announcement(0).is_some();
					if (ans == "1") != stored || stored != served || !(ans == "1" || ans == "0") { r.rec.oracle_fail(format!("channel_announcement with {} bytes of excess data: handle_channel_announcement => {}, signed message stored: {}, served by get_next_channel_announcement: {}", e, ans, stored, served)); }
				}
				{
					let g = new_graph(); let sync = P2PGossipSync::new(&g, None::<&Stub>, &LOGGER);
					let _ = sync.handle_channel_announcement(None, &mk_ca(1, 0));
					let mut m = ctx.build_cu(&Op::Cu { scid: 1, dir: false, disabled: false, ts: tb, cltv: 40, min: 1, max: 4000, base: 1, prop: 2, chain_ok: true, dont_fwd: false, verify: true, signer: 1 });
					m.contents.excess_data = vec![7u8; e]; m.signature = sign(&msg_hash(&m.contents), ctx.sk_of(1));
					let ans = match sync.handle_channel_update(None, &m) { Ok(x) => b(x.is_some()).to_string(), Err(er) => err_kind(&er) };
					r.rec.case(&format!("rl cu {}", e), &ans, "S:rl:cu", true);
					let stored = g.read_only().channel(1).and_then(|c| c.one_to_two.as_ref().map(|d| d.last_update_message.is_some())).unwrap_or(false);
					let served = sync.get_next_channel_announcement(0).map(|t| t.1.is_some()).unwrap_or(false);
					if (ans == "1") != stored || stored != served || !(ans == "1" || ans == "0") { r.rec.oracle_fail(format!("channel_update with {} bytes of excess data: handle_channel_update => {}, signed message stored: {}, served: {}", e, ans, stored, served)); }
				}
			}
			for &(e, ea) in &[(0usize, 0usize), (1024, 0), (0, 1024), (512, 512), (512, 513), (513, 512), (1025, 0), (0, 1025), (1024, 1024)] {
				let g = new_graph(); let sync = P2PGossipSync::new(&g, None::<&Stub>, &LOGGER);
				let _ = sync.handle_channel_announcement(None, &mk_ca(1, 0));
				let mut m = ctx.build_na(1, tb, 77, true);
				m.contents.excess_data = vec![7u8; e]; m.contents.excess_address_data = vec![9u8; ea]; m.signature = sign(&msg_hash(&m.contents), ctx.sk_of(1));
				let ans = match sync.handle_node_announcement(None, &m) { Ok(x) => b(x).to_string(), Err(er) => err_kind(&er) };
				r.rec.case(&format!("rl na {} {}", e, ea), &ans, "S:rl:na", true);
				let served = sync.get_next_node_announcement(None).is_some();
				if (ans == "1") != served || !(ans == "1" || ans == "0") { r.rec.oracle_fail(format!("node_announcement with {} + {} bytes of excess data: handle_node_announcement => {}, served by get_next_node_announcement: {}", e, ea, ans, served)); }
			}
		}
		// the two-week rule at +-1 second: a direction is dropped iff last_update < now - 14 days, the channel iff a direction is
		// missing AND announcement_received_time < now - 14 days (remove_stale_channels_and_tracking_with_time). Differential + oracle.
		for d1 in [-1i64, 0, 1] { for dr in [-1i64, 0, 1] { for both in [false, true] {
			let base = ctx.t0 - 200_000;
			let g = new_graph();
			r.rec.directive("reset");
			let cu = |dir: bool, ts: u64| Op::Cu { scid: 1, dir, disabled: false, ts, cltv: 40, min: 1, max: 4000, base: 1, prop: 2, chain_ok: true, dont_fwd: false, verify: false, signer: 0 };
			r.exec(&g, &Op::Cp { scid: 1, cap: None, recv: (base as i64 + dr) as u64, n1: 1, n2: 2 }, "S:");
			r.exec(&g, &cu(false, (base as i64 + d1) as u64), "S:");
			r.exec(&g, &cu(true, if both { (base as i64 + d1) as u64 } else { base + 5 }), "S:");
			r.exec(&g, &Op::Pr { t: base + STALE }, "S:");
			let (chan, d12, d21) = { let ro = g.read_only(); match ro.channel(1) { Some(c) => (true, c.one_to_two.is_some(), c.two_to_one.is_some()), None => (false, false, false) } };
			let stale = d1 < 0;
			let exp_chan = !(stale && dr < 0);
			let exp = (exp_chan, exp_chan && !stale, exp_chan && !(both && stale));
			if (chan, d12, d21) != exp { r.rec.oracle_fail(format!("two-week rule at the boundary: updates at minT{:+} (both directions: {}), announcement received at minT{:+}, pruned at minT + 14 days: channel / one_to_two / two_to_one present = {:?}, expected {:?}; graph: {}", d1, both, dr, (chan, d12, d21), exp, ctx.dump(&g, true))); }
			r.dump(&g, true);
		} } }
		stats.insert("signature_matrix_forged_channel_announcements", n_forged);
		stats.insert("signature_matrix_untampered_channel_announcements", n_valid);
	}

	for set in 0..n_sets {
		// ---------------- phase A: arbitrary interleavings (admissible or not) ----------------------
		let g = new_graph();
		r.rec.directive("reset");
		let mut last_explicit_prune: Option<u64> = None;
		let mut wall_tombs = false;
		let valid_bias = set % 4 != 0;
		let mut recent: Vec<Op> = vec![];
		let n_ops = len_a / 2 + rng.below(len_a);
		for k in 0..n_ops {
			let op = match rng.below(100) {
				0..=19 => gen.ca(&mut rng, valid_bias),
				20..=24 => { let (a, c) = (1 + rng.below(NK as u64 - 1), rng.below(4)); Op::Cp { scid: 1 + rng.below(gen.scids), cap: if c == 0 { None } else { Some(c * 700) }, recv: tm.stamp(&mut rng), n1: if rng.chance(1, 12) { a + 1 } else { a }, n2: a + 1 + rng.below(NK as u64 - a) } },
				25..=57 => gen.cu(&mut rng, &ctx, &g, &tm, None),
				58..=62 => { let now = if rng.chance(1, 4) { Some(tm.prune_time(&mut rng, last_explicit_prune, wall_tombs)) } else { None }; gen.rgs(&mut rng, &tm, now) },
				63..=76 => gen.na(&mut rng, &tm),
				77..=82 if !recent.is_empty() => { // duplicate or conflicting copy of a recent message
					let mut o = rng.pick(&recent).clone();
					if rng.chance(1, 2) { match &mut o { Op::Cu { base, cltv, .. } => { *base += 1; *cltv = 41; }, Op::Na { payload, .. } => { *payload ^= 1; }, Op::Ca { utxo, .. } => { *utxo = Utxo::Value(1234); }, _ => {} } }
					o
				},
				83..=87 => { let scid = 1 + rng.below(gen.scids); if rng.chance(1, 4) { Op::Tc { scid } } else { Op::Fc { scid } } },
				88..=90 => { let id = 1 + rng.below(NK as u64); if rng.chance(1, 4) { Op::Tn { id } } else { Op::Fn { id } } },
				91..=97 => Op::Pr { t: tm.prune_time(&mut rng, last_explicit_prune, wall_tombs) },
				_ => gen.cu(&mut rng, &ctx, &g, &tm, None),
			};
			match &op { Op::Pr { t } | Op::Rgs { now: Some(t), .. } if *t >= STALE && *t <= u32::MAX as u64 => last_explicit_prune = Some(*t), Op::Fc { .. } | Op::Fn { .. } => wall_tombs = true, _ => {} }
			r.exec(&g, &op, "A:");
			if op.is_msg() { recent.push(op); if recent.len() > 12 { recent.remove(0); } }
			if k % 8 == 7 { r.dump(&g, true); }
		}
		r.dump(&g, true);
		r.roundtrip(&g, "phase A");

		// ---------------- phase B: one message set, several admissible orders ------------------------
		let gen_b = Gen { scids: 5 };
		let mut msgs: Vec<Op> = vec![];
		let nchan = 2 + rng.below(4);
		let mut used = vec![];
		for _ in 0..nchan {
			let mut a = gen_b.ca(&mut rng, true);
			if let Op::Ca { scid, .. } = &mut a { if used.contains(scid) { continue; } used.push(*scid); }
			msgs.push(a);
		}
		// dependants: the right signer is known from the announcement of that scid in this set
		let ann_nodes = |msgs: &Vec<Op>, s: u64, dir: bool| msgs.iter().find_map(|m| if let Op::Ca { scid, n1, n2, .. } = m { if *scid == s { Some(if dir { *n2 } else { *n1 }) } else { None } } else { None });
		let n_upd = 4 + rng.below(14);
		let mut seen_ts: Vec<(u64, bool, u64)> = vec![];
		for _ in 0..n_upd {
			let scid = if rng.chance(5, 6) { *rng.pick(&used) } else { 1 + rng.below(gen_b.scids + 1) };
			let mut u = gen_b.cu(&mut rng, &ctx, &g, &tm, Some(scid));
			if let Op::Cu { scid, dir, ts, signer, max, .. } = &mut u {
				if seen_ts.contains(&(*scid, *dir, *ts)) { continue; }
				seen_ts.push((*scid, *dir, *ts));
				*signer = match rng.below(8) { 0 => GARBAGE, 1 => ann_nodes(&msgs, *scid, !*dir).unwrap_or(1), _ => ann_nodes(&msgs, *scid, *dir).unwrap_or(2) };
				if rng.chance(3, 4) { *max = *rng.pick(&[1u64, 4000, 900_000]); }
			}
			msgs.push(u);
		}
		let mut seen_nts: Vec<(u64, u64)> = vec![];
		for _ in 0..(2 + rng.below(8)) {
			let n = gen_b.na(&mut rng, &tm);
			if let Op::Na { node, ts, .. } = &n { if seen_nts.contains(&(*node, *ts)) { continue; } seen_nts.push((*node, *ts)); }
			msgs.push(n);
		}
		for _ in 0..rng.below(4) { let d = rng.pick(&msgs).clone(); msgs.push(d); } // exact duplicates
		let mut tries = 0;
		loop {
			tries += 1;
			let sec0 = SystemTime::now().duration_since(UNIX_EPOCH).unwrap().as_secs();
			// the orders come from their own stream so that a clock-tick retry does not shift the main one
			let mut orng = Rng::new(args.seed.wrapping_mul(1_000_003).wrapping_add(set * 16 + tries));
			let mut finals: Vec<(Vec<usize>, String, Vec<u8>, Vec<(u64, Vec<u64>)>)> = vec![];
			for _ in 0..n_orders {
				let order = random_admissible(&mut orng, &msgs);
				let gb = new_graph();
				r.rec.directive("reset");
				for &j in &order { r.exec(&gb, &msgs[j], "B:"); }
				let d = r.dump(&gb, true);
				finals.push((order, d, ctx.canon_bytes(&gb), ctx.raw_node_lists(&gb)));
				if finals.len() == 1 { r.roundtrip(&gb, "phase B"); }
			}
			let sec1 = SystemTime::now().duration_since(UNIX_EPOCH).unwrap().as_secs();
			// dumps canonicalise wall-clock times, so they are comparable in any case
			for f in finals.iter().skip(1) {
				if f.1 != finals[0].1 {
					let show = |o: &Vec<usize>| o.iter().map(|&j| msgs[j].line(ctx.t0)).collect::<Vec<_>>().join(" ; ");
					r.rec.oracle_fail(format!("two admissible orders of one message set give different graphs: [{}] => {} ||| [{}] => {}", show(&finals[0].0), finals[0].1, show(&f.0), f.1));
				}
			}
			if sec0 == sec1 {
				// (ii) byte-identical canonical encodings (all announcements were received in the same clock second)
				for f in finals.iter().skip(1) {
					if f.2 != finals[0].2 { r.rec.oracle_fail(format!("two admissible orders of one message set give different Writeable encodings: [{}] vs [{}]", finals[0].0.iter().map(|&j| msgs[j].line(ctx.t0)).collect::<Vec<_>>().join(" ; "), f.0.iter().map(|&j| msgs[j].line(ctx.t0)).collect::<Vec<_>>().join(" ; "))); }
					*stats.entry("encoding_pairs_compared").or_insert(0) += 1;
					if f.3 != finals[0].3 { *stats.entry("pairs_where_only_node_channel_list_order_differs").or_insert(0) += 1; }
				}
				break;
			}
			if tries >= 4 { r.rec.discarded += 1; break; }
		}
		// one fully random (generally inadmissible) order of the same set, differential only
		let mut idx: Vec<usize> = (0..msgs.len()).collect();
		for i in (1..idx.len()).rev() { let j = rng.below(i as u64 + 1) as usize; idx.swap(i, j); }
		let gc = new_graph();
		r.rec.directive("reset");
		for &j in &idx { r.exec(&gc, &msgs[j], "C:"); }
		r.dump(&gc, true);
		*stats.entry("message_sets").or_insert(0) += 1;
		*stats.entry("messages_in_sets").or_insert(0) += msgs.len() as u64;
	}
	// ---------------- phase D: the replace-existing-entry branch, in both orders ---------------------
	// The graph already holds scid 1 between nodes (1,2) without chain validation and node 2 has a node
	// announcement. Delivered: an announcement of scid 2 between (2,3) and a chain-validated announcement
	// of scid 1 between (1,3) (replacement, e.g. after a reorg). This is outside the hypotheses of
	// `order_independent` (NoReplaceAll); recorded for the differential check and as an observation.
	{
		let ok_ca = |scid, n1, n2, utxo| Op::Ca { scid, n1, n2, same_btc: false, chain_ok: true, verify: true, sigs: [true; 4], utxo };
		let pre = vec![ok_ca(1, 1, 2, Utxo::NoLookup), Op::Na { node: 2, ts: ctx.t0 - 100_000, payload: 4242, verify: true, sig_ok: true }];
		let set = vec![ok_ca(2, 2, 3, Utxo::NoLookup), ok_ca(1, 1, 3, Utxo::Value(1000))];
		let mut dumps = vec![];
		for order in [[0usize, 1], [1, 0]] {
			let gd = new_graph();
			r.rec.directive("reset");
			for o in &pre { r.exec(&gd, o, "D:"); }
			for &j in &order { r.exec(&gd, &set[j], "D:"); }
			dumps.push(r.dump(&gd, true));
		}
		stats.insert("replace_branch_order_dependent_on_real_code", (dumps[0] != dumps[1]) as u64);
	}
	// ---------------- phase E: rapid-gossip-sync scenarios ------------------------------------------
	{
		let ok_ca = |scid, n1, n2| Op::Ca { scid, n1, n2, same_btc: false, chain_ok: true, verify: true, sigs: [true; 4], utxo: Utxo::NoLookup };
		let t = ctx.t0 - 100_000;
		let snap = |anns: Vec<(u64, Option<u64>, u64, u64)>, upds: Vec<(u64, u8, [u64; 5])>| Op::Rgs { latest: t + TRACK + 50, now: None, d: [40, 1, 10, 20, 900_000], nodes: vec![0, 64, 0, 0, 0], anns, upds };
		// (1) every generated snapshot applied twice: the second application changes nothing (oracle on the real graph)
		let n_idem = if args.thorough { 3000 } else { 300 };
		let mut idem_changed_first = 0u64;
		for _ in 0..n_idem {
			let g = new_graph();
			r.rec.directive("reset");
			for _ in 0..rng.below(6) { let op = match rng.below(3) { 0 => gen.ca(&mut rng, true), 1 => gen.cu(&mut rng, &ctx, &g, &tm, None), _ => gen.na(&mut rng, &tm) }; r.exec(&g, &op, "E:"); }
			let s1 = gen.rgs(&mut rng, &tm, None);
			let d0 = ctx.dump(&g, true);
			let a1 = r.exec(&g, &s1, "E:");
			let d1 = ctx.dump(&g, true);
			let a2 = r.exec(&g, &s1, "E:");
			let d2 = r.dump(&g, true);
			if d0 != d1 { idem_changed_first += 1; }
			if d1 != d2 || a1 != a2 { r.rec.oracle_fail(format!("a rapid-gossip-sync snapshot applied twice is not idempotent: `{}` => {} / {}; after first: {}; after second: {}", ctx.line(&s1), a1, a2, d1, d2)); }
		}
		stats.insert("rgs_snapshots_applied_twice", n_idem);
		stats.insert("rgs_snapshots_applied_twice_first_changed_graph", idem_changed_first);
		// (2) a snapshot announcement of a tombstoned channel: add_channel_from_partial_announcement has no tombstone test
		{
			let g = new_graph();
			r.rec.directive("reset");
			r.exec(&g, &ok_ca(3, 1, 2), "E:");
			r.exec(&g, &Op::Fc { scid: 3 }, "E:");
			let p2p = r.exec(&g, &ok_ca(3, 1, 2), "E:");
			r.exec(&g, &snap(vec![(3, None, 1, 2)], vec![]), "E:");
			let d = r.dump(&g, true);
			stats.insert("rgs_resurrects_tombstoned_channel_on_real_code", (p2p.contains("RecentlyRemoved") && d.starts_with("C 3:1:2:") && d.contains("RC 3@")) as u64);
		}
		// (3) incremental snapshot update vs. an older P2P update of the same direction: both orders
		{
			let cu = |ts: u64, base: u64| Op::Cu { scid: 3, dir: false, disabled: false, ts, cltv: 40, min: 1, max: 4000, base, prop: 2, chain_ok: true, dont_fwd: false, verify: true, signer: 1 };
			let inc = snap(vec![], vec![(3, 128 | 64, [144, 0, 0, 0, 0])]);
			let mut dumps = vec![];
			for order in [[0usize, 1], [1, 0]] {
				let g = new_graph();
				r.rec.directive("reset");
				r.exec(&g, &ok_ca(3, 1, 2), "E:");
				r.exec(&g, &cu(t - 10, 1), "E:");
				let two = [cu(t - 5, 2), inc.clone()];
				for &j in &order { r.exec(&g, &two[j], "E:"); }
				dumps.push(r.dump(&g, true));
			}
			stats.insert("rgs_incremental_vs_older_p2p_update_order_dependent_on_real_code", (dumps[0] != dumps[1]) as u64);
		}
		// (4) the same snapshot twice WITH the final pruning: the first application prunes a stale channel the snapshot
		// lists, the second one re-creates it from the snapshot's announcement (theorem rgs_snapshot_with_pruning_not_idempotent)
		{
			let g = new_graph();
			r.rec.directive("reset");
			let old = ctx.t0 - 100_000;
			r.exec(&g, &Op::Cp { scid: 3, cap: None, recv: old, n1: 1, n2: 2 }, "E:");
			for dir in [false, true] { r.exec(&g, &Op::Cu { scid: 3, dir, disabled: false, ts: old, cltv: 40, min: 1, max: 4000, base: 1, prop: 2, chain_ok: true, dont_fwd: false, verify: false, signer: 0 }, "E:"); }
			let prune_at = ctx.t0 + STALE + WINDOW + 100;
			let s4 = Op::Rgs { latest: ctx.t0 + TRACK + 4000, now: Some(prune_at), d: [40, 1, 10, 20, 900_000], nodes: vec![0; NK], anns: vec![(3, None, 1, 2)], upds: vec![(3, 128, [0, 0, 0, 0, 0])] };
			r.exec(&g, &s4, "E:");
			let d1 = r.dump(&g, true);
			r.exec(&g, &s4, "E:");
			let d2 = r.dump(&g, true);
			stats.insert("rgs_snapshot_with_pruning_not_idempotent_on_real_code", (d1.starts_with("C  |") && d1.contains("RC 3@") && d2.starts_with("C 3:1:2:-:")) as u64);
		}
	}
	ctx.ordered.set(false); // phases F and G: node channel lists compared as sets (replays inside one `pc` are not ordered by the model)
	// ---------------- phase F: ASYNCHRONOUS UTXO lookups, arbitrary interleavings --------------------------
	// One graph behind one P2PGossipSync whose UtxoLookup is scripted: announcements whose lookup answers
	// UtxoResult::Async (fresh UtxoFuture each), valid / wrongly signed / re-signed / stale / duplicate updates and
	// node announcements arriving while lookups are pending, futures resolved (value / UnknownTx) and
	// check_resolved_futures run at scripted points, duplicates of pending announcements, permanent failures in
	// between. Differential per op + the model-independent oracle `stored_sigs_bad` after EVERY op.
	{
		let n_f = if args.thorough { 30000 * args.scale } else { 2500 * args.scale };
		let tb = ctx.t0 - 100_000;
		let (mut parked_replays, mut forged_while_pending) = (0u64, 0u64);
		for _ in 0..n_f {
			let g = new_graph();
			r.rec.directive("reset"); r.rec.directive("unordered");
			let env = AsyncEnv::new(&g, rng.chance(1, 6));
			let mut next_fid = 1u64;
			let mut open: Vec<u64> = vec![];
			let mut all_fids: Vec<u64> = vec![];
			let mut anns: Vec<Op> = vec![];
			let mut ann_nodes: HashMap<u64, (u64, u64)> = HashMap::new();
			let mut recent: Vec<Op> = vec![];
			let gen_f = Gen { scids: 3 };
			let n_ops = 8 + rng.below(34);
			for k in 0..n_ops {
				let choice = rng.below(100);
				let op = match choice {
					0..=21 => {
						let mut a = if !anns.is_empty() && rng.chance(1, 4) { rng.pick(&anns).clone() } else { gen_f.ca(&mut rng, true) };
						if let Op::Ca { utxo, scid, n1, n2, .. } = &mut a {
							*utxo = match rng.below(20) { 0..=10 => { let f = next_fid; next_fid += 1; Utxo::Async(f) }, 11..=13 => Utxo::NoLookup, 14..=17 => Utxo::Value(*rng.pick(&[1000u64, 5, 2_000_000])), 18 => Utxo::WrongScript(1000), _ => Utxo::UnknownTx };
							ann_nodes.insert(*scid, (*n1, *n2));
						}
						anns.push(a.clone());
						a
					},
					22..=61 => {
						if !recent.is_empty() && rng.chance(1, 6) {
							// an earlier update again, possibly re-signed by another key / with changed content
							let mut o = rng.pick(&recent).clone();
							if let Op::Cu { signer, base, .. } = &mut o { match rng.below(3) { 0 => *signer = 1 + rng.below(NK as u64), 1 => *base += 1, _ => {} } }
							o
						} else {
							let scid = 1 + rng.below(4);
							let dir = rng.chance(1, 2);
							let right = ann_nodes.get(&scid).map(|p| if dir { p.1 } else { p.0 });
							let signer = match rng.below(20) { 0..=12 => right.unwrap_or(1), 13..=15 => ann_nodes.get(&scid).map(|p| if dir { p.0 } else { p.1 }).unwrap_or(2), 16..=17 => GARBAGE, _ => 1 + rng.below(NK as u64) };
							Op::Cu { scid, dir, disabled: rng.chance(1, 4), ts: tb + rng.below(8), cltv: *rng.pick(&[18u64, 40, 144]), min: rng.below(3), max: *rng.pick(&[1u64, 4000, 6000, 900_000, 1, 4000, 4000, 6000, 900_000, 1, MAX_VALUE_MSAT + 1]), base: rng.below(1000), prop: rng.below(50), chain_ok: !rng.chance(1, 25), dont_fwd: rng.chance(1, 25), verify: !rng.chance(1, 8), signer }
						}
					},
					62..=77 => Op::Na { node: 1 + rng.below(NK as u64), ts: tb + rng.below(8), payload: rng.below(1 << 24), verify: !rng.chance(1, 8), sig_ok: !rng.chance(1, 6) },
					78..=87 if !all_fids.is_empty() || !open.is_empty() => {
						let fid = if !open.is_empty() && !rng.chance(1, 12) { let i = rng.below(open.len() as u64) as usize; open.remove(i) } else if !all_fids.is_empty() { *rng.pick(&all_fids) } else { open.remove(0) };
						Op::Rs { fid, res: if rng.chance(3, 10) { if rng.chance(1, 2) { Utxo::UnknownTx } else { Utxo::WrongScript(1000) } } else { Utxo::Value(*rng.pick(&[1000u64, 5, 2_000_000])) } }
					},
					88..=95 => Op::Pc,
					96 => { let scid = 1 + rng.below(3); if rng.chance(1, 4) { Op::Tc { scid } } else { Op::Fc { scid } } },
					97 => { let id = 1 + rng.below(NK as u64); if rng.chance(1, 4) { Op::Tn { id } } else { Op::Fn { id } } },
					98 => Op::Tm,
					_ => Op::Pc,
				};
				let pending_before = !open.is_empty();
				if let Op::Cu { verify: true, scid, dir, signer, .. } = &op { if pending_before && ann_nodes.get(scid).map(|p| (if *dir { p.1 } else { p.0 }) != *signer).unwrap_or(false) { forged_while_pending += 1; } }
				let ans = r.exec_in(&g, Some(&env), &op, "F:");
				if let Op::Ca { utxo: Utxo::Async(f), .. } = &op { if ans.contains("CheckingAsync") { open.push(*f); all_fids.push(*f); } }
				if let Op::Pc = &op { parked_replays += ans.split(' ').count() as u64 - 1; }
				if let Op::Cu { .. } = &op { recent.push(op.clone()); if recent.len() > 10 { recent.remove(0); } }
				if k % 6 == 5 { r.dump(&g, true); }
			}
			for fid in open.drain(..) { r.exec_in(&g, Some(&env), &Op::Rs { fid, res: if rng.chance(1, 5) { Utxo::UnknownTx } else { Utxo::Value(1000) } }, "F:"); }
			r.exec_in(&g, Some(&env), &Op::Pc, "F:");
			r.dump(&g, true);
			if rng.chance(1, 10) { r.roundtrip(&g, "phase F"); }
		}
		stats.insert("async_episodes", n_f);
		stats.insert("async_broadcasts_of_replayed_messages", parked_replays);
		stats.insert("async_wrongly_signed_updates_delivered_while_a_lookup_was_pending", forged_while_pending);
		// the pending-lookup limit: 34 distinct SCIDs pending, too_many_checks_pending queried after each
		{
			let g = new_graph();
			r.rec.directive("reset"); r.rec.directive("unordered");
			let env = AsyncEnv::new(&g, false);
			let mut high_from = 0u64;
			for i in 1..=35u64 {
				let op = Op::Ca { scid: 100 + i, n1: 1 + (i % 2), n2: 3 + (i % 3), same_btc: false, chain_ok: true, verify: true, sigs: [true; 4], utxo: Utxo::Async(i) };
				r.exec_in(&g, Some(&env), &op, "F:");
				let t = r.exec_in(&g, Some(&env), &Op::Tm, "F:");
				if t == "1" && high_from == 0 { high_from = i; }
			}
			for i in 1..=10u64 { r.exec_in(&g, Some(&env), &Op::Rs { fid: i, res: Utxo::Value(1000) }, "F:"); }
			r.exec_in(&g, Some(&env), &Op::Pc, "F:");
			r.exec_in(&g, Some(&env), &Op::Tm, "F:");
			r.dump(&g, true);
			stats.insert("async_queue_high_from_pending_lookup_number", high_from);
		}
	}
	// ---------------- phase G: the same messages with asynchronous vs synchronous lookup answers ----------
	// Scripts in which every message is VALID (right signer, limits respected), every lookup SUCCEEDS, every SCID is
	// announced once and timestamps are pairwise distinct (increasing in arrival order): delivering them with UtxoResult::Async (resolved at arbitrary later points,
	// messages arriving in between) must give the same graph as with the same answers given synchronously.
	// (With wrongly signed / conflicting messages the two may differ — see the theorems
	// async_drops_valid_update_behind_forged_newer / cfg `partial`; those scripts are only counted.)
	{
		let n_g = if args.thorough { 12000 * args.scale } else { 1200 * args.scale };
		let tb = ctx.t0 - 200_000;
		let mut differ_with_invalid = 0u64;
		for ep in 0..n_g {
			let all_valid = ep % 3 != 0;
			let mut script: Vec<Op> = vec![];
			let mut ann_nodes: HashMap<u64, (u64, u64)> = HashMap::new();
			let mut results: HashMap<u64, Utxo> = HashMap::new();
			let mut order: Vec<u64> = vec![1, 2, 3];
			for i in (1..order.len()).rev() { let j = rng.below(i as u64 + 1) as usize; order.swap(i, j); }
			let mut to_announce: Vec<u64> = order[..(1 + rng.below(3)) as usize].to_vec();
			let mut open: Vec<u64> = vec![];
			let n_ops = 6 + rng.below(20);
			let mut stamp = 0u64;
			for _ in 0..n_ops {
				stamp += 1;
				match rng.below(10) {
					0..=1 if !to_announce.is_empty() => {
						let scid = to_announce.pop().unwrap();
						let a = 1 + rng.below(NK as u64 - 1);
						let (n1, n2) = (a, a + 1 + rng.below(NK as u64 - a));
						// a FAILED asynchronous lookup still replays what was parked in it (a node announcement then lands if the
						// node became known through another channel meanwhile: theorem async_failed_lookup_still_replays_parked):
						// the strict comparison is made for scripts whose lookups all succeed
						let res = if !all_valid && rng.chance(1, 4) { Utxo::UnknownTx } else { Utxo::Value(*rng.pick(&[1000u64, 5, 2_000_000])) };
						let utxo = if rng.chance(7, 10) { results.insert(scid, res); open.push(scid); Utxo::Async(scid) } else { res };
						ann_nodes.insert(scid, (n1, n2));
						script.push(Op::Ca { scid, n1, n2, same_btc: false, chain_ok: true, verify: !rng.chance(1, 8), sigs: [true; 4], utxo });
					},
					2..=5 => {
						let scid = 1 + rng.below(3);
						let dir = rng.chance(1, 2);
						let right = ann_nodes.get(&scid).map(|p| if dir { p.1 } else { p.0 }).unwrap_or(1);
						let signer = if !all_valid && rng.chance(1, 3) { right % NK as u64 + 1 } else { right };
						script.push(Op::Cu { scid, dir, disabled: rng.chance(1, 4), ts: tb + if all_valid { stamp } else { rng.below(6) }, cltv: 40, min: 1, max: *rng.pick(&[1u64, 4000]), base: rng.below(1000), prop: rng.below(50), chain_ok: true, dont_fwd: false, verify: !rng.chance(1, 8), signer });
					},
					6..=7 => script.push(Op::Na { node: 1 + rng.below(NK as u64), ts: tb + if all_valid { stamp } else { rng.below(6) }, payload: rng.below(1 << 24), verify: !rng.chance(1, 8), sig_ok: all_valid || !rng.chance(1, 3) }),
					8 if !open.is_empty() => { let i = rng.below(open.len() as u64) as usize; let fid = open.remove(i); script.push(Op::Rs { fid, res: results[&fid] }); },
					_ => script.push(Op::Pc),
				}
			}
			for fid in open.drain(..) { script.push(Op::Rs { fid, res: results[&fid] }); }
			script.push(Op::Pc);
			// run 1: asynchronous
			let ga = new_graph();
			r.rec.directive("reset"); r.rec.directive("unordered");
			{ let env = AsyncEnv::new(&ga, false); for op in &script { r.exec_in(&ga, Some(&env), op, "G:"); } }
			let da = r.dump(&ga, true);
			// run 2: the same answers, synchronously
			let gs = new_graph();
			r.rec.directive("reset"); r.rec.directive("unordered");
			{
				let env = AsyncEnv::new(&gs, false);
				for op in &script {
					match op {
						Op::Rs { .. } | Op::Pc => {},
						Op::Ca { scid, n1, n2, same_btc, chain_ok, verify, sigs, utxo: Utxo::Async(f) } => { r.exec_in(&gs, Some(&env), &Op::Ca { scid: *scid, n1: *n1, n2: *n2, same_btc: *same_btc, chain_ok: *chain_ok, verify: *verify, sigs: *sigs, utxo: results[f] }, "Gs:"); },
						o => { r.exec_in(&gs, Some(&env), o, "Gs:"); },
					}
				}
			}
			let ds = r.dump(&gs, true);
			if da != ds {
				if all_valid { r.rec.oracle_fail(format!("asynchronous vs synchronous lookup answers give different graphs for an all-valid script: [{}] async => {} ||| sync => {}", script.iter().map(|o| ctx.line(o)).collect::<Vec<_>>().join(" ; "), da, ds)); }
				else { differ_with_invalid += 1; }
			}
		}
		stats.insert("sync_vs_async_scripts", n_g);
		stats.insert("sync_vs_async_scripts_with_invalid_messages_that_differ", differ_with_invalid);
	}
	ctx.ordered.set(true);
	// ---------------- phase H: a restart (NetworkGraph::write, then ::read) in the middle of a history -------
	// The library keeps working on the graph it read back: channels and nodes must be what they were, the
	// tombstones are gone (they are not persisted) — an announcement refused as RecentlyRemoved before the restart
	// is accepted after it. Differential per op (`restart` = Model/GossipPersist.lean) + the read == written oracle.
	{
		let n_h = if args.thorough { 6000 * args.scale } else { 500 * args.scale };
		let gen_h = Gen { scids: 4 };
		let mut reaccepted = 0u64;
		for _ in 0..n_h {
			let mut g = new_graph();
			r.rec.directive("reset");
			let mut last_explicit_prune: Option<u64> = None;
			let mut wall_tombs = false;
			let n_ops = 10 + rng.below(30);
			let restart_at = rng.below(n_ops);
			let mut anns: Vec<Op> = vec![];
			let mut refused: Vec<String> = vec![];
			for k in 0..n_ops {
				if k == restart_at || rng.chance(1, 30) {
					let before = ctx.dump(&g, false);
					let bytes = g.encode();
					match <Graph as ReadableArgs<&'static NullLogger>>::read(&mut &bytes[..], &LOGGER) {
						Ok(g2) => {
							if before != ctx.dump(&g2, false) || ctx.canon_bytes(&g) != ctx.canon_bytes(&g2) || g != g2 { r.rec.oracle_fail(format!("NetworkGraph::read(write(g)) differs (phase H): {} vs {}", before, ctx.dump(&g2, false))); }
							let (rc, rn) = g2.verif_removed_entries();
							if !rc.is_empty() || !rn.is_empty() { r.rec.oracle_fail(format!("a graph read back from its serialization carries tombstones (the model says they are not persisted): {}", ctx.dump(&g2, true))); }
							g = g2;
							r.rec.case("restart", "ok", "H:restart:ok", true);
						},
						Err(e) => { r.rec.oracle_fail(format!("NetworkGraph::read(write(g)) failed (phase H): {:?}; graph {}", e, before)); r.rec.case("restart", "err InvalidValue", "H:restart:err", true); },
					}
					r.dump(&g, true);
					// an announcement that was refused as recently removed, again right after the restart
					if let Some(a) = anns.iter().rev().find(|a| refused.contains(&ctx.line(a))) { let a = a.clone(); if r.exec(&g, &a, "H:after:") == "ok" { reaccepted += 1; } }
					refused.clear();
				}
				let op = match rng.below(100) {
					0..=24 => { let a = if !anns.is_empty() && rng.chance(2, 5) { rng.pick(&anns).clone() } else { gen_h.ca(&mut rng, true) }; anns.push(a.clone()); a },
					25..=54 => gen_h.cu(&mut rng, &ctx, &g, &tm, None),
					55..=66 => gen_h.na(&mut rng, &tm),
					67..=81 => { let scid = 1 + rng.below(gen_h.scids); if rng.chance(1, 4) { Op::Tc { scid } } else { Op::Fc { scid } } },
					82..=89 => { let id = 1 + rng.below(NK as u64); if rng.chance(1, 4) { Op::Tn { id } } else { Op::Fn { id } } },
					_ => Op::Pr { t: tm.prune_time(&mut rng, last_explicit_prune, wall_tombs) },
				};
				match &op { Op::Pr { t } if *t >= STALE && *t <= u32::MAX as u64 => last_explicit_prune = Some(*t), Op::Fc { .. } | Op::Fn { .. } => wall_tombs = true, _ => {} }
				let ans = r.exec(&g, &op, "H:");
				if ans.contains("RecentlyRemoved") { refused.push(ctx.line(&op)); }
				if k % 8 == 7 { r.dump(&g, true); }
			}
			r.dump(&g, true);
		}
		stats.insert("restart_histories", n_h);
		stats.insert("announcements_refused_as_recently_removed_and_accepted_right_after_the_restart", reaccepted);
	}
	let elapsed = SystemTime::now().duration_since(UNIX_EPOCH).unwrap().as_secs() - ctx.t0;
	if elapsed >= WINDOW - 600 { r.rec.oracle_fail(format!("harness ran {}s: wall-clock canonicalisation window exceeded (machinery, not the library)", elapsed)); }
	rec.notes.insert("rule".into(), format!("per message set: phase A = random interleaving of signed/unsigned/forged/stale/duplicate/conflicting gossip with permanent failures and pruning at threshold times (differential + oracles: forged or rejected message leaves the graph unchanged, last_update monotone); phase B = {} random admissible orders of one message multiset with distinct timestamps (oracle: equal dumps and byte-identical canonical encodings) ; phase C = one random inadmissible order; phase A also applies generated version-2 rapid-gossip-sync snapshots through RapidGossipSync::update_network_graph_no_std (oracle: no stored update / node announcement replaced by older-or-equal data); phase E = snapshots applied twice (idempotence oracle), tombstone and incremental-order scenarios; write/read round trip after A and B; phase F = asynchronous UTXO lookups (scripted UtxoLookup answering UtxoResult::Async, futures resolved and check_resolved_futures run at scripted points, valid / wrongly signed / re-signed gossip in between; oracle after every op: every stored signed message verifies with secp256k1 against the announced keys); phase G = all-valid scripts delivered with asynchronous vs synchronous answers must give equal graphs; phase H = histories with a restart (write, read, continue on the graph read back) in the middle. phase S = signature matrix of channel_announcement: every non-empty subset of the four signatures forged x 3 forgery styles (unrelated key / holder of the neighbour announced key / right key over another message) x 4 verifying entry paths on an empty graph (oracle: refused as invalid signature, graph stays empty; the untampered message is accepted). In every phase a signature flagged 0 on a `ca` line is forged in the style (scid+n1+n2) % 3 (0 when both bitcoin keys or both nodes coincide). distinct = distinct op-line texts", n_orders));
	for (k, v) in stats.iter() { rec.notes.insert((*k).into(), v.to_string()); }
	rec.notes.insert("not_exercised".into(), "production-only wall-clock freshness test of update_channel_internal (cfg not(_test_utils)); asynchronous UTXO lookups: dropped UtxoFutures (Weak::upgrade failure arms), a future shared by two lookups, UnknownChain answers, rapid-gossip-sync snapshots while a lookup is pending; rapid-gossip-sync: version-1 snapshots, node addresses / feature changes (not part of the dump), the forwards-compatibility additional-data paths of updates".into());
	rec.notes.insert("node_channel_list_order".into(), "NodeInfo.channels is kept in arrival order by the library (and compared in that order by NodeInfo::eq / written in that order); the recorded dumps of phases A-E and H print it in that order and the model reproduces it (Model/GossipOrder.lean); the order-independence oracle and phases F/G compare it as a set".into());
	rec.finish();
}
