//! C09, model `closegate`: the closing_signed gate of a funded channel in EVERY phase (funding unconfirmed, one confirmation,
//! our channel_ready sent, ChannelReady), with / without an upfront shutdown script, either side initiating, Completed / InProgress
//! persistence on either side, completions before / between / after the two `shutdown`s, disconnections while the ShutdownScript
//! update is in flight, timer ticks.
//!   * implementation-side oracles (no model involved): no `closing_signed` / closing transaction leaves a node while a
//!     ChannelMonitorUpdate of that channel is still listed by `ChainMonitor::list_pending_monitor_updates`; the closing timer does
//!     not force-close while an update is in flight; once every update completes and the peers are connected, the cooperative close
//!     finishes on both sides and nothing but a cooperative closure happens;
//!   * differential `cgop`: every harness action is replayed as `CloseGate.step` ops and the flags the real channel ends up with
//!     (hook `verif_closing_gate_dump`) + the closing_signed it released are compared with the Lean model;
//!   * differential `cgready`: the real `closing_negotiation_ready()` evaluated on every ChannelState word (hook
//!     `verif_closing_ready_for_state`) against `decode` + `closingReadyState` + `closingReady` of Generated/CloseGate.lean.
use ldk_verif_harness::common::*;
use ldk_verif_harness::sim::*;
use lightning::chain::transaction::OutPoint;
use lightning::ln::functional_test_utils::*;
use lightning::ln::types::ChannelId;
use lightning::ln::msgs::BaseMessageHandler;
use lightning::util::wallet_utils::WalletSourceSync;

const PHASES: [&str; 5] = ["funding-unconfirmed", "one-confirmation", "our-channel_ready-sent", "channel-ready", "channel-ready-htlc-pending"];

thread_local! { static HTLC_DIR: std::cell::Cell<usize> = std::cell::Cell::new(0); }

fn setup(phase: usize, upfront: bool) -> (Net, usize) {
	let mut cfg = test_default_channel_config();
	cfg.channel_handshake_config.commit_upfront_shutdown_pubkey = upfront;
	let mut net = Net::new(2, vec![Some(cfg.clone()), Some(cfg)]);
	if phase >= 3 {
		let c = net.open(0, 1, 1_000_000, 400_000_000);
		if phase == 4 {
			// one HTLC fully committed and claimable at its recipient (direction from `upfront`'s sibling bit is chosen by the caller through `htlc_dir`)
			let dir = HTLC_DIR.with(|d| d.get());
			let _ = net.send(&[dir, 1 - dir], &[c], 3_000_000, 80);
			for _ in 0..40 { let mut moved = false; while let Some((i, j)) = net.any_queued() { net.deliver(i, j); moved = true; }
				for i in 0..2 { if net.nodes[i].node.needs_pending_htlc_processing() { net.forward(i); moved = true; } let b = net.trace.len(); net.process_events(i); if net.trace.len() != b { moved = true; } }
				if !moved { break; } }
		}
		return (net, c);
	}
	let tx = create_chan_between_nodes_with_value_init(&net.nodes[0], &net.nodes[1], 1_000_000, 400_000_000);
	let cid = ChannelId::v1_from_funding_outpoint(OutPoint { txid: tx.compute_txid(), index: 0 });
	if phase == 1 { mine_transaction(&net.nodes[0], &tx); mine_transaction(&net.nodes[1], &tx); }
	if phase == 2 { mine_transaction(&net.nodes[0], &tx); connect_blocks(&net.nodes[0], CHAN_CONFIRM_DEPTH - 1); mine_transaction(&net.nodes[1], &tx); }
	net.chans.push((0, 1, cid, 0));
	for i in 0..2 {
		net.nodes[i].chain_monitor.added_monitors.lock().unwrap().clear();
		let _ = net.nodes[i].node.get_and_clear_pending_events();
		if phase != 2 { let _ = net.nodes[i].node.get_and_clear_pending_msg_events(); }
	}
	if phase == 2 { net.pump(0); net.pump(1); while let Some((i, j)) = net.any_queued() { net.deliver(i, j); } }
	let c = net.chans.len() - 1;
	(net, c)
}

fn dump(net: &Net, c: usize, x: usize) -> Option<String> { net.nodes[x].node.verif_closing_gate_dump(&net.ids[1 - x], &net.chans[c].2) }
fn field(d: &str, k: &str) -> String { d.split_whitespace().find_map(|w| w.strip_prefix(&format!("{}=", k)).map(|v| v.to_string())).unwrap_or_default() }
fn bit(d: &str, b: u32) -> u8 { ((field(d, "state").parse::<u64>().unwrap_or(0) >> b) & 1) as u8 }

#[derive(Clone, Debug)]
enum Act { Close(usize), Deliver(usize, usize), Complete(usize, u64), Disconnect, Reconnect, Tick(usize), Claim(usize), Process(usize), FeeBump }

fn claimable(net: &Net) -> Option<usize> { (0..net.pays.len()).find(|p| net.claimable[net.pays[*p].to].iter().any(|c| c.0 == net.pays[*p].hash)) }

/// one scenario; returns (closing_signed messages seen, whether both sides closed cooperatively)
fn scenario(rng: &mut Rng, sc: usize, phase: usize, upfront: bool, initiator: usize, asyncs: [bool; 2], with_disc: bool, with_tick: bool, rec: &mut Rec) {
	HTLC_DIR.with(|d| d.set(rng.below(2) as usize));
	let (mut net, c) = setup(phase, upfront);
	if phase == 4 && net.pays.is_empty() { rec.oracle_fail(format!("closegate scenario {}: set-up no longer leaves an HTLC pending", sc)); std::mem::forget(net); return; }
	let desc = format!("closegate scenario {} ({}, upfront shutdown script {}, node {} initiates, persister InProgress at {:?}{}{})", sc, PHASES[phase], upfront, initiator, asyncs,
		if with_disc { ", with a disconnection" } else { "" }, if with_tick { ", with timer ticks" } else { "" });
	let key = |x: usize| format!("s{}n{}", sc, x);
	let mut alive = [true, true];
	for x in 0..2 {
		match dump(&net, c, x) {
			Some(d) => rec.directive(&format!("cginit {} {} {} {} {} {} {} {} {} {}", key(x), field(&d, "state"), field(&d, "nin"), field(&d, "nout"), field(&d, "fee"), field(&d, "last"), field(&d, "outb"), field(&d, "expcs"), field(&d, "pendcs"), field(&d, "inflight"))),
			None => { rec.oracle_fail(format!("{}: set-up did not produce a funded channel at node {}", desc, x)); std::mem::forget(net); return; },
		}
	}
	for i in 0..2 { if asyncs[i] { net.set_mode(i, true); } }
	let mut history: Vec<String> = vec![];
	let mut pos = net.trace.len();
	let mut before: Vec<Option<String>> = (0..2).map(|x| dump(&net, c, x)).collect();
	let mut closed_calls = [false, false];
	let mut disc_done = false;
	let mut fee_done = false;
	let mut refusal_tries = 0;
	let with_fee = phase >= 3 && sc % 2 == 1;
	let mut released = 0u64;
	let steps = 14 + rng.below(10) as usize;
	for step in 0..steps + 60 {
		let draining = step >= steps;
		let linked = net.connected.contains(&(0, 1));
		let pend: Vec<Vec<u64>> = (0..2).map(|i| net.pending_updates(i, c)).collect();
		let queued: Vec<(usize, usize)> = net.q.iter().filter(|(_, v)| !v.is_empty()).map(|(k, _)| *k).collect();
		let act = if step == 0 { Act::Close(initiator) }
			else if draining {
				if !linked { Act::Reconnect }
				else if let Some(i) = (0..2).find(|i| !pend[*i].is_empty()) { net.set_mode(i, false); Act::Complete(i, pend[i][0]) }
				else if let Some((i, j)) = queued.first() { Act::Deliver(*i, *j) }
				else if let Some(p) = claimable(&net) { Act::Claim(p) }
				else if let Some(i) = (0..2).find(|i| net.nodes[*i].node.needs_pending_htlc_processing()) { Act::Process(i) }
				else { break }
			} else {
				let mut opts: Vec<Act> = vec![];
				for (i, j) in &queued { for _ in 0..3 { opts.push(Act::Deliver(*i, *j)); } }
				for i in 0..2 { for id in &pend[i] { opts.push(Act::Complete(i, *id)); } }
				// (a disconnection after the first closing_signed can lose the LAST closing_signed: one side has closed, the other force-closes — protocol behaviour, not the gate)
				// … except when the only closing_signed so far sits PARKED behind an in-flight update at its receiver (nobody has closed): the
				// disconnection must make both sides forget the dance (last_sent_closing_fee / pending_counterparty_closing_signed = None)
				let parked_any = before.iter().any(|d| d.as_ref().map(|d| field(d, "pendcs") == "1").unwrap_or(false));
				if linked && with_disc && !disc_done && step >= 2 && (released == 0 || (released == 1 && parked_any && queued.is_empty())) { opts.push(Act::Disconnect); if parked_any { for _ in 0..3 { opts.push(Act::Disconnect); } } }
				if !linked { opts.push(Act::Reconnect); opts.push(Act::Reconnect); }
				if linked && !closed_calls[1 - initiator] && rng.chance(1, 6) { opts.push(Act::Close(1 - initiator)); }
				// close_channel at a moment get_shutdown must refuse (update in flight, peer disconnected, shutdown already exchanged)
				if refusal_tries < 2 && rng.chance(1, 4) { let x = rng.below(2) as usize; if alive[x] { refusal_tries += 1; opts.push(Act::Close(x)); opts.push(Act::Close(x)); } }
				if let Some(p) = claimable(&net) { opts.push(Act::Claim(p)); }
				// the funder's feerate moves before it has seen the peer's shutdown: an update_fee is pending while the shutdowns cross
				if linked && phase >= 3 && with_fee && !fee_done && pend.iter().all(|p| p.is_empty()) && before[0].as_ref().map(|d| bit(d, 10) == 0).unwrap_or(false) { for _ in 0..4 { opts.push(Act::FeeBump); } }
				for i in 0..2 { if net.nodes[i].node.needs_pending_htlc_processing() { opts.push(Act::Process(i)); } }
				// the closing timer: only where the clean code must not start it (an update of that node is in flight)
				if linked && with_tick { for i in 0..2 { if !pend[i].is_empty() && alive[i] { opts.push(Act::Tick(i)); opts.push(Act::Tick(i)); } } }
				if opts.is_empty() { continue; }
				rng.pick(&opts).clone()
			};
		// ---- perform ---------------------------------------------------------------------------------------
		let mut delivered: Option<(&'static str, usize)> = None;
		match &act {
			Act::Close(x) => { closed_calls[*x] = true; let r = net.nodes[*x].node.close_channel(&net.chans[c].2, &net.ids[1 - *x]); net.pump(*x);
				if r.is_err() {
					// get_shutdown refused: the model (translated chain of refusals) must refuse too, and nothing may have changed / been sent
					history.push(format!("close_channel@{} refused", x));
					let leaked = net.trace[pos..].iter().any(|o| matches!(o, Obs::Msg { from, kind: "shutdown", .. } if from == x) || matches!(o, Obs::Update { node, .. } if node == x));
					if leaked { rec.oracle_fail(format!("{}: node {} refused close_channel but sent a shutdown / generated a monitor update; history: {}", desc, x, history.join(" | "))); }
					if alive[*x] { if let Some(d1) = dump(&net, c, *x) {
						if before[*x].as_ref() != Some(&d1) { rec.oracle_fail(format!("{}: a refused close_channel changed the closing-gate state of node {}: {:?} -> {}", desc, x, before[*x], d1)); }
						rec.case(&format!("cgop {} lshut 0 0", key(*x)), &format!("mon={} disc={} lsh={} rsh={} last={} parked={} timer={} ready={} out=refused", bit(&d1, 8), bit(&d1, 7), bit(&d1, 11), bit(&d1, 10), field(&d1, "last"), field(&d1, "pendcs"), field(&d1, "inflight"), field(&d1, "ready")),
							&format!("cgop:close_channel-refused:mon={}:disc={}:lsh={}:rsh={}", bit(&d1, 8), bit(&d1, 7), bit(&d1, 11), bit(&d1, 10)), true);
					} }
					pos = net.trace.len(); before = (0..2).map(|x| dump(&net, c, x)).collect(); continue; }
				// accepted: the code's own rule (get_shutdown) is that no local shutdown is started on top of an in-flight update / towards a disconnected peer
				if !pend[*x].is_empty() || !linked { history.push(format!("close_channel@{}", x)); rec.oracle_fail(format!("{}: node {} accepted close_channel (sent shutdown, may generate a ShutdownScript update) while {}; history: {}", desc, x,
					if !pend[*x].is_empty() { format!("ChannelMonitorUpdate {:?} was still in flight", pend[*x]) } else { "the peer was disconnected".to_string() }, history.join(" | "))); history.pop(); } },
			Act::Deliver(i, j) => { if let Some(k) = net.deliver(*i, *j) { delivered = Some((k, *j)); } },
			Act::Complete(i, id) => { net.complete(*i, c, *id); },
			Act::Disconnect => { disc_done = true; net.disconnect(0, 1); },
			Act::Reconnect => { net.reconnect(0, 1); },
			Act::Tick(i) => { net.nodes[*i].node.timer_tick_occurred(); net.pump(*i); },
			Act::Claim(p) => { let to = net.pays[*p].to; let h = net.pays[*p].hash; net.claimable[to].retain(|c| c.0 != h); net.claim(*p); },
			Act::Process(i) => { net.forward(*i); },
			Act::FeeBump => { fee_done = true; for i in 0..2 { *net.nodes[i].fee_estimator.sat_per_kw.lock().unwrap() = 1500; } net.nodes[0].node.timer_tick_occurred(); net.pump(0); },
		}
		history.push(match &act { Act::Close(x) => format!("close_channel@{}", x), Act::Deliver(i, j) => format!("deliver {}->{}:{}", i, j, delivered.map(|d| d.0).unwrap_or("?")), Act::Complete(i, id) => format!("complete@{}:{}", i, id),
			Act::Disconnect => "disconnect".into(), Act::Reconnect => "reconnect".into(), Act::Tick(i) => format!("tick@{}", i), Act::Claim(p) => format!("claim@{}", net.pays[*p].to), Act::Process(i) => format!("process_htlcs@{}", i), Act::FeeBump => "feerate-up+tick@0".into() });
		for i in 0..2 { net.process_events(i); }
		let seg: Vec<Obs> = net.trace[pos..].to_vec();
		// ---- implementation-side oracles ---------------------------------------------------------------------
		for o in &seg {
			match o {
				Obs::Msg { from, kind: "closingsigned", pending, .. } => { released += 1;
					if !pending.is_empty() { rec.oracle_fail(format!("{}: node {} released closing_signed while ChannelMonitorUpdate {:?} (the ShutdownScript update) was still in flight; history: {}", desc, from, pending, history.join(" | "))); } },
				Obs::Broadcast { node, .. } => { let p = net.pending_updates(*node, c); let own: Vec<u64> = p.iter().cloned().filter(|id| pend[*node].contains(id)).collect();
					if !own.is_empty() { rec.oracle_fail(format!("{}: node {} broadcast a transaction while ChannelMonitorUpdate {:?} was still in flight; history: {}", desc, node, own, history.join(" | "))); } },
				_ => {},
			}
		}
		for (n, r) in &net.closed { if !r.contains("CooperativeClosure") && !r.contains("LegacyCooperativeClosure") {
			rec.oracle_fail(format!("{}: node {} closed the channel with `{}` in honest operation{}; history: {}", desc, n, r, if r.contains("closing_signed negotiation failed") { " (the closing timer ran while a monitor update was in flight)" } else { "" }, history.join(" | "))); std::mem::forget(net); return; } }
		// ---- the action as model ops ---------------------------------------------------------------------------
		let after: Vec<Option<String>> = (0..2).map(|x| dump(&net, c, x)).collect();
		for x in 0..2 {
			if !alive[x] { continue; }
			let d1 = match &after[x] { Some(d) => d.clone(), None => { alive[x] = false; *rec.classes.entry("cgop:channel-closed".into()).or_insert(0) += 1; continue; } };
			let d0 = before[x].clone().unwrap_or_default();
			let upd = seg.iter().find_map(|o| match o { Obs::Update { node, kinds, in_progress, .. } if *node == x && kinds.iter().any(|k| *k == "ShutdownScript") => Some(*in_progress), _ => None });
			let other_upd = seg.iter().any(|o| matches!(o, Obs::Update { node, kinds, .. } if *node == x && !kinds.iter().any(|k| *k == "ShutdownScript")));
			let sent_cs = seg.iter().any(|o| matches!(o, Obs::Msg { from, kind: "closingsigned", .. } if *from == x));
			let parked_now = field(&d0, "pendcs") == "0" && field(&d1, "pendcs") == "1";
			if sent_cs && (field(&d1, "fee") == "1" || field(&d1, "nin") != "0" || field(&d1, "nout") != "0") {
				rec.oracle_fail(format!("{}: node {} released closing_signed while {} still pending on the channel ({}); history: {}", desc, x, if field(&d1, "fee") == "1" { "an update_fee was" } else { "HTLCs were" }, d1, history.join(" | "))); }
			if field(&d1, "fee") == "1" && bit(&d1, 10) == 1 && bit(&d1, 11) == 1 { *rec.classes.entry("reach:update_fee-pending-with-both-shutdowns".into()).or_insert(0) += 1; }
			if field(&d1, "expcs") == "1" && bit(&d1, 10) == 1 && bit(&d1, 11) == 1 { *rec.classes.entry("reach:expecting_peer_commitment_signed-with-both-shutdowns".into()).or_insert(0) += 1; }
			if matches!(act, Act::Disconnect) && (field(&d0, "pendcs") == "1" || field(&d0, "last") == "1") { *rec.classes.entry(format!("reach:disconnect-forgets-the-dance:last={}:parked={}", field(&d0, "last"), field(&d0, "pendcs"))).or_insert(0) += 1; }
			// implementation-side statement of dance_forgotten_while_disconnected (remove_uncommitted_htlcs_and_mark_paused)
			if bit(&d1, 7) == 1 && (field(&d1, "last") == "1" || field(&d1, "pendcs") == "1") {
				rec.oracle_fail(format!("{}: node {} is marked PEER_DISCONNECTED but still {} (the closing_signed dance must start over after a reconnection; a parked closing_signed would be answered from a stale negotiation once the monitor update completes); state {}; history: {}", desc, x,
					if field(&d1, "pendcs") == "1" { "keeps the peer's closing_signed parked behind the in-flight ChannelMonitorUpdate" } else { "counts its closing_signed as sent" }, d1, history.join(" | "))); }
			let out = if sent_cs { "closingsigned" } else if parked_now { "parked" } else { "-" };
			let u = |b: Option<bool>| format!("{} {}", b.is_some() as u8, b.unwrap_or(false) as u8);
			let mut main_op: Option<String> = None; let mut resync = other_upd;
			match (&act, delivered) {
				(Act::Close(y), _) if *y == x => rec.directive(&format!("cgop {} lshut {}", key(x), u(upd))),
				(Act::Deliver(..), Some(("shutdown", to))) if to == x => rec.directive(&format!("cgop {} rshut {}", key(x), u(upd))),
				(Act::Deliver(..), Some(("closingsigned", to))) if to == x => main_op = Some("recv".into()),
				(Act::Deliver(..), Some(("reestablish", to))) if to == x => rec.directive(&format!("cgop {} reco", key(x))),
				(Act::Deliver(..), Some((_, to))) if to == x => resync = true,
				(Act::Complete(i, _), _) if *i == x && net.pending_updates(x, c).is_empty() => rec.directive(&format!("cgop {} done", key(x))),
				(Act::Disconnect, _) => rec.directive(&format!("cgop {} disc", key(x))),
				(Act::Tick(i), _) if *i == x => main_op = Some("tick".into()),
				(Act::Claim(_), _) | (Act::Process(_), _) | (Act::FeeBump, _) => resync = true,
				_ => {},
			}
			// HTLC / update_fee bookkeeping is outside the closing-gate model (e.g. a disconnection drops an uncommitted update_fee): re-read it
			if ["nin", "nout", "fee", "expcs"].iter().any(|k| field(&d0, k) != field(&d1, k)) { resync = true; }
			if resync { rec.directive(&format!("cginit {} {} {} {} {} {} {} {} {} {}", key(x), field(&d1, "state"), field(&d1, "nin"), field(&d1, "nout"), field(&d1, "fee"), field(&d1, "last"), field(&d1, "outb"), field(&d1, "expcs"), field(&d1, "pendcs"), field(&d1, "inflight"))); continue; }
			let want = |out: &str| format!("mon={} disc={} lsh={} rsh={} last={} parked={} timer={} ready={} out={}", bit(&d1, 8), bit(&d1, 7), bit(&d1, 11), bit(&d1, 10), field(&d1, "last"), field(&d1, "pendcs"), field(&d1, "inflight"), field(&d1, "ready"), out);
			let class = format!("cgop:{}:{}:mon={}:disc={}:both={}:out={}", if bit(&d1, 6) == 1 { "ready" } else { "awaiting" }, main_op.clone().unwrap_or("poll".into()), bit(&d1, 8), bit(&d1, 7), bit(&d1, 11) & bit(&d1, 10), out);
			match main_op {
				// the handler's own answer is the recv step's; the poll that follows in the same pump must add nothing
				Some(op) if op == "recv" => { rec.case(&format!("cgop {} recv", key(x)), &want(out), &class, true); rec.case(&format!("cgop {} poll", key(x)), &want("-"), "cgop:poll-after-recv", false); },
				Some(op) => { rec.case(&format!("cgop {} {}", key(x), op), &want("-"), &class, true); rec.case(&format!("cgop {} poll", key(x)), &want(out), "cgop:poll-after-tick", false); },
				None => rec.case(&format!("cgop {} poll", key(x)), &want(out), &class, d0 != d1 || sent_cs),
			}
		}
		before = after;
		pos = net.trace.len();
		if !alive[0] && !alive[1] { break; }
	}
	// ---- liveness: everything completed, peers connected, queues empty: the cooperative close must be over ------------------------
	let open: Vec<usize> = (0..2).filter(|i| !net.nodes[*i].node.list_channels().is_empty()).collect();
	if !open.is_empty() && !with_tick {
		rec.oracle_fail(format!("{}: the cooperative close did not finish at node(s) {:?} although every monitor update completed and all messages were delivered ({} closing_signed seen); history: {}", desc, open, released, history.join(" | ")));
	} else { *rec.classes.entry(format!("close:finished:{}:released={}", PHASES[phase], released.min(4))).or_insert(0) += 1; }
	std::mem::forget(net);
}


/// C09, interactive-tx / splice gate: a splice-out is negotiated and signed; the monitor update with which node `slow` records the
/// counterparty's initial post-splice commitment_signed is left InProgress. Oracle (implementation only): while that update is listed by
/// list_pending_monitor_updates, node `slow` releases neither tx_signatures nor splice_locked and does not broadcast the splice transaction —
/// not on the peer's tx_signatures, not after a reconnection; once it completes, tx_signatures are released (exactly once).
fn probe_splice_tx_signatures(slow: usize, reconnect: bool) -> Result<u64, String> {
	use lightning::events::Event;
	use lightning::ln::msgs::{ChannelMessageHandler, MessageSendEvent};
	use lightning::ln::splicing_tests::{initiate_splice_out, negotiate_splice_tx};
	let mut net = Net::new(2, vec![None, None]);
	let c = net.open(0, 1, 1_000_000, 400_000_000);
	let cid = net.chans[c].2;
	let (id0, id1) = (net.ids[0], net.ids[1]);
	let what = format!("splice probe (InProgress at node {}, {})", slow, if reconnect { "with reconnection" } else { "no reconnection" });
	let outputs = vec![bitcoin::TxOut { value: bitcoin::Amount::from_sat(1_000), script_pubkey: net.nodes[0].wallet_source.get_change_script().unwrap() }];
	let contribution = initiate_splice_out(&net.nodes[0], &net.nodes[1], cid, outputs).map_err(|e| format!("{}: splice-out refused: {:?}", what, e))?;
	negotiate_splice_tx(&net.nodes[0], &net.nodes[1], cid, contribution);
	let mut signed = false;
	for ev in net.nodes[0].node.get_and_clear_pending_events() {
		if let Event::FundingTransactionReadyForSigning { channel_id, counterparty_node_id, unsigned_transaction, .. } = ev {
			let tx = net.nodes[0].wallet_source.sign_tx(unsigned_transaction).map_err(|_| format!("{}: wallet could not sign", what))?;
			net.nodes[0].node.funding_transaction_signed(&channel_id, &counterparty_node_id, tx).map_err(|e| format!("{}: funding_transaction_signed: {:?}", what, e))?;
			signed = true;
		}
	}
	if !signed { return Err(format!("{}: set-up no longer reaches FundingTransactionReadyForSigning", what)); }
	// what node i released in one get_and_clear_pending_msg_events, and the oracle on it
	let mut viol: Vec<String> = vec![];
	let mut n_txsig = [0u64; 2];
	let mut take = |net: &Net, i: usize, stage: &str, viol: &mut Vec<String>, n_txsig: &mut [u64; 2]| -> Vec<MessageSendEvent> {
		let evs = net.nodes[i].node.get_and_clear_pending_msg_events();
		let pending = net.nodes[i].chain_monitor.chain_monitor.list_pending_monitor_updates().get(&cid).cloned().unwrap_or_default();
		for e in &evs {
			let gated = match e { MessageSendEvent::SendTxSignatures { .. } => { n_txsig[i] += 1; Some("tx_signatures") }, MessageSendEvent::SendSpliceLocked { .. } => Some("splice_locked"), _ => None };
			if let Some(k) = gated { if !pending.is_empty() { viol.push(format!("{}: node {} released {} while ChannelMonitorUpdate {:?} (recording the new funding's initial commitment) was still in flight ({})", what, i, k, pending, stage)); } }
		}
		let nb = net.nodes[i].tx_broadcaster.txn_broadcasted.lock().unwrap().len();
		if !pending.is_empty() && nb > net_bcast(net, i) { viol.push(format!("{}: node {} broadcast a transaction while ChannelMonitorUpdate {:?} was still in flight ({})", what, i, pending, stage)); }
		evs
	};
	fn net_bcast(_net: &Net, _i: usize) -> usize { BCAST.with(|b| b.get()) }
	thread_local! { static BCAST: std::cell::Cell<usize> = std::cell::Cell::new(0); }
	BCAST.with(|b| b.set(net.nodes[slow].tx_broadcaster.txn_broadcasted.lock().unwrap().len()));
	let cs_of = |evs: &Vec<MessageSendEvent>| evs.iter().find_map(|e| if let MessageSendEvent::UpdateHTLCs { updates, .. } = e { updates.commitment_signed.get(0).cloned() } else { None });
	let txs_of = |evs: &Vec<MessageSendEvent>| evs.iter().find_map(|e| if let MessageSendEvent::SendTxSignatures { msg, .. } = e { Some(msg.clone()) } else { None });
	let ev0 = take(&net, 0, "initiator signed", &mut viol, &mut n_txsig);
	let cs0 = cs_of(&ev0).ok_or(format!("{}: initiator did not produce its initial commitment_signed", what))?;
	if slow == 1 { net.set_mode(1, true); }
	net.nodes[1].node.handle_commitment_signed(id0, &cs0);
	if slow == 0 { net.set_mode(0, true); }
	let ev1 = take(&net, 1, "acceptor processed the initiator's commitment_signed", &mut viol, &mut n_txsig);
	let cs1 = cs_of(&ev1);
	let mut txs1 = txs_of(&ev1);
	if let Some(cs1) = &cs1 { net.nodes[0].node.handle_commitment_signed(id1, cs1); }
	let ev0 = take(&net, 0, "initiator processed the acceptor's commitment_signed", &mut viol, &mut n_txsig);
	let mut txs0 = txs_of(&ev0);
	if let Some(t) = txs1.take() { net.nodes[0].node.handle_tx_signatures(id1, &t); let e = take(&net, 0, "initiator received the acceptor's tx_signatures", &mut viol, &mut n_txsig); if txs0.is_none() { txs0 = txs_of(&e); } }
	if let Some(t) = txs0.take() { net.nodes[1].node.handle_tx_signatures(id0, &t); let _ = take(&net, 1, "acceptor received the initiator's tx_signatures", &mut viol, &mut n_txsig); }
	let pend = net.pending_updates(slow, c);
	if pend.is_empty() { return Err(format!("{}: no monitor update was left in flight at node {} (set-up no longer reaches the case)", what, slow)); }
	if reconnect {
		net.nodes[0].node.peer_disconnected(id1); net.nodes[1].node.peer_disconnected(id0);
		let init = |n: &N| lightning::ln::msgs::Init { features: n.node.init_features(), networks: None, remote_network_address: None };
		net.nodes[0].node.peer_connected(id1, &init(&net.nodes[1]), true).map_err(|_| format!("{}: peer_connected failed", what))?;
		net.nodes[1].node.peer_connected(id0, &init(&net.nodes[0]), false).map_err(|_| format!("{}: peer_connected failed", what))?;
		let e0 = take(&net, 0, "peer_connected", &mut viol, &mut n_txsig);
		let e1 = take(&net, 1, "peer_connected", &mut viol, &mut n_txsig);
		let re = |evs: &Vec<MessageSendEvent>| evs.iter().find_map(|e| if let MessageSendEvent::SendChannelReestablish { msg, .. } = e { Some(msg.clone()) } else { None });
		if let Some(m) = re(&e0) { net.nodes[1].node.handle_channel_reestablish(id0, &m); }
		if let Some(m) = re(&e1) { net.nodes[0].node.handle_channel_reestablish(id1, &m); }
		for i in 0..2 { let _ = take(&net, i, "after channel_reestablish", &mut viol, &mut n_txsig); }
	}
	let before = n_txsig[slow];
	for id in net.pending_updates(slow, c) { let _ = net.nodes[slow].chain_monitor.chain_monitor.channel_monitor_updated(cid, id); }
	let evs = take(&net, slow, "after the completion", &mut viol, &mut n_txsig);
	// hand the released tx_signatures over so that the splice can proceed
	if let Some(t) = txs_of(&evs) { net.nodes[1 - slow].node.handle_tx_signatures(net.ids[slow], &t); let _ = take(&net, 1 - slow, "peer received the released tx_signatures", &mut viol, &mut n_txsig); }
	if n_txsig[slow] != before + 1 && !(slow == 1 && !reconnect && before == 0 && n_txsig[slow] == 0) {
		if n_txsig[slow] == before { viol.push(format!("{}: node {} did not release its tx_signatures after the monitor update completed", what, slow)); }
		else { viol.push(format!("{}: node {} released tx_signatures {} times", what, slow, n_txsig[slow])); }
	}
	std::mem::forget(net);
	if let Some(v) = viol.into_iter().next() { Err(v) } else { Ok(n_txsig[slow]) }
}

/// the real closing_negotiation_ready on every ChannelState word
fn ready_sweep(rec: &mut Rec, thorough: bool) {
	for (phase, htlc) in [(1usize, false), (3, false), (3, true)] {
		let (mut net, c) = setup(phase, true);
		if htlc { let _ = net.send(&[0, 1], &[c], 3_000_000, 80); while let Some((i, j)) = net.any_queued() { net.deliver(i, j); } }
		for x in 0..2 {
			let d = match dump(&net, c, x) { Some(d) => d, None => { rec.oracle_fail(format!("cgready: no funded channel at node {} (phase {})", x, phase)); continue; } };
			let (nin, nout, fee) = (field(&d, "nin"), field(&d, "nout"), field(&d, "fee"));
			if htlc && nin == "0" && nout == "0" { rec.oracle_fail("cgready: set-up no longer leaves an HTLC pending".into()); }
			let mut words: Vec<u32> = vec![];
			if thorough && !htlc { words = (0..(1u32 << 17)).collect(); }
			else {
				let fb = [4u32, 5, 7, 8, 9, 10, 11, 13, 14, 15, 16];
				for vb in [0u32, 4, 8, 64, 4096, 72, 12] { for m in 0..(1u32 << fb.len()) { if htlc && m % 8 != 0 && m & 0b1100100 != 0b1100000 { continue; } let mut w = vb; for (k, b) in fb.iter().enumerate() { if m >> k & 1 == 1 { w |= 1 << b; } } words.push(w); } }
				words.push(1); words.push(3); words.push(1 << 12 | 8);
			}
			for w in words {
				let r = net.nodes[x].node.verif_closing_ready_for_state(&net.ids[1 - x], &net.chans[c].2, w);
				let ans = match r { None => "none".to_string(), Some(b) => format!("ready={}", b as u8) };
				let var = if w == 4096 { "ShutdownComplete" } else if w & 4 != 0 { "FundingNegotiated" } else if w & 8 != 0 { "AwaitingChannelReady" } else if w & 64 != 0 { "ChannelReady" } else { "NegotiatingFunding" };
				rec.case(&format!("cgready {} {} {} {}", w, nin, nout, fee), &ans, &format!("cgready:{}:{}{}", var, ans, if htlc { ":htlc-pending" } else { "" }), r.is_some());
				// implementation-side statement of the theorem: ready ⇒ no update in flight, peer connected, both shutdowns
				if r == Some(true) && (w & (1 << 8) != 0 || w & (1 << 7) != 0 || w & (1 << 10) == 0 || w & (1 << 11) == 0) {
					rec.oracle_fail(format!("closing_negotiation_ready() answers true for channel_state word {} ({}{}{}): closing_signed would be released {}", w, var,
						if w & (1 << 8) != 0 { ", MONITOR_UPDATE_IN_PROGRESS set" } else { "" }, if w & (1 << 7) != 0 { ", PEER_DISCONNECTED set" } else { "" },
						if w & (1 << 8) != 0 { "while a ChannelMonitorUpdate is in flight" } else { "in a state that does not allow it" }));
				}
			}
		}
		std::mem::forget(net);
	}
}

fn main() {
	let args = &parse_args("closegate");
	silence_stdout();
	let mut rec = Rec::new(&args.out, &args.model);
	let mut rng = Rng::new(args.seed);
	rec.notes.insert("rule".into(), "cgop cases are non-trivial when the action changed the closing-gate state of the node or released a closing_signed; cgready cases when the word is a ChannelState".into());
	// ---- directed families first: every phase x upfront x initiator x who persists asynchronously (deterministic), then random ones ----
	let mut sc = 0usize;
	for phase in 0..5 { for upfront in [false, true] { for initiator in 0..2 { for asyncs in [[true, false], [false, true], [true, true], [false, false]] {
		if upfront && asyncs != [true, true] && !args.thorough { continue; }
		let mut sub = Rng::new(args.seed.wrapping_mul(7919).wrapping_add(sc as u64));
		let (wd, wt) = (sc % 3 == 1, sc % 4 == 2);
		if let Err(p) = guarded(std::panic::AssertUnwindSafe(|| scenario(&mut sub, sc, phase, upfront, initiator, asyncs, wd, wt, &mut rec))) {
			rec.oracle_fail(format!("closegate scenario {} ({}, upfront {}, initiator {}, async {:?}, seed {}) panicked: {}", sc, PHASES[phase], upfront, initiator, asyncs, args.seed, p.chars().take(300).collect::<String>())); }
		sc += 1;
	} } } }
	let extra = if args.thorough { 400 } else { 60 };
	for _ in 0..extra {
		let mut sub = Rng::new(rng.next());
		let phase = sub.below(5) as usize; let upfront = sub.chance(1, 5); let initiator = sub.below(2) as usize;
		let asyncs = [sub.chance(2, 3), sub.chance(1, 2)]; let (wd, wt) = (sub.chance(1, 3), sub.chance(1, 3));
		if let Err(p) = guarded(std::panic::AssertUnwindSafe(|| scenario(&mut sub, sc, phase, upfront, initiator, asyncs, wd, wt, &mut rec))) {
			rec.oracle_fail(format!("closegate scenario {} ({}, upfront {}, initiator {}, async {:?}, seed {}) panicked: {}", sc, PHASES[phase], upfront, initiator, asyncs, args.seed, p.chars().take(300).collect::<String>())); }
		sc += 1;
	}
	for slow in 0..2 { for reconnect in [false, true] {
		match guarded(std::panic::AssertUnwindSafe(|| probe_splice_tx_signatures(slow, reconnect))) {
			Ok(Ok(n)) => { *rec.classes.entry(format!("probe:splice-tx_signatures-held:slow={}:reconnect={}:released={}", slow, reconnect as u8, n)).or_insert(0) += 1; },
			Ok(Err(m)) => rec.oracle_fail(m),
			Err(p) => rec.oracle_fail(format!("splice probe (InProgress at node {}, reconnect {}) panicked: {}", slow, reconnect, p.chars().take(300).collect::<String>())),
		}
	} }
	if let Err(p) = guarded(std::panic::AssertUnwindSafe(|| ready_sweep(&mut rec, args.thorough))) { rec.oracle_fail(format!("cgready sweep panicked: {}", p.chars().take(300).collect::<String>())); }
	rec.finish();
}
