//! C14 — onions: the REAL construction / peeling / failure attribution on generated routes.
//! ops (consumed by the Lean driver `drv_c14 c14`, answers compared line by line):
//!   build <L|std> <prng-seed> <assoc-data> <n> (<shared-secret> <payload>)*  → <hop_data> <hmac> | err
//!        real: public `create_payment_onion`; shared secrets / payload bytes through verif_hooks::onion
//!   peel <shared-secret> <assoc-data> <hmac> <hop_data>  → fwd amt= cltv= scid= <next hmac> <next hop_data>
//!        | final amt= … | err BadHmac        real: public `peel_payment_onion` with that hop's node key
//!   failbuild <ss> <code> <data> / failwrap <ss> <pkt> / faildecode <n> <ss>* <pkt>
//!        real: build_failure_packet, HTLCFailReason::get_encrypted_failure_packet, decode_onion_failure (hooks)
//!   failbuildx / failwrapx / faildecodex / fulfilwrapx / fulfildecodex: the same with AttributionData (hold times);
//!        failwrapx also reports the REAL serialized length of the relayed update_fail_htlc (`wire=`)
//!   failchainx <n> <ss>* <k> <code> <dlen> <seed> <attr|legacy> <holds>: a whole failure of `dlen` data bytes from hop k
//!        back to the sender (build / every relay / decode), at BOUNDARY sizes (pad-to-256 threshold, the data lengths
//!        that make the update_fail_htlc LN_MAX_MSG_LEN-1 / exactly LN_MAX_MSG_LEN / +1 bytes, with attribution data and
//!        from a failing node without it), relayed by 1..N hops; answer = lengths, attribution data kept per relay,
//!        wire lengths, SHA-256 of the final packet / attribution data, decoded (hop, code, data, hold times)
//!   payload <variant> <nf> (<field> <hex|none>)* <nt> (<type> <hex>)*  → <payload bytes> inc=1
//!        real: the hop payload `build_onion_payloads` serializes (hook); op = what was ASKED (amounts, cltv, scid, secret,
//!        metadata, keysend, invoice_request, blinded-hop data, custom TLVs); model = the encoder GENERATED from msgs.rs
//!   instr forward|receive|blindedForward|blindedReceive <values…>  → <payload bytes>
//!        real: the same hop payloads; op = the instruction VALUES in decimal (scid, amounts, expiries, secret, total, …);
//!        model = HopInstr.encode (generated constructors + generated value encodings: HighZeroBytesDroppedBigSize, …)
//!   fwdfail <intro|inside|none> <ss> reason <code> <data>  → pkt <packet> <attr> | malformed <code> <sha>
//!        real: channelmanager's get_htlc_forward_failure (hook) at the failing / converting node of a blinded path
//!   faildecodeb <num_blinded_hops> <u> <n> <show hop> <ss>* <pkt>  → within <k> | attributed …
//!        real: the sender's process_onion_failure on a path with a REAL blinded tail (BlindedPaymentPath::new / one_hop)
//!   customnew <n> (<type> <hex>)*  → ok … | err          real: public RecipientCustomTlvs::new
//!   payloaddec <payload> <bp 0|1> <fwd|recv|na> <show invreq>  → kind=… amt=… custom=…
//!        real: what that hop's node learns from peel_payment_onion (PendingHTLCInfo) on the real onion
//!   fwdblind <fwd|bfwd> <payload intro point|none> <update_add point|none> <override|none> <derived>  → none next=none | blinded <inbound> <override|none> <intro|node> next=<pt>
//!        real: peel_payment_onion (create_fwd_pending_htlc_info) at every forwarding hop of CONCATENATED blinded paths
//!        (first path through the hook blinded_hops_raw with TLV 8 on its last hop, second path BlindedPaymentPath::new)
//!   fwdchain <first path key> <n> (<override|none> <derived>)*  → what every tail hop recorded (model: relayBlinded)
//!   blame <code> <is_final> <update_ok>  → scid=<none|self|next> perm=<0|1>   real: the sender's decode of every failure chain
//!   inbfail <update_add has blinding point 0|1> <hmac|blindedcheck> <code>  → malformed <code> | relay   (GENERATED inboundFailure)
//!        real: peel_payment_onion of a tail hop of the concatenated paths on a corrupted onion / violated payment constraints
//!   blinded section: real BlindedPaymentPath::new / one_hop recipients (0..3 blinded forwarding nodes), keysend,
//!        invoice_request, custom TLV types drawn below / between / above 77_777 and 5482373484 (odd and even)
//! ECDH and ephemeral-key blinding are TRUSTED: the ephemeral keys stay on the Rust side, the
//! model receives the per-hop shared secrets.
use bitcoin::hashes::hmac::{Hmac, HmacEngine};
use bitcoin::hashes::sha256::Hash as Sha256;
use bitcoin::hashes::{Hash, HashEngine};
use bitcoin::secp256k1::{PublicKey, Secp256k1, SecretKey};
use ldk_verif_harness::common::*;
use lightning::ln::channelmanager::{PendingHTLCInfo, PendingHTLCRouting};
use lightning::ln::msgs::{OnionPacket, UpdateAddHTLC};
use lightning::ln::onion_payment::peel_payment_onion;
use lightning::ln::onion_utils::{create_payment_onion, LocalHTLCFailureReason};
use lightning::ln::outbound_payment::{RecipientCustomTlvs, RecipientOnionFields};
use lightning::ln::types::ChannelId;
use lightning::ln::verif_hooks::onion as vh;
use lightning::routing::router::{Path, RouteHop};
use lightning::sign::{KeysManager, NodeSigner, Recipient};
use lightning::types::features::{ChannelFeatures, NodeFeatures};
use lightning::types::payment::{PaymentHash, PaymentPreimage, PaymentSecret};
use std::panic::AssertUnwindSafe;

const L: usize = 1300;
const MAX_NODES: usize = 30;

struct Ctx { secp: Secp256k1<bitcoin::secp256k1::All>, kms: Vec<KeysManager>, ids: Vec<PublicKey> }

#[derive(Clone)]
struct Case {
	path: Path, rof: RecipientOnionFields, keysend: Option<PaymentPreimage>, hash: PaymentHash, height: u32,
	session: SecretKey, seed: [u8; 32], order: Vec<usize>, /* node index per hop */
}

fn opt_hex(b: Option<&[u8]>) -> String { match b { None => "none".into(), Some(x) => hex(x) } }

fn reason_name(r: &LocalHTLCFailureReason) -> String {
	match r {
		LocalHTLCFailureReason::InvalidOnionHMAC => "BadHmac".into(),
		LocalHTLCFailureReason::InvalidOnionPayload => "BadPayload".into(),
		x => { let s = format!("{:?}", x); s.split(|c: char| !c.is_alphanumeric()).next().unwrap().to_string() },
	}
}

/// canonical answer line for what the real `peel_payment_onion` returned
fn show_peeled(info: &PendingHTLCInfo) -> String {
	let custom = |c: &Vec<(u64, Vec<u8>)>| if c.is_empty() { "none".to_string() } else { c.iter().map(|(t, v)| format!("{}:{}", t, hex(v))).collect::<Vec<_>>().join(",") };
	match &info.routing {
		PendingHTLCRouting::Forward { onion_packet, short_channel_id, .. } =>
			format!("fwd amt={} cltv={} scid={} {} {}", info.outgoing_amt_msat, info.outgoing_cltv_value, short_channel_id, hex(&onion_packet.hmac), hex(&onion_packet.hop_data)),
		PendingHTLCRouting::Receive { payment_data, payment_metadata, custom_tlvs, .. } =>
			format!("final amt={} cltv={} secret={} total={} meta={} keysend=none custom={}", info.outgoing_amt_msat, info.outgoing_cltv_value,
				hex(&payment_data.payment_secret.0), payment_data.total_msat, opt_hex(payment_metadata.as_deref()), custom(custom_tlvs)),
		PendingHTLCRouting::ReceiveKeysend { payment_data, payment_preimage, payment_metadata, custom_tlvs, .. } =>
			format!("final amt={} cltv={} secret={} total={} meta={} keysend={} custom={}", info.outgoing_amt_msat, info.outgoing_cltv_value,
				opt_hex(payment_data.as_ref().map(|d| &d.payment_secret.0[..])), payment_data.as_ref().map(|d| d.total_msat.to_string()).unwrap_or("none".into()),
				opt_hex(payment_metadata.as_deref()), hex(&payment_preimage.0), custom(custom_tlvs)),
		_ => "other".into(),
	}
}

fn draw_amount(rng: &mut Rng) -> u64 {
	match rng.below(6) { 0 => rng.below(3), 1 => rng.range(1, 255), 2 => rng.range(256, 65535), 3 => rng.range(65536, 1 << 32), 4 => rng.range(1 << 32, 1 << 44), _ => rng.range(1, 5_000_000) }
}

/// a random route of `n` hops with recipient fields of the given kind
fn draw_case(ctx: &Ctx, rng: &mut Rng, n: usize, big_recipient: bool, tiny: bool) -> Case {
	let mut order: Vec<usize> = (0..MAX_NODES).collect();
	for i in 0..n { let j = i + rng.below((MAX_NODES - i) as u64) as usize; order.swap(i, j); }
	order.truncate(n);
	let min_delta = lightning::ln::channelmanager::MIN_CLTV_EXPIRY_DELTA as u32;
	let mut hops = vec![];
	for i in 0..n {
		let last = i == n - 1;
		let fee = if tiny { if last { rng.range(1, 200) } else { 0 } } else if last { draw_amount(rng).max(1) } else { draw_amount(rng) };
		let delta = if last { rng.range(60, 400) as u32 } else { min_delta + rng.below(60) as u32 };
		hops.push(RouteHop { pubkey: ctx.ids[order[i]], node_features: NodeFeatures::empty(), short_channel_id: (rng.next() | 1) ^ ((i as u64) << 56),
			channel_features: ChannelFeatures::empty(), fee_msat: fee, cltv_expiry_delta: delta, maybe_announced_channel: true });
	}
	let final_value = hops[n - 1].fee_msat;
	let total = if !tiny && rng.chance(1, 3) { final_value + draw_amount(rng) } else { final_value };
	let keysend_kind = rng.below(5); // 0: keysend without secret, 1: keysend with secret, else invoice payment
	let mut rof = if keysend_kind == 0 { RecipientOnionFields::spontaneous_empty(total) } else { RecipientOnionFields::secret_only(PaymentSecret(rng.bytes32()), total) };
	let (meta_max, tlv_max) = if big_recipient { (700, 400) } else { (40, 24) };
	if rng.chance(1, 2) { let l = rng.below(meta_max) as usize; rof.payment_metadata = Some(rng.bytes(l)); }
	if rng.chance(1, 2) {
		let mut tl = vec![]; let mut t = 65537 + 2 * rng.below(1000);
		for _ in 0..rng.range(1, 3) { let l = rng.below(tlv_max) as usize; tl.push((t, rng.bytes(l))); t += 2 * rng.range(1, 1 << 20); if rng.chance(1, 4) { t = (1u64 << 33) + 1 + 2 * rng.below(1 << 20) + t; } }
		if let Ok(ct) = RecipientCustomTlvs::new(tl) { rof = rof.with_custom_tlvs(ct); }
	}
	let (keysend, hash) = if keysend_kind <= 1 { let p = rng.bytes32(); (Some(PaymentPreimage(p)), PaymentHash(Sha256::hash(&p).to_byte_array())) } else { (None, PaymentHash(rng.bytes32())) };
	let mut sk = rng.bytes32(); sk[0] &= 0x7f; if sk == [0; 32] { sk[31] = 1; }
	Case { path: Path { hops, blinded_tail: None }, rof, keysend, hash, height: if tiny { rng.range(100, 250) } else { rng.range(1000, 900_000) } as u32, session: SecretKey::from_slice(&sk).unwrap(), seed: rng.bytes32(), order }
}

fn add_htlc(c: &Case, i: usize, onion: OnionPacket, hash: PaymentHash) -> UpdateAddHTLC {
	let amt: u64 = c.path.hops[i..].iter().map(|h| h.fee_msat).sum();
	let cltv: u32 = c.height + c.path.hops[i..].iter().map(|h| h.cltv_expiry_delta).sum::<u32>();
	UpdateAddHTLC { channel_id: ChannelId([0; 32]), htlc_id: 0, amount_msat: amt, payment_hash: hash, cltv_expiry: cltv, skimmed_fee_msat: None, onion_routing_packet: onion, blinding_point: None, hold_htlc: None, accountable: None }
}

/// hop `i` peels with its own node key at a height that makes the (unrelated, C08) cltv checks pass
fn real_peel(ctx: &Ctx, c: &Case, i: usize, onion: OnionPacket, hash: PaymentHash) -> Result<Result<PendingHTLCInfo, String>, String> {
	let msg = add_htlc(c, i, onion, hash);
	let outgoing_cltv: u32 = c.height + c.path.hops[i + 1..].iter().map(|h| h.cltv_expiry_delta).sum::<u32>();
	let cur = if i + 1 == c.path.hops.len() { msg.cltv_expiry - 55 } else { outgoing_cltv - 10 };
	guarded(AssertUnwindSafe(|| peel_payment_onion(&msg, &ctx.kms[c.order[i]], &NullLogger, &ctx.secp, cur, false).map_err(|e| reason_name(&e.reason))))
}

fn flip(b: &mut [u8], bit: usize) { b[bit / 8] ^= 1 << (bit % 8); }

const CODES: [u16; 26] = [0x2002, 0x6002, 0x6003, 0xc004, 0xc005, 0xc006, 0x1007, 0x4008, 0x4009, 0x400a, 0x100b, 0x100c, 0x100d, 0x100e, 0x400f, 18, 19, 0x1014, 21, 0x4016, 23, 0xc018, 0x2019, 0x201a, 0x401b, 0x7fff];

fn um_of(ss: &[u8; 32]) -> [u8; 32] { let mut h = HmacEngine::<Sha256>::new(b"um"); h.input(ss); Hmac::from_engine(h).to_byte_array() }

type Attr = lightning::ln::onion_utils::AttributionData;

/// serialized length on the wire (2-byte type + body) of the `update_fail_htlc` carrying `data` / `attr`, obtained
/// from the REAL codec: candidate bytes are parsed by `UpdateFailHTLC::read` and re-encoded (must round-trip).
/// Independent of onion_utils::update_fail_htlc_wire_len.  None: not representable (reason ≥ 65535 bytes).
fn wire_len(data: &[u8], attr: Option<&Attr>) -> Option<usize> {
	use lightning::util::ser::{BigSize, LengthReadable, Writeable};
	if data.len() >= 0xffff { return None; }
	let mut b = vec![0u8; 40];
	b.extend_from_slice(&(data.len() as u16).to_be_bytes());
	b.extend_from_slice(data);
	if let Some(a) = attr { let v = a.encode(); b.push(1); b.extend(BigSize(v.len() as u64).encode()); b.extend_from_slice(&v); }
	let msg = <lightning::ln::msgs::UpdateFailHTLC as LengthReadable>::read_from_fixed_length_buffer(&mut &b[..]).ok()?;
	let enc = msg.encode();
	if enc != b { return None; }
	Some(enc.len() + 2)
}

/// what a failing node WITHOUT attribution-data support sends: hmac(um) ‖ len ‖ code ‖ data ‖ padlen ‖ pad, ammag-encrypted
fn legacy_packet(ss: &[u8; 32], code: u16, data: &[u8]) -> Vec<u8> {
	let fl = 2 + data.len(); let pad = 256usize.saturating_sub(fl);
	let mut body: Vec<u8> = vec![]; body.extend((fl as u16).to_be_bytes()); body.extend(code.to_be_bytes()); body.extend_from_slice(data);
	body.extend((pad as u16).to_be_bytes()); body.resize(body.len() + pad, 0);
	let mut h = HmacEngine::<Sha256>::new(&um_of(ss)); h.input(&body);
	let mut pkt = Hmac::from_engine(h).to_byte_array().to_vec(); pkt.extend(&body);
	vh::crypt_failure_data(ss, pkt)
}

fn csv<T: ToString>(v: &[T]) -> String { if v.is_empty() { "none".into() } else { v.iter().map(|x| x.to_string()).collect::<Vec<_>>().join(",") } }

/// One failure all the way back: hop `k` fails with `dlen` data bytes, hops k-1..0 relay (real
/// `HTLCFailReason::get_encrypted_failure_packet` → process_failure_packet + crypt_failure_packet), the sender decodes.
/// Implementation oracles (no model): reason length preserved; attribution data kept iff the resulting message fits in
/// LN_MAX_MSG_LEN (REAL serialized length); a legal incoming message never becomes an illegal outgoing one; the sender
/// decodes code, data and — unless a relay was forced to strip — the hold times of all hops that reported one.
fn run_chain(ctx: &Ctx, rec: &mut Rec, c: &Case, ss: &[[u8; 32]], k: usize, code: u16, dlen: usize, seed: u8, legacy: bool, holds: &[u32], label: &str) {
	let ln_max = lightning::ln::LN_MAX_MSG_LEN;
	let n = ss.len();
	let data: Vec<u8> = (0..dlen).map(|i| (seed as usize + 7 * i) as u8).collect();
	let mut op = format!("failchainx {}", n); for s in ss { op.push_str(&format!(" {}", hex(s))); }
	op.push_str(&format!(" {} {} {} {} {} {}", k, code, dlen, seed, if legacy { "legacy" } else { "attr" }, csv(holds)));
	let class = format!("boundary:{}:{}", if legacy { "legacy" } else { "attr" }, label);
	let (mut d, mut attr): (Vec<u8>, Option<Attr>) = if legacy { (legacy_packet(&ss[k], code, &data), None) } else {
		match guarded(AssertUnwindSafe(|| vh::build_failure_packet(&ss[k], code, &data, holds[0]))) {
			Ok(x) => x,
			// debug builds: build_unencrypted_failure_packet asserts that what it builds fits on the wire
			Err(_) => { *rec.classes.entry(format!("real-only:{}:build-refused(debug_assert)", class)).or_insert(0) += 1; return; },
		}
	};
	// any real AttributionData, to measure what the message WOULD weigh with attribution data
	let probe = vh::build_failure_packet(&ss[k], code, &[], 0).1.expect("build_failure_packet always adds attribution data");
	let w = |d: &[u8], a: Option<&Attr>| wire_len(d, a).map(|x| x.to_string()).unwrap_or("none".into());
	let mut line = format!("len0={} attr0={} wire0={}", d.len(), attr.is_some() as u8, w(&d, attr.as_ref()));
	if !legacy && attr.is_none() { rec.oracle_fail(format!("build_failure_packet produced no attribution data (hop {} of {}, data_len {})", k, n, dlen)); }
	let (mut kept, mut wires): (Vec<u8>, Vec<String>) = (vec![], vec![]);
	let mut forced_strip = false;
	for j in 0..k {
		let hop = k - 1 - j;
		let legal_in = wire_len(&d, attr.as_ref()).map_or(false, |x| x <= ln_max);
		let in_len = d.len();
		let (d2, a2) = vh::relay_failure_packet(&ss[hop], d, attr, holds[j + 1]);
		if d2.len() != in_len { rec.oracle_fail(format!("relay hop {} of {} changed the failure packet length {} -> {} (failing hop {}, data_len {})", hop, n, in_len, d2.len(), k, dlen)); }
		let with_attr = wire_len(&d2, Some(&probe));
		let out = wire_len(&d2, a2.as_ref());
		match with_attr {
			Some(wl) if wl <= ln_max => { if a2.is_none() { rec.oracle_fail(format!("failure of wire length {} <= LN_MAX_MSG_LEN ({}) lost its attribution data at relay hop {} (path of {} hops, failing hop {}, failure data_len {}, {})", wl, ln_max, hop, n, k, dlen, if legacy { "failing node without attribution data" } else { "with attribution data" })); } },
			_ => { forced_strip = true; if a2.is_some() { rec.oracle_fail(format!("relay hop {} kept attribution data on an update_fail_htlc of {:?} bytes > LN_MAX_MSG_LEN (failing hop {}, data_len {})", hop, with_attr, k, dlen)); } },
		}
		if legal_in && !out.map_or(false, |x| x <= ln_max) { rec.oracle_fail(format!("relay hop {} turned a legal update_fail_htlc into one of {:?} bytes > LN_MAX_MSG_LEN (failing hop {}, data_len {})", hop, out, k, dlen)); }
		kept.push(a2.is_some() as u8); wires.push(w(&d2, a2.as_ref()));
		d = d2; attr = a2;
	}
	let dec = vh::decode_onion_failure(&ctx.secp, &NullLogger, &c.path, &c.session, d.clone(), attr.clone());
	let ahash = attr.as_ref().map(|a| { use lightning::util::ser::Writeable; hex(&Sha256::hash(&a.encode()).to_byte_array()) }).unwrap_or("none".into());
	let decs = match (&dec.onion_error_code, &dec.onion_error_data) {
		(Some(cd), Some(dt)) => format!("attributed {} {} dlen={} ddigest={}", dec.short_channel_id.and_then(|s| c.path.hops.iter().position(|h| h.short_channel_id == s)).map(|x| x as i64).unwrap_or(-1), cd, dt.len(), hex(&Sha256::hash(dt).to_byte_array())),
		_ => match dec.short_channel_id { None => "unattributable".into(), Some(s) => format!("unreadable {}", c.path.hops.iter().position(|h| h.short_channel_id == s).map(|x| x as i64).unwrap_or(-1)) },
	};
	line.push_str(&format!(" len={} kept={} wire={} digest={} adigest={} dec={} holds={}", d.len(), csv(&kept), csv(&wires), hex(&Sha256::hash(&d).to_byte_array()), ahash, decs, csv(&dec.hold_times)));
	// sender-side oracle
	if dec.onion_error_code != Some(code) || dec.onion_error_data.as_deref() != Some(&data[..]) { rec.oracle_fail(format!("failure code/data changed on the way back: hop {} of {} sent code {} with {} data bytes, sender got {:?} with {:?} bytes", k, n, code, dlen, dec.onion_error_code, dec.onion_error_data.as_ref().map(|x| x.len()))); }
	if !forced_strip {
		// hold_k, …, hold_0 reversed = first hop first; a failing node without attribution data reports none itself
		let mut exp: Vec<u32> = holds[if legacy { 1 } else { 0 }..=k].iter().rev().cloned().collect(); exp.truncate(20);
		if dec.hold_times != exp { rec.oracle_fail(format!("sender decoded {} hold times {:?} for a failure relayed by {} hops although no relay was forced to strip the attribution data (expected {:?}; path of {} hops, failing hop {}, failure data_len {}, {})", dec.hold_times.len(), dec.hold_times, k, exp, n, k, dlen, if legacy { "failing node without attribution data" } else { "with attribution data" })); }
	} else if !dec.hold_times.is_empty() && attr.is_none() { rec.oracle_fail(format!("hold times {:?} reported without attribution data", dec.hold_times)); }
	rec.case(&op, &line, &class, true);
}

/// failure-data lengths around every threshold of the failure-relay path × relays 1..N
fn boundary_section(ctx: &Ctx, rng: &mut Rng, rec: &mut Rec, thorough: bool) {
	let ln_max = lightning::ln::LN_MAX_MSG_LEN;
	// thresholds from the REAL codec: empty message, attribution-data TLV overhead, built packet overhead
	let probe_ss = [7u8; 32];
	let (p0, a0) = vh::build_failure_packet(&probe_ss, 0x2002, &[0u8; 300], 0);
	let base = wire_len(&[], None).expect("codec probe");                     // 44
	let with = wire_len(&[], a0.as_ref()).expect("codec probe");              // 968
	let over = p0.len() - 300;                                                // 38: hmac + len + code + padlen
	let attr_exact = ln_max - with - over;                                    // data_len making the message exactly LN_MAX_MSG_LEN with attribution data
	let legacy_exact = ln_max - base - over;                                  // ... without attribution data
	rec.notes.insert("boundary".into(), format!("LN_MAX_MSG_LEN={} empty update_fail_htlc={} with attribution data={} packet overhead={} => data_len {} (with attribution data) / {} (without) make the message exactly LN_MAX_MSG_LEN", ln_max, base, with, over, attr_exact, legacy_exact));
	let mut sizes: Vec<(usize, bool, String)> = vec![];
	for (d, l) in [(0usize, "0"), (1, "1"), (253, "pad-1"), (254, "pad-exact"), (255, "pad+1"), (256, "256"), (257, "257")] { sizes.push((d, false, l.to_string())); sizes.push((d, true, l.to_string())); }
	for (o, l) in [(-2i64, "max-2"), (-1, "max-1"), (0, "max-exact"), (1, "max+1"), (2, "max+2")] {
		sizes.push(((attr_exact as i64 + o) as usize, false, format!("attr-{}", l)));
		sizes.push(((attr_exact as i64 + o) as usize, true, format!("attr-{}", l)));   // legacy packet to which the first relay adds attribution data: same threshold
		sizes.push(((legacy_exact as i64 + o) as usize, true, format!("noattr-{}", l)));
	}
	let mid = rng.range(300, attr_exact as u64 - 3) as usize;
	sizes.push((mid, false, "mid".into())); sizes.push((rng.range(attr_exact as u64 + 3, legacy_exact as u64 - 3) as usize, true, "between".into()));
	let n_routes = if thorough { 8 } else { 3 };
	for r in 0..n_routes {
		// 6 hops (every failing position); a short route; one longer than MAX_HOPS (hold times of the first 20 hops only); then random
		let n = if r == 0 { 6 } else if r == 1 { 3 + rng.below(3) as usize } else if r == 2 { 21 + rng.below(6) as usize } else { 2 + rng.below(25) as usize };
		let c = draw_case(ctx, rng, n, false, true);
		let ss = vh::shared_secrets(&ctx.secp, &c.path, &c.session);
		for (dlen, legacy, label) in sizes.iter() {
			// relayed by 1..N hops (N = n-1): all of them on the first route, a sample on the others; plus the unrelayed first hop
			let ks: Vec<usize> = if r == 0 || thorough { (0..n).collect() } else { let mut v = vec![1usize.min(n - 1), n - 1]; v.push(rng.below(n as u64) as usize); v.sort(); v.dedup(); v };
			for &k in ks.iter() {
				if *dlen > 60000 && k > 3 && !(thorough && r == 0) && !label.contains("exact") { continue; }
				let code = *rng.pick(&[0x2002u16, 0x6002, 0x6003, 0x2019, 0x201a]);
				let holds: Vec<u32> = (0..=k).map(|_| match rng.below(4) { 0 => 0, 1 => rng.below(50) as u32, 2 => rng.below(100_000) as u32, _ => rng.next() as u32 }).collect();
				run_chain(ctx, rec, &c, &ss, k, code, *dlen, rng.next() as u8, *legacy, &holds, label);
			}
		}
	}
}

/// HighZeroBytesDroppedBigSize: big-endian without leading zero bytes
fn tu(x: u64) -> Vec<u8> { let b = x.to_be_bytes(); let i = b.iter().position(|&v| v != 0).unwrap_or(8); b[i..].to_vec() }

fn read_bigsize(b: &[u8]) -> Option<(u64, &[u8])> {
	let (&x, rest) = b.split_first()?;
	let w = match x { 0..=0xfc => return Some((x as u64, rest)), 0xfd => 2, 0xfe => 4, _ => 8 };
	if rest.len() < w { return None; }
	let mut v = 0u64; for y in &rest[..w] { v = (v << 8) | *y as u64; }
	Some((v, &rest[w..]))
}

/// the (type, value) records of a length-prefixed hop payload, as they are on the wire
fn payload_records(p: &[u8]) -> Option<Vec<(u64, Vec<u8>)>> {
	let (len, mut rest) = read_bigsize(p)?;
	if rest.len() as u64 != len { return None; }
	let mut out = vec![];
	while !rest.is_empty() {
		let (t, r1) = read_bigsize(rest)?; let (l, r2) = read_bigsize(r1)?;
		if (r2.len() as u64) < l { return None; }
		out.push((t, r2[..l as usize].to_vec())); rest = &r2[l as usize..];
	}
	Some(out)
}

fn payload_op(variant: &str, fields: &[(&str, Option<Vec<u8>>)], tlvs: &[(u64, Vec<u8>)]) -> String {
	let mut op = format!("payload {} {}", variant, fields.len());
	for (n, v) in fields { op.push_str(&format!(" {} {}", n, opt_hex(v.as_deref()))); }
	op.push_str(&format!(" {}", tlvs.len()));
	for (t, v) in tlvs { op.push_str(&format!(" {} {}", t, hex(v))); }
	op
}

/// `instr …` ops: the instruction VALUES (decimal), the model encodes them itself (HopInstr.encode)
fn tlv_tail(tlvs: &[(u64, Vec<u8>)]) -> String { let mut o = format!(" {}", tlvs.len()); for (t, v) in tlvs { o.push_str(&format!(" {} {}", t, hex(v))); } o }

fn show_tlvs(t: &[(u64, Vec<u8>)]) -> String { if t.is_empty() { "none".into() } else { t.iter().map(|(t, v)| format!("{}:{}", t, hex(v))).collect::<Vec<_>>().join(",") } }

/// implementation oracle on the bytes of one hop payload: TLV types strictly increasing
fn check_payload_order(rec: &mut Rec, what: &str, payload: &[u8]) {
	match payload_records(payload) {
		None => rec.oracle_fail(format!("{}: hop payload is not a well-framed TLV stream: {}", what, hex(payload))),
		Some(r) => { let ts: Vec<u64> = r.iter().map(|x| x.0).collect(); if ts.windows(2).any(|w| w[0] >= w[1]) { rec.oracle_fail(format!("{}: final payload TLVs not strictly increasing: {:?}", what, ts)); } },
	}
}

/// custom TLV types around the fixed record types 77_777 (invoice_request) and 5482373484 (keysend), odd and even
fn draw_custom_tlvs(rng: &mut Rng, allow_invalid: bool) -> Vec<(u64, Vec<u8>)> {
	let n = match rng.below(6) { 0 => 0, 1 => 1, 2 | 3 => 2, 4 => 3, _ => 4 + rng.below(3) } as usize;
	let mut v: Vec<(u64, Vec<u8>)> = vec![];
	for _ in 0..n {
		let t = match rng.below(if allow_invalid { 13 } else { 11 }) {
			0 | 1 => 65536 + rng.below(12_241),                                        // below 77_777
			2 => *rng.pick(&[77_773u64, 77_774, 77_775, 77_776, 77_778, 77_779, 77_780, 77_781]),
			3 | 4 => rng.range(77_782, 5_482_373_480),                                 // between
			5 | 6 => *rng.pick(&[5_482_373_481u64, 5_482_373_482, 5_482_373_483, 5_482_373_485, 5_482_373_486, 5_482_373_487, 5_482_373_488]),
			7 | 8 => rng.range(5_482_373_489, 1 << 40),                                // above
			9 => u64::MAX - rng.below(4),
			10 => (1u64 << 32) + rng.below(8),
			11 => *rng.pick(&[77_777u64, 5_482_373_484, 65_535, 0, 7]),                // reserved / below the custom range
			_ => v.first().map(|x| x.0).unwrap_or(77_777),                             // repeated type
		};
		let l = rng.below(20) as usize;
		v.push((t, rng.bytes(l)));
	}
	// user order is arbitrary
	for i in (1..v.len()).rev() { let j = rng.below(i as u64 + 1) as usize; v.swap(i, j); }
	v
}

/// `RecipientCustomTlvs::new` on `raw` (real vs model), returns the accepted set
fn custom_new(rec: &mut Rec, raw: Vec<(u64, Vec<u8>)>) -> Option<RecipientCustomTlvs> {
	let mut op = format!("customnew {}", raw.len()); for (t, v) in &raw { op.push_str(&format!(" {} {}", t, hex(v))); }
	let res = RecipientCustomTlvs::new(raw.clone()).ok();
	let bad = raw.iter().any(|(t, _)| *t < 65536 || *t == 77_777 || *t == 5_482_373_484) || { let mut ts: Vec<u64> = raw.iter().map(|x| x.0).collect(); ts.sort(); ts.windows(2).any(|w| w[0] == w[1]) };
	if res.is_some() == bad { rec.oracle_fail(format!("RecipientCustomTlvs::new {} the custom TLV types {:?}", if bad { "accepted" } else { "rejected" }, raw.iter().map(|x| x.0).collect::<Vec<_>>())); }
	rec.case(&op, &match &res { Some(c) => format!("ok {}", show_tlvs(c.as_slice())), None => "err".into() }, if res.is_some() { "payload:customnew-ok" } else { "payload:customnew-err" }, true);
	res
}

fn next_blinding_point(ctx: &Ctx, node: usize, bp: &PublicKey) -> PublicKey {
	let ss = ctx.kms[node].ecdh(Recipient::Node, bp, None).unwrap().secret_bytes();
	let mut e = Sha256::engine(); e.input(&bp.serialize()); e.input(&ss);
	let f = Sha256::from_engine(e).to_byte_array();
	bp.mul_tweak(&ctx.secp, &bitcoin::secp256k1::Scalar::from_be_bytes(f).unwrap()).unwrap()
}

/// Payments to BLINDED recipients: real blinded paths, real onion, every hop (incl. the blinded ones) peels with its own keys.
fn blinded_section(ctx: &Ctx, rng: &mut Rng, rec: &mut Rec, thorough: bool, scale: u64) {
	use lightning::blinded_path::payment::{BlindedPaymentPath, Bolt12RefundContext, ForwardTlvs, PaymentConstraints, PaymentContext, PaymentForwardNode, PaymentRelay, ReceiveTlvs};
	use lightning::ln::channelmanager::PaymentId;
	use lightning::ln::inbound_payment::ExpandedKey;
	use lightning::offers::nonce::Nonce;
	use lightning::offers::offer::OfferBuilder;
	use lightning::routing::router::BlindedTail;
	use lightning::types::features::BlindedHopFeatures;
	use lightning::util::ser::Writeable;
	let min_delta = lightning::ln::channelmanager::MIN_CLTV_EXPIRY_DELTA as u32;
	let n_routes = (if thorough { 4000 } else { 260 }) * scale;
	for r in 0..n_routes {
		let u = 1 + rng.below(3) as usize;                 // unblinded hops; the last one is the introduction node
		let b = rng.below(4) as usize;                     // blinded FORWARDING nodes (0: one-hop blinded path, the recipient is the introduction node)
		let n = u + b;                                     // onion hops
		let mut order: Vec<usize> = (0..MAX_NODES).collect();
		for i in 0..n { let j = i + rng.below((MAX_NODES - i) as u64) as usize; order.swap(i, j); }
		order.truncate(n);
		let height = rng.range(1000, 800_000) as u32;
		let final_value = match rng.below(4) { 0 => rng.range(1, 255), 1 => rng.range(256, 70_000), 2 => rng.range(1 << 24, 1 << 36), _ => rng.range(1, 5_000_000) };
		let total = if rng.chance(1, 3) { final_value + draw_amount(rng) } else { final_value };
		let excess = if rng.chance(1, 2) { 0 } else { rng.below(60) as u32 };
		let min_final = rng.range(60, 400) as u16;
		let secret = PaymentSecret(rng.bytes32());
		let constraints = PaymentConstraints { max_cltv_expiry: height + 1_000_000, htlc_minimum_msat: 1 };
		// ---- the recipient builds the blinded path (real constructors) --------------------------------------
		let recipient = order[n - 1];
		let fwd: Vec<PaymentForwardNode> = (0..b).map(|t| PaymentForwardNode {
			tlvs: ForwardTlvs { short_channel_id: rng.next() | 1, payment_relay: PaymentRelay { cltv_expiry_delta: (min_delta + rng.below(40) as u32) as u16, fee_proportional_millionths: 0, fee_base_msat: 0 },
				payment_constraints: constraints, features: BlindedHopFeatures::empty(), next_blinding_override: None },
			node_id: ctx.ids[order[u - 1 + t]], htlc_maximum_msat: u64::MAX }).collect();
		let payee_tlvs = ReceiveTlvs { payment_secret: secret, payment_constraints: constraints, payment_context: PaymentContext::Bolt12Refund(Bolt12RefundContext { payment_metadata: None }) };
		let bp = if b == 0 && rng.chance(1, 2) { BlindedPaymentPath::one_hop(ctx.ids[recipient], ctx.kms[recipient].get_receive_auth_key(), payee_tlvs, min_final, &ctx.kms[recipient], &ctx.secp) }
			else { BlindedPaymentPath::new(&fwd, ctx.ids[recipient], ctx.kms[recipient].get_receive_auth_key(), payee_tlvs, u64::MAX, min_final, &ctx.kms[recipient], &ctx.secp) };
		let bp = match bp { Ok(x) => x, Err(()) => { rec.discarded += 1; continue; } };
		if bp.blinded_hops().len() != b + 1 { rec.oracle_fail(format!("blinded path of {} forwarding nodes has {} hops", b, bp.blinded_hops().len())); continue; }
		// ---- the sender's path ---------------------------------------------------------------------------------
		let mut hops = vec![];
		for i in 0..u {
			let last = i == u - 1;
			hops.push(RouteHop { pubkey: ctx.ids[order[i]], node_features: NodeFeatures::empty(), short_channel_id: (rng.next() | 1) ^ ((i as u64) << 56), channel_features: ChannelFeatures::empty(),
				fee_msat: if last { bp.payinfo.fee_base_msat as u64 } else { draw_amount(rng) % 1_000_000 }, cltv_expiry_delta: if last { bp.payinfo.cltv_expiry_delta as u32 + excess } else { min_delta + rng.below(60) as u32 }, maybe_announced_channel: true });
		}
		let path = Path { hops, blinded_tail: Some(BlindedTail { trampoline_hops: vec![], hops: bp.blinded_hops().to_vec(), blinding_point: bp.blinding_point(), excess_final_cltv_expiry_delta: excess, final_value_msat: final_value }) };
		// ---- what the sender wants the recipient to get --------------------------------------------------------
		let keysend = if rng.chance(1, 2) { Some(PaymentPreimage(rng.bytes32())) } else { None };
		let hash = match &keysend { Some(p) => PaymentHash(Sha256::hash(&p.0).to_byte_array()), None => PaymentHash(rng.bytes32()) };
		let invreq = if rng.chance(1, 2) {
			let ek = ExpandedKey::new(rng.bytes32()); let nb = rng.bytes(16);
			OfferBuilder::new(ctx.ids[recipient]).amount_msats(1 + rng.below(1 << 20)).build().ok()
				.and_then(|o| o.request_invoice(&ek, Nonce::try_from(&nb[..]).unwrap(), &ctx.secp, PaymentId(rng.bytes32())).ok().and_then(|bld| bld.build_and_sign().ok()))
		} else { None };
		let mut rof = RecipientOnionFields::spontaneous_empty(total);
		let custom = custom_new(rec, draw_custom_tlvs(rng, r % 7 == 3));
		let custom_vec: Vec<(u64, Vec<u8>)> = custom.as_ref().map(|c| c.as_slice().to_vec()).unwrap_or_default();
		if let Some(ct) = custom { rof = rof.with_custom_tlvs(ct); }
		let what = format!("blinded route {} ({} unblinded hops, {} blinded forwarding nodes, keysend {}, invoice_request {}, custom TLV types {:?})", r, u, b, keysend.is_some(), invreq.is_some(), custom_vec.iter().map(|x| x.0).collect::<Vec<_>>());
		let mut sk = rng.bytes32(); sk[0] &= 0x7f; if sk == [0; 32] { sk[31] = 1; }
		let session = SecretKey::from_slice(&sk).unwrap(); let seed = rng.bytes32();
		// expected amounts / expiries arriving at every onion hop
		let mut in_amt = vec![final_value; n]; let mut in_cltv = vec![0u32; n];
		in_cltv[u - 1] = height + path.hops[u - 1].cltv_expiry_delta;
		for t in 0..b { in_cltv[u + t] = in_cltv[u - 1 + t] - fwd[t].tlvs.payment_relay.cltv_expiry_delta as u32; }
		in_amt[u - 1] = final_value + path.hops[u - 1].fee_msat;
		for i in (0..u - 1).rev() { in_amt[i] = in_amt[i + 1] + path.hops[i].fee_msat; in_cltv[i] = in_cltv[i + 1] + path.hops[i].cltv_expiry_delta; }
		// ---- payloads: op = what was asked, answer = the bytes the real encoder produced -----------------------
		let invreq_bytes = invreq.as_ref().map(|i| i.encode());
		let final_op = {
			let bh = &bp.blinded_hops()[b];
			payload_op("onion.BlindedReceive", &[("sender_intended_htlc_amt_msat", Some(tu(final_value))), ("total_msat", Some(tu(total))), ("cltv_expiry_height", Some(tu((height + excess) as u64))),
				("encrypted_tlvs", Some(bh.encrypted_payload.clone())), ("intro_node_blinding_point", if b == 0 { Some(bp.blinding_point().serialize().to_vec()) } else { None }),
				("keysend_preimage", keysend.map(|p| p.0.to_vec())), ("invoice_request", invreq_bytes.clone())], &custom_vec)
		};
		let payloads = match guarded(AssertUnwindSafe(|| vh::payloads_with_invoice_request(&path, &rof, height, &keysend, invreq.as_ref()))) {
			Err(p) => { rec.oracle_fail(format!("sender panicked while building the onion payloads ({}): {}", what, p)); rec.case(&final_op, &format!("panic {}", p), "payload:panic", true); continue; },
			Ok(Err(e)) => { rec.oracle_fail(format!("build_onion_payloads refused {}: {:?}", what, e)); continue; },
			Ok(Ok((pl, first_amt, first_cltv))) => { if first_amt != in_amt[0] || first_cltv != in_cltv[0] { rec.oracle_fail(format!("first-hop amount/cltv {}/{} expected {}/{} ({})", first_amt, first_cltv, in_amt[0], in_cltv[0], what)); } pl },
		};
		if payloads.len() != n { rec.oracle_fail(format!("{} payloads for {} onion hops ({})", payloads.len(), n, what)); continue; }
		for j in 0..n {
			check_payload_order(rec, &format!("{} hop {}", what, j), &payloads[j]);
			let (op, class) = if j < u - 1 {
				(payload_op("onion.Forward", &[("short_channel_id", Some(path.hops[j + 1].short_channel_id.to_be_bytes().to_vec())), ("amt_to_forward", Some(tu(in_amt[j + 1]))), ("outgoing_cltv_value", Some(tu(in_cltv[j + 1] as u64)))], &[]), "payload:forward")
			} else if j < n - 1 {
				(payload_op("onion.BlindedForward", &[("encrypted_tlvs", Some(bp.blinded_hops()[j - (u - 1)].encrypted_payload.clone())), ("intro_node_blinding_point", if j == u - 1 { Some(bp.blinding_point().serialize().to_vec()) } else { None })], &[]), "payload:blinded-forward")
			} else { (final_op.clone(), if keysend.is_some() && invreq.is_some() { "payload:blinded-receive:keysend+invreq" } else if keysend.is_some() { "payload:blinded-receive:keysend" } else if invreq.is_some() { "payload:blinded-receive:invreq" } else { "payload:blinded-receive:plain" }) };
			rec.case(&op, &format!("{} inc=1", hex(&payloads[j])), class, true);
			// the same payload from the instruction VALUES: the model applies the value encodings itself
			let iop = if j < u - 1 { format!("instr forward {} {} {}", path.hops[j + 1].short_channel_id, in_amt[j + 1], in_cltv[j + 1]) }
				else if j < n - 1 { format!("instr blindedForward {} {}", hex(&bp.blinded_hops()[j - (u - 1)].encrypted_payload), if j == u - 1 { hex(&bp.blinding_point().serialize()) } else { "none".into() }) }
				else { format!("instr blindedReceive {} {} {} {} {} {} {}{}", final_value, total, height + excess, hex(&bp.blinded_hops()[b].encrypted_payload), if b == 0 { hex(&bp.blinding_point().serialize()) } else { "none".into() },
					opt_hex(keysend.as_ref().map(|p| &p.0[..])), opt_hex(invreq_bytes.as_deref()), tlv_tail(&custom_vec)) };
			rec.case(&iop, &hex(&payloads[j]), if j < u - 1 { "instr:forward" } else if j < n - 1 { "instr:blinded-forward" } else { "instr:blinded-receive" }, true);
		}
		// which side of the fixed types the custom TLVs fall on (coverage)
		if let Some(mx) = custom_vec.iter().map(|x| x.0).max() {
			let side = if mx > 5_482_373_484 { "above-keysend" } else if mx > 77_777 { "between" } else { "below-invreq" };
			*rec.classes.entry(format!("payload:blinded-custom-max:{}:{}{}", side, if keysend.is_some() { "k" } else { "" }, if invreq.is_some() { "i" } else { "" })).or_insert(0) += 1;
		}
		// ---- the onion itself ------------------------------------------------------------------------------------
		let onion = match guarded(AssertUnwindSafe(|| create_payment_onion(&ctx.secp, &path, &session, &rof, height, &hash, &keysend, invreq.as_ref(), seed))) {
			Err(p) => { rec.oracle_fail(format!("sender panicked while building the onion ({}): {}", what, p)); continue; },
			Ok(Err(e)) => { let tot: usize = payloads.iter().map(|x| x.len() + 32).sum(); if tot <= L { rec.oracle_fail(format!("create_payment_onion refused {} although the payloads fit: {:?}", what, e)); } *rec.classes.entry("real-only:blinded-oversize".into()).or_insert(0) += 1; continue; },
			Ok(Ok((o, _, _))) => o,
		};
		let ss = vh::shared_secrets(&ctx.secp, &path, &session);
		let mut bop = format!("build std {} {} {}", hex(&seed), hex(&hash.0), n);
		for i in 0..n { bop.push_str(&format!(" {} {}", hex(&ss[i]), hex(&payloads[i]))); }
		rec.case(&bop, &format!("{} {}", hex(&onion.hop_data), hex(&onion.hmac)), "build:blinded", true);
		// ---- every hop peels with its own node key -----------------------------------------------------------------
		let mut cur = onion.clone(); let mut blinding: Option<PublicKey> = None;
		for j in 0..n {
			let last = j == n - 1;
			let msg = UpdateAddHTLC { channel_id: ChannelId([0; 32]), htlc_id: 0, amount_msat: in_amt[j], payment_hash: hash, cltv_expiry: in_cltv[j], skimmed_fee_msat: None, onion_routing_packet: cur.clone(), blinding_point: blinding, hold_htlc: None, accountable: None };
			let cur_height = if last { in_cltv[j] - 55 } else { in_cltv[j + 1] - 10 };
			let res = guarded(AssertUnwindSafe(|| peel_payment_onion(&msg, &ctx.kms[order[j]], &NullLogger, &ctx.secp, cur_height, false).map_err(|e| format!("{} ({})", reason_name(&e.reason), e.msg))));
			let dop = format!("payloaddec {} {} {} {}", hex(&payloads[j]), blinding.is_some() as u8, if j < u - 1 { "na" } else if last { "recv" } else { "fwd" }, (last && keysend.is_some()) as u8);
			let info = match res {
				Err(p) => { rec.oracle_fail(format!("hop {} panicked while decoding its payload ({}): {}", j, what, p)); rec.case(&dop, &format!("panic {}", p), "payloaddec:panic", true); break; },
				Ok(Err(e)) => { rec.oracle_fail(format!("{} could not decode a payload the sender built (error {}): hop {} of {}, TLV types {:?} ({})", if last { "recipient" } else { "hop" }, e, j, n, payload_records(&payloads[j]).map(|r| r.iter().map(|x| x.0).collect::<Vec<_>>()), what)); rec.case(&dop, &format!("err {}", e.split(' ').next().unwrap_or("")), "payloaddec:err", true); break; },
				Ok(Ok(i)) => i,
			};
			match &info.routing {
				PendingHTLCRouting::Forward { onion_packet, short_channel_id, blinded, .. } => {
					if last { rec.oracle_fail(format!("recipient of {} forwarded", what)); break; }
					if j < u - 1 {
						if blinded.is_some() || *short_channel_id != path.hops[j + 1].short_channel_id || info.outgoing_amt_msat != in_amt[j + 1] || info.outgoing_cltv_value != in_cltv[j + 1] { rec.oracle_fail(format!("hop {} of {} got scid/amt/cltv {}/{}/{} expected {}/{}/{}", j, what, short_channel_id, info.outgoing_amt_msat, info.outgoing_cltv_value, path.hops[j + 1].short_channel_id, in_amt[j + 1], in_cltv[j + 1])); }
						rec.case(&dop, &format!("kind=forward amt={} cltv={} scid={}", info.outgoing_amt_msat, info.outgoing_cltv_value, short_channel_id), "payloaddec:forward", true);
					} else {
						let t = j - (u - 1);
						let bf = match blinded { Some(x) => x, None => { rec.oracle_fail(format!("blinded hop {} of {} forwarded as an unblinded hop", j, what)); break; } };
						if *short_channel_id != fwd[t].tlvs.short_channel_id || info.outgoing_amt_msat != in_amt[j + 1] || info.outgoing_cltv_value != in_cltv[j + 1] { rec.oracle_fail(format!("blinded hop {} of {} got scid/amt/cltv {}/{}/{} expected {}/{}/{}", j, what, short_channel_id, info.outgoing_amt_msat, info.outgoing_cltv_value, fwd[t].tlvs.short_channel_id, in_amt[j + 1], in_cltv[j + 1])); }
						rec.case(&dop, "kind=blindedForward", "payloaddec:blinded-forward", true);
						blinding = Some(bf.next_blinding_override.unwrap_or_else(|| next_blinding_point(ctx, order[j], &bf.inbound_blinding_point)));
					}
					if onion_packet.hop_data.len() != L { rec.oracle_fail(format!("forwarded packet size {} at hop {} of {}", onion_packet.hop_data.len(), j, what)); }
					cur = onion_packet.clone();
				},
				PendingHTLCRouting::Receive { payment_data, custom_tlvs, payment_metadata, .. } => {
					if !last { rec.oracle_fail(format!("hop {} of {} thinks it is final", j, what)); break; }
					if keysend.is_some() { rec.oracle_fail(format!("keysend preimage lost: {}", what)); }
					if payment_data.payment_secret != secret || payment_data.total_msat != total || payment_metadata.is_some() || info.outgoing_amt_msat != final_value || info.outgoing_cltv_value != height + excess { rec.oracle_fail(format!("blinded recipient got amt/cltv/total {}/{}/{} expected {}/{}/{} ({})", info.outgoing_amt_msat, info.outgoing_cltv_value, payment_data.total_msat, final_value, height + excess, total, what)); }
					if *custom_tlvs != custom_vec { rec.oracle_fail(format!("decoded custom TLVs {:?} != requested {:?} ({})", custom_tlvs.iter().map(|x| x.0).collect::<Vec<_>>(), custom_vec.iter().map(|x| x.0).collect::<Vec<_>>(), what)); }
					rec.case(&dop, &format!("kind=blindedReceive amt={} cltv={} total={} keysend=none invreq=hidden custom={}", info.outgoing_amt_msat, info.outgoing_cltv_value, payment_data.total_msat, show_tlvs(custom_tlvs)), "payloaddec:blinded-receive", true);
				},
				PendingHTLCRouting::ReceiveKeysend { payment_data, payment_preimage, custom_tlvs, invoice_request, .. } => {
					if !last { rec.oracle_fail(format!("hop {} of {} thinks it is final", j, what)); break; }
					if Some(*payment_preimage) != keysend { rec.oracle_fail(format!("keysend preimage changed: {}", what)); }
					let pd_ok = payment_data.as_ref().map_or(false, |d| d.payment_secret == secret && d.total_msat == total);
					if !pd_ok || info.outgoing_amt_msat != final_value || info.outgoing_cltv_value != height + excess { rec.oracle_fail(format!("blinded keysend recipient got amt/cltv {}/{} expected {}/{} or wrong payment data ({})", info.outgoing_amt_msat, info.outgoing_cltv_value, final_value, height + excess, what)); }
					if invoice_request.as_ref().map(|i| i.encode()) != invreq_bytes { rec.oracle_fail(format!("invoice_request {} ({})", if invoice_request.is_some() { "changed" } else { "lost" }, what)); }
					if *custom_tlvs != custom_vec { rec.oracle_fail(format!("decoded custom TLVs {:?} != requested {:?} ({})", custom_tlvs.iter().map(|x| x.0).collect::<Vec<_>>(), custom_vec.iter().map(|x| x.0).collect::<Vec<_>>(), what)); }
					rec.case(&dop, &format!("kind=blindedReceive amt={} cltv={} total={} keysend={} invreq={} custom={}", info.outgoing_amt_msat, info.outgoing_cltv_value, payment_data.as_ref().map(|d| d.total_msat.to_string()).unwrap_or("none".into()), hex(&payment_preimage.0),
						invoice_request.as_ref().map(|i| hex(&Sha256::hash(&i.encode()).to_byte_array())).unwrap_or("none".into()), show_tlvs(custom_tlvs)), "payloaddec:blinded-receive-keysend", true);
				},
				_ => { rec.oracle_fail(format!("unexpected routing at hop {} of {}", j, what)); break; },
			}
		}
		// ---- FAILURES on this path: before, at and inside the blinded section -------------------------------------
		// real: get_htlc_forward_failure (hook) at the failing / converting node, HTLCFailReason relays, the sender's
		// process_onion_failure with the real blinded tail; model: generated getHtlcForwardFailure / decodeFailureB
		let iob: u16 = 0xC018;
		let mut dkeys = String::new(); for x in &ss { dkeys.push_str(&format!(" {}", hex(x))); }
		let ahex = |a: &Option<lightning::ln::onion_utils::AttributionData>| { use lightning::util::ser::Writeable; a.as_ref().map(|x| hex(&x.encode())).unwrap_or("none".into()) };
		for _ in 0..2 {
			let f = rng.below(n as u64) as usize;                 // the hop at which the HTLC fails
			let (code, data): (u16, Vec<u8>) = if rng.chance(1, 2) { (*rng.pick(&[0x2002u16, 0x6002, 0x2019]), vec![]) } else { (0x400f, { let mut v = final_value.to_be_bytes().to_vec(); v.extend(&height.to_be_bytes()); v }) };
			// what the failing node sends back
			let role = if f < u - 1 { None } else if f == u - 1 { Some(true) } else { Some(false) };
			let mode = match role { None => "none", Some(true) => "intro", Some(false) => "inside" };
			let first = match guarded(AssertUnwindSafe(|| vh::htlc_forward_failure(role, None, code, &data, 0, &ss[f]))) { Ok(x) => x, Err(p) => { rec.oracle_fail(format!("get_htlc_forward_failure panicked at hop {} ({}): {}", f, what, p)); continue; } };
			let fop = format!("fwdfail {} {} reason {} {}", mode, hex(&ss[f]), code, hex(&data));
			let (mut d, mut attr) = match first {
				Err((c, sha)) => {
					rec.case(&fop, &format!("malformed {} {}", c, hex(&sha)), "blindfail:inside-malformed", true);
					if role != Some(false) { rec.oracle_fail(format!("hop {} ({}) of {} answered with update_fail_malformed_htlc", f, mode, what)); }
					if c != iob || sha != [0u8; 32] { rec.oracle_fail(format!("blinded hop {} of {} answered malformed with code {:#x} / sha {}", f, what, c, hex(&sha))); }
					// blinded nodes between f and the introduction node pass the malformed failure on as malformed; the
					// introduction node turns it into an onion error packet of its own
					let conv = match guarded(AssertUnwindSafe(|| vh::htlc_forward_failure(Some(true), None, c, &sha, 0, &ss[u - 1]))) { Ok(Ok(x)) => x, _ => { rec.oracle_fail(format!("introduction node of {} did not produce an update_fail_htlc", what)); continue; } };
					rec.case(&format!("fwdfail intro {} reason {} {}", hex(&ss[u - 1]), c, hex(&sha)), &format!("pkt {} {}", hex(&conv.0), ahex(&conv.1)), "blindfail:intro-converts", true);
					conv
				},
				Ok(x) => {
					rec.case(&fop, &format!("pkt {} {}", hex(&x.0), ahex(&x.1)), if role.is_some() { "blindfail:intro-own" } else { "blindfail:before" }, true);
					if role == Some(false) { rec.oracle_fail(format!("blinded hop {} of {} answered with an onion error packet", f, what)); }
					x
				},
			};
			let origin = f.min(u - 1);                               // the node whose packet travels back
			if role.is_some() {
				// impl oracle: whatever happened, the introduction node's packet is THE invalid_onion_blinding packet
				let (ed, ea) = vh::build_failure_packet(&ss[u - 1], iob, &[0u8; 32], 0);
				if d != ed || ahex(&attr) != ahex(&ea) { rec.oracle_fail(format!("introduction node's failure packet depends on what happened inside the blinded path ({})", what)); }
			}
			for j in (0..origin).rev() { let (d2, a2) = vh::relay_failure_packet(&ss[j], d, attr, rng.below(1000) as u32); d = d2; attr = a2; }
			let corrupted = rng.chance(1, 5);
			if corrupted { let bit = rng.below(8 * d.len() as u64) as usize; flip(&mut d, bit); }   // corrupted on the way back
			let dec = vh::decode_onion_failure(&ctx.secp, &NullLogger, &path, &session, d.clone(), None);
			let real = if dec.failed_within_blinded_path { format!("within {}", u - 1) } else {
				match (&dec.onion_error_code, &dec.onion_error_data) {
					(Some(cd), Some(dt)) => format!("attributed {} {} {}", dec.short_channel_id.and_then(|sc| path.hops.iter().position(|h| h.short_channel_id == sc)).map(|x| x.to_string()).unwrap_or("?".into()), cd, hex(dt)),
					_ => match dec.short_channel_id { None => "unattributable".into(), Some(sc) => format!("unreadable {}", path.hops.iter().position(|h| h.short_channel_id == sc).map(|x| x as i64).unwrap_or(-1)) },
				}
			};
			// BADONION codes name no channel of the failing node itself: the hop index is then not visible in the real result
			let dop = format!("faildecodeb {} {} {} {}{}", b + 1, u, n, (dec.short_channel_id.is_some() || dec.onion_error_code.is_none() || dec.failed_within_blinded_path) as u8, dkeys);
			// impl oracle: never a node at / after the introduction node of a multi-hop blinded path; failures at or inside the
			// blinded section are reported as "within the blinded path" with invalid_onion_blinding
			if b >= 1 {
				if let Some(sc) = dec.short_channel_id { if let Some(pos) = path.hops.iter().position(|h| h.short_channel_id == sc) { if pos + 1 >= u && !(pos + 1 == u && f + 1 < u) { rec.oracle_fail(format!("failure at hop {} of {} blamed on channel index {} (introduction node is hop {})", f, what, pos, u - 1)); } } }
				if !corrupted && role.is_some() && (!dec.failed_within_blinded_path || dec.onion_error_code != Some(iob) || dec.onion_error_data.as_deref() != Some(&[0u8; 32][..]) || dec.short_channel_id.is_some()) {
					rec.oracle_fail(format!("failure at hop {} ({}) of {}: sender reported within_blinded={} code={:?} scid={:?}", f, mode, what, dec.failed_within_blinded_path, dec.onion_error_code, dec.short_channel_id));
				}
			}
			// impl oracle, one-hop blinded path (the recipient is the introduction node) and failures before the introduction node:
			// an untouched failure is attributed by HMAC with the code that was sent, never reported as "within the blinded path"
			if !corrupted && (b == 0 || role.is_none()) {
				let exp_code = if role.is_some() { iob } else { code };
				if dec.failed_within_blinded_path || dec.onion_error_code != Some(exp_code) { rec.oracle_fail(format!("failure at hop {} ({}) of {}: expected code {:#x} attributed by HMAC, sender reported within_blinded={} code={:?}", f, mode, what, exp_code, dec.failed_within_blinded_path, dec.onion_error_code)); }
			}
			// model comparison: node failures name the failing hop's own channel, so the index is comparable; update / perm
			// failures of a hop BEFORE the introduction node name the next channel (real-side oracle above only)
			let comparable = dec.failed_within_blinded_path || code & 0x2000 != 0 || dec.onion_error_code.is_none();
			if comparable { rec.case(&format!("{} {}", dop, hex(&d)), &real, &format!("blindfail:decode:{}{}{}", mode, if b == 0 { ":one-hop" } else { "" }, if corrupted { ":corrupt" } else { "" }), true); }
			else { *rec.classes.entry("real-only:blindfail-not-index-comparable".into()).or_insert(0) += 1; }
		}
	}
}

/// CONCATENATED blinded paths: a first path (introduction node + 0..2 more forwarding nodes, built through the add-only hook
/// `blinded_hops_raw` because LDK reads but never writes TLV 8) whose LAST hop carries `next_blinding_override` = the
/// blinding point of a second, real `BlindedPaymentPath` (0..2 forwarding nodes + recipient).  Real onion, every hop peels
/// with its own node key, the blinding point is handed on the way channelmanager does.  Oracle = the property: every hop's
/// peeled instructions are what the path creators put in (next channel, amount, expiry, path-key override, role) and the
/// recipient recognises itself as final with the right payment data.  Model: the generated fwdBlinded / nextBlindingPoint
/// (`fwdblind`, per hop) and their chain relayBlinded (`fwdchain`, per route).
fn concat_section(ctx: &Ctx, rng: &mut Rng, rec: &mut Rec, thorough: bool, scale: u64) {
	use lightning::blinded_path::payment::{BlindedPaymentPath, Bolt12RefundContext, ForwardTlvs, PaymentConstraints, PaymentContext, PaymentForwardNode, PaymentRelay, ReceiveTlvs};
	use lightning::ln::channelmanager::BlindedFailure;
	use lightning::routing::router::BlindedTail;
	use lightning::types::features::BlindedHopFeatures;
	use lightning::util::ser::Writeable;
	let min_delta = lightning::ln::channelmanager::MIN_CLTV_EXPIRY_DELTA as u32;
	let n_routes = (if thorough { 1500 } else { 150 }) * scale;
	let pt = |p: &Option<PublicKey>| p.map(|x| hex(&x.serialize())).unwrap_or("none".into());
	for r in 0..n_routes {
		let u = 1 + rng.below(2) as usize;                  // unblinded hops; the last one is the introduction node of the FIRST path
		let p1 = 1 + rng.below(3) as usize;                 // forwarding nodes of the first path (the first is its introduction node)
		let p2 = rng.below(3) as usize;                     // forwarding nodes of the second path (0: its only hop is the recipient)
		let nf = p1 + p2;                                   // blinded forwarding hops of the tail
		let n = (u - 1) + nf + 1;                           // onion hops
		// where the override sits: normally on the last hop of the first path; 1 route in 8 has none at all (the second
		// path is then unreachable by construction, so only a plain single path p1 = nf is built)
		let joined = r % 8 != 7;
		let mut order: Vec<usize> = (0..MAX_NODES).collect();
		for i in 0..n { let j = i + rng.below((MAX_NODES - i) as u64) as usize; order.swap(i, j); }
		order.truncate(n);
		let height = rng.range(1000, 800_000) as u32;
		let final_value = match rng.below(3) { 0 => rng.range(1, 255), 1 => rng.range(256, 70_000), _ => rng.range(1 << 24, 1 << 36) };
		let total = if rng.chance(1, 3) { final_value + draw_amount(rng) } else { final_value };
		let excess = if rng.chance(1, 2) { 0 } else { rng.below(60) as u32 };
		let min_final = rng.range(60, 400) as u16;
		let secret = PaymentSecret(rng.bytes32());
		let recipient = order[n - 1];
		let node_of = |t: usize| order[u - 1 + t];          // t-th blinded forwarding hop
		let scids: Vec<u64> = (0..nf).map(|_| rng.next() | 1).collect();
		let deltas: Vec<u16> = (0..nf).map(|_| (min_delta + rng.below(40) as u32) as u16).collect();
		// NON-ZERO fees inside the tail (base < 2^16 so that LDK's padded intermediate hop data keep one size, see below)
		let bases: Vec<u32> = (0..nf).map(|_| if rng.chance(1, 4) { 0 } else { rng.below(60_000) as u32 }).collect();
		let props: Vec<u32> = (0..nf).map(|_| match rng.below(3) { 0 => 0, 1 => rng.below(5000) as u32, _ => rng.below(2_000_000) as u32 }).collect();
		let relay = |t: usize| PaymentRelay { cltv_expiry_delta: deltas[t], fee_proportional_millionths: props[t], fee_base_msat: bases[t] };
		let first_of_second = if joined { p1 } else { 0 };
		// amounts / expiries arriving at every tail hop (t = nf: the recipient): the sender adds exactly each hop's fee on what
		// the hop must forward, so the largest amount whose fee is covered is exactly the next hop's amount
		let mut tail_amt = vec![final_value; nf + 1];
		for t in (0..nf).rev() { tail_amt[t] = tail_amt[t + 1] + ((tail_amt[t + 1] as u128 * props[t] as u128) / 1_000_000) as u64 + bases[t] as u64; }
		let tail_delta: u32 = deltas.iter().map(|d| *d as u32).sum::<u32>() + min_final as u32 + excess;
		let mut tail_cltv = vec![height + tail_delta; nf + 1];
		for t in 0..nf { tail_cltv[t + 1] = tail_cltv[t] - deltas[t] as u32; }
		// payment constraints per tail hop: 1 in 3 exactly AT the boundary (still fine); 1 route in 6 has one hop whose
		// constraints the HTLC VIOLATES by one (amount below htlc_minimum_msat / expiry above max_cltv_expiry)
		let small = |t: usize| t == nf || t < first_of_second || tail_amt[t] + 1 < (1 << 16);   // keeps LDK-built intermediate hop data at one padded size (<= 28 bytes: a debug_assert of blinded_hops() panics otherwise)
		let mut cons: Vec<PaymentConstraints> = (0..=nf).map(|t| PaymentConstraints {
			max_cltv_expiry: if rng.chance(1, 3) { tail_cltv[t] } else { height + 1_000_000 },
			htlc_minimum_msat: if rng.chance(1, 3) && small(t) { tail_amt[t] } else { 1 } }).collect();
		let viol: Option<(usize, bool)> = if r % 6 == 5 { let t = rng.below(nf as u64 + 1) as usize; Some((t, rng.chance(1, 2) && small(t))) } else { None };
		if let Some((t, by_amount)) = viol { if by_amount { cons[t].htlc_minimum_msat = tail_amt[t] + 1; } else { cons[t].max_cltv_expiry = tail_cltv[t] - 1; } }
		// ---- second path: the recipient's own, real constructor --------------------------------------------------
		let payee_tlvs = ReceiveTlvs { payment_secret: secret, payment_constraints: cons[nf], payment_context: PaymentContext::Bolt12Refund(Bolt12RefundContext { payment_metadata: None }) };
		let fwd2: Vec<PaymentForwardNode> = (first_of_second..nf).map(|t| PaymentForwardNode {
			tlvs: ForwardTlvs { short_channel_id: scids[t], payment_relay: relay(t), payment_constraints: cons[t], features: BlindedHopFeatures::empty(), next_blinding_override: None },
			node_id: ctx.ids[node_of(t)], htlc_maximum_msat: u64::MAX }).collect();
		let second = match guarded(AssertUnwindSafe(|| BlindedPaymentPath::new(&fwd2, ctx.ids[recipient], ctx.kms[recipient].get_receive_auth_key(), payee_tlvs, u64::MAX, min_final, &ctx.kms[recipient], &ctx.secp))) {
			Ok(Ok(x)) => x, Ok(Err(())) => { rec.discarded += 1; continue; },
			Err(p) => { rec.discarded += 1; *rec.classes.entry(format!("real-only:concat-path-constructor-panic:{}", p.split(':').last().unwrap_or("").trim().chars().take(60).collect::<String>())).or_insert(0) += 1; continue; } };
		// ---- first path: raw recipient data (TLV 2, 8, 10, 12), the last hop switches to the second path's key -----
		let mut overrides: Vec<Option<PublicKey>> = vec![None; nf];
		let (blinded_hops, first_point) = if joined {
			overrides[p1 - 1] = Some(second.blinding_point());
			let raw: Vec<(PublicKey, Vec<u8>)> = (0..p1).map(|t| {
				let mut v = vec![2u8, 8]; v.extend_from_slice(&scids[t].to_be_bytes());
				if let Some(o) = overrides[t] { v.push(8); v.push(33); v.extend_from_slice(&o.serialize()); }
				let pr = relay(t).encode(); v.push(10); v.push(pr.len() as u8); v.extend_from_slice(&pr);
				let pc = cons[t].encode(); v.push(12); v.push(pc.len() as u8); v.extend_from_slice(&pc);
				(ctx.ids[node_of(t)], v) }).collect();
			let mut sk = rng.bytes32(); sk[0] &= 0x7f; if sk == [0; 32] { sk[31] = 1; }
			let s1 = SecretKey::from_slice(&sk).unwrap();
			let mut hops = vh::blinded_hops_raw(&ctx.secp, &raw, &s1);
			if hops.len() != p1 { rec.oracle_fail(format!("construct_blinded_hops made {} hops out of {}", hops.len(), p1)); continue; }
			hops.extend_from_slice(second.blinded_hops());
			(hops, PublicKey::from_secret_key(&ctx.secp, &s1))
		} else { (second.blinded_hops().to_vec(), second.blinding_point()) };
		if blinded_hops.len() != nf + 1 { rec.oracle_fail(format!("concatenated tail of {} forwarding nodes has {} hops", nf, blinded_hops.len())); continue; }
		// ---- the sender's path --------------------------------------------------------------------------------------
		let mut hops = vec![];
		for i in 0..u {
			let last = i == u - 1;
			hops.push(RouteHop { pubkey: ctx.ids[order[i]], node_features: NodeFeatures::empty(), short_channel_id: (rng.next() | 1) ^ ((i as u64) << 56), channel_features: ChannelFeatures::empty(),
				fee_msat: if last { tail_amt[0] - final_value } else { draw_amount(rng) % 1_000_000 }, cltv_expiry_delta: if last { tail_delta } else { min_delta + rng.below(60) as u32 }, maybe_announced_channel: true });
		}
		let path = Path { hops, blinded_tail: Some(BlindedTail { trampoline_hops: vec![], hops: blinded_hops, blinding_point: first_point, excess_final_cltv_expiry_delta: excess, final_value_msat: final_value }) };
		let hash = PaymentHash(rng.bytes32());
		let rof = RecipientOnionFields::spontaneous_empty(total);
		let what = format!("concatenated blinded route {} ({} unblinded hops; first path {} forwarding nodes{}; second path {} forwarding nodes + recipient; tail fees base/ppm {:?}; {})", r, u, if joined { p1 } else { 0 },
			if joined { format!(", next_blinding_override on its last hop (tail hop {}, {})", p1 - 1, if p1 == 1 { "the introduction node" } else { "NOT the introduction node" }) } else { "".into() }, nf - first_of_second, bases.iter().zip(props.iter()).collect::<Vec<_>>(),
			match viol { None => "constraints respected".to_string(), Some((t, true)) => format!("tail hop {} gets {} msat but its htlc_minimum_msat is {}", t, tail_amt[t], cons[t].htlc_minimum_msat), Some((t, false)) => format!("tail hop {} gets expiry {} but its max_cltv_expiry is {}", t, tail_cltv[t], cons[t].max_cltv_expiry) });
		let mut sk = rng.bytes32(); sk[0] &= 0x7f; if sk == [0; 32] { sk[31] = 1; }
		let session = SecretKey::from_slice(&sk).unwrap(); let seed = rng.bytes32();
		let mut in_amt = vec![final_value; n]; let mut in_cltv = vec![0u32; n];
		for t in 0..=nf { in_amt[u - 1 + t] = tail_amt[t]; in_cltv[u - 1 + t] = tail_cltv[t]; }
		for i in (0..u - 1).rev() { in_amt[i] = in_amt[i + 1] + path.hops[i].fee_msat; in_cltv[i] = in_cltv[i + 1] + path.hops[i].cltv_expiry_delta; }
		let onion = match guarded(AssertUnwindSafe(|| create_payment_onion(&ctx.secp, &path, &session, &rof, height, &hash, &None, None, seed))) {
			Err(p) => { rec.oracle_fail(format!("sender panicked while building the onion ({}): {}", what, p)); continue; },
			Ok(Err(e)) => { rec.oracle_fail(format!("create_payment_onion refused {}: {:?}", what, e)); continue; },
			Ok(Ok((o, a, c))) => { if a != in_amt[0] || c != in_cltv[0] { rec.oracle_fail(format!("first-hop amount/cltv {}/{} expected {}/{} ({})", a, c, in_amt[0], in_cltv[0], what)); } o },
		};
		// 1 route in 5 (without a constraint violation): one tail hop receives the onion with one bit flipped
		let corrupt_at: Option<usize> = if viol.is_none() && r % 5 == 2 { Some(rng.below(nf as u64 + 1) as usize) } else { None };
		// ---- every hop peels with its own node key; the blinding point is handed on as channelmanager does ----------
		let mut cur = onion; let mut blinding: Option<PublicKey> = None; let mut expect_key = first_point;
		let mut chain_op = format!("fwdchain {} {}", hex(&first_point.serialize()), nf); let mut chain_ans: Vec<String> = vec![]; let mut complete = false; let mut rejected = false; let mut corrupted = false;
		for j in 0..n {
			let last = j == n - 1;
			let corrupt_here = j + 1 >= u && corrupt_at == Some(j + 1 - u);
			if corrupt_here { let bit = rng.below(8 * L as u64) as usize; flip(&mut cur.hop_data, bit); }
			let msg = UpdateAddHTLC { channel_id: ChannelId([0; 32]), htlc_id: 0, amount_msat: in_amt[j], payment_hash: hash, cltv_expiry: in_cltv[j], skimmed_fee_msat: None, onion_routing_packet: cur.clone(), blinding_point: blinding, hold_htlc: None, accountable: None };
			let cur_height = if last { in_cltv[j] - 55 } else { in_cltv[j + 1] - 10 };
			let res = guarded(AssertUnwindSafe(|| peel_payment_onion(&msg, &ctx.kms[order[j]], &NullLogger, &ctx.secp, cur_height, false).map_err(|e| format!("{} ({})", reason_name(&e.reason), e.msg))));
			// decode_incoming_update_add_htlc_onion's failure side against the GENERATED inboundFailure (peel_payment_onion shows a malformed
			// answer by its reason and a relayed failure packet as InvalidOnionPayload / "Failed to decode update add htlc onion")
			let shown = |e: &str| if e.starts_with("InvalidOnionBlinding") { "malformed 49176".to_string() } else if e.starts_with("BadHmac") { "malformed 49157".to_string() } else if e.starts_with("BadPayload (Failed to decode update add htlc onion") { "relay".to_string() } else { format!("other {}", e) };
			if corrupt_here {
				match &res {
					Ok(Err(e)) => {
						// THE PROPERTY: a hop inside a blinded path never reveals a non-blinded failure code
						if blinding.is_some() && !e.starts_with("InvalidOnionBlinding") { rec.oracle_fail(format!("onion hop {} INSIDE the blinded path of {} answered a corrupted onion with {} instead of invalid_onion_blinding", j, what, e)); }
						rec.case(&format!("inbfail {} hmac 49157", blinding.is_some() as u8), &shown(e), if blinding.is_some() { "inbfail:corrupt:inside" } else { "inbfail:corrupt:intro" }, true);
						corrupted = true;
					},
					Ok(Ok(_)) => rec.oracle_fail(format!("onion hop {} of {} accepted an onion with a flipped bit", j, what)),
					Err(p) => rec.oracle_fail(format!("hop {} panicked on a corrupted onion ({}): {}", j, what, p)),
				}
				break;
			}
			if let (Ok(Err(e)), Some((t, _))) = (&res, viol) { if u - 1 + t == j && !last { rec.case(&format!("inbfail {} blindedcheck 0", blinding.is_some() as u8), &shown(e), if blinding.is_some() { "inbfail:constraints:inside" } else { "inbfail:constraints:intro" }, true); } }
			let info = match res {
				Err(p) => { rec.oracle_fail(format!("hop {} panicked while peeling ({}): {}", j, what, p)); break; },
				Ok(Err(e)) => {
					// inside the path (and at the recipient) the error is invalid_onion_blinding; at the introduction node peel_payment_onion
					// reports the relayed failure packet as InvalidOnionPayload / "Failed to decode update add htlc onion"
					if viol.map_or(false, |(t, _)| u - 1 + t == j) && (if blinding.is_some() { e.starts_with("InvalidOnionBlinding") } else { e.starts_with("BadPayload (Failed to decode update add htlc onion") }) { rejected = true; }
					else { rec.oracle_fail(format!("{} {} of {} (handed blinding point {}) could not peel the onion the sender built: {}", if last { "recipient, hop" } else { "hop" }, j, what, pt(&blinding), e)); }
					break; },
				Ok(Ok(i)) => i,
			};
			if viol.map_or(false, |(t, _)| u - 1 + t == j) { rec.oracle_fail(format!("onion hop {} of {} ACCEPTED an HTLC that violates the payment constraints of its recipient data", j, what)); break; }
			match &info.routing {
				PendingHTLCRouting::Forward { onion_packet, short_channel_id, blinded, .. } => {
					if last { rec.oracle_fail(format!("recipient of {} forwarded", what)); break; }
					if j < u - 1 {
						if blinded.is_some() || *short_channel_id != path.hops[j + 1].short_channel_id || info.outgoing_amt_msat != in_amt[j + 1] || info.outgoing_cltv_value != in_cltv[j + 1] { rec.oracle_fail(format!("hop {} of {} got scid/amt/cltv {}/{}/{} expected {}/{}/{}", j, what, short_channel_id, info.outgoing_amt_msat, info.outgoing_cltv_value, path.hops[j + 1].short_channel_id, in_amt[j + 1], in_cltv[j + 1])); }
						rec.case("fwdblind fwd none none none none", "none next=none", "fwdblind:unblinded", true);
					} else {
						let t = j - (u - 1);
						let bf = match blinded { Some(x) => x, None => { rec.oracle_fail(format!("blinded hop {} of {} forwarded as an unblinded hop", j, what)); break; } };
						if *short_channel_id != scids[t] || info.outgoing_amt_msat != in_amt[j + 1] || info.outgoing_cltv_value != in_cltv[j + 1] { rec.oracle_fail(format!("blinded hop {} of {} got scid/amt/cltv {}/{}/{} expected {}/{}/{}", j, what, short_channel_id, info.outgoing_amt_msat, info.outgoing_cltv_value, scids[t], in_amt[j + 1], in_cltv[j + 1])); }
						// the property on the blinding instructions: what the path creator put into this hop's recipient data
						if bf.next_blinding_override != overrides[t] { rec.oracle_fail(format!("tail hop {} (onion hop {}, {}) of {}: its peeled instructions have next_blinding_override {} but its encrypted recipient data say {}", t, j, if t == 0 { "introduction node" } else { "inside the blinded path" }, what, pt(&bf.next_blinding_override), pt(&overrides[t]))); }
						if bf.inbound_blinding_point != expect_key { rec.oracle_fail(format!("tail hop {} of {} recorded inbound blinding point {} expected {}", t, what, hex(&bf.inbound_blinding_point.serialize()), hex(&expect_key.serialize()))); }
						if (bf.failure == BlindedFailure::FromIntroductionNode) != (t == 0) { rec.oracle_fail(format!("tail hop {} of {} has failure role {:?}", t, what, bf.failure)); }
						let derived = next_blinding_point(ctx, order[j], &bf.inbound_blinding_point);
						let next = bf.next_blinding_override.unwrap_or(derived);
						let shown = format!("blinded {} {} {}", hex(&bf.inbound_blinding_point.serialize()), pt(&bf.next_blinding_override), if bf.failure == BlindedFailure::FromIntroductionNode { "intro" } else { "node" });
						rec.case(&format!("fwdblind bfwd {} {} {} {}", if t == 0 { hex(&first_point.serialize()) } else { "none".into() }, pt(&blinding), pt(&overrides[t]), hex(&derived.serialize())),
							&format!("{} next={}", shown, hex(&next.serialize())),
							&format!("fwdblind:{}:{}", if t == 0 { "intro" } else { "inside" }, if overrides[t].is_some() { "override" } else { "derived" }), true);
						chain_op.push_str(&format!(" {} {}", pt(&overrides[t]), hex(&derived.serialize()))); chain_ans.push(shown);
						// the next hop must be handed what the path creators intended: the override if present, else the derived key
						expect_key = overrides[t].unwrap_or(derived);
						blinding = Some(next);
					}
					if onion_packet.hop_data.len() != L { rec.oracle_fail(format!("forwarded packet size {} at hop {} of {}", onion_packet.hop_data.len(), j, what)); }
					cur = onion_packet.clone();
				},
				PendingHTLCRouting::Receive { payment_data, .. } => {
					if !last { rec.oracle_fail(format!("hop {} of {} thinks it is final", j, what)); break; }
					if payment_data.payment_secret != secret || payment_data.total_msat != total || info.outgoing_amt_msat != final_value || info.outgoing_cltv_value != height + excess { rec.oracle_fail(format!("recipient of the concatenated paths got amt/cltv/total {}/{}/{} expected {}/{}/{} ({})", info.outgoing_amt_msat, info.outgoing_cltv_value, payment_data.total_msat, final_value, height + excess, total, what)); }
					complete = true;
				},
				_ => { rec.oracle_fail(format!("unexpected routing at hop {} of {}", j, what)); break; },
			}
		}
		if chain_ans.len() == nf { chain_ans.push(format!("final={}", pt(&blinding))); rec.case(&chain_op, &chain_ans.join(" | "), &format!("fwdchain:{}", if !joined { "single-path".into() } else { format!("joined-at-{}", if p1 == 1 { "intro" } else { "inside" }) }), true); }
		*rec.classes.entry(format!("concat:{}:{}", if !joined { "single" } else if p1 == 1 { "override-at-intro" } else { "override-inside" }, if complete { "delivered".to_string() } else if rejected { format!("constraint-violation-rejected:{}:{}", if viol.unwrap().1 { "amount" } else { "expiry" }, if viol.unwrap().0 == nf { "recipient" } else { "forwarder" }) } else if corrupted { "corrupted-onion-rejected".into() } else { "NOT-delivered".into() })).or_insert(0) += 1;
	}
}

/// One TRAMPOLINE forward per route: outer hops [A?, T1], trampoline hops [T1, T2], a real blinded path behind T2.  A peels with
/// the public peel_payment_onion; T1 — which peel_payment_onion would treat as a receiver — goes through the add-only hook
/// `fwd_info` (decode_incoming_update_add_htlc_onion + create_fwd_pending_htlc_info, as ChannelManager does) and must get
/// PendingHTLCRouting::TrampolineForward to T2, unblinded, with the amounts / expiries the sender put into the two onions.
fn trampoline_section(ctx: &Ctx, rng: &mut Rng, rec: &mut Rec, thorough: bool, scale: u64) {
	use lightning::blinded_path::payment::{BlindedPaymentPath, Bolt12RefundContext, ForwardTlvs, PaymentConstraints, PaymentContext, PaymentForwardNode, PaymentRelay, ReceiveTlvs};
	use lightning::routing::router::{BlindedTail, TrampolineHop};
	use lightning::types::features::{BlindedHopFeatures, Features};
	let min_delta = lightning::ln::channelmanager::MIN_CLTV_EXPIRY_DELTA as u32;
	for r in 0..(if thorough { 300 } else { 40 }) * scale {
		let u = 1 + rng.below(2) as usize;           // outer hops; the last one is T1
		let mut order: Vec<usize> = (0..MAX_NODES).collect();
		for i in 0..u + 2 { let j = i + rng.below((MAX_NODES - i) as u64) as usize; order.swap(i, j); }
		let (t1, t2, rcp) = (order[u - 1], order[u], order[u + 1]);
		let height = rng.range(1000, 800_000) as u32;
		let final_value = rng.range(1000, 1 << 32);
		let (f1, f2) = (rng.below(5000), rng.below(200_000));
		let (d1, d2) = (min_delta + rng.below(40) as u32, min_delta + 60 + rng.below(100) as u32);
		let constraints = PaymentConstraints { max_cltv_expiry: height + 1_000_000, htlc_minimum_msat: 1 };
		let fwd = [PaymentForwardNode { tlvs: ForwardTlvs { short_channel_id: rng.next() | 1, payment_relay: PaymentRelay { cltv_expiry_delta: min_delta as u16, fee_proportional_millionths: 0, fee_base_msat: 0 },
			payment_constraints: constraints, features: BlindedHopFeatures::empty(), next_blinding_override: None }, node_id: ctx.ids[t2], htlc_maximum_msat: u64::MAX }];
		let secret = PaymentSecret(rng.bytes32());
		let payee = ReceiveTlvs { payment_secret: secret, payment_constraints: constraints, payment_context: PaymentContext::Bolt12Refund(Bolt12RefundContext { payment_metadata: None }) };
		let bp = match BlindedPaymentPath::new(&fwd, ctx.ids[rcp], ctx.kms[rcp].get_receive_auth_key(), payee, u64::MAX, 40, &ctx.kms[rcp], &ctx.secp) { Ok(x) => x, Err(()) => { rec.discarded += 1; continue; } };
		let mut hops = vec![];
		for i in 0..u {
			let last = i == u - 1;
			hops.push(RouteHop { pubkey: ctx.ids[order[i]], node_features: NodeFeatures::empty(), short_channel_id: (rng.next() | 1) ^ ((i as u64) << 56), channel_features: ChannelFeatures::empty(),
				fee_msat: if last { f1 + f2 } else { rng.below(100_000) }, cltv_expiry_delta: if last { d1 + d2 } else { min_delta + rng.below(60) as u32 }, maybe_announced_channel: true });
		}
		let path = Path { hops, blinded_tail: Some(BlindedTail { trampoline_hops: vec![
				TrampolineHop { pubkey: ctx.ids[t1], node_features: Features::empty(), fee_msat: f1, cltv_expiry_delta: d1 },
				TrampolineHop { pubkey: ctx.ids[t2], node_features: Features::empty(), fee_msat: f2, cltv_expiry_delta: d2 }],
			hops: bp.blinded_hops().to_vec(), blinding_point: bp.blinding_point(), excess_final_cltv_expiry_delta: 0, final_value_msat: final_value }) };
		let what = format!("trampoline route {} ({} outer hops, trampoline fees {}/{} deltas {}/{}, final value {}, height {})", r, u, f1, f2, d1, d2, final_value, height);
		let hash = PaymentHash(rng.bytes32());
		let rof = RecipientOnionFields::secret_only(secret, final_value);
		let mut sk = rng.bytes32(); sk[0] &= 0x7f; if sk == [0; 32] { sk[31] = 1; }
		let session = SecretKey::from_slice(&sk).unwrap(); let seed = rng.bytes32();
		let (onion, amt0, cltv0) = match guarded(AssertUnwindSafe(|| create_payment_onion(&ctx.secp, &path, &session, &rof, height, &hash, &None, None, seed))) {
			Ok(Ok(x)) => x,
			Ok(Err(e)) => { *rec.classes.entry(format!("real-only:trampoline-onion-refused:{:?}", e).chars().take(90).collect()).or_insert(0) += 1; continue; },
			Err(p) => { rec.oracle_fail(format!("sender panicked while building the trampoline onion ({}): {}", what, p)); continue; },
		};
		// amounts / expiries arriving at the outer hops
		let mut in_amt = vec![final_value + f1 + f2; u]; let mut in_cltv = vec![height + d1 + d2; u];
		for i in (0..u - 1).rev() { in_amt[i] = in_amt[i + 1] + path.hops[i].fee_msat; in_cltv[i] = in_cltv[i + 1] + path.hops[i].cltv_expiry_delta; }
		if amt0 != in_amt[0] || cltv0 != in_cltv[0] { rec.oracle_fail(format!("first-hop amount/cltv {}/{} expected {}/{} ({})", amt0, cltv0, in_amt[0], in_cltv[0], what)); continue; }
		let mut cur = onion; let mut ok = true;
		for j in 0..u - 1 {
			let msg = UpdateAddHTLC { channel_id: ChannelId([0; 32]), htlc_id: 0, amount_msat: in_amt[j], payment_hash: hash, cltv_expiry: in_cltv[j], skimmed_fee_msat: None, onion_routing_packet: cur.clone(), blinding_point: None, hold_htlc: None, accountable: None };
			match guarded(AssertUnwindSafe(|| peel_payment_onion(&msg, &ctx.kms[order[j]], &NullLogger, &ctx.secp, in_cltv[j + 1] - 10, false).map_err(|e| format!("{} ({})", reason_name(&e.reason), e.msg)))) {
				Ok(Ok(info)) => match &info.routing {
					PendingHTLCRouting::Forward { onion_packet, short_channel_id, blinded, .. } if blinded.is_none() && *short_channel_id == path.hops[j + 1].short_channel_id && info.outgoing_amt_msat == in_amt[j + 1] && info.outgoing_cltv_value == in_cltv[j + 1] => { cur = onion_packet.clone(); },
					_ => { rec.oracle_fail(format!("outer hop {} of {} did not get its forward instructions", j, what)); ok = false; break; } },
				other => { rec.oracle_fail(format!("outer hop {} of {} could not peel: {:?}", j, what, other.map(|x| x.map(|_| ())))); ok = false; break; },
			}
		}
		if !ok { continue; }
		let j = u - 1;
		let msg = UpdateAddHTLC { channel_id: ChannelId([0; 32]), htlc_id: 0, amount_msat: in_amt[j], payment_hash: hash, cltv_expiry: in_cltv[j], skimmed_fee_msat: None, onion_routing_packet: cur.clone(), blinding_point: None, hold_htlc: None, accountable: None };
		match guarded(AssertUnwindSafe(|| vh::fwd_info(&msg, &ctx.kms[t1], &NullLogger, &ctx.secp))) {
			Ok(Ok(info)) => match &info.routing {
				PendingHTLCRouting::TrampolineForward { node_id, blinded, incoming_cltv_expiry, next_trampoline_amt_msat, next_trampoline_cltv_expiry, .. } => {
					// the instructions the sender put into the two onions: next trampoline, what it must be sent, what T1 itself was told
					if *node_id != ctx.ids[t2] || blinded.is_some() || *incoming_cltv_expiry != in_cltv[j] || *next_trampoline_amt_msat != final_value + f2 || *next_trampoline_cltv_expiry != height + d2
						|| info.outgoing_amt_msat != in_amt[j] || info.outgoing_cltv_value != in_cltv[j] {
						rec.oracle_fail(format!("trampoline node of {} got next node ok={} blinded={} next amt/cltv {}/{} (expected {}/{}) outer amt/cltv {}/{} (expected {}/{})", what, *node_id == ctx.ids[t2], blinded.is_some(),
							next_trampoline_amt_msat, next_trampoline_cltv_expiry, final_value + f2, height + d2, info.outgoing_amt_msat, info.outgoing_cltv_value, in_amt[j], in_cltv[j]));
					}
					rec.case("fwdblind tfwd none none none none", &format!("{} next=none", if blinded.is_some() { "blinded" } else { "none" }), "fwdblind:trampoline-forward", true);
				},
				_ => rec.oracle_fail(format!("trampoline node of {} did not get a TrampolineForward", what)),
			},
			Ok(Err(e)) => rec.oracle_fail(format!("trampoline node of {} could not turn its onion into a forward: {}", what, e)),
			Err(p) => rec.oracle_fail(format!("trampoline node of {} panicked: {}", what, p)),
		}
	}
}

fn main() {
	let args = &parse_args("c14");
	let mut rec = Rec::new(&args.out, "c14");
	let mut rng = Rng::new(args.seed);
	let secp = Secp256k1::new();
	let kms: Vec<KeysManager> = (0..MAX_NODES).map(|i| KeysManager::new(&[(i + 1) as u8; 32], 1, 1, true)).collect();
	let ids: Vec<PublicKey> = kms.iter().map(|k| k.get_node_id(Recipient::Node).unwrap()).collect();
	let ctx = Ctx { secp, kms, ids };
	let n_routes = (if args.thorough { 5000 } else { 450 }) * args.scale;
	let n_corrupt = if args.thorough { 24 } else { 8 };
	let mut max_hops_seen = 0usize;

	boundary_section(&ctx, &mut rng, &mut rec, args.thorough);
	blinded_section(&ctx, &mut rng, &mut rec, args.thorough, args.scale);
	{ let mut rng2 = Rng::new(args.seed ^ 0xC14C_0CA7); concat_section(&ctx, &mut rng2, &mut rec, args.thorough, args.scale); }
	{ let mut rng3 = Rng::new(args.seed ^ 0x7A3B_0117); trampoline_section(&ctx, &mut rng3, &mut rec, args.thorough, args.scale); }

	for r in 0..n_routes {
		// ---- choose a route: random length, or the longest that fits (N), or N+1 (oversize) -----
		let mode = rng.below(10); // 0,1: max fit ; 2,3: oversize ; else free
		let big = rng.chance(1, 4);
		let c = {
			let lim = if rng.chance(1, 3) { 26 } else { 8 };
			let want = if mode < 4 { 28 } else { 1 + rng.below(lim) as usize };
			let tiny = !big && rng.chance(1, 5);
			let mut c = draw_case(&ctx, &mut rng, want, big, tiny);
			if mode < 4 {
				// longest suffix of the drawn route that still fits (sizes from the real payload builder)
				let mut n_fit = 0;
				for n in (1..=want).rev() {
					let p = Path { hops: c.path.hops[want - n..].to_vec(), blinded_tail: None };
					if let Ok(Ok((pl, _, _))) = guarded(AssertUnwindSafe(|| vh::payloads(&p, &c.rof, c.height, &c.keysend))) { if pl.iter().map(|x| x.len() + 32).sum::<usize>() <= L { n_fit = n; break; } }
				}
				let n = if mode < 2 { n_fit.max(1) } else { (n_fit + 1).min(want) };
				c.path.hops = c.path.hops[want - n..].to_vec(); c.order = c.order[want - n..].to_vec();
			}
			c
		};
		let n = c.path.hops.len();
		let ss = vh::shared_secrets(&ctx.secp, &c.path, &c.session);
		let (payloads, _first_amt, _first_cltv) = match guarded(AssertUnwindSafe(|| vh::payloads(&c.path, &c.rof, c.height, &c.keysend))) {
			Ok(Ok(x)) => x,
			Ok(Err(e)) => { rec.discarded += 1; rec.notes.insert("discard".into(), format!("{:?}", e)); continue; },
			Err(p) => { rec.oracle_fail(format!("sender panicked while building the onion payloads (route {}: {} hops, keysend {}, custom TLV types {:?}): {}", r, n, c.keysend.is_some(), c.rof.custom_tlvs().iter().map(|x| x.0).collect::<Vec<_>>(), p)); continue; },
		};
		// payload encoders (unblinded kinds): what was ASKED vs the bytes the real encoder wrote
		if r % 2 == 0 {
			for i in 0..n {
				check_payload_order(&mut rec, &format!("route {} hop {}", r, i), &payloads[i]);
				let amt: u64 = c.path.hops[i + 1..].iter().map(|h| h.fee_msat).sum();
				let cltv: u32 = c.height + c.path.hops[i + 1..].iter().map(|h| h.cltv_expiry_delta).sum::<u32>();
				if i + 1 < n {
					rec.case(&payload_op("onion.Forward", &[("short_channel_id", Some(c.path.hops[i + 1].short_channel_id.to_be_bytes().to_vec())), ("amt_to_forward", Some(tu(amt))), ("outgoing_cltv_value", Some(tu(cltv as u64)))], &[]), &format!("{} inc=1", hex(&payloads[i])), "payload:forward", true);
				} else {
					let last = &c.path.hops[n - 1];
					let pd = c.rof.payment_secret.map(|s| { let mut v = s.0.to_vec(); v.extend(tu(c.rof.total_mpp_amount_msat)); v });
					rec.case(&payload_op("onion.Receive", &[("payment_data", pd), ("payment_metadata", c.rof.payment_metadata.clone()), ("keysend_preimage", c.keysend.map(|p| p.0.to_vec())),
						("sender_intended_htlc_amt_msat", Some(tu(last.fee_msat))), ("cltv_expiry_height", Some(tu((c.height + last.cltv_expiry_delta) as u64)))], c.rof.custom_tlvs()),
						&format!("{} inc=1", hex(&payloads[i])), if c.keysend.is_some() { "payload:receive:keysend" } else { "payload:receive" }, true);
				}
				// the same payload from the instruction VALUES (the model applies the value encodings itself)
				if i + 1 < n { rec.case(&format!("instr forward {} {} {}", c.path.hops[i + 1].short_channel_id, amt, cltv), &hex(&payloads[i]), "instr:forward", true); }
				else {
					let last = &c.path.hops[n - 1];
					rec.case(&format!("instr receive {} {} {} {} {} {}{}", last.fee_msat, c.height + last.cltv_expiry_delta, opt_hex(c.rof.payment_secret.as_ref().map(|s| &s.0[..])), c.rof.total_mpp_amount_msat,
						opt_hex(c.rof.payment_metadata.as_deref()), opt_hex(c.keysend.as_ref().map(|p| &p.0[..])), tlv_tail(c.rof.custom_tlvs())), &hex(&payloads[i]), "instr:receive", true);
				}
			}
		}
		let total: usize = payloads.iter().map(|p| p.len() + 32).sum();
		let built = guarded(AssertUnwindSafe(|| create_payment_onion(&ctx.secp, &c.path, &c.session, &c.rof, c.height, &c.hash, &c.keysend, None, c.seed)));
		let mut op = format!("build std {} {} {}", hex(&c.seed), hex(&c.hash.0), n);
		for i in 0..n { op.push_str(&format!(" {} {}", hex(&ss[i]), hex(&payloads[i]))); }
		let onion = match built {
			Err(p) => { rec.case(&op, &format!("panic {}", p), "build:panic", true); continue; },
			Ok(Err(_)) => {
				// impl oracle: refused exactly when the payloads do not fit
				if total <= L { rec.oracle_fail(format!("create_payment_onion refused a route that fits: n={} total={} (route {})", n, total, r)); }
				rec.case(&op, "err", "build:oversize", true); continue;
			},
			Ok(Ok((o, _, _))) => o,
		};
		if total > L { rec.oracle_fail(format!("create_payment_onion accepted payloads of {} bytes > {} (route {})", total, L, r)); }
		max_hops_seen = max_hops_seen.max(n);
		rec.case(&op, &format!("{} {}", hex(&onion.hop_data), hex(&onion.hmac)), if total + 49 > L { "build:ok-maxfit" } else { "build:ok" }, true);

		// ---- every hop peels (real: peel_payment_onion with that node's key) ---------------------
		let mut cur = onion.clone();
		let mut packets: Vec<OnionPacket> = vec![];
		let mut ok = true;
		for i in 0..n {
			packets.push(cur.clone());
			let op = format!("peel {} {} {} {}", hex(&ss[i]), hex(&c.hash.0), hex(&cur.hmac), hex(&cur.hop_data));
			match real_peel(&ctx, &c, i, cur.clone(), c.hash) {
				Err(p) => { rec.case(&op, &format!("panic {}", p), "peel:panic", true); rec.oracle_fail(format!("peel panicked at hop {} of {}: {}", i, n, p)); ok = false; break; },
				Ok(Err(e)) => { rec.case(&op, &format!("err {}", e), "peel:err", true); rec.oracle_fail(format!("hop {} of {} rejected an untouched onion: {} (route {})", i, n, e, r)); ok = false; break; },
				Ok(Ok(info)) => {
					rec.case(&op, &show_peeled(&info), if i + 1 == n { "peel:final" } else { "peel:forward" }, true);
					// what this hop READS from its payload, as values (model: readInstr = framing + record loop + value decoders + kind decision)
					if r % 2 == 0 {
						let exp = match &info.routing {
							PendingHTLCRouting::Forward { short_channel_id, .. } => format!("kind=forward amt={} cltv={} scid={}", info.outgoing_amt_msat, info.outgoing_cltv_value, short_channel_id),
							_ => show_peeled(&info).replacen("final ", "kind=receive ", 1),
						};
						rec.case(&format!("payloaddec {} 0 na 0", hex(&payloads[i])), &exp, if i + 1 == n { "payloaddec:receive" } else { "payloaddec:forward" }, true);
					}
					// impl oracle (no model): exactly the instructions that went in, constant size, finality only at the end
					if info.incoming_shared_secret != ss[i] { rec.oracle_fail(format!("hop {} shared secret differs from construct_onion_keys", i)); }
					let exp_amt: u64 = c.path.hops[i + 1..].iter().map(|h| h.fee_msat).sum();
					let exp_cltv: u32 = c.height + c.path.hops[i + 1..].iter().map(|h| h.cltv_expiry_delta).sum::<u32>();
					match &info.routing {
						PendingHTLCRouting::Forward { onion_packet, short_channel_id, .. } => {
							if i + 1 == n { rec.oracle_fail(format!("last hop {} of route {} did not recognise itself as final", i, r)); ok = false; break; }
							if *short_channel_id != c.path.hops[i + 1].short_channel_id || info.outgoing_amt_msat != exp_amt || info.outgoing_cltv_value != exp_cltv {
								rec.oracle_fail(format!("hop {} of route {} got scid/amt/cltv {}/{}/{} expected {}/{}/{}", i, r, short_channel_id, info.outgoing_amt_msat, info.outgoing_cltv_value, c.path.hops[i + 1].short_channel_id, exp_amt, exp_cltv));
							}
							if onion_packet.hop_data.len() != onion.hop_data.len() { rec.oracle_fail(format!("forwarded packet size {} at hop {}", onion_packet.hop_data.len(), i)); }
							cur = onion_packet.clone();
						},
						PendingHTLCRouting::Receive { .. } | PendingHTLCRouting::ReceiveKeysend { .. } => {
							if i + 1 != n { rec.oracle_fail(format!("hop {} of {} (route {}) thinks it is final", i, n, r)); ok = false; break; }
							let last = &c.path.hops[n - 1];
							if info.outgoing_amt_msat != last.fee_msat || info.outgoing_cltv_value != c.height + last.cltv_expiry_delta { rec.oracle_fail(format!("final hop of route {} got amt/cltv {}/{}", r, info.outgoing_amt_msat, info.outgoing_cltv_value)); }
							let (sec, tot, meta, ks, custom) = match &info.routing {
								PendingHTLCRouting::Receive { payment_data, payment_metadata, custom_tlvs, .. } => (Some(payment_data.payment_secret), Some(payment_data.total_msat), payment_metadata.clone(), None, custom_tlvs.clone()),
								PendingHTLCRouting::ReceiveKeysend { payment_data, payment_metadata, custom_tlvs, payment_preimage, .. } => (payment_data.as_ref().map(|d| d.payment_secret), payment_data.as_ref().map(|d| d.total_msat), payment_metadata.clone(), Some(*payment_preimage), custom_tlvs.clone()),
								_ => unreachable!(),
							};
							if sec != c.rof.payment_secret || (sec.is_some() && tot != Some(c.rof.total_mpp_amount_msat)) || meta != c.rof.payment_metadata || ks != c.keysend || &custom != c.rof.custom_tlvs() {
								rec.oracle_fail(format!("final hop of route {} got different recipient fields than were sent", r));
							}
						},
						_ => { rec.oracle_fail(format!("unexpected routing at hop {}", i)); ok = false; break; },
					}
				},
			}
		}
		if !ok { continue; }

		// ---- sweep (first routes only): EVERY byte of hop_data (every bit in the thorough tier), every bit of
		//      hmac and payment hash, at one hop ----------------------------------------------------------
		if r < (if args.thorough { 3 } else { 1 }) {
			let i = rng.below(n as u64) as usize;
			let mut targets: Vec<(u8, usize)> = vec![];
			for byte in 0..onion.hop_data.len() { if args.thorough { for b in 0..8 { targets.push((0, byte * 8 + b)); } } else { targets.push((0, byte * 8 + rng.below(8) as usize)); } }
			for bit in 0..256 { targets.push((1, bit)); targets.push((2, bit)); }
			for (what, bit) in targets {
				let mut p = packets[i].clone(); let mut hash = c.hash;
				match what { 0 => flip(&mut p.hop_data, bit), 1 => flip(&mut p.hmac, bit), _ => flip(&mut hash.0, bit) }
				let op = format!("peel {} {} {} {}", hex(&ss[i]), hex(&hash.0), hex(&p.hmac), hex(&p.hop_data));
				let res = match real_peel(&ctx, &c, i, p, hash) { Err(pn) => format!("panic {}", pn), Ok(Err(e)) => format!("err {}", e), Ok(Ok(info)) => show_peeled(&info) };
				if !res.starts_with("err ") { rec.oracle_fail(format!("corrupted packet accepted at hop {} of route {} (sweep kind {} bit {})", i, r, what, bit)); }
				rec.case(&op, &res, "corrupt:sweep", true);
			}
		}
		// ---- single-bit corruptions in flight: hop_data / hmac / payment hash (model + real),
		//      version / ephemeral key (real only: ECDH is not modelled) -----------------------------
		for _ in 0..n_corrupt {
			let i = rng.below(n as u64) as usize;
			let mut p = packets[i].clone();
			let mut hash = c.hash;
			let what = rng.below(10);
			let class;
			if what < 6 { let bit = if rng.chance(1, 3) { rng.below(8 * 80) } else { rng.below(8 * L as u64) } as usize; flip(&mut p.hop_data, bit); class = "corrupt:hop_data"; }
			else if what < 8 { flip(&mut p.hmac, rng.below(256) as usize); class = "corrupt:hmac"; }
			else { flip(&mut hash.0, rng.below(256) as usize); class = "corrupt:payment_hash"; }
			let op = format!("peel {} {} {} {}", hex(&ss[i]), hex(&hash.0), hex(&p.hmac), hex(&p.hop_data));
			let res = match real_peel(&ctx, &c, i, p, hash) { Err(pn) => format!("panic {}", pn), Ok(Err(e)) => format!("err {}", e), Ok(Ok(info)) => show_peeled(&info) };
			if !res.starts_with("err ") { rec.oracle_fail(format!("corrupted packet accepted at hop {} of route {} ({}): {}", i, r, class, &res[..res.len().min(60)])); }
			rec.case(&op, &res, class, true);
		}
		for _ in 0..2 {
			let i = rng.below(n as u64) as usize;
			let mut p = packets[i].clone();
			if rng.chance(1, 4) { p.version ^= 1 << rng.below(8); }
			else if let Ok(pk) = p.public_key {
				let mut b = pk.serialize(); flip(&mut b[1..], rng.below(256) as usize);
				p.public_key = PublicKey::from_slice(&b);
			}
			let res = match real_peel(&ctx, &c, i, p, c.hash) { Err(pn) => format!("panic {}", pn), Ok(Err(e)) => format!("err {}", e), Ok(Ok(_)) => "accepted".into() };
			if !res.starts_with("err ") { rec.oracle_fail(format!("packet with corrupted version/ephemeral key accepted at hop {} of route {}: {}", i, r, res)); }
			*rec.classes.entry("real-only:corrupt-version-or-key".into()).or_insert(0) += 1;
		}

		// ---- fulfil: attribution data built by the last hop, extended by every hop on the way back; the
		//      sender must read exactly the hops' hold times (real code only; not modelled) -----------------
		{
			let holds: Vec<u32> = (0..n).map(|_| match rng.below(3) { 0 => 0, 1 => rng.below(1000) as u32, _ => rng.next() as u32 }).collect();
			let mut attr = None;
			let model_too = rng.chance(1, 3);
			let enc = |a: &Option<lightning::ln::onion_utils::AttributionData>| { use lightning::util::ser::Writeable; a.as_ref().map(|x| hex(&x.encode())).unwrap_or("none".into()) };
			let hs = |v: &Vec<u32>| if v.is_empty() { "none".to_string() } else { v.iter().map(|x| x.to_string()).collect::<Vec<_>>().join(",") };
			for j in (0..n).rev() {
				let before = enc(&attr);
				attr = Some(vh::process_fulfill_attribution_data(attr, &ss[j], holds[j]));
				if model_too { rec.case(&format!("fulfilwrapx {} {} {}", hex(&ss[j]), before, holds[j]), &enc(&attr), "attr:fulfil-wrap", true); }
			}
			let got = match guarded(AssertUnwindSafe(|| vh::decode_fulfill_attribution_data(&ctx.secp, &NullLogger, &c.path, &c.session, attr.clone().unwrap()))) {
				Ok(g) => g,
				Err(p) => { rec.oracle_fail(format!("sender panicked while decoding the fulfil attribution data of route {} ({} hops, hold times {:?}): {}", r, n, holds, p)); continue; },
			};
			if model_too { let mut f = format!("fulfildecodex {}", n); for x in &ss { f.push_str(&format!(" {}", hex(x))); } rec.case(&format!("{} {}", f, enc(&attr)), &format!("holds={}", hs(&got)), "attr:fulfil-decode", true); }
			if got[..] != holds[..n.min(20)] { rec.oracle_fail(format!("fulfil hold times of route {} ({} hops): got {:?} expected {:?}", r, n, got, holds)); }
			*rec.classes.entry("real-only:fulfil-hold-times".into()).or_insert(0) += 1;
			// a corrupted bit anywhere must cut the report at some hop, never invent other hold times for the hops before
			use lightning::util::ser::{Readable, Writeable};
			let mut bytes = attr.unwrap().encode(); let bit = rng.below(8 * bytes.len() as u64) as usize; flip(&mut bytes, bit);
			if let Ok(bad) = <lightning::ln::onion_utils::AttributionData as Readable>::read(&mut &bytes[..]) {
				let got2 = match guarded(AssertUnwindSafe(|| vh::decode_fulfill_attribution_data(&ctx.secp, &NullLogger, &c.path, &c.session, bad.clone()))) {
					Ok(g) => g,
					Err(p) => { rec.oracle_fail(format!("sender panicked while decoding corrupted fulfil attribution data of route {} ({} hops): {}", r, n, p)); continue; },
				};
				if model_too { let mut f = format!("fulfildecodex {}", n); for x in &ss { f.push_str(&format!(" {}", hex(x))); } rec.case(&format!("{} {}", f, enc(&Some(bad))), &format!("holds={}", hs(&got2)), "attr:fulfil-decode-corrupt", true); }
				if got2.len() > n.min(20) || got2[..] != holds[..got2.len()] && got2.len() == n.min(20) { rec.oracle_fail(format!("corrupted fulfil attribution data accepted in full with other hold times (route {})", r)); }
				*rec.classes.entry("real-only:fulfil-corrupt".into()).or_insert(0) += 1;
			}
		}
		// ---- failure at hop k, relayed back by hops k-1..0, decoded by the sender ----------------
		for _ in 0..2 {
			let k = rng.below(n as u64) as usize;
			let big_data = rng.chance(1, 12);
			let node_code = k >= 20 || big_data || rng.chance(1, 4);
			let code: u16 = if node_code { *rng.pick(&[0x2002u16, 0x6002, 0x6003, 0x2019, 0x201a]) } else { *rng.pick(&CODES) };
			let dlen = if big_data { rng.range(1100, 9000) } else { match rng.below(4) { 0 => 0, 1 => rng.below(16), 2 => rng.below(260), _ => rng.range(250, 262) } } as usize;
			let data = rng.bytes(dlen);
			let mut holds: Vec<u32> = (0..=k).map(|_| match rng.below(4) { 0 => 0, 1 => rng.below(50) as u32, 2 => rng.below(100_000) as u32, _ => rng.next() as u32 }).collect();
			let (mut d, mut attr) = vh::build_failure_packet(&ss[k], code, &data, holds[k]);
			rec.case(&format!("failbuild {} {} {}", hex(&ss[k]), code, hex(&data)), &hex(&d), "fail:build", true);
			let ahex = |a: &Option<lightning::ln::onion_utils::AttributionData>| { use lightning::util::ser::Writeable; a.as_ref().map(|x| hex(&x.encode())).unwrap_or("none".into()) };
			let with_attr = !big_data && rng.chance(1, 2);
			if with_attr { rec.case(&format!("failbuildx {} {} {} {}", hex(&ss[k]), code, hex(&data), holds[k]), &format!("{} {}", hex(&d), ahex(&attr)), "attr:build", true); }
			if d.len() != 32 + 2 + 2 + dlen + 2 + 256usize.saturating_sub(2 + dlen) { rec.oracle_fail(format!("failure packet length {} for data length {}", d.len(), dlen)); }
			for j in (0..k).rev() {
				let before = d.clone(); let abefore = ahex(&attr);
				let (d2, a2) = vh::relay_failure_packet(&ss[j], d, attr, holds[j]);
				if with_attr { rec.case(&format!("failwrapx {} {} {} {}", hex(&ss[j]), hex(&before), abefore, holds[j]), &format!("{} {} wire={}", hex(&d2), ahex(&a2), wire_len(&d2, a2.as_ref()).map(|x| x.to_string()).unwrap_or("none".into())), "attr:wrap", true); }
				if a2.is_none() { rec.oracle_fail(format!("failure of {} bytes lost its attribution data at relay hop {} (failing hop {} of {})", d2.len(), j, k, n)); }
				d = d2; attr = a2;
				rec.case(&format!("failwrap {} {}", hex(&ss[j]), hex(&before)), &hex(&d), "fail:wrap", true);
			}
			let show = |dec: &vh::DecodedFailure, use_scid: bool| -> String {
				match (&dec.onion_error_code, &dec.onion_error_data) {
					(Some(cd), Some(dt)) => {
						let hop = if use_scid { dec.short_channel_id.and_then(|s| c.path.hops.iter().position(|h| h.short_channel_id == s)).map(|x| x as i64).unwrap_or(-1) } else { dec.hold_times.len() as i64 - 1 };
						format!("attributed {} {} {}", hop, cd, hex(dt))
					},
					_ => match dec.short_channel_id { None => "unattributable".into(), Some(s) => format!("unreadable {}", c.path.hops.iter().position(|h| h.short_channel_id == s).map(|x| x as i64).unwrap_or(-1)) },
				}
			};
			let mut fop = format!("faildecode {}", n); for s in &ss { fop.push_str(&format!(" {}", hex(s))); }
			let dec = vh::decode_onion_failure(&ctx.secp, &NullLogger, &c.path, &c.session, d.clone(), attr.clone());
			let res = show(&dec, node_code);
			// impl oracle: attributed to hop k with the original code and data; the blamed channel touches hop k
			if dec.onion_error_code != Some(code) || dec.onion_error_data.as_deref() != Some(&data[..]) { rec.oracle_fail(format!("failure code/data changed: sent {} len {} at hop {} of {}, got {:?}", code, dlen, k, n, dec.onion_error_code)); }
			if let Some(s) = dec.short_channel_id {
				let pos = c.path.hops.iter().position(|h| h.short_channel_id == s);
				if pos != Some(k) && pos != Some(k + 1) { rec.oracle_fail(format!("failure from hop {} of {} (code {:#x}) blamed on channel index {:?}", k, n, code, pos)); }
			} else if k + 1 < n && code & 0x8000 == 0 {
				// a failure a NON-final hop produced (any code but BADONION ones, which name no channel of the failing node itself) must
				// name that hop's channel: "nothing to learn" is reserved to failures authenticated by the final hop
				rec.oracle_fail(format!("failure from non-final hop {} of {} (code {:#x}) names no channel at all: the sender learns nothing about the failing hop", k, n, code));
			}
			if k + 1 < n && dec.payment_failed_permanently { rec.oracle_fail(format!("failure from non-final hop {} of {} (code {:#x}) fails the payment permanently", k, n, code)); }
			// the blame decision itself against the GENERATED blameDecision (codes whose UPDATE branch is reached depend on the data framing: skipped)
			if dec.onion_error_code == Some(code) && !(code & 0xE000 == 0 && code & 0x1000 != 0) {
				let sc = match dec.short_channel_id { None => "none", Some(s) => match c.path.hops.iter().position(|h| h.short_channel_id == s) { Some(p) if p == k => "self", Some(p) if p == k + 1 => "next", _ => "other" } };
				rec.case(&format!("blame {} {} 0", code, (k + 1 == n) as u8), &format!("scid={} perm={}", sc, dec.payment_failed_permanently as u8),
					&format!("blame:{}:{}{}", if k + 1 == n { "final" } else { "relay" }, if code & 0x8000 != 0 { "badonion" } else if code & 0x2000 != 0 { "node" } else if code & 0x4000 != 0 { "perm" } else { "plain" }, if [0x400f, 18, 19, 23].contains(&code) { ":recipient-only" } else { "" }), true);
			}
			holds.truncate(20);
			if !big_data && dec.hold_times != holds { rec.oracle_fail(format!("failure from hop {} of {}: hold times reported {:?}, hops set {:?}", k, n, dec.hold_times, holds)); }
			if with_attr {
				let hs = if dec.hold_times.is_empty() { "none".to_string() } else { dec.hold_times.iter().map(|x| x.to_string()).collect::<Vec<_>>().join(",") };
				rec.case(&format!("faildecodex{} {} {}", &fop["faildecode".len()..], hex(&d), ahex(&attr)), &format!("{} holds={}", res, hs), "attr:decode", true);
				// attribution data corrupted in flight: the sender still attributes the failure, hold times stop early
				if let Some(a) = &attr {
					use lightning::util::ser::{Readable, Writeable};
					let mut bytes = a.encode(); let bit = rng.below(8 * bytes.len() as u64) as usize; flip(&mut bytes, bit);
					let bad = <lightning::ln::onion_utils::AttributionData as Readable>::read(&mut &bytes[..]).ok();
					let dec4 = vh::decode_onion_failure(&ctx.secp, &NullLogger, &c.path, &c.session, d.clone(), bad.clone());
					let hs4 = if dec4.hold_times.is_empty() { "none".to_string() } else { dec4.hold_times.iter().map(|x| x.to_string()).collect::<Vec<_>>().join(",") };
					let r4 = match (&dec4.onion_error_code, &dec4.onion_error_data) { (Some(cd), Some(dt)) => format!("attributed {} {} {}", k, cd, hex(dt)), _ => "unattributable".into() };
					if dec4.onion_error_code != Some(code) { rec.oracle_fail(format!("corrupting attribution data changed the attribution of the failure (hop {} of {})", k, n)); }
					if dec4.hold_times.len() > holds.len() || dec4.hold_times[..] != holds[..dec4.hold_times.len()] { rec.oracle_fail(format!("corrupted attribution data reported other hold times {:?} vs {:?}", dec4.hold_times, holds)); }
					rec.case(&format!("faildecodex{} {} {}", &fop["faildecode".len()..], hex(&d), ahex(&bad)), &format!("{} holds={}", r4, hs4), "attr:decode-corrupt", true);
				}
			}
			rec.case(&format!("{} {}", fop, hex(&d)), &res, &format!("fail:decode:{}", if k + 1 == n { "final" } else if k == 0 { "first" } else { "middle" }), true);

			// corrupted on the way back (one bit), truncated, or decoded by a sender with other keys
			let mut bad = d.clone();
			let kind = rng.below(5);
			if kind <= 2 { let bit = rng.below(8 * bad.len() as u64) as usize; flip(&mut bad, bit); } else if kind == 3 { bad.truncate(rng.below(32) as usize); }
			let (dec2, fop2) = if kind == 4 {
				let mut other = c.session.secret_bytes(); other[31] ^= 1;
				let osk = SecretKey::from_slice(&other).unwrap();
				let oss = vh::shared_secrets(&ctx.secp, &c.path, &osk);
				let mut f = format!("faildecode {}", n); for s in &oss { f.push_str(&format!(" {}", hex(s))); }
				(vh::decode_onion_failure(&ctx.secp, &NullLogger, &c.path, &osk, bad.clone(), None), f)
			} else { (vh::decode_onion_failure(&ctx.secp, &NullLogger, &c.path, &c.session, bad.clone(), None), fop.clone()) };
			let res2 = show(&dec2, true);
			if res2 != "unattributable" { rec.oracle_fail(format!("foreign/corrupted failure packet attributed: {}", res2)); }
			rec.case(&format!("{} {}", fop2, hex(&bad)), &res2, "fail:foreign", true);

			// authentic HMAC of hop k over a body that does not parse / has no code ("unreadable")
			if rng.chance(1, 3) {
				let body: Vec<u8> = match rng.below(3) { 0 => vec![0, 1, 7, 0, 0], 1 => { let mut b = vec![0u8, 40]; b.extend(rng.bytes(20)); b }, _ => { let mut b = vec![0u8, 2, 0x20, 2, 0, 9]; b.extend(rng.bytes(4)); b } };
				let mut h = HmacEngine::<Sha256>::new(&um_of(&ss[k])); h.input(&body);
				let mut pkt = Hmac::from_engine(h).to_byte_array().to_vec(); pkt.extend(&body);
				for j in (0..=k).rev() { pkt = vh::crypt_failure_data(&ss[j], pkt); }
				let dec3 = vh::decode_onion_failure(&ctx.secp, &NullLogger, &c.path, &c.session, pkt.clone(), None);
				rec.case(&format!("{} {}", fop, hex(&pkt)), &show(&dec3, true), "fail:unreadable", true);
			}
		}
	}
	rec.notes.insert("rule".into(), format!("PRNG routes of 1..N hops over {} node keys (N = longest suffix that fits {} bytes for the drawn payload sizes, also N+1), amounts in 6 magnitude classes, recipient fields (secret/metadata/custom TLVs/keysend) of varying size; per route: build (byte-exact), every hop peels, sampled single-bit corruptions, failures at random hops relayed back; plus the boundary section: failure-data lengths 0/1/253..257 (pad-to-256 threshold) and the lengths making the update_fail_htlc LN_MAX_MSG_LEN-2..+2 bytes with attribution data / from a failing node without it (thresholds taken from the real codec), each relayed by 1..N hops on a 6-hop route (every failing position), a short route and one longer than MAX_HOPS, compared on packet length, attribution data kept per relay, real vs modelled wire length, SHA-256 of packet and attribution data, decoded (hop, code, data, hold times); plus hop payload encoders: every payload of half of the routes and of all blinded routes as `payload` ops (what was asked vs the real bytes) and as `instr` ops (the instruction VALUES in decimal; the model applies the generated value encodings), RecipientCustomTlvs::new on drawn custom TLV sets (types below / between / above 77_777 and 5482373484, odd and even, reserved / low / repeated ones), payments to blinded recipients (real BlindedPaymentPath::new / one_hop, 0..3 blinded forwarding nodes, keysend, invoice_request) peeled by every node with the decoded instructions compared (`payloaddec`); failures before / at / inside the blinded section of these routes (get_htlc_forward_failure at the failing and at the introduction node, relays, the sender's decode with the real blinded tail, 1 in 5 corrupted on the way back); every op line distinct; max hops seen {}", MAX_NODES, L, max_hops_seen));
	rec.notes.insert("trusted".into(), "ECDH / ephemeral key blinding stay on the Rust side (shared secrets are inputs to the model); the real serialized length of update_fail_htlc comes from the real codec (parse + re-encode round trip)".into());
	rec.finish();
}
