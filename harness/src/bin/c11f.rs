//! C11, model `c11f`: the ChannelManager / FundedChannel side of chain delivery for the funding scopes of a channel with a
//! PENDING SPLICE (FundedChannel::{transactions_confirmed, do_best_block_updated, transaction_unconfirmed,
//! get_relevant_txids}, PendingFunding::check_get_splice_locked, ChannelManager's Listen/Confirm wrappers).
//!
//! Scenario family (real nodes, a real negotiated splice): the splice transaction is mined, buried k blocks deep
//! (k = 1 .. min_depth+1, i.e. before AND after splice_locked), then a reorg of depth d (d = k-1: the transaction stays,
//! d = k, k+1: it is removed) and a competing fork that grows past the height at which the splice would have locked on
//! the old chain, with the splice transaction re-mined at a chosen fork position or never; under each of the 11
//! ConnectStyles. After every step: the splice_locked messages produced, ChannelManager::get_relevant_txids, the
//! manager's best height.
//!  * implementation-side oracles (no model involved):
//!      F1  the splice txid is listed in get_relevant_txids iff the transaction is in the chain the node was told about,
//!          and with its real height
//!      F2  a splice_locked is only sent for a transaction that is in that chain, min_depth deep
//!      F3  once the transaction is min_depth deep a splice_locked has been sent since its (re-)confirmation
//!  * correspondence: the calls the style makes on the manager are the op lines; `obs` lines are compared with
//!    Model/FundConf.lean (the definitions the theorems of Props/C11.lean are about).
use ldk_verif_harness::common::*;
use ldk_verif_harness::sim::{leak, silence_stdout};
use std::panic::AssertUnwindSafe;

use bitcoin::{Amount, Block, Transaction, Txid};
use lightning::chain::Confirm;
use lightning::ln::functional_test_utils::*;
use lightning::ln::msgs::{BaseMessageHandler, MessageSendEvent};
use lightning::ln::splicing_tests::{do_initiate_splice_in, splice_channel};

const STYLES: [ConnectStyle; 11] = [
	ConnectStyle::FullBlockViaListen,
	ConnectStyle::BestBlockFirst,
	ConnectStyle::BestBlockFirstSkippingBlocks,
	ConnectStyle::BestBlockFirstReorgsOnlyTip,
	ConnectStyle::TransactionsFirst,
	ConnectStyle::TransactionsFirstSkippingBlocks,
	ConnectStyle::TransactionsDuplicativelyFirstSkippingBlocks,
	ConnectStyle::HighlyRedundantTransactionsFirstSkippingBlocks,
	ConnectStyle::TransactionsFirstReorgsOnlyTip,
	ConnectStyle::ReplayedFullBlockViaListen,
	ConnectStyle::FullBlockDisconnectionsSkippingViaListen,
];

#[derive(Clone, Copy, Debug)]
struct Plan { k: u32, d: u32, remine: Option<u32>, grow: u32 }

/// the calls the style makes on the ChannelManager for one connected block
fn block_ops(style: ConnectStyle, h: u32, has_splice: bool, tid: u32) -> Vec<String> {
	let ids = if has_splice { format!(" {}", tid) } else { String::new() };
	match style {
		ConnectStyle::BestBlockFirst | ConnectStyle::BestBlockFirstSkippingBlocks | ConnectStyle::BestBlockFirstReorgsOnlyTip =>
			vec![format!("best {}", h), format!("conf {}{}", h, ids)],
		ConnectStyle::TransactionsFirst | ConnectStyle::TransactionsFirstSkippingBlocks | ConnectStyle::TransactionsFirstReorgsOnlyTip
		| ConnectStyle::TransactionsDuplicativelyFirstSkippingBlocks | ConnectStyle::HighlyRedundantTransactionsFirstSkippingBlocks =>
			vec![format!("conf {}{}", h, ids), format!("best {}", h)],
		ConnectStyle::FullBlockViaListen | ConnectStyle::FullBlockDisconnectionsSkippingViaListen => vec![format!("block {}{}", h, ids)],
		// filtered_block_connected(header, []) of the new block, then block_connected of the same block (is_rescan)
		ConnectStyle::ReplayedFullBlockViaListen => vec![format!("block {}", h), format!("rblock {}{}", h, ids)],
	}
}

struct Run<'a, 'b, 'c, 'd> {
	node: &'a Node<'b, 'c, 'd>,
	style: ConnectStyle,
	splice: Transaction,
	splice_txid: Txid,
	main_txid: Txid,
	chan: lightning::ln::types::ChannelId,
	min_depth: u32,
	/// a splice_locked was seen since the splice transaction last entered the chain
	locked_since_conf: bool,
	/// id of the tracked transaction in the op lines: 1 = splice candidate, 0 = the channel funding (family PRE)
	tid: u32,
	pre: bool,
	/// family READY: the tracked transaction is the funding of a channel in ChannelReady state
	ready: bool,
	/// READY: the funding was in the told chain at the previous observation
	was_in_chain: bool,
	hist: Vec<String>,
	tag: String,
}

impl<'a, 'b, 'c, 'd> Run<'a, 'b, 'c, 'd> {
	fn splice_height(&self) -> Option<u32> {
		self.node.blocks.lock().unwrap().iter().find(|(b, _)| b.txdata.iter().any(|t| t.compute_txid() == self.splice_txid)).map(|(_, h)| *h)
	}
	fn tip(&self) -> u32 { self.node.blocks.lock().unwrap().last().unwrap().1 }
	fn op(&mut self, rec: &mut Rec, o: String) { self.hist.push(o.clone()); rec.directive(&o); }

	fn connect(&mut self, rec: &mut Rec, with_splice: bool, time_off: u32) {
		let h = self.tip() + 1;
		let txs = if with_splice { vec![self.splice.clone()] } else { vec![] };
		let block: Block = create_dummy_block(self.node.best_block_hash(), h + time_off, txs);
		connect_block(self.node, &block);
		for o in block_ops(self.style, h, with_splice, self.tid) { self.op(rec, o); }
		self.observe(rec, &format!("connect{}", if with_splice { "+splice" } else { "" }), true);
	}

	/// `n` empty blocks in one go (the skipping styles announce only the last one)
	fn connect_run(&mut self, rec: &mut Rec, n: u32) {
		if n == 0 { return; }
		if self.style.skips_blocks() {
			connect_blocks(self.node, n);
			let h = self.tip();
			for o in block_ops(self.style, h, false, self.tid) { self.op(rec, o); }
			self.observe(rec, "connect-skipping", true);
		} else {
			for _ in 0..n { self.connect(rec, false, 0); }
		}
	}

	fn disconnect(&mut self, rec: &mut Rec, depth: u32) {
		let popped: Vec<(Block, u32)> = { let bl = self.node.blocks.lock().unwrap(); bl[bl.len() - depth as usize..].iter().rev().cloned().collect() };
		disconnect_blocks(self.node, depth);
		let mut ops: Vec<String> = vec![];
		for (i, (b, h)) in popped.iter().enumerate() {
			let last = i + 1 == popped.len();
			match self.style {
				ConnectStyle::FullBlockViaListen | ConnectStyle::ReplayedFullBlockViaListen => ops.push(format!("disc {}", h - 1)),
				ConnectStyle::FullBlockDisconnectionsSkippingViaListen => if last { ops.push(format!("disc {}", h - 1)); },
				ConnectStyle::BestBlockFirstSkippingBlocks | ConnectStyle::TransactionsFirstSkippingBlocks
				| ConnectStyle::HighlyRedundantTransactionsFirstSkippingBlocks | ConnectStyle::TransactionsDuplicativelyFirstSkippingBlocks => if last { ops.push(format!("best {}", h - 1)); },
				ConnectStyle::BestBlockFirstReorgsOnlyTip | ConnectStyle::TransactionsFirstReorgsOnlyTip =>
					for t in b.txdata.iter() { ops.push(format!("unconf {}", if t.compute_txid() == self.splice_txid { self.tid } else { 99 })); },
				ConnectStyle::BestBlockFirst | ConnectStyle::TransactionsFirst => ops.push(format!("best {}", h - 1)),
			}
		}
		if self.style == ConnectStyle::TransactionsFirstReorgsOnlyTip {
			// a Confirm client announces the new tip before it confirms transactions of the new chain (see c11.rs)
			let (hdr, hh) = { let bl = self.node.blocks.lock().unwrap(); let l = bl.last().unwrap(); (l.0.header, l.1) };
			self.node.chain_monitor.chain_monitor.best_block_updated(&hdr, hh);
			self.node.node.best_block_updated(&hdr, hh);
			ops.push(format!("best {}", hh));
		}
		for o in ops { self.op(rec, o); }
		if self.splice_height().is_none() && !self.pre { self.locked_since_conf = false; }
		self.observe(rec, &format!("disconnect{}", depth), false);
	}

	fn observe(&mut self, rec: &mut Rec, what: &str, connected: bool) {
		if self.pre { return self.observe_pre(rec, what, connected); }
		if self.ready { return self.observe_ready(rec, what); }
		let msgs = self.node.node.get_and_clear_pending_msg_events();
		let _ = self.node.node.get_and_clear_pending_events();
		let mut locked: Vec<u32> = vec![];
		for m in msgs.iter() {
			if let MessageSendEvent::SendSpliceLocked { msg, .. } = m { locked.push(if msg.splice_txid == self.splice_txid { 1 } else { 99 }); }
		}
		let mut rel: Vec<(u32, u32)> = Confirm::get_relevant_txids(self.node.node).iter()
			.map(|(t, h, _)| (if *t == self.main_txid { 0 } else if *t == self.splice_txid { 1 } else { 99 }, *h)).collect();
		rel.sort();
		let best = self.node.node.current_best_block().height;
		let closed = !self.node.node.list_channels().iter().any(|c| c.channel_id == self.chan);
		let show = |v: Vec<String>| if v.is_empty() { "-".to_string() } else { v.join(",") };
		let ans = format!("best={} rel={} locked={} closed={}", best, show(rel.iter().map(|(t, h)| format!("{}@{}", t, h)).collect()),
			show(locked.iter().map(|t| t.to_string()).collect()), if closed { 1 } else { 0 });
		// ---- implementation-side oracles --------------------------------------------------------------------------
		let sh = self.splice_height();
		let tip = self.tip();
		let listed: Vec<u32> = rel.iter().filter(|(t, _)| *t == 1).map(|(_, h)| *h).collect();
		let ctx = |s: &Self| format!("[{} style={:?} min_depth={} step={} chain tip={} splice tx in chain at {:?}; manager calls so far: {}]",
			s.tag, s.style, s.min_depth, what, tip, sh, s.hist.join(" | "));
		if !closed {
			match (sh, listed.as_slice()) {
				(None, []) => {},
				(Some(h), [l]) if *l == h => {},
				(None, l) => rec.oracle_fail(format!("F1 reorganised-out splice transaction still listed by ChannelManager::get_relevant_txids (at height {:?}) although it is not in the chain the node was told about {}", l, ctx(self))),
				(Some(h), l) => rec.oracle_fail(format!("F1 splice transaction confirmed at {} but get_relevant_txids lists it at {:?} {}", h, l, ctx(self))),
			}
			if !locked.is_empty() {
				let deep = sh.map_or(false, |h| tip + 1 >= h + self.min_depth);
				if !deep { rec.oracle_fail(format!("F2 splice_locked sent for a splice transaction that is not {} deep in the best chain (depth {:?}) {}", self.min_depth, sh.map(|h| tip + 1 - h), ctx(self))); }
				self.locked_since_conf = true;
			}
			if connected {
				if let Some(h) = sh {
					if tip + 1 >= h + self.min_depth && !self.locked_since_conf {
						rec.oracle_fail(format!("F3 splice transaction is {} deep (>= min_depth) but no splice_locked was sent since it (re-)confirmed {}", tip + 1 - h, ctx(self)));
					}
				}
			}
		}
		let depth_class = match sh { None => "out".to_string(), Some(h) => if tip + 1 - h >= self.min_depth { "deep".to_string() } else { "shallow".to_string() } };
		let o = format!("obs {}:{}:{}", self.tag.replace(' ', ","), self.hist.len(), what);
		self.hist.push(format!("obs => {}", ans));
		rec.case(&o, &ans, &format!("fund:{} splice={} locked={}", what.trim_end_matches(char::is_numeric), depth_class, !locked.is_empty()), true);
	}
}

impl<'a, 'b, 'c, 'd> Run<'a, 'b, 'c, 'd> {
	/// family PRE: the tracked transaction is the channel funding of a channel that has not sent channel_ready
	fn observe_pre(&mut self, rec: &mut Rec, what: &str, connected: bool) {
		let msgs = self.node.node.get_and_clear_pending_msg_events();
		let _ = self.node.node.get_and_clear_pending_events();
		let ready = msgs.iter().filter(|m| matches!(m, MessageSendEvent::SendChannelReady { .. })).count();
		let mut rel: Vec<(u32, u32)> = Confirm::get_relevant_txids(self.node.node).iter().map(|(t, h, _)| (if *t == self.splice_txid { 0 } else { 99 }, *h)).collect();
		rel.sort();
		let best = self.node.node.current_best_block().height;
		let chan = self.node.node.list_channels().into_iter().find(|c| c.channel_id == self.chan);
		let closed = chan.is_none();
		let scid = chan.as_ref().map_or(false, |c| c.short_channel_id.is_some());
		let show = |v: Vec<String>| if v.is_empty() { "-".to_string() } else { v.join(",") };
		let ans = format!("best={} rel={} ready={} scid={} closed={}", best, show(rel.iter().map(|(t, h)| format!("{}@{}", t, h)).collect()), ready, if scid { 1 } else { 0 }, if closed { 1 } else { 0 });
		let sh = self.splice_height();
		let tip = self.tip();
		let ctx = |s: &Self| format!("[PRE {} style={:?} min_depth={} step={} chain tip={} funding tx in chain at {:?}; manager calls so far: {}]", s.tag, s.style, s.min_depth, what, tip, sh, s.hist.join(" | "));
		if !closed {
			let listed: Vec<u32> = rel.iter().filter(|(t, _)| *t == 0).map(|(_, h)| *h).collect();
			match (sh, listed.as_slice()) {
				(None, []) => {},
				(Some(h), [l]) if *l == h => {},
				(None, l) => rec.oracle_fail(format!("P1 reorganised-out funding transaction still listed by ChannelManager::get_relevant_txids (at {:?}) {}", l, ctx(self))),
				(Some(h), l) => rec.oracle_fail(format!("P1 funding transaction confirmed at {} but get_relevant_txids lists it at {:?} {}", h, l, ctx(self))),
			}
			if scid != sh.is_some() { rec.oracle_fail(format!("P4 ChannelDetails::short_channel_id is_some={} but the funding transaction is in the chain: {} {}", scid, sh.is_some(), ctx(self))); }
			if ready > 0 {
				let deep = sh.map_or(false, |h| tip + 1 >= h + self.min_depth);
				if !deep { rec.oracle_fail(format!("P2 channel_ready sent although the funding transaction is not {} deep in the best chain (depth {:?}) {}", self.min_depth, sh.map(|h| tip + 1 - h), ctx(self))); }
				self.locked_since_conf = true;
			}
			if connected {
				if let Some(h) = sh {
					if tip + 1 >= h + self.min_depth && !self.locked_since_conf { rec.oracle_fail(format!("P3 funding transaction is {} deep (>= min_depth) but no channel_ready was ever sent {}", tip + 1 - h, ctx(self))); }
				}
			}
		}
		let depth_class = match sh { None => "out".to_string(), Some(h) => if tip + 1 - h >= self.min_depth { "deep".to_string() } else { "shallow".to_string() } };
		let o = format!("obs PRE,{}:{}:{}", self.tag.replace(' ', ","), self.hist.len(), what);
		self.hist.push(format!("obs => {}", ans));
		rec.case(&o, &ans, &format!("pre:{} funding={} ready={} closed={}", what.trim_end_matches(char::is_numeric), depth_class, ready > 0, closed), true);
	}
}

/// family PRE: a channel whose funding transaction was broadcast but which has not sent channel_ready; the funding
/// confirms, is buried k deep (k = 1..min_depth: the last one sends channel_ready), reorg of depth d, competing fork.
fn scenario_pre(style: ConnectStyle, si: usize, p: Plan, rec: &mut Rec) -> Result<(), String> {
	let chanmon_cfgs = leak(create_chanmon_cfgs(2));
	let node_cfgs = leak(create_node_cfgs(2, chanmon_cfgs));
	let node_chanmgrs = leak(create_node_chanmgrs(2, node_cfgs, &[None, None]));
	let nodes = create_network(2, node_cfgs, node_chanmgrs);
	for n in nodes.iter() { connect_blocks(n, 5); } // room below the funding for a reorg one deeper than the confirmation
	let funding_tx = create_chan_between_nodes_with_value_init(&nodes[0], &nodes[1], 100_000, 0);
	let _ = nodes[0].node.get_and_clear_pending_msg_events();
	let _ = nodes[0].node.get_and_clear_pending_events();
	let ch = nodes[0].node.list_channels().into_iter().next().ok_or("no channel")?;
	let min_depth = ch.confirmations_required.ok_or("no confirmations_required")?;
	let best = nodes[0].node.current_best_block().height;
	*nodes[0].connect_style.borrow_mut() = style;
	rec.directive("reset");
	let mut run = Run { node: &nodes[0], style, splice_txid: funding_tx.compute_txid(), splice: funding_tx.clone(), main_txid: funding_tx.compute_txid(), chan: ch.channel_id, min_depth,
		locked_since_conf: false, tid: 0, pre: true, ready: false, was_in_chain: false, hist: vec![], tag: format!("k={} d={} remine={:?} style#{}", p.k, p.d, p.remine, si) };
	run.op(rec, format!("preset {} {} 0", min_depth, best));
	run.observe(rec, "start", false);
	run.connect(rec, true, 0);
	run.connect_run(rec, p.k - 1);
	if p.d > 0 { run.disconnect(rec, p.d); }
	for j in 0..p.grow {
		let with = p.remine == Some(j) && run.splice_height().is_none();
		run.connect(rec, with, 4242);
	}
	std::mem::forget(nodes);
	Ok(())
}

impl<'a, 'b, 'c, 'd> Run<'a, 'b, 'c, 'd> {
	/// family READY: the tracked transaction is the funding of a channel that exchanged channel_ready (plain / the
	/// promoted splice funding / zero-conf)
	fn observe_ready(&mut self, rec: &mut Rec, what: &str) {
		let _ = self.node.node.get_and_clear_pending_msg_events();
		let _ = self.node.node.get_and_clear_pending_events();
		let mut rel: Vec<(u32, u32)> = Confirm::get_relevant_txids(self.node.node).iter().map(|(t, h, _)| (if *t == self.splice_txid { 0 } else { 99 }, *h)).collect();
		rel.sort();
		let best = self.node.node.current_best_block().height;
		let closed = !self.node.node.list_channels().iter().any(|c| c.channel_id == self.chan);
		let show = |v: Vec<String>| if v.is_empty() { "-".to_string() } else { v.join(",") };
		let ans = format!("best={} rel={} locked=- closed={}", best, show(rel.iter().map(|(t, h)| format!("{}@{}", t, h)).collect()), if closed { 1 } else { 0 });
		let sh = self.splice_height();
		let tip = self.tip();
		let ctx = |s: &Self| format!("[READY {} style={:?} min_depth={} step={} chain tip={} funding tx in chain at {:?}; manager calls so far: {}]", s.tag, s.style, s.min_depth, what, tip, sh, s.hist.join(" | "));
		if !closed {
			let listed: Vec<u32> = rel.iter().filter(|(t, _)| *t == 0).map(|(_, h)| *h).collect();
			match (sh, listed.as_slice()) {
				(None, []) => {},
				(Some(h), [l]) if *l == h => {},
				(None, l) => rec.oracle_fail(format!("R1 reorganised-out channel funding still listed by ChannelManager::get_relevant_txids (at {:?}) {}", l, ctx(self))),
				(Some(h), l) => rec.oracle_fail(format!("R1 channel funding confirmed at {} but get_relevant_txids lists it at {:?} {}", h, l, ctx(self))),
			}
			if self.min_depth > 0 && self.was_in_chain && sh.is_none() {
				rec.oracle_fail(format!("R2 the funding of a ready channel (minimum_depth {}) was reorganised out but the channel is still open {}", self.min_depth, ctx(self)));
			}
		} else if self.min_depth == 0 {
			rec.oracle_fail(format!("R3 zero-conf channel closed by a chain call {}", ctx(self)));
		} else if !self.hist.iter().any(|o| o.contains("=> ") && o.contains("rel=-")) && sh.is_some() && self.was_in_chain && !self.hist.iter().any(|o| o.starts_with("disc") || o.starts_with("unconf")) {
			rec.oracle_fail(format!("R3 channel closed although its funding never left the chain {}", ctx(self)));
		}
		self.was_in_chain = sh.is_some();
		let o = format!("obs READY,{}:{}:{}", self.tag.replace(' ', ","), self.hist.len(), what);
		self.hist.push(format!("obs => {}", ans));
		rec.case(&o, &ans, &format!("ready:{} funding={} closed={}", what.trim_end_matches(char::is_numeric), if sh.is_some() { "in" } else { "out" }, closed), true);
	}
}

/// family READY. variant 0: plain announced channel; 1: the splice funding PROMOTED on both nodes
/// (maybe_promote_splice_funding), then reorganised; 2: zero-conf channel whose funding confirms k deep and is reorganised
/// out (SCID history, never closes). `dd` = reorg depth relative to the funding's depth (-1: funding stays, 0, +1).
fn scenario_ready(style: ConnectStyle, si: usize, variant: u8, k: u32, dd: i32, remine: Option<u32>, rec: &mut Rec) -> Result<(), String> {
	let chanmon_cfgs = leak(create_chanmon_cfgs(2));
	let node_cfgs = leak(create_node_cfgs(2, chanmon_cfgs));
	let cfg1 = test_default_channel_config();
	let cfgs = if variant == 2 { [None, Some(cfg1)] } else { [None, None] };
	let node_chanmgrs = leak(create_node_chanmgrs(2, node_cfgs, &cfgs));
	let nodes = create_network(2, node_cfgs, node_chanmgrs);
	for n in nodes.iter() { connect_blocks(n, 5); } // room below the funding for a reorg one deeper than its confirmation
	let (tracked, chan) = match variant {
		0 => { let (_, _, chan, tx) = create_announced_chan_between_nodes_with_value(&nodes, 0, 1, 100_000, 0); (tx, chan) },
		1 => {
			let (_, _, chan, _) = create_announced_chan_between_nodes_with_value(&nodes, 0, 1, 100_000, 0);
			let added = Amount::from_sat(50_000);
			provide_utxo_reserves(&nodes, 2, added * 2);
			let contribution = do_initiate_splice_in(&nodes[0], &nodes[1], chan, added);
			let (splice_tx, _) = splice_channel(&nodes[0], &nodes[1], chan, contribution);
			mine_transaction(&nodes[0], &splice_tx);
			mine_transaction(&nodes[1], &splice_tx);
			let _ = lightning::ln::splicing_tests::lock_splice_after_blocks(&nodes[0], &nodes[1], lightning::chain::channelmonitor::ANTI_REORG_DELAY - 1);
			connect_blocks(&nodes[0], k);
			(splice_tx, chan)
		},
		_ => {
			let (tx, chan) = open_zero_conf_channel(&nodes[0], &nodes[1], None);
			(tx, chan)
		},
	};
	let _ = nodes[0].node.get_and_clear_pending_msg_events();
	let _ = nodes[0].node.get_and_clear_pending_events();
	let txid = tracked.compute_txid();
	let rel0 = Confirm::get_relevant_txids(nodes[0].node);
	let main_h = rel0.iter().find(|(t, _, _)| *t == txid).map(|(_, h, _)| *h).unwrap_or(0);
	if variant != 2 && main_h == 0 { return Err("funding not in relevant txids".into()); }
	let min_depth = nodes[0].node.list_channels().iter().find(|c| c.channel_id == chan).and_then(|c| c.confirmations_required).ok_or("no confirmations_required")?;
	if (variant == 2) != (min_depth == 0) { return Err(format!("unexpected minimum depth {} for variant {}", min_depth, variant)); }
	let best = nodes[0].node.current_best_block().height;
	*nodes[0].connect_style.borrow_mut() = style;
	rec.directive("reset");
	let mut run = Run { node: &nodes[0], style, splice_txid: txid, splice: tracked, main_txid: txid, chan, min_depth,
		locked_since_conf: false, tid: 0, pre: false, ready: true, was_in_chain: main_h != 0, hist: vec![],
		tag: format!("variant={} k={} dd={} remine={:?} style#{}", variant, k, dd, remine, si) };
	run.op(rec, format!("reset {} {} 0 {}", min_depth, best, main_h));
	run.observe(rec, "start", false);
	if variant == 2 { run.connect(rec, true, 0); run.connect_run(rec, k - 1); }
	let depth = run.tip() + 1 - run.splice_height().ok_or("funding not in the chain")?;
	let d = (depth as i32 + dd) as u32;
	if d > 0 { run.disconnect(rec, d); }
	for j in 0..3 {
		let with = remine == Some(j) && run.splice_height().is_none();
		run.connect(rec, with, 4242);
	}
	std::mem::forget(nodes);
	Ok(())
}

fn scenario(style: ConnectStyle, si: usize, p: Plan, rec: &mut Rec) -> Result<(), String> {
	let chanmon_cfgs = leak(create_chanmon_cfgs(2));
	let node_cfgs = leak(create_node_cfgs(2, chanmon_cfgs));
	let node_chanmgrs = leak(create_node_chanmgrs(2, node_cfgs, &[None, None]));
	let nodes = create_network(2, node_cfgs, node_chanmgrs);
	let (_, _, chan, funding_tx) = create_announced_chan_between_nodes_with_value(&nodes, 0, 1, 100_000, 0);
	let added = Amount::from_sat(50_000);
	provide_utxo_reserves(&nodes, 2, added * 2);
	let contribution = do_initiate_splice_in(&nodes[0], &nodes[1], chan, added);
	let (splice_tx, _) = splice_channel(&nodes[0], &nodes[1], chan, contribution);
	let _ = nodes[0].node.get_and_clear_pending_msg_events();
	let _ = nodes[0].node.get_and_clear_pending_events();
	let main_txid = funding_tx.compute_txid();
	let rel0 = Confirm::get_relevant_txids(nodes[0].node);
	let main_h = rel0.iter().find(|(t, _, _)| *t == main_txid).map(|(_, h, _)| *h).ok_or("main funding not in relevant txids")?;
	let min_depth = nodes[0].node.list_channels().iter().find(|c| c.channel_id == chan).and_then(|c| c.confirmations_required).ok_or("no confirmations_required")?;
	let best = nodes[0].node.current_best_block().height;
	*nodes[0].connect_style.borrow_mut() = style;
	rec.directive("reset"); // keeps check's "ops since the last reset" window per scenario
	let mut run = Run { node: &nodes[0], style, splice_txid: splice_tx.compute_txid(), splice: splice_tx, main_txid, chan, min_depth,
		locked_since_conf: false, tid: 1, pre: false, ready: false, was_in_chain: false, hist: vec![], tag: format!("k={} d={} remine={:?} style#{}", p.k, p.d, p.remine, si) };
	run.op(rec, format!("reset {} {} 0 {} 1", min_depth, best, main_h));
	run.observe(rec, "start", false);
	// the splice transaction confirms and is buried k deep
	run.connect(rec, true, 0);
	run.connect_run(rec, p.k - 1);
	// reorg of depth d, then the competing fork
	if p.d > 0 { run.disconnect(rec, p.d); }
	for j in 0..p.grow {
		let with = p.remine == Some(j) && run.splice_height().is_none();
		run.connect(rec, with, 4242);
	}
	std::mem::forget(nodes);
	Ok(())
}

fn main() {
	let args = &parse_args("c11f");
	let mut rec = Rec::new(&args.out, "c11f");
	if std::env::var("C11_LOG").is_err() { silence_stdout(); }
	unsafe {
		use std::os::unix::io::AsRawFd;
		if std::env::var("VERIF_DEBUG").is_err() {
			if let Ok(f) = std::fs::OpenOptions::new().write(true).open("/dev/null") { libc::dup2(f.as_raw_fd(), 2); }
		}
	}
	let mut rng = Rng::new(args.seed);
	let md = lightning::chain::channelmonitor::ANTI_REORG_DELAY; // the test config's minimum_depth; the scenario reads the real one
	let mut plans: Vec<Plan> = vec![];
	for k in 1..=md + 1 {
		let mut ds = vec![k, k + 1];
		if k >= 2 { ds.push(k - 1); }
		for d in ds {
			let grow = d + md + 1;
			let mut rems: Vec<Option<u32>> = vec![None, Some(0), Some(1 + rng.below(d as u64 + 1) as u32)];
			if !args.thorough { let keep = rng.below(3) as usize; rems = vec![None, rems[keep]]; rems.dedup(); }
			for r in rems { plans.push(Plan { k, d, remine: r, grow }); }
		}
	}
	let only_style: Option<usize> = std::env::var("C11F_STYLE").ok().and_then(|x| x.parse().ok());
	let mut scenarios = 0u64;
	for (pi, p) in plans.iter().enumerate() {
		for (si, st) in STYLES.iter().enumerate() {
			if let Some(o) = only_style { if o != si { continue; } }
			let _ = pi;
			let (st2, p2) = (*st, *p);
			let mut sub: Option<Result<(), String>> = None;
			let r = guarded(AssertUnwindSafe(|| {
				sub = Some(scenario(st2, si, p2, &mut rec));
				// family PRE: k = 1..min_depth (k = min_depth sends channel_ready; a reorg that removes the funding then closes)
				if p2.k <= md { if let Err(e) = scenario_pre(st2, si, p2, &mut rec) { sub = Some(Err(format!("pre: {}", e))); } }
			}));
			scenarios += 1;
			match (r, sub) {
				(Ok(()), Some(Ok(()))) => {},
				(Ok(()), Some(Err(e))) => { rec.discarded += 1; rec.notes.insert(format!("scenario {:?} style#{}", p, si), e); },
				(Err(pn), _) => rec.oracle_fail(format!("funding-scope scenario {:?} style#{} ({:?}) panicked: {}", p, si, st, pn.chars().take(300).collect::<String>())),
				_ => {},
			}
		}
	}
	// family READY: funding reorg of a fully ready channel (plain / promoted splice funding / zero-conf)
	for variant in 0..3u8 {
		for (si, st) in STYLES.iter().enumerate() {
			if let Some(o) = only_style { if o != si { continue; } }
			for dd in [-1i32, 0, 1] {
				for remine in [None, Some(1u32)] {
					let ks: Vec<u32> = if variant == 2 { vec![1, 3] } else if variant == 1 { vec![1 + rng.below(3) as u32] } else { vec![1] };
					for k in ks {
						if !args.thorough && remine.is_some() && dd == -1 { continue; }
						let st2 = *st;
						let mut sub: Option<Result<(), String>> = None;
						let r = guarded(AssertUnwindSafe(|| { sub = Some(scenario_ready(st2, si, variant, k, dd, remine, &mut rec)); }));
						scenarios += 1;
						match (r, sub) {
							(Ok(()), Some(Err(e))) => { rec.discarded += 1; rec.notes.insert(format!("ready variant={} k={} dd={} style#{}", variant, k, dd, si), e); },
							(Err(pn), _) => rec.oracle_fail(format!("READY scenario variant={} k={} dd={} remine={:?} style#{} ({:?}) panicked: {}", variant, k, dd, remine, si, st, pn.chars().take(300).collect::<String>())),
							_ => {},
						}
					}
				}
			}
		}
	}
	rec.notes.insert("rule".into(), "one case per observation after a complete connect / disconnect step; non-trivial = all".into());
	rec.notes.insert("scenarios".into(), scenarios.to_string());
	rec.finish();
}
