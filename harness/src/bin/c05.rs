//! C05 / C06 — the revocation-secret store: real `CounterpartyCommitmentSecrets` (public) and
//! `build_commitment_secret` against the Lean model `Ldk.Secrets` (B = 48, SHA-256).
//! ops:  new                          -> ok
//!       provide <idx> <secret-hex>   -> ok | err
//!       get <idx>                    -> some <hex> | none | panic   (the `assert!` in get_secret)
//!       min                          -> <number>
//!       build <seed-hex> <idx>       -> <hex>
//!       ser                          -> hex of Writeable::encode  (49 x (32 + 8) bytes + empty TLV stream)
//!       reload                       -> ok      (store := read(write(store)))
//!       load <hex>                   -> ok|err  (store := Readable::read(bytes))
//! Impl-side oracles (independent of the model): after seed-derived secrets were inserted down to
//! m, get_secret(j) == build_commitment_secret(seed, j) for j in [m, 2^48) and None for j < m;
//! every such insert is accepted; a corrupted secret at an even index is refused and leaves the
//! store byte-identical; read(write(s)) == s.
use ldk_verif_harness::common::*;
use lightning::ln::chan_utils::{build_commitment_secret, CounterpartyCommitmentSecrets};
use lightning::util::ser::{Readable, Writeable};
use std::panic::AssertUnwindSafe;

const TOP: u64 = 1 << 48;

struct Ctx { rec: Rec, rng: Rng, st: CounterpartyCommitmentSecrets }

impl Ctx {
	fn new_store(&mut self) {
		self.st = CounterpartyCommitmentSecrets::new();
		self.rec.case("new", "ok", "new", false);
	}
	/// returns Ok/Err of the real code
	fn provide(&mut self, idx: u64, secret: [u8; 32], tag: &str) -> bool {
		let min_before = self.st.get_min_seen_secret();
		let r = guarded(AssertUnwindSafe(|| { let mut s = self.st.clone(); let r = s.provide_secret(idx, secret); (s, r) }));
		let (res, class, ok) = match r {
			Ok((s, Ok(()))) => { self.st = s; ("ok".to_string(), if idx < min_before { "provide:ok-stored" } else { "provide:ok-noop" }, true) },
			Ok((s, Err(()))) => {
				if s != self.st { self.rec.oracle_fail(format!("provide_secret({}, {}) returned Err but modified the store", idx, hex(&secret))); }
				("err".to_string(), "provide:err", false)
			},
			Err(p) => (format!("panic {}", p), "provide:panic", false),
		};
		self.rec.case(&format!("provide {} {}", idx, hex(&secret)), &res, &format!("{}/{}", class, tag), true);
		ok
	}
	fn get(&mut self, idx: u64, tag: &str) -> Option<Option<[u8; 32]>> {
		let r = guarded(AssertUnwindSafe(|| self.st.get_secret(idx)));
		let (res, class, out) = match r {
			Ok(Some(s)) => (format!("some {}", hex(&s)), "get:some", Some(Some(s))),
			Ok(None) => ("none".to_string(), "get:none", Some(None)),
			Err(_) => ("panic".to_string(), "get:panic", None),
		};
		self.rec.case(&format!("get {}", idx), &res, &format!("{}/{}", class, tag), true);
		out
	}
	fn min(&mut self) -> u64 {
		let m = self.st.get_min_seen_secret();
		self.rec.case("min", &m.to_string(), "min", true);
		m
	}
	fn build(&mut self, seed: &[u8; 32], idx: u64) -> [u8; 32] {
		let s = build_commitment_secret(seed, idx);
		self.rec.case(&format!("build {} {}", hex(seed), idx), &hex(&s), "build", true);
		s
	}
	fn ser(&mut self) {
		let b = self.st.encode();
		if b.len() != 49 * 40 + 1 { self.rec.oracle_fail(format!("encode() length {} != 1961", b.len())); }
		self.rec.case("ser", &hex(&b), "ser", true);
	}
	fn reload(&mut self) {
		let b = self.st.encode();
		match <CounterpartyCommitmentSecrets as Readable>::read(&mut &b[..]) {
			Ok(s) => {
				if s != self.st { self.rec.oracle_fail(format!("read(write(store)) differs from the store: {}", hex(&b))); }
				self.st = s;
				self.rec.case("reload", "ok", "reload", true);
			},
			Err(e) => { self.rec.oracle_fail(format!("read(write(store)) failed {:?}: {}", e, hex(&b))); self.rec.case("reload", "err", "reload", true); },
		}
	}
	fn load(&mut self, b: &[u8], tag: &str) {
		match <CounterpartyCommitmentSecrets as Readable>::read(&mut &b[..]) {
			Ok(s) => { self.st = s; self.rec.case(&format!("load {}", hex(b)), "ok", &format!("load:ok/{}", tag), true); },
			Err(_) => { self.rec.case(&format!("load {}", hex(b)), "err", &format!("load:err/{}", tag), true); },
		}
	}
	/// oracle: the store that received the seed's secrets down to `m` answers every j >= m and no j < m
	fn check_answers(&mut self, seed: &[u8; 32], m: u64, j: u64, tag: &str) {
		let got = self.get(j, tag);
		let want = if j >= m && j < TOP { Some(Some(build_commitment_secret(seed, j))) } else if j < m { Some(None) } else { return };
		if got != want {
			self.rec.oracle_fail(format!("after inserting seed {} down to {}: get_secret({}) = {:?}, expected {:?}", hex(seed), m, j,
				got.map(|o| o.map(|s| hex(&s))), want.map(|o| o.map(|s| hex(&s)))));
		}
	}
	/// an index in [m, 2^48): recent, first, or anywhere
	fn pick_inserted(&mut self, m: u64) -> u64 {
		match self.rng.below(4) { 0 => m + self.rng.below((TOP - m).min(4)), 1 => TOP - 1 - self.rng.below((TOP - m).min(3)), _ => m + self.rng.below(TOP - m) }
	}
}

/// The store as it is after inserting the seed's secrets TOP-1, …, m in order (slot p holds the
/// smallest index >= m with exactly p trailing zeros, if below 2^48), in `Writeable` layout.
fn synth_store(seed: &[u8; 32], m: u64) -> Vec<u8> {
	let mut out = Vec::with_capacity(49 * 40 + 1);
	for p in 0..49u32 {
		let cand = if p == 48 { if m == 0 { Some(0u64) } else { None } } else {
			let step = 1u64 << (p + 1); let off = 1u64 << p;
			// smallest i >= m with i % 2^(p+1) == 2^p
			let base = m & !(step - 1);
			let c = if base + off >= m { base + off } else { base + step + off };
			if c < TOP { Some(c) } else { None }
		};
		match cand {
			Some(i) => { out.extend_from_slice(&build_commitment_secret(seed, i)); out.extend_from_slice(&i.to_be_bytes()); },
			None => { out.extend_from_slice(&[0u8; 32]); out.extend_from_slice(&TOP.to_be_bytes()); },
		}
	}
	out.push(0);
	out
}

/// (a)+(c)+(d): descending sequential inserts from `start` (store must already hold everything above),
/// gets after every insert, corrupted secrets at even indices, occasional ser / reload.
fn sequential(c: &mut Ctx, seed: &[u8; 32], start: u64, steps: u64, corrupt_every: u64, tag: &str) {
	let mut m = start + 1; // everything >= m is in
	for step in 0..steps {
		if m == 0 { break; }
		let idx = m - 1;
		let secret = if c.rng.chance(1, 6) { c.build(seed, idx) } else { build_commitment_secret(seed, idx) };
		if corrupt_every != 0 && idx & 1 == 0 && c.rng.below(corrupt_every) == 0 {
			// (c) corrupted secret at an even index: must be refused, store unchanged
			let mut bad = secret;
			let bit = c.rng.below(256) as usize;
			bad[bit / 8] ^= 1 << (bit & 7);
			let before = c.st.encode();
			if c.provide(idx, bad, "corrupt-even") { c.rec.oracle_fail(format!("corrupted secret accepted at idx {} (seed {}, flipped bit {})", idx, hex(seed), bit)); }
			if c.st.encode() != before { c.rec.oracle_fail(format!("refused secret at idx {} changed the store", idx)); }
			// wrong index for a right secret (secret of idx presented as idx - 2 / idx + 2) is refused too
			if idx >= 2 && c.rng.chance(1, 2) {
				// accepted only if nothing contradicted it (never expected): undo on both sides
				if c.provide(idx - 2, secret, "wrong-index") { c.load(&before, "undo"); }
			}
		}
		if !c.provide(idx, secret, tag) {
			c.rec.oracle_fail(format!("seed-derived secret refused: seed {} idx {} (descending from 2^48-1)", hex(seed), idx));
			return;
		}
		m = idx;
		let j = c.pick_inserted(m);
		c.check_answers(seed, m, j, tag);
		if c.rng.chance(1, 3) { let j = if m > 0 { m - 1 - c.rng.below(m.min(5)) } else { 0 }; if j < m { c.check_answers(seed, m, j, "below-min"); } }
		if c.rng.chance(1, 8) { let got = c.min(); if got != m { c.rec.oracle_fail(format!("get_min_seen_secret {} after inserting down to {}", got, m)); } }
		if c.rng.chance(1, 10) {
			// re-providing an old secret: never stores anything (idx >= min); note the real code REFUSES it
			// when idx is even and a newer secret sits in a lower slot — mirrored, no expectation on Ok/Err
			let j = c.pick_inserted(m);
			let before = c.st.encode();
			c.provide(j, build_commitment_secret(seed, j), "re-provide");
			if c.st.encode() != before { c.rec.oracle_fail(format!("re-provided old secret changed the store idx {}", j)); }
		}
		if c.rng.chance(1, 12) {
			// an already stored secret cannot be overwritten: garbage (or the neighbour's secret) presented
			// for the current minimum index is a no-op (odd index) or refused (even index)
			let garbage = if c.rng.chance(1, 2) { c.rng.bytes32() } else { build_commitment_secret(seed, m ^ 2) };
			let before = c.st.encode();
			let ok = c.provide(m, garbage, "overwrite-min");
			if m & 1 == 0 && ok && garbage != build_commitment_secret(seed, m) { c.rec.oracle_fail(format!("wrong secret for the stored even index {} accepted", m)); }
			if c.st.encode() != before { c.rec.oracle_fail(format!("providing index {} again changed the store", m)); }
			c.check_answers(seed, m, m, "overwrite-min");
		}
		if step % 97 == 13 { c.ser(); }
		if step % 61 == 7 { c.reload(); let j = c.pick_inserted(m); c.check_answers(seed, m, j, "after-reload"); }
	}
}

/// (b) random index jumps and arbitrary probes; nothing is expected except agreement with the model
fn jumps(c: &mut Ctx, seed: &[u8; 32], n: u64) {
	for _ in 0..n {
		let min = c.st.get_min_seen_secret();
		match c.rng.below(10) {
			0..=5 => {
				let idx = match c.rng.below(9) {
					0 | 1 => min.saturating_sub(1),
					2 => min.saturating_sub(1 + c.rng.below(6)),
					3 => { let sh = c.rng.below(20); (min.saturating_sub(1) >> sh) << sh }, // round down: many trailing zeros
					4 => c.rng.below(min.max(1)),
					5 => min + c.rng.below(8),
					6 => c.rng.below(TOP),
					7 => TOP + c.rng.below(3) * (1 << c.rng.below(16)),
					_ => match c.rng.below(4) { 0 => 0, 1 => u64::MAX, 2 => TOP - 1, _ => c.rng.next() },
				};
				let secret = match c.rng.below(8) { 0 => c.rng.bytes32(), 1 => [0u8; 32], _ => build_commitment_secret(seed, idx) };
				c.provide(idx, secret, "jump");
			},
			6..=8 => {
				let idx = match c.rng.below(6) {
					0 => min, 1 => min + c.rng.below(16), 2 => min.saturating_sub(1 + c.rng.below(4)),
					3 => c.rng.below(TOP), 4 => TOP + c.rng.below(1 << 20), _ => min + c.rng.below((TOP - min).max(1)),
				};
				c.get(idx, "jump");
			},
			_ => { c.min(); },
		}
	}
}

fn random_store_bytes(rng: &mut Rng, seed: &[u8; 32]) -> Vec<u8> {
	let mut out = vec![];
	for p in 0..49u64 {
		let (s, i) = match rng.below(4) {
			0 => ([0u8; 32], TOP),
			1 => { let i = ((rng.below(TOP) >> p) | 1) << p; let i = i & (TOP - 1); (build_commitment_secret(seed, i), i) },
			2 => (rng.bytes32(), rng.below(TOP)),
			_ => (rng.bytes32(), rng.next()),
		};
		out.extend_from_slice(&s); out.extend_from_slice(&i.to_be_bytes());
	}
	out.push(0);
	out
}

fn main() {
	let args = &parse_args("c05");
	let rec = Rec::new(&args.out, "c05");
	let rng = Rng::new(args.seed);
	let mut c = Ctx { rec, rng, st: CounterpartyCommitmentSecrets::new() };
	let k = if args.thorough { 100 } else { 1 } * args.scale;

	// BOLT-3 appendix D generation vectors through the real function (and the model)
	for (seed, idx) in [([0u8; 32], TOP - 1), ([0xff; 32], TOP - 1), ([0xff; 32], 0xaaaaaaaaaaau64), ([0xff; 32], 0x555555555555u64), ([1u8; 32], 1u64)] {
		c.build(&seed, idx);
	}
	for _ in 0..(40 * k) { let seed = c.rng.bytes32(); let idx = match c.rng.below(3) { 0 => c.rng.below(TOP), 1 => c.rng.next(), _ => TOP - 1 - c.rng.below(1 << 12) }; c.build(&seed, idx); }

	// (a) one long descending run from 2^48-1 (with (c) corrupted secrets and (d) ser / reload inside)
	let seed = c.rng.bytes32();
	c.new_store();
	sequential(&mut c, &seed, TOP - 1, 1000 * k, 25, "seq");
	c.ser();
	// final sweep of the long run: every 2^i-aligned neighbourhood and random indices
	let m = c.st.get_min_seen_secret();
	for _ in 0..(100 * k.min(20)) { let j = c.pick_inserted(m); c.check_answers(&seed, m, j, "sweep"); }

	// (a') fast-forwarded histories: synthesised store at depth m (high slots occupied), then run on
	// across carry boundaries of every height
	let n_ff = 13 * k.min(30);
	for t in 0..n_ff {
		let seed = c.rng.bytes32();
		// boundary height: a spread 48, 44, …, 0 first (quick tier), then every height, then random
		let h = if t < 13 { 48 - 4 * t } else if t < 62 { t - 13 } else { c.rng.below(49) };
		let m = if h >= 48 { c.rng.below(40) + 1 } else { (((c.rng.below(TOP >> (h + 1)) << 1) | 1) << h) + c.rng.below(24) };
		let m = m.min(TOP - 1).max(1);
		c.new_store();
		c.load(&synth_store(&seed, m), "ff");
		let got = c.min(); if got != m { c.rec.oracle_fail(format!("synthesised store min {} != {}", got, m)); }
		for _ in 0..6 { let j = c.pick_inserted(m); c.check_answers(&seed, m, j, "ff"); }
		let steps = 40 + c.rng.below(40);
		sequential(&mut c, &seed, m - 1, steps, 12, "ff-seq");
		let m2 = c.st.get_min_seen_secret();
		for _ in 0..6 { let j = c.pick_inserted(m2); c.check_answers(&seed, m2, j, "ff-sweep"); }
		if m2 == 0 { // the whole index space is in: slot 48 holds index 0
			c.ser();
			for _ in 0..10 { let j = c.rng.below(TOP); c.check_answers(&seed, 0, j, "full"); }
		}
	}

	// (b) random jumps from several starting states
	for t in 0..(8 * k.min(40)) {
		let seed = c.rng.bytes32();
		c.new_store();
		match t % 4 {
			0 => {},
			1 => { let steps = 1 + c.rng.below(40); sequential(&mut c, &seed, TOP - 1, steps, 0, "pre-jump") },
			2 => { let m = c.rng.below(TOP - 2) + 1; c.load(&synth_store(&seed, m), "pre-jump"); },
			_ => { let b = random_store_bytes(&mut c.rng, &seed); c.load(&b, "random-store"); },
		}
		jumps(&mut c, &seed, 60);
		if t % 3 == 0 { c.ser(); c.reload(); }
	}

	// (c') a corrupted secret at an ODD index is not checked by the store (no lower slot): it is
	// stored, and the NEXT even insert is refused — mirrored, and recorded as a class of its own
	for _ in 0..(6 * k.min(20)) {
		let seed = c.rng.bytes32();
		c.new_store();
		let d = c.rng.below(30) * 2; // even number of good inserts, next idx is odd
		sequential(&mut c, &seed, TOP - 1, d, 0, "pre-poison");
		let idx = TOP - 1 - d;
		let mut bad = build_commitment_secret(&seed, idx); bad[c.rng.below(32) as usize] ^= 1 << c.rng.below(8);
		c.provide(idx, bad, "corrupt-odd");
		let good_next = build_commitment_secret(&seed, idx - 1);
		if c.provide(idx - 1, good_next, "after-poison") { c.rec.oracle_fail(format!("secret {} accepted on top of a corrupted odd secret", idx - 1)); }
		c.get(idx, "after-poison"); c.get(idx + 1, "after-poison"); c.min();
	}

	// truncated / over-long inputs to Readable (model: err for short input)
	for _ in 0..(5 * k.min(10)) {
		let seed = c.rng.bytes32();
		let mut b = synth_store(&seed, c.rng.below(TOP - 1) + 1);
		let cut = c.rng.below(b.len() as u64) as usize; b.truncate(cut);
		c.load(&b, "truncated");
	}

	c.rec.notes.insert("rule".into(), "stateful op sequences on the real CounterpartyCommitmentSecrets: a long descending run from 2^48-1, fast-forwarded stores at every carry height 0..48 (synthesised through Readable) continued sequentially, random index jumps from empty / sequential / synthesised / random stores, corrupted secrets at even (refused) and odd (unchecked) indices, wrong-index secrets, re-provides, ser and read(write) mid-sequence; distinct = distinct op texts".into());
	c.rec.finish();
}
