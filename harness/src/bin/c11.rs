//! C11 — on-chain conclusions depend only on the chain, not on how it was delivered.
//!
//! Scenario (seeded): two real nodes, one legacy (non-anchor) channel, 0–3 HTLCs in flight (some with
//! the preimage already known to the recipient, some below the dust limit), one side force-closes.
//! A *reference run* (whole blocks, one at a time) mines the transactions the nodes broadcast at
//! randomly delayed heights and thereby fixes ONE final chain.  That chain is then delivered to FRESH
//! copies of monitor+manager (the deterministic prefix is re-run in a new network) under each of the
//! eleven `ConnectStyle`s of ln::functional_test_utils, and — for fork shapes — after connecting and
//! disconnecting a competing block sequence of depth 1..=ANTI_REORG_DELAY.
//!
//! Oracle (implementation only, metamorphic): all deliveries of one (scenario, fork shape) group must
//! agree, at every checkpoint height (fork-free group) and at the end (all groups), on
//! get_claimable_balances, get_relevant_txids, current_best_block, get_outputs_to_watch keys, the
//! awaiting-threshold queue and the irrevocable conclusions (hook), the multiset of Events, the height
//! at which each Event first appears, list_channels().len().
//!
//! Fork groups are delivered twice: with monitor/manager events polled after every delivery call (a
//! running background processor; this is what the model is compared with) and polled only at the
//! checkpoints (a reorg processed in one batch).  Two genuine deviations found this way are tagged
//! KF-C11-1 / KF-C11-2 (see known_findings.txt) and reported once per (scenario, fork shape).
//! In fork groups the helper's `TransactionsFirstReorgsOnlyTip` disconnection is followed by
//! `best_block_updated(fork point)` (see `Replay::fork`).
//!
//! Correspondence with the Lean model (model `c11`): every util call is written as the abstract ops
//! the style performs on the monitor; the model answers the monitor's (best, awaiting, matured) after
//! the call; the real answer comes from `verif_hooks::monitor_onchain_view`.
//!   <n> reset <best> | <n> tx <id> <kind>:<csv|-> ... | <n> block|conf <h> <ids..> | <n> best <h>
//!   | <n> disc <h> | <n> unconf <id>          (n = 0|1: which party's monitor)
use ldk_verif_harness::common::*;
use ldk_verif_harness::sim::*;
use std::collections::{BTreeMap, HashMap, HashSet};
use std::io::Write;
use std::panic::AssertUnwindSafe;

use bitcoin::{Block, OutPoint, Transaction, Txid};
use lightning::chain::channelmonitor::ANTI_REORG_DELAY;
use lightning::events::Event;
use lightning::ln::functional_test_utils::*;
use lightning::ln::msgs::BaseMessageHandler;
use lightning::ln::types::ChannelId;
use lightning::ln::verif_hooks as vh;

const STYLES: [ConnectStyle; 11] = [
	ConnectStyle::FullBlockViaListen,
	ConnectStyle::BestBlockFirst,
	ConnectStyle::BestBlockFirstSkippingBlocks,
	ConnectStyle::BestBlockFirstReorgsOnlyTip,
	ConnectStyle::TransactionsFirst,
	ConnectStyle::TransactionsFirstSkippingBlocks,
	ConnectStyle::TransactionsDuplicativelyFirstSkippingBlocks,
	ConnectStyle::HighlyRedundantTransactionsFirstSkippingBlocks,
	ConnectStyle::TransactionsFirstReorgsOnlyTip,
	ConnectStyle::ReplayedFullBlockViaListen,
	ConnectStyle::FullBlockDisconnectionsSkippingViaListen,
];

const FORK_TIME_OFFSET: u32 = 7777;

/// known-finding tags (matched as substrings by ./check against known_findings.txt)
const KF1: &str = "KF-C11-1 re-confirmed preimage claim not re-queued: a pending MonitorEvent::HTLCEvent for the same source suppresses the HTLCSpendConfirmation entry when the claim transaction is confirmed again after a reorg (monitor events polled only after the reorg)";
const KF2: &str = "KF-C11-2 duplicate timelocked claim package after the commitment transaction is reorged out and re-confirmed (an aggregated locktimed package is not recognised as equivalent to the regenerated single-outpoint requests): debug_assert pending_claim_requests.get(&claim_id).is_none() fails at the timelock height";

#[derive(Clone, Debug)]
struct Scn {
	seed: u64,
	/// (amount msat, recipient knows the preimage before the close)
	ab: Vec<(u64, bool)>,
	ba: Vec<(u64, bool)>,
	closer: usize,
	gap: u32,
	/// chance (n/4) that an eligible mempool transaction is mined in a given block
	mine_num: u64,
}

#[derive(Clone, Copy, Debug, PartialEq)]
struct Fork { at: u32, depth: u32, variant: u8 }

struct World { net: Net, chan: ChannelId, h0: u32, funding: Txid }

struct Final {
	h0: u32,
	h0_hash: bitcoin::BlockHash,
	/// blocks at heights h0+1 ..= h0+blocks.len()
	blocks: Vec<Block>,
	ids: HashMap<Txid, u32>,
	cat: [BTreeMap<u32, Vec<(u8, Option<u32>)>>; 2],
	checkpoints: Vec<u32>,
	n_txs: usize,
}

struct RunOut {
	/// per node: ids of final-chain transactions whose HTLCSpendConfirmation is neither awaiting nor resolved at the end
	lost: [Vec<u32>; 2],
	/// (checkpoint height, observation of node 0, of node 1)
	obs: Vec<(u32, [String; 2])>,
	end: [String; 2],
}

fn set_style(net: &Net, s: ConnectStyle) { for n in net.nodes.iter() { *n.connect_style.borrow_mut() = s; } }

fn drain(net: &Net, n: usize, out: &mut Vec<String>) {
	for _ in 0..2 {
		let _ = net.nodes[n].node.get_and_clear_pending_msg_events();
		let mut evs = net.nodes[n].node.get_and_clear_pending_events();
		evs.extend(net.nodes[n].chain_monitor.chain_monitor.get_and_clear_pending_events());
		for e in evs {
			let key = match &e {
				Event::SpendableOutputs { outputs, .. } => {
					let mut v: Vec<String> = outputs.iter().map(|o| match o.spendable_outpoint() { op => format!("{}:{}", &op.txid.to_string()[..8], op.index) }).collect();
					v.sort();
					format!("SpendableOutputs[{}]", v.join(","))
				},
				Event::PaymentFailed { payment_hash, reason, .. } => format!("PaymentFailed {} {:?}", payment_hash.map(|h| hex(&h.0[..4])).unwrap_or_default(), reason),
				Event::PaymentPathFailed { payment_hash, payment_failed_permanently, .. } => format!("PaymentPathFailed {} perm={}", hex(&payment_hash.0[..4]), payment_failed_permanently),
				Event::PaymentSent { payment_hash, .. } => format!("PaymentSent {}", hex(&payment_hash.0[..4])),
				Event::PaymentPathSuccessful { .. } => "PaymentPathSuccessful".to_string(),
				Event::PaymentClaimed { payment_hash, .. } => format!("PaymentClaimed {}", hex(&payment_hash.0[..4])),
				Event::HTLCHandlingFailed { .. } => "HTLCHandlingFailed".to_string(),
				Event::ChannelClosed { reason, .. } => format!("ChannelClosed {}", format!("{:?}", reason).chars().take(60).collect::<String>()),
				Event::BumpTransaction(_) => continue,
				other => format!("{:?}", other).chars().take(40).collect::<String>(),
			};
			out.push(key);
		}
	}
	net.nodes[n].chain_monitor.added_monitors.lock().unwrap().clear();
}

fn take_broadcasts(net: &Net, mempool: &mut Vec<Transaction>, seen: &mut HashSet<Txid>) {
	for n in 0..net.nodes.len() {
		let txs: Vec<Transaction> = net.nodes[n].tx_broadcaster.txn_broadcasted.lock().unwrap().drain(..).collect();
		for tx in txs { if seen.insert(tx.compute_txid()) { mempool.push(tx); } }
	}
}

fn kind_code(k: &str) -> u8 {
	match k { "HTLCUpdate" => 0, "MaturingOutput" => 1, "FundingSpendConfirmation" => 2, "HTLCSpendConfirmation" => 3, _ => 4 }
}

fn show_keys(mut ks: Vec<Vec<u64>>) -> String {
	if ks.is_empty() { return "-".to_string(); }
	ks.sort();
	ks.iter().map(|k| k.iter().map(|x| x.to_string()).collect::<Vec<_>>().join(".")).collect::<Vec<_>>().join(",")
}

/// the monitor's (best, awaiting, irrevocable conclusions) in the model's canonical text
fn view_line(net: &Net, n: usize, chan: &ChannelId, ids: &HashMap<Txid, u32>) -> String {
	let mon = net.nodes[n].chain_monitor.chain_monitor.get_monitor(*chan).unwrap();
	let (best, awaiting, fsc, spendable, htlcs) = vh::monitor_onchain_view(&mon);
	let id = |t: &Txid| *ids.get(t).unwrap_or(&999_999) as u64;
	let aw: Vec<Vec<u64>> = awaiting.iter().map(|(t, h, k, thr)| vec![id(t), kind_code(k) as u64, *h as u64, *thr as u64]).collect();
	let mut mat: Vec<Vec<u64>> = vec![];
	if let Some(t) = fsc { mat.push(vec![id(&t), 0]); }
	for t in htlcs.iter() { mat.push(vec![t.as_ref().map(|t| id(t)).unwrap_or(999_998), 1]); }
	for t in spendable.iter() { mat.push(vec![id(t), 2]); }
	format!("best={} aw={} mat={}", best, show_keys(aw), show_keys(mat))
}

/// everything compared across styles for one node
fn observe(net: &Net, n: usize, chan: &ChannelId, ids: &HashMap<Txid, u32>, events: &[String], first_seen: &BTreeMap<String, u32>) -> String {
	let mon = net.nodes[n].chain_monitor.chain_monitor.get_monitor(*chan).unwrap();
	let mut bal: Vec<String> = mon.get_claimable_balances().iter().map(|b| format!("{:?}", b)).collect();
	bal.sort();
	let mut rel: Vec<String> = mon.get_relevant_txids().iter().map(|(t, h, bh)| format!("{}@{}/{}", &t.to_string()[..8], h, bh.map(|b| b.to_string()[..8].to_string()).unwrap_or_default())).collect();
	rel.sort();
	let bb = mon.current_best_block();
	let mut watch: Vec<String> = mon.get_outputs_to_watch().iter().map(|(t, _)| t.to_string()[..8].to_string()).collect();
	watch.sort();
	let mut evs = events.to_vec();
	evs.sort();
	let fs: Vec<String> = first_seen.iter().map(|(k, h)| format!("{}@{}", k, h)).collect();
	format!("{} | bal={:?} | rel={:?} | tip={}@{} | watch={:?} | events={:?} | first={:?} | chans={}", view_line(net, n, chan, ids), bal, rel, &bb.block_hash.to_string()[..8], bb.height, watch, evs, fs, net.nodes[n].node.list_channels().len())
}

fn build_prefix(sc: &Scn) -> World {
	let cfg = test_legacy_channel_config();
	let mut net = Net::new(2, vec![Some(cfg.clone()), Some(cfg)]);
	set_style(&net, ConnectStyle::FullBlockViaListen);
	net.open(0, 1, 1_000_000, 300_000_000);
	let chan = net.chans[0].2;
	let funding = net.nodes[0].node.list_channels()[0].funding_txo.unwrap().txid;
	let mut claims: Vec<(usize, lightning::types::payment::PaymentPreimage)> = vec![];
	for (amt, claimed) in sc.ab.iter() {
		let (pre, _, _, _) = route_payment(&net.nodes[0], &[&net.nodes[1]], *amt);
		if *claimed { claims.push((1, pre)); }
	}
	for (amt, claimed) in sc.ba.iter() {
		let (pre, _, _, _) = route_payment(&net.nodes[1], &[&net.nodes[0]], *amt);
		if *claimed { claims.push((0, pre)); }
	}
	for (n, pre) in claims { net.nodes[n].node.claim_funds(pre); }
	let mut sink = vec![];
	for n in 0..2 { drain(&net, n, &mut sink); }
	let peer = net.ids[1 - sc.closer];
	net.nodes[sc.closer].node.force_close_broadcasting_latest_txn(&chan, &peer, "c11".to_string()).unwrap();
	for n in 0..2 { drain(&net, n, &mut sink); }
	let h0 = net.nodes[0].best_block_info().1;
	assert_eq!(h0, net.nodes[1].best_block_info().1);
	World { net, chan, h0, funding }
}

fn relevant_ids(block: &Block, ids: &HashMap<Txid, u32>) -> Vec<u32> {
	block.txdata.iter().filter_map(|t| ids.get(&t.compute_txid()).cloned()).collect()
}

/// Reference run: whole blocks one at a time; fixes the final chain, learns the catalog.
fn reference(sc: &Scn, rng: &mut Rng) -> Result<Final, String> {
	let w = build_prefix(sc);
	let net = &w.net;
	let mut mempool: Vec<Transaction> = vec![];
	let mut seen = HashSet::new();
	take_broadcasts(net, &mut mempool, &mut seen);
	let mut confirmed: HashSet<Txid> = HashSet::new();
	confirmed.insert(w.funding);
	let mut spent: HashSet<OutPoint> = HashSet::new();
	let mut ids: HashMap<Txid, u32> = HashMap::new();
	let mut cat: [BTreeMap<u32, Vec<(u8, Option<u32>)>>; 2] = [BTreeMap::new(), BTreeMap::new()];
	let mut blocks: Vec<Block> = vec![];
	let mut interesting: Vec<u32> = vec![];
	let mut prev_view = [view_line(net, 0, &w.chan, &ids), view_line(net, 1, &w.chan, &ids)];
	let commit_height = w.h0 + 1 + sc.gap;
	let mut height = w.h0;
	let mut evs: [Vec<String>; 2] = [vec![], vec![]];
	let h0_hash = net.nodes[0].best_block_hash();
	loop {
		height += 1;
		let mut txs: Vec<Transaction> = vec![];
		if height >= commit_height {
			let mut in_block: HashSet<Txid> = HashSet::new();
			let mut i = 0;
			while i < mempool.len() {
				let tx = &mempool[i];
				let lock_ok = !tx.lock_time.is_block_height() || tx.lock_time.to_consensus_u32() < height;
				let inputs_ok = tx.input.iter().all(|inp| !spent.contains(&inp.previous_output) && (confirmed.contains(&inp.previous_output.txid) || in_block.contains(&inp.previous_output.txid)));
				let is_commitment = tx.input.len() == 1 && tx.input[0].previous_output.txid == w.funding;
				let want = if is_commitment { true } else { rng.chance(sc.mine_num, 4) };
				if lock_ok && inputs_ok && want {
					let tx = mempool.remove(i);
					for inp in tx.input.iter() { spent.insert(inp.previous_output); }
					in_block.insert(tx.compute_txid());
					txs.push(tx);
				} else { i += 1; }
			}
		}
		for tx in txs.iter() { let n = ids.len() as u32 + 1; ids.insert(tx.compute_txid(), n); confirmed.insert(tx.compute_txid()); }
		let block = create_dummy_block(net.nodes[0].best_block_hash(), height, txs.clone());
		let ev_before = [evs[0].len(), evs[1].len()];
		for n in 0..2 { connect_block(&net.nodes[n], &block); drain(net, n, &mut evs[n]); }
		take_broadcasts(net, &mut mempool, &mut seen);
		blocks.push(block);
		let mut changed = !txs.is_empty() || evs[0].len() != ev_before[0] || evs[1].len() != ev_before[1];
		for n in 0..2 {
			let mon = net.nodes[n].chain_monitor.chain_monitor.get_monitor(w.chan).unwrap();
			let (_, awaiting, _, _, _) = vh::monitor_onchain_view(&mon);
			for (t, h, k, thr) in awaiting.iter() {
				if *h != height { continue; }
				let id = match ids.get(t) { Some(i) => *i, None => return Err(format!("awaiting entry for unmined tx {} at {}", t, height)) };
				let csv = if *thr == *h + ANTI_REORG_DELAY - 1 { None } else { Some(*thr + 1 - *h) };
				cat[n].entry(id).or_default().push((kind_code(k), csv));
			}
			let v = view_line(net, n, &w.chan, &ids);
			// best=... changes every block: compare the rest
			if v.split_once(' ').map(|x| x.1.to_string()) != prev_view[n].split_once(' ').map(|x| x.1.to_string()) { changed = true; }
			prev_view[n] = v;
		}
		if changed { interesting.push(height); }
		let idle = prev_view.iter().all(|v| v.contains("aw=- "));
		let any_eligible = mempool.iter().any(|tx| tx.input.iter().all(|inp| !spent.contains(&inp.previous_output) && confirmed.contains(&inp.previous_output.txid)));
		if (height >= commit_height + 8 && idle && !any_eligible) || height >= w.h0 + 420 { break; }
	}
	// a few quiet blocks on top
	for _ in 0..3 {
		height += 1;
		let block = create_dummy_block(net.nodes[0].best_block_hash(), height, vec![]);
		for n in 0..2 { connect_block(&net.nodes[n], &block); drain(net, n, &mut evs[n]); }
		blocks.push(block);
	}
	let mut cps: Vec<u32> = vec![];
	for h in interesting { if h > w.h0 + 1 { cps.push(h - 1); } cps.push(h); }
	cps.push(height);
	cps.sort(); cps.dedup();
	let n_txs = ids.len();
	let h0 = w.h0;
	if std::env::var("VERIF_DEBUG").is_ok() {
		eprintln!("REF scn={:?} h0={} end={} commit_height={}", sc, h0, height, commit_height);
		for (i, b) in blocks.iter().enumerate() { for tx in b.txdata.iter() { eprintln!("  mined h={} id={} in={} out={} lock={}", h0 + 1 + i as u32, ids[&tx.compute_txid()], tx.input.len(), tx.output.len(), tx.lock_time); } }
		for tx in mempool.iter() { eprintln!("  left in mempool: {} in={} lock={} spends {:?}", &tx.compute_txid().to_string()[..8], tx.input.len(), tx.lock_time, tx.input.iter().map(|i| format!("{}:{}", &i.previous_output.txid.to_string()[..8], i.previous_output.vout)).collect::<Vec<_>>()); }
		eprintln!("  cat0={:?} cat1={:?} cps={:?}", cat[0], cat[1], cps);
		eprintln!("  events0={:?} events1={:?}", evs[0], evs[1]);
	}
	std::mem::forget(w);
	Ok(Final { h0, h0_hash, blocks, ids, cat, checkpoints: cps, n_txs })
}

/// abstract ops a style performs on the monitor for one fully delivered block
fn block_ops(style: ConnectStyle, h: u32, ids: &[u32], prior: &[(u32, Vec<u32>)]) -> Vec<String> {
	let idl = |v: &[u32]| v.iter().map(|x| format!(" {}", x)).collect::<String>();
	let conf = format!("conf {}{}", h, idl(ids));
	let best = format!("best {}", h);
	match style {
		ConnectStyle::BestBlockFirst | ConnectStyle::BestBlockFirstSkippingBlocks | ConnectStyle::BestBlockFirstReorgsOnlyTip => vec![best, conf],
		ConnectStyle::TransactionsFirst | ConnectStyle::TransactionsFirstSkippingBlocks | ConnectStyle::TransactionsFirstReorgsOnlyTip => vec![conf, best],
		ConnectStyle::TransactionsDuplicativelyFirstSkippingBlocks => vec![conf.clone(), conf, best],
		ConnectStyle::HighlyRedundantTransactionsFirstSkippingBlocks => {
			let mut v: Vec<String> = prior.iter().map(|(hh, i)| format!("conf {}{}", hh, idl(i))).collect();
			v.push(conf); v.push(best); v
		},
		ConnectStyle::FullBlockViaListen | ConnectStyle::FullBlockDisconnectionsSkippingViaListen => vec![format!("block {}{}", h, idl(ids))],
		ConnectStyle::ReplayedFullBlockViaListen => vec![format!("block {}", h), format!("block {}{}", h, idl(ids))],
	}
}

/// tx-bearing blocks currently in the node's chain (what the "highly redundant" client re-announces)
fn tx_blocks(net: &Net, n: usize, ids: &HashMap<Txid, u32>) -> Vec<(u32, Vec<u32>)> {
	net.nodes[n].blocks.lock().unwrap().iter().filter(|(b, _)| !b.txdata.is_empty()).map(|(b, h)| (*h, relevant_ids(b, ids))).collect()
}

struct Replay<'a> {
	w: World,
	fin: &'a Final,
	style: ConnectStyle,
	tag: String,
	/// monitor/manager events are polled after every delivery call (a running background processor);
	/// otherwise only at the checkpoints (batch processing of a reorg)
	live: bool,
	events: [Vec<String>; 2],
	first_seen: [BTreeMap<String, u32>; 2],
}

impl<'a> Replay<'a> {
	fn poll(&mut self, n: usize, h: u32) {
		let before = self.events[n].len();
		drain(&self.w.net, n, &mut self.events[n]);
		for e in self.events[n][before..].to_vec() { self.first_seen[n].entry(e).or_insert(h); }
	}

	fn emit(&self, rec: &mut Rec, n: usize, ops: Vec<String>, kind: &str) {
		if ops.is_empty() || !self.live { return; }
		let last = ops.len() - 1;
		for (i, op) in ops.iter().enumerate() {
			let line = format!("{} {}", n, op);
			if i < last { rec.directive(&line); } else {
				let ans = view_line(&self.w.net, n, &self.w.chan, &self.fin.ids);
				rec.case(&line, &ans, &format!("{}{:?}/{}", self.tag, self.style, kind), true);
			}
		}
	}

	fn connect_one(&mut self, rec: &mut Rec, block: &Block, h: u32) {
		let ids = relevant_ids(block, &self.fin.ids);
		for n in 0..2 {
			connect_block(&self.w.net.nodes[n], block);
			let mut prior = tx_blocks(&self.w.net, n, &self.fin.ids);
			// the block itself was pushed before delivery and is re-announced too when it has transactions
			if !block.txdata.is_empty() { /* already included by tx_blocks */ } else { prior.retain(|(hh, _)| *hh != h); }
			let ops = block_ops(self.style, h, &ids, &prior);
			self.emit(rec, n, ops, if ids.is_empty() { "connect-empty" } else { "connect-tx" });
			if self.live { self.poll(n, h); }
		}
	}

	/// deliver the final chain's blocks (cur, to] with the library's own helpers
	fn deliver_to(&mut self, rec: &mut Rec, cur: u32, to: u32) -> Result<(), String> {
		let fin = self.fin;
		let mut h = cur + 1;
		while h <= to {
			let b = &fin.blocks[(h - fin.h0 - 1) as usize];
			if !b.txdata.is_empty() {
				self.connect_one(rec, b, h);
				h += 1;
			} else {
				let mut k = 1;
				while h + k <= to && fin.blocks[(h + k - fin.h0 - 1) as usize].txdata.is_empty() { k += 1; }
				for n in 0..2 {
					connect_blocks(&self.w.net.nodes[n], k);
					let prior = tx_blocks(&self.w.net, n, &fin.ids);
					let mut ops = vec![];
					if self.style.skips_blocks() { ops.extend(block_ops(self.style, h + k - 1, &[], &prior)); }
					else { for j in 0..k { ops.extend(block_ops(self.style, h + j, &[], &prior)); } }
					self.emit(rec, n, ops, "connect-empties");
					if self.live { self.poll(n, h + k - 1); }
				}
				h += k;
			}
			let want = fin.blocks[(h - 1 - fin.h0 - 1) as usize].block_hash();
			for n in 0..2 { if self.w.net.nodes[n].best_block_hash() != want { return Err(format!("chain mismatch at {}", h - 1)); } }
		}
		Ok(())
	}

	fn checkpoint(&mut self, h: u32) -> [String; 2] {
		let mut out = [String::new(), String::new()];
		for n in 0..2 {
			self.poll(n, h);
			out[n] = observe(&self.w.net, n, &self.w.chan, &self.fin.ids, &self.events[n], &self.first_seen[n]);
		}
		out
	}

	fn fork(&mut self, rec: &mut Rec, f: Fork) {
		let fin = self.fin;
		let mut fork_blocks: Vec<Block> = vec![];
		for k in 1..=f.depth {
			let h = f.at + k;
			let txs: Vec<Transaction> = match f.variant {
				1 => if k >= 2 { fin.blocks[(h - 1 - fin.h0 - 1) as usize].txdata.clone() } else { vec![] },
				2 => fin.blocks[(h - fin.h0 - 1) as usize].txdata.clone(),
				_ => vec![],
			};
			let prev = fork_blocks.last().map(|b: &Block| b.block_hash()).unwrap_or(self.w.net.nodes[0].best_block_hash());
			fork_blocks.push(create_dummy_block(prev, h + FORK_TIME_OFFSET, txs));
		}
		for (k, b) in fork_blocks.iter().enumerate() { self.connect_one(rec, b, f.at + 1 + k as u32); }
		for n in 0..2 {
			let popped: Vec<(Block, u32)> = { let bl = self.w.net.nodes[n].blocks.lock().unwrap(); bl[bl.len() - f.depth as usize..].iter().rev().cloned().collect() };
			disconnect_blocks(&self.w.net.nodes[n], f.depth);
			let mut ops: Vec<String> = vec![];
			for (i, (b, h)) in popped.iter().enumerate() {
				let last = i + 1 == popped.len();
				match self.style {
					ConnectStyle::FullBlockViaListen | ConnectStyle::ReplayedFullBlockViaListen => ops.push(format!("disc {}", h - 1)),
					ConnectStyle::FullBlockDisconnectionsSkippingViaListen => if last { ops.push(format!("disc {}", h - 1)); },
					ConnectStyle::BestBlockFirstSkippingBlocks | ConnectStyle::TransactionsFirstSkippingBlocks
					| ConnectStyle::HighlyRedundantTransactionsFirstSkippingBlocks | ConnectStyle::TransactionsDuplicativelyFirstSkippingBlocks => if last { ops.push(format!("best {}", h - 1)); },
					ConnectStyle::BestBlockFirstReorgsOnlyTip | ConnectStyle::TransactionsFirstReorgsOnlyTip => for id in relevant_ids(b, &fin.ids) { ops.push(format!("unconf {}", id)); },
					ConnectStyle::BestBlockFirst | ConnectStyle::TransactionsFirst => ops.push(format!("best {}", h - 1)),
				}
			}
			if self.style == ConnectStyle::TransactionsFirstReorgsOnlyTip {
				// A Confirm client must announce the new tip (`best_block_updated` "must be called whenever a
				// new chain tip becomes available"); the helper's ReorgsOnlyTip disconnection does not, and a
				// transactions-first client would then confirm transactions of a *lower* chain against the
				// stale best height — not a delivery the contract allows.  (BestBlockFirstReorgsOnlyTip is
				// left as is: its next call is the best_block_updated of the new block.)
				use lightning::chain::Confirm;
				let (hdr, hh) = { let bl = self.w.net.nodes[n].blocks.lock().unwrap(); let l = bl.last().unwrap(); (l.0.header, l.1) };
				self.w.net.nodes[n].chain_monitor.chain_monitor.best_block_updated(&hdr, hh);
				self.w.net.nodes[n].node.best_block_updated(&hdr, hh);
				ops.push(format!("best {}", hh));
			}
			self.emit(rec, n, ops, "disconnect");
			if self.live { self.poll(n, f.at); }
		}
	}
}

fn replay(sc: &Scn, fin: &Final, style: ConnectStyle, fork: Option<Fork>, live: bool, rec: &mut Rec) -> Result<RunOut, String> {
	let w = build_prefix(sc);
	if w.h0 != fin.h0 || w.net.nodes[0].best_block_hash() != fin.h0_hash || w.net.nodes[1].best_block_hash() != fin.h0_hash {
		std::mem::forget(w);
		return Err("prefix not reproducible".to_string());
	}
	set_style(&w.net, style);
	for n in 0..2 {
		if !live { break; }
		rec.directive(&format!("{} reset {}", n, fin.h0));
		for (id, evs) in fin.cat[n].iter() {
			let e: Vec<String> = evs.iter().map(|(k, c)| format!("{}:{}", k, c.map(|x| x.to_string()).unwrap_or("-".to_string()))).collect();
			rec.directive(&format!("{} tx {} {}", n, id, e.join(" ")));
		}
		// transactions that make this monitor queue nothing still need no entry (empty catalog = no events)
	}
	let tag = match fork { None => String::new(), Some(f) => format!("fork{}v{}/", f.depth, f.variant) };
	let mut r = Replay { w, fin, style, tag, live, events: [vec![], vec![]], first_seen: [BTreeMap::new(), BTreeMap::new()] };
	let mut obs = vec![];
	let mut cur = fin.h0;
	let res = guarded(AssertUnwindSafe(|| -> Result<(), String> {
		let mut forked = fork.is_none();
		for &cp in fin.checkpoints.iter() {
			if let Some(f) = fork { if !forked && f.at < cp {
				if f.at > cur { r.deliver_to(rec, cur, f.at)?; cur = f.at; }
				r.fork(rec, f);
				forked = true;
			} }
			r.deliver_to(rec, cur, cp)?;
			cur = cp;
			let o = r.checkpoint(cp);
			obs.push((cp, o));
		}
		Ok(())
	}));
	let mut lost: [Vec<u32>; 2] = [vec![], vec![]];
	if let Ok(Ok(())) = res {
		for n in 0..2 {
			let mon = r.w.net.nodes[n].chain_monitor.chain_monitor.get_monitor(r.w.chan).unwrap();
			let (_, awaiting, _, _, htlcs) = vh::monitor_onchain_view(&mon);
			let mut have: HashSet<u32> = awaiting.iter().filter_map(|e| fin.ids.get(&e.0).cloned()).collect();
			for t in htlcs.iter().flatten() { if let Some(i) = fin.ids.get(t) { have.insert(*i); } }
			for (id, evs) in fin.cat[n].iter() { if evs.iter().any(|e| e.0 == 3) && !have.contains(id) { lost[n].push(*id); } }
		}
	}
	let out = match res {
		Ok(Ok(())) => Ok(RunOut { lost, end: obs.last().map(|x| x.1.clone()).unwrap_or_default(), obs }),
		Ok(Err(e)) => Err(e),
		Err(p) => Err(format!("panic {}", p.chars().take(300).collect::<String>())),
	};
	std::mem::forget(r);
	out
}

fn gen_scn(seed: u64, rng: &mut Rng) -> Scn {
	let amt = |rng: &mut Rng| match rng.below(4) { 0 => 100_000 + rng.below(100_000), _ => 3_000_000 + rng.below(20_000_000) };
	let n_ab = rng.below(4) as usize;
	let n_ba = rng.below(3).min(3 - n_ab.min(3) as u64) as usize;
	let ab = (0..n_ab).map(|_| (amt(rng), rng.chance(1, 2))).collect();
	let ba = (0..n_ba).map(|_| (amt(rng), rng.chance(1, 2))).collect();
	Scn { seed, ab, ba, closer: rng.below(2) as usize, gap: rng.below(3) as u32, mine_num: 1 + rng.below(3) }
}

fn main() {
	let args = &parse_args("c11");
	let mut rec = Rec::new(&args.out, "c11");
	// the test utilities print every log line to stdout and a line per connected block to stderr
	if std::env::var("C11_LOG").is_err() { silence_stdout(); }
	let only: Option<u64> = std::env::var("C11_ONLY").ok().and_then(|x| x.parse().ok());
	let only_group: Option<usize> = std::env::var("C11_GROUP").ok().and_then(|x| x.parse().ok());
	let only_style: Option<usize> = std::env::var("C11_STYLE").ok().and_then(|x| x.parse().ok());
	let mut diag: Box<dyn Write> = unsafe {
		use std::os::unix::io::{AsRawFd, FromRawFd};
		let saved = libc::dup(2);
		if std::env::var("VERIF_DEBUG").is_err() {
			if let Ok(f) = std::fs::OpenOptions::new().write(true).open("/dev/null") { libc::dup2(f.as_raw_fd(), 2); }
		}
		Box::new(std::fs::File::from_raw_fd(saved))
	};
	let mut rng = Rng::new(args.seed);
	let n_scn = (if args.thorough { 40 } else { 5 }) * args.scale;
	let forks_per = if args.thorough { 12 } else { 5 };
	let mut n_runs = 0u64; let mut n_groups = 0u64; let mut n_txs = 0usize; let mut n_blocks = 0usize;
	let mut skipped = 0u64; let mut n_kf1 = 0u64; let mut n_kf2 = 0u64;
	let t0 = std::time::Instant::now();
	for si in 0..n_scn {
		let sseed = args.seed.wrapping_mul(1000).wrapping_add(si);
		let sc = gen_scn(sseed, &mut rng);
		let fin = match guarded(AssertUnwindSafe(|| reference(&sc, &mut rng))) {
			Ok(Ok(f)) => f,
			Ok(Err(e)) => { let _ = writeln!(diag, "scenario {:?}: reference failed: {}", sc, e); rec.discarded += 1; skipped += 1; continue; },
			Err(p) => { let _ = writeln!(diag, "scenario {:?}: reference panicked: {}", sc, p); rec.discarded += 1; skipped += 1; continue; },
		};
		n_txs += fin.n_txs; n_blocks += fin.blocks.len();
		let hend = fin.h0 + fin.blocks.len() as u32;
		let tx_heights: Vec<u32> = fin.blocks.iter().enumerate().filter(|(_, b)| !b.txdata.is_empty()).map(|(i, _)| fin.h0 + 1 + i as u32).collect();
		// groups: fork-free, then fork shapes
		let mut groups: Vec<Option<Fork>> = vec![None];
		for fi in 0..forks_per {
			let depth = if fi == 0 { ANTI_REORG_DELAY } else { 1 + rng.below(ANTI_REORG_DELAY as u64) as u32 };
			let base = if tx_heights.is_empty() { fin.h0 + 1 } else { *rng.pick(&tx_heights) };
			let at = (base + rng.below(7) as u32).saturating_sub(3).max(fin.h0).min(hend - ANTI_REORG_DELAY - 2);
			groups.push(Some(Fork { at, depth, variant: rng.below(3) as u8 }));
		}
		for (gi, g) in groups.into_iter().enumerate() {
			n_groups += 1;
			let styles: Vec<ConnectStyle> = if g.is_none() || args.thorough { STYLES.to_vec() } else {
				// one style of every disconnect family, plus two random ones
				let mut v = vec![ConnectStyle::FullBlockViaListen, ConnectStyle::FullBlockDisconnectionsSkippingViaListen, ConnectStyle::BestBlockFirst,
					ConnectStyle::TransactionsFirstSkippingBlocks, ConnectStyle::TransactionsFirstReorgsOnlyTip, ConnectStyle::BestBlockFirstReorgsOnlyTip];
				for _ in 0..2 { let s = *rng.pick(&STYLES); if !v.contains(&s) { v.push(s); } }
				v
			};
			let modes: Vec<bool> = if g.is_none() { vec![true] } else { vec![true, false] };
			// a known finding is reported once per (scenario, fork shape); further hits are only counted
			let (mut kf1_here, mut kf2_here) = (false, false);
			for live in modes {
				let mode = if live { "live" } else { "batched" };
				let mut base: Option<(ConnectStyle, RunOut)> = None;
				for &st in styles.iter() {
					if only.map(|o| o != si).unwrap_or(false) || only_group.map(|o| o != gi).unwrap_or(false) || only_style.map(|o| STYLES[o] != st).unwrap_or(false) { continue; }
					n_runs += 1;
					let out = match replay(&sc, &fin, st, g, live, &mut rec) {
						Ok(o) => o,
						Err(e) => {
							let is_kf2 = g.is_some() && e.contains("pending_claim_requests.get(&claim_id).is_none()");
							let kf = if is_kf2 { n_kf2 += 1; format!("{} — ", KF2) } else { String::new() };
							if is_kf2 && kf2_here { continue; }
							kf2_here |= is_kf2;
							rec.oracle_fail(format!("{}delivery failed: scenario seed={} {:?} fork={:?} polling={} style={:?}: {}", kf, sc.seed, sc, g, mode, st, e));
							continue;
						},
					};
					if !out.lost[0].is_empty() || !out.lost[1].is_empty() {
						if !live && g.is_some() {
							n_kf1 += 1;
							if kf1_here { continue; }
							kf1_here = true;
							rec.oracle_fail(format!("{} — scenario seed={} {:?} fork={:?} polling={} style={:?}: transactions {:?} (node 0) {:?} (node 1) of the final chain resolve an HTLC but are neither awaiting nor resolved at the end: [{}] [{}]", KF1, sc.seed, sc, g, mode, st, out.lost[0], out.lost[1], out.end[0], out.end[1]));
							continue; // reported on its own; not a baseline for the cross-style comparison
						}
						rec.oracle_fail(format!("HTLC resolution lost: scenario seed={} {:?} fork={:?} polling={} style={:?}: transactions {:?} / {:?}: [{}] [{}]", sc.seed, sc, g, mode, st, out.lost[0], out.lost[1], out.end[0], out.end[1]));
					}
					match &base {
						None => base = Some((st, out)),
						Some((bst, b)) => {
							for n in 0..2 {
								if out.end[n] != b.end[n] {
									rec.oracle_fail(format!("styles disagree at the end: scenario seed={} {:?} fork={:?} polling={} node={} {:?}: [{}] vs {:?}: [{}]", sc.seed, sc, g, mode, n, bst, b.end[n], st, out.end[n]));
								}
							}
							if g.is_none() {
								for (x, y) in b.obs.iter().zip(out.obs.iter()) {
									for n in 0..2 { if x.1[n] != y.1[n] {
										rec.oracle_fail(format!("styles disagree at height {}: scenario seed={} {:?} node={} {:?}: [{}] vs {:?}: [{}]", x.0, sc.seed, sc, n, bst, x.1[n], st, y.1[n]));
									} }
								}
							}
						},
					}
				}
			}
		}
		let _ = writeln!(diag, "c11: scenario {} done, {} txs, {} blocks, {:.1}s", si, fin.n_txs, fin.blocks.len(), t0.elapsed().as_secs_f32());
	}
	rec.notes.insert("rule".into(), format!("{} seeded force-close scenarios ({} skipped), {} mined transactions over {} blocks; {} (scenario, fork shape) groups, {} fresh-copy deliveries (all 11 ConnectStyles fork-free; fork depths 1..={} incl. one depth-{} per scenario, 3 fork contents); fork groups are delivered twice: events polled after every call (compared with the model) and only at checkpoints (cross-style only); every util call of a polled run is one correspondence case (distinct by op text); known-finding hits: KF-C11-1 x{}, KF-C11-2 x{}", n_scn, skipped, n_txs, n_blocks, n_groups, n_runs, ANTI_REORG_DELAY, ANTI_REORG_DELAY, n_kf1, n_kf2));
	rec.finish();
}
